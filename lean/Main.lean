import GoBatcher.Driver.Admit
import GoBatcher.Driver.Cycle
import GoBatcher.Driver.Buffer
import GoBatcher.Driver.BufLinked
import GoBatcher.Driver.HistMon
import GoBatcher.Driver.Setters
import GoBatcher.Driver.LeaseMgr
import GoBatcher.Driver.LeaseMon
import GoBatcher.Driver.Lease
import GoBatcher.Driver.Events
open GoBatcher.Driver

structure Tot where
  lines : Nat := 0
  mismatches : Nat := 0
  violations : Nat := 0

def handle (line : String) : Option (Option String × List (String × String)) :=
  let (i, o) := splitObs line
  let inp := parseKV i
  let obs := parseKV o
  if line.startsWith "admit " then some (checkAdmit inp obs)
  else if line.startsWith "cycle " then some (checkCycle inp obs)
  else if line.startsWith "buffer " then some (checkBuffer inp obs)
  else if line.startsWith "buflinked " then some (checkBufLinked inp obs)
  else if line.startsWith "hist " then some (checkHist inp obs)
  else if line.startsWith "setters " then some (checkSetters inp obs)
  else if line.startsWith "leasemgr " then some (checkLeaseMgr inp obs)
  else if line.startsWith "lease " then some (checkLease inp obs)
  else if line.startsWith "events " then some (checkEvents inp obs)
  else if line.startsWith "stress " then some (checkStress inp obs)
  else none

partial def loop (h : IO.FS.Stream) (t : Tot) (n : Nat) : IO Tot := do
  let line ← h.getLine
  if line.isEmpty then return t
  let line := (line.dropEndWhile (· == '\n')).toString
  match handle line with
  | none =>
    if line.trimAscii.toString != "" then IO.println s!"UNPARSED line={n} :: {line}"
    loop h t (n + 1)
  | some (mm, viol) =>
    let mut t := { t with lines := t.lines + 1 }
    if let some m := mm then
      IO.println s!"MISMATCH line={n} {m} :: {line}"
      t := { t with mismatches := t.mismatches + 1 }
    for (p, r) in viol do
      IO.println s!"VIOL property={p} rule={r} line={n} :: {line}"
      t := { t with violations := t.violations + 1 }
    loop h t (n + 1)

def main (args : List String) : IO UInt32 := do
  let h ← match args with
    | [path] => do
      let hd ← IO.FS.Handle.mk path .read
      pure (IO.FS.Stream.ofHandle hd)
    | _ => IO.getStdin
  let t ← loop h {} 1
  IO.println s!"SUMMARY lines={t.lines} mismatches={t.mismatches} violations={t.violations}"
  return 0

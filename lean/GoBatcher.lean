import GoBatcher.Model.Cycle
import GoBatcher.Lemmas.Cycle
import GoBatcher.Lemmas.CycleShape
import GoBatcher.Lemmas.CycleOrder
import GoBatcher.Props.C05
import GoBatcher.Model.Validate
import GoBatcher.Props.C14

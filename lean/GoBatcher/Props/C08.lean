import GoBatcher.Lemmas.CycleProgress
/-!
# C08 — no starvation; work-conserving cycles (cycle level)

A cycle is *productive* when the cut-off does not hold at its start and a batch slot is available: v1 always
(cut-off is `0 > A`), v2 without limiter always, v2 with limiter iff the allowance `A ≥ 1`.
The unchanged code does NOT give `A ≥ 1` for every positive capacity (e.g. capacity 9 at 100 ms truncates
to 0): see `v2_small_capacity_counterexample` and known finding F6. Machine-level clauses (Flush()
coalescing, cycles per tick) are in `C08b`.
-/
namespace GoBatcher.C08
open GoBatcher

def productive (c : Cfg) (free : Option Nat) : Prop := cutoff c 0 = false ∧ slotAvail free = true

/-- Each cycle is work-conserving: it stops releasing only because the buffer is exhausted, the allowance is
used up (cut-off), or no batch slot is free. -/
theorem work_conserving (c : Cfg) (buf : List Op) (a : Acc) (free : Option Nat) :
    let r := scan c buf a free
    (r.rest = [] ∨ cutoff c r.acc.consumed = true) ∧ (r.kept ≠ [] → slotAvail r.free = false) :=
  ⟨scan_rest c buf a free, scan_kept c buf a free⟩

/-- what stays buffered keeps its order -/
theorem backlog_keeps_order (c : Cfg) (buf : List Op) (free : Option Nat) :
    (cycleBuffer c buf free).Sublist buf :=
  scan_buffer_sublist c buf _ free

/-- A productive cycle releases the head of the buffer: what is left is a sublist of the tail. -/
theorem head_released (c : Cfg) (op : Op) (buf : List Op) (free : Option Nat) (h : productive c free) :
    (cycleBuffer c (op :: buf) free).Sublist buf := by
  obtain ⟨a', free', hk, hr⟩ := scan_head_take c op buf { consumed := 0, openB := [] } free h.1 h.2
  simp only [cycleBuffer, hk, hr]
  exact scan_buffer_sublist c buf a' free'

/-- v1 cycles and unlimited cycles are always productive when a slot is available; v2 limited cycles
exactly when the allowance is at least 1. -/
theorem productive_iff (c : Cfg) (free : Option Nat) :
    productive c free ↔ (c.limited = true → c.ge = true → c.allow ≥ 1) ∧ slotAvail free = true := by
  unfold productive cutoff
  cases c.limited <;> cases c.ge <;> simp <;> omega

/-- In a productive cycle every operation that is still buffered afterwards has moved at least one place
towards the head (buffer entries are distinct occurrences: `Nodup`). -/
theorem position_decreases (c : Cfg) (buf : List Op) (free : Option Nat) (x : Op)
    (hn : buf.Nodup) (h : productive c free) (hx : x ∈ cycleBuffer c buf free) :
    (cycleBuffer c buf free).idxOf x < buf.idxOf x := by
  cases buf with
  | nil => simp [cycleBuffer, scan] at hx
  | cons op rest =>
    have hsub := head_released c op rest free h
    have hn' := List.nodup_cons.mp hn
    have hxr : x ∈ rest := hsub.subset hx
    have hne : op ≠ x := fun e => hn'.1 (e ▸ hxr)
    rw [idxOf_cons_ne' _ hne]
    have := idxOf_sublist_le hsub hn'.2 hx
    omega

/-- enqueues append at the tail and do not change the position of what is already buffered -/
theorem enqueue_keeps_position (buf new : List Op) (x : Op) (hx : x ∈ buf) :
    (buf ++ new).idxOf x = buf.idxOf x := by
  induction buf with
  | nil => simp at hx
  | cons a t ih =>
    by_cases he : a = x
    · subst he; simp
    · have hx' : x ∈ t := by
        simp only [List.mem_cons] at hx
        rcases hx with hx | hx
        · exact absurd hx.symm he
        · exact hx
      rw [List.cons_append, idxOf_cons_ne' _ he, idxOf_cons_ne' _ he, ih hx']

/-- A run of cycles: before each cycle `new` operations are appended (concurrent or formerly blocked
enqueuers admitted), then the cycle runs. -/
def runCycles : List (Cfg × Option Nat × List Op) → List Op → List Op
  | [], buf => buf
  | (c, free, new) :: rest, buf => runCycles rest (cycleBuffer c (buf ++ new) free)

def allNew (cycles : List (Cfg × Option Nat × List Op)) : List Op := (cycles.map (·.2.2)).flatten

theorem runCycles_subset (cycles : List (Cfg × Option Nat × List Op)) : ∀ (buf : List Op) (y : Op),
    y ∈ runCycles cycles buf → y ∈ buf ∨ y ∈ allNew cycles := by
  induction cycles with
  | nil => intro buf y h; exact Or.inl h
  | cons p rest ih =>
    obtain ⟨c, free, new⟩ := p
    intro buf y h
    simp only [runCycles] at h
    rcases ih _ y h with h1 | h1
    · have := (backlog_keeps_order c (buf ++ new) free).subset h1
      simp only [List.mem_append] at this
      rcases this with h2 | h2
      · exact Or.inl h2
      · exact Or.inr (by simp [allNew, h2])
    · exact Or.inr (by simp only [allNew, List.map_cons, List.flatten_cons, List.mem_append]; exact Or.inr h1)

/-- Bounded delivery: an operation with `k` operations ahead of it is no longer buffered (it is in a raised
batch — conservation is C01) after at most `k + 1` productive cycles, whatever is enqueued behind it meanwhile.
Stated contrapositively: if it is still buffered after `n` productive cycles, then `n ≤ k` and it has moved
`n` places forward. Buffer entries and later enqueues are distinct occurrences (`Nodup`). -/
theorem delivered_within (cycles : List (Cfg × Option Nat × List Op)) : ∀ (buf : List Op) (x : Op),
    (∀ p ∈ cycles, productive p.1 p.2.1) → (buf ++ allNew cycles).Nodup → x ∈ buf →
    x ∈ runCycles cycles buf → (runCycles cycles buf).idxOf x + cycles.length ≤ buf.idxOf x := by
  induction cycles with
  | nil => intro buf x _ _ _ _; simp [runCycles]
  | cons p rest ih =>
    obtain ⟨c, free, new⟩ := p
    intro buf x hprod hnd hxb hx
    simp only [runCycles] at hx ⊢
    have hnd' : ((buf ++ new) ++ allNew rest).Nodup := by
      simpa [allNew, List.append_assoc] using hnd
    have hsub := backlog_keeps_order c (buf ++ new) free
    have hnd1 : (cycleBuffer c (buf ++ new) free ++ allNew rest).Nodup :=
      (hsub.append (List.Sublist.refl _)).nodup hnd'
    have hxnr : x ∉ allNew rest := by
      intro hm
      have := (List.nodup_append.mp hnd').2.2 x (List.mem_append_left _ hxb) x hm
      exact this rfl
    have hx1 : x ∈ cycleBuffer c (buf ++ new) free := by
      rcases runCycles_subset rest _ x hx with h | h
      · exact h
      · exact absurd h hxnr
    have hpos := position_decreases c (buf ++ new) free x (List.nodup_append.mp hnd').1
      (hprod (c, free, new) List.mem_cons_self) hx1
    rw [enqueue_keeps_position buf new x hxb] at hpos
    have := ih (cycleBuffer c (buf ++ new) free) x (fun p hp => hprod p (List.mem_cons_of_mem _ hp)) hnd1 hx1 hx
    simp only [List.length_cons]
    omega

/-- … hence after `k + 1` productive cycles it is gone. -/
theorem gone_after (cycles : List (Cfg × Option Nat × List Op)) (buf : List Op) (x : Op)
    (hprod : ∀ p ∈ cycles, productive p.1 p.2.1) (hnd : (buf ++ allNew cycles).Nodup) (hxb : x ∈ buf)
    (hlen : cycles.length > buf.idxOf x) : x ∉ runCycles cycles buf := by
  intro hx
  have := delivered_within cycles buf x hprod hnd hxb hx
  omega

/-- The unchanged v2 code computes the allowance `uint32(float64(9)/1000*100) = 0` for capacity 9 at a 100 ms
flush interval, and with allowance 0 nothing is ever released: a positive capacity that starves (finding F6). -/
theorem v2_small_capacity_counterexample :
    let c : Cfg := { ge := true, limited := true, allow := 0, mb := fun _ => 0 }
    let op : Op := { id := 0, obj := 0, w := 0, cost := 1, batchable := true }
    ¬ productive c none ∧ ∀ n, runCycles (List.replicate n (c, none, [])) [op] = [op] := by
  refine ⟨by simp [productive, cutoff], ?_⟩
  intro n
  induction n with
  | zero => rfl
  | succ n ih => simp only [List.replicate_succ, runCycles, List.append_nil]; exact ih

-- non-vacuity: a productive configuration and a run to which `delivered_within` applies
private def o (id : Nat) : Op := { id := id, obj := id, w := 0, cost := 5, batchable := false }
private def c1 : Cfg := { ge := true, limited := true, allow := 1, mb := fun _ => 0 }
example : productive c1 none := by simp [productive, cutoff, c1, slotAvail]
example : runCycles [(c1, none, [o 3]), (c1, none, [])] [o 0, o 1, o 2] = [o 2, o 3] := by decide

end GoBatcher.C08

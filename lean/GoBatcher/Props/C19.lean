import GoBatcher.Lemmas.BatcherSlots
/-!
# C19 — The audit never disturbs a healthy Batcher and repairs a stale one

Model: M-Batcher. Healthy = no watcher MaxOperationTime above the Batcher's, constant costs. The unchanged code
fails the "never disturbs" clause in one situation — an audit tick firing while an Enqueue sits between counting
its cost and inserting the operation (finding F9); the theorem carries that hypothesis (`s.pend = []`), and
`C03.C03_counterexample_audit_in_flight` is the refuting execution, replayed on the code through the verif hook.
-/
namespace GoBatcher.C19
open GoBatcher

/-- an audit runs on every AuditInterval tick while the Batcher is running and not paused: the tick fires at
exactly `nextA`, every AuditInterval (default 10 s) … -/
theorem audit_ticks (c : BCfg) (s s' : St) (h : step c s .fireA = some s') :
    s.now = s.nextA ∧ s'.nextA = s.nextA + c.auditInt ∧ s'.tickA = true := by
  simp only [step] at h
  split at h <;> cases h
  rename_i hg
  simp only [Bool.and_eq_true, beq_iff_eq] at hg
  exact ⟨hg.2, rfl, rfl⟩

theorem audit_interval_default (v : Int) (h : v ≤ 0) : applyDefault v defAudit = 10000000000 := by
  simp [applyDefault, h, defAudit]

/-- … and with an idle loop time cannot pass over an unanswered audit tick -/
theorem audit_tick_is_urgent (s : St) (dt : Nat) (h : canAdvance s dt = true) (hl : s.loop = .idle) :
    s.tickA = false := (idle_time_passes_only_when_nothing_ready s dt h hl).2.2.1

/-- **Healthy Batcher.** If the demand figure is right before the audit (C03's invariant), no watcher has a
MaxOperationTime above the Batcher's, and no Enqueue is in flight (finding F9), the audit raises only
audit-pass or audit-skip and changes neither NeedsCapacity() nor Inflight(). -/
theorem audit_leaves_healthy_batcher_alone (c : BCfg) (s s' : St) (h : step c s .takeAudit = some s')
    (hw : ∀ w, effMot c w ≤ c.mot) (hp : s.pend = []) (ha : Acct s) (ht : TimeOK c s) (hq : QuietOK s)
    (hs : SlotsOK c s) :
    s'.target = s.target ∧ s'.slots = s.slots ∧
    ∃ o, s'.audits = s.audits ++ [(s.now, o)] ∧ (o = .pass ∨ o = .skip) := by
  simp only [step] at h
  split at h <;> cases h
  rename_i hg
  simp only [Bool.and_eq_true, beq_iff_eq] at hg
  by_cases hc : auditCond c s = true
  · have h0 := audit_nothing_outstanding c s hw hg.1 hc hp ht hq
    have htz : s.target = 0 := by rw [ha, h0]
    have hu := audit_no_unfinished c s hw hc ht
    have hoc0 : openCount s = 0 := by unfold openCount; rw [hg.1]
    have hsz : s.slots = 0 := by
      by_cases hm : c.mcb = 0
      · exact hs.1 hm
      · have := (hs.2 hm).1; omega
    refine ⟨by simp [doAudit, hc, htz], by simp [doAudit, hc, hsz], .pass, ?_, Or.inl rfl⟩
    simp only [doAudit, auditOutcome, hc, if_true, htz, hsz]
    cases c.gen <;> simp
  · have hc' : auditCond c s = false := by simpa using hc
    refine ⟨by simp [doAudit, hc'], by simp [doAudit, hc'], .skip, ?_, Or.inr rfl⟩
    simp [doAudit, auditOutcome, hc']

/-- **Stale figure repaired.** If the figure is non-zero although the buffer is empty and the Batcher has been
idle for longer than MaxOperationTime, the audit resets it to zero and raises audit-fail. -/
theorem audit_repairs_stale_figure (c : BCfg) (s s' : St) (h : step c s .takeAudit = some s')
    (hc : auditCond c s = true) (hnz : s.target > 0) :
    s'.target = 0 ∧ ∃ o, s'.audits = s.audits ++ [(s.now, o)] ∧ (o = .failTarget ∨ o = .failBoth) := by
  simp only [step] at h
  split at h <;> cases h
  refine ⟨by simp [doAudit, hc], ?_⟩
  simp only [doAudit, auditOutcome, hc, if_true]
  have hd : decide (s.target > 0) = true := by simpa using hnz
  cases c.gen with
  | v1 => exact ⟨.failTarget, by simp [hnz], Or.inl rfl⟩
  | v2 =>
    by_cases hs : s.slots > 0
    · exact ⟨.failBoth, by simp [hnz, hs], Or.inr rfl⟩
    · exact ⟨.failTarget, by simp [hnz, hs], Or.inl rfl⟩

/-- the audit condition is exactly: buffer empty and more than MaxOperationTime since the last flush with records -/
theorem audit_condition (c : BCfg) (s : St) :
    auditCond c s = true ↔ (s.bm.buf.items = [] ∧ (s.lastFlush = none ∨ ∃ t, s.lastFlush = some t ∧ s.now - t > c.mot)) := by
  unfold auditCond
  cases hl : s.lastFlush <;> simp [List.isEmpty_iff]

-- non-vacuity: staleness injected by an operation whose cost changes between enqueue (7) and completion (2)
private def cfg : BCfg :=
  { gen := .v2, bufCap := 4, limited := false, flushInt := 100, capInt := 1000, auditInt := 300, mot := 50, pause := 5,
    errorOnFull := false, mcb := 0, wMaxBatch := fun _ => 0, wMot := fun _ => 0, rollback := true, wos := true }
private def o7 : Op := { id := 1, obj := 1, w := 0, cost := 7, batchable := false }
example : ∃ s, run cfg (St.init cfg) [.startCall, .enqCount 1 o7, .enqInsert 1, .advance 100, .fireF, .takeFlushTick,
    .cycleBegin 0, .cycleStep, .scanEnd, .cycleEnd, .setCost 1 2, .cbReturn 0, .finish 0, .advance 100, .fireF, .takeFlushTick,
    .cycleBegin 0, .scanEnd, .cycleEnd, .advance 100, .fireF, .fireA, .takeFlushTick, .cycleBegin 0, .scanEnd, .cycleEnd,
    .takeAudit] = some s ∧ s.target = 0 ∧ s.audits = [(300, .failTarget)] := by
  refine ⟨_, rfl, ?_, ?_⟩ <;> decide

end GoBatcher.C19

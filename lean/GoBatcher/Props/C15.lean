import GoBatcher.Model.Buffer
/-!
# C15 — The buffer is bounded and applies backpressure without losing or wedging callers

Model: M-Buffer L1 (`Buf`) and the blocked-caller machine `BufM` (condition-variable protocol), for every
capacity and every label sequence (new callers in either full-buffer mode, woken callers re-checking, cursor
moves, removals from head / middle / tail, shutdown at any point). `wos` = "shutdown wakes the waiters and a
woken caller re-checks isShutdown" (regenerated fact `shutdownWakesWaiters`).
-/
namespace GoBatcher.C15
open GoBatcher

def Bounded (m : BufM) : Prop := m.buf.items.length ≤ m.buf.cap
def CurOK (m : BufM) : Prop := ∀ i, m.buf.cur = some i → i < m.buf.items.length
/-- no lost wake-up: if somebody waits, every free place is spoken for by a woken caller -/
def NoLost (m : BufM) : Prop := m.waiting ≠ [] → m.buf.items.length + m.woken.length ≥ m.buf.cap
/-- after a (waking) shutdown nobody is left waiting -/
def ShutNoWait (m : BufM) : Prop := m.buf.shut = true → m.waiting = []

instance (m : BufM) : Decidable (Bounded m) := by unfold Bounded; exact inferInstance
instance (m : BufM) : Decidable (NoLost m) := by unfold NoLost; exact inferInstance

theorem signalOne_buf (m : BufM) : (signalOne m).buf = m.buf := by
  unfold signalOne; split <;> rfl

/-- OperationsInBuffer() never exceeds the configured size: invariant under every step. -/
theorem step_bounded (wos : Bool) (m m' : BufM) (l : BufLabel) (h : m.step wos l = some m')
    (hb : Bounded m) : Bounded m' := by
  unfold Bounded at *
  have he : ∀ i, (m.buf.items.eraseIdx i).length ≤ m.buf.items.length := fun i => List.length_eraseIdx_le ..
  cases l <;> simp only [BufM.step, Buf.top, Buf.skip, Buf.remove, Buf.shutdown] at h <;> (repeat' split at h) <;>
    cases h <;> (try simp only [signalOne_buf]) <;>
    first | exact hb | (simp; done) | (simp; omega) | exact Nat.le_trans (he _) hb

theorem run_bounded (wos : Bool) : ∀ (ls : List BufLabel) (m m' : BufM),
    BufM.run wos m ls = some m' → Bounded m → Bounded m' := by
  intro ls
  induction ls with
  | nil => intro m m' h hb; simp [BufM.run] at h; subst h; exact hb
  | cons l ls ih =>
    intro m m' h hb
    simp only [BufM.run] at h
    cases hs : m.step wos l with
    | none => simp [hs] at h
    | some m1 => simp [hs] at h; exact ih m1 m' h (step_bounded wos m m1 l hs hb)

/-- every reachable state of a buffer of capacity `cap` is bounded -/
theorem reachable_bounded (wos : Bool) (cap : Nat) (ls : List BufLabel) (m' : BufM)
    (h : BufM.run wos (BufM.new cap) ls = some m') : m'.buf.items.length ≤ cap := by
  have := run_bounded wos ls (BufM.new cap) m' h (by simp [Bounded, BufM.new, Buf.new])
  have hc : m'.buf.cap = cap := by
    clear this
    have : ∀ (ls : List BufLabel) (m m' : BufM), BufM.run wos m ls = some m' → m'.buf.cap = m.buf.cap := by
      intro ls
      induction ls with
      | nil => intro m m' h; simp [BufM.run] at h; subst h; rfl
      | cons l ls ih =>
        intro m m' h
        simp only [BufM.run] at h
        cases hs : m.step wos l with
        | none => simp [hs] at h
        | some m1 =>
          simp [hs] at h
          rw [ih m1 m' h]
          cases l <;> simp only [BufM.step, Buf.top, Buf.skip, Buf.remove, Buf.shutdown] at hs <;>
            (repeat' split at hs) <;> cases hs <;> (try simp only [signalOne_buf]) <;> rfl
    simpa [BufM.new, Buf.new] using this ls (BufM.new cap) m' h
  unfold Bounded at this; omega

/-- An operation is added only when there is room; with ErrorOnFullBuffer a full buffer answers `full` and the
buffer is left exactly as it was. -/
theorem enqueue_characterisation (b : Buf) (op : Op) (eof : Bool) :
    ((b.enqueue op eof).2 = .ok ↔ b.shut = false ∧ b.items.length < b.cap) ∧
    ((b.enqueue op eof).2 = .ok → (b.enqueue op eof).1.items = b.items ++ [op]) ∧
    ((b.enqueue op eof).2 ≠ .ok → (b.enqueue op eof).1 = b) ∧
    ((b.enqueue op eof).2 = .full ↔ b.shut = false ∧ b.items.length ≥ b.cap ∧ eof = true) := by
  unfold Buf.enqueue
  cases hs : b.shut <;> simp
  by_cases hl : b.cap ≤ b.items.length
  · cases eof <;> simp [hl] <;> omega
  · simp [hl]; omega

/-- the machine's `enq` step is `Buf.enqueue` with `wouldBlock` turned into waiting -/
theorem enq_step_spec (wos : Bool) (m : BufM) (k : Nat) (op : Op) (eof : Bool) :
    m.step wos (.enq k op eof) =
      (match (m.buf.enqueue op eof).2 with
       | .wouldBlock => some { m with waiting := m.waiting ++ [(k, op)] }
       | r => some { m with buf := (m.buf.enqueue op eof).1, returned := m.returned ++ [(k, r)] }) := by
  simp only [BufM.step, Buf.enqueue]
  cases m.buf.shut <;> simp
  by_cases hl : m.buf.cap ≤ m.buf.items.length
  · cases eof <;> simp [hl]
  · simp [hl]

/-- FIFO: `remove` takes out exactly the cursor record and keeps the order of the rest (head, middle, tail or
sole element alike); `skip` and `top` change nothing but the cursor; enqueue appends at the tail. -/
theorem remove_is_eraseIdx (b : Buf) (i : Nat) (h : b.cur = some i) :
    b.remove.1.items = b.items.eraseIdx i := by
  simp only [Buf.remove, h]; split <;> rfl

theorem top_skip_keep_items (b : Buf) : b.top.1.items = b.items ∧ b.skip.1.items = b.items := by
  constructor
  · simp only [Buf.top]; split <;> rfl
  · simp only [Buf.skip]; split
    · rfl
    · split <;> rfl

/-- the cursor always designates an existing record -/
theorem step_curOK (wos : Bool) (m m' : BufM) (l : BufLabel) (h : m.step wos l = some m')
    (hc : CurOK m) : CurOK m' := by
  unfold CurOK at *
  cases l with
  | enq k op eof =>
    simp only [BufM.step] at h
    (repeat' split at h) <;> cases h <;> first | exact hc | (intro i hi; have := hc i hi; simp; omega)
  | retry k =>
    simp only [BufM.step] at h
    (repeat' split at h) <;> cases h <;> first | exact hc | (intro i hi; have := hc i hi; simp; omega)
  | top =>
    simp only [BufM.step, Buf.top] at h
    split at h
    · cases h; simp
    · rename_i o t he
      cases h; intro i hi; simp at hi; subst hi; simp [he]
  | skip =>
    simp only [BufM.step, Buf.skip] at h
    split at h
    · cases h; exact hc
    · split at h
      · rename_i o ho
        cases h; intro j hj; simp at hj; subst hj
        exact (List.getElem?_eq_some_iff.mp ho).1
      · cases h; simp
  | remove =>
    simp only [BufM.step] at h
    split at h
    · cases h; exact hc
    · rename_i i hi
      cases h
      rw [signalOne_buf]
      simp only [Buf.remove, hi]
      split
      · rename_i o ho
        intro j hj; simp at hj; subst hj
        exact (List.getElem?_eq_some_iff.mp ho).1
      · simp
  | shutdown =>
    simp only [BufM.step, Buf.shutdown] at h
    split at h <;> (cases h; simp)

theorem step_shutNoWait (m m' : BufM) (l : BufLabel) (h : m.step true l = some m')
    (hs : ShutNoWait m) : ShutNoWait m' := by
  unfold ShutNoWait at *
  cases l <;> simp only [BufM.step, Buf.top, Buf.skip, Buf.remove, Buf.shutdown] at h <;> (repeat' split at h) <;>
    cases h <;> (try simp only [signalOne_buf]) <;>
    first
    | exact hs
    | (simp; done)
    | (intro hsh; simp_all; done)
    | (intro hsh; have := hs hsh; unfold signalOne; simp_all)

/-- No lost wake-up: `Wait` and `Signal` happen under one lock, so whenever a caller waits and a place is free,
a woken caller exists that will re-check and take it. Invariant under every step when shutdown wakes the
waiters; on code where it does not (`wos = false`), under every step except `shutdown`. -/
theorem step_noLost (wos : Bool) (m m' : BufM) (l : BufLabel) (h : m.step wos l = some m')
    (hl : wos = true ∨ l ≠ .shutdown) (hsw : wos = true → ShutNoWait m) (hn : NoLost m) : NoLost m' := by
  unfold NoLost ShutNoWait at *
  cases l with
  | enq k op eof =>
    simp only [BufM.step] at h
    (repeat' split at h) <;> cases h <;> first | exact hn | (intro _; simp; omega) | (intro hw; have := hn hw; simp at *; omega)
  | retry k =>
    simp only [BufM.step] at h
    split at h
    · cases h
    · rename_i w hf
      have hmem : w ∈ m.woken := List.mem_of_find?_eq_some hf
      have hlen : (m.woken.erase w).length + 1 = m.woken.length := by
        rw [List.length_erase_of_mem hmem]
        have : m.woken.length > 0 := List.length_pos_of_mem hmem
        omega
      (repeat' split at h) <;> cases h
      · rename_i hc
        simp only [Bool.and_eq_true] at hc
        intro hw
        exact absurd (hsw hc.1 hc.2) hw
      · intro _; simp; omega
      · intro hw; have := hn hw; simp at *; omega
  | top =>
    simp only [BufM.step, Buf.top] at h
    (repeat' split at h) <;> cases h <;> exact hn
  | skip =>
    simp only [BufM.step, Buf.skip] at h
    (repeat' split at h) <;> cases h <;> exact hn
  | remove =>
    simp only [BufM.step] at h
    split at h
    · cases h; exact hn
    · rename_i i hi
      cases h
      have hlen : m.buf.remove.1.items.length + 1 ≥ m.buf.items.length := by
        rw [remove_is_eraseIdx _ i hi, List.length_eraseIdx]
        split <;> omega
      have hcap : m.buf.remove.1.cap = m.buf.cap := by
        simp only [Buf.remove, hi]; split <;> rfl
      unfold signalOne
      cases hw : m.waiting with
      | nil => simp
      | cons w rest =>
        have := hn (by simp [hw])
        intro _
        simp only [List.length_append, List.length_cons, List.length_nil, hcap]
        omega
  | shutdown =>
    simp only [BufM.step, Buf.shutdown] at h
    rcases hl with hl | hl
    · subst hl; simp at h; cases h; simp
    · exact absurd rfl hl

/-- Consequence: while running, a free place and a waiting caller imply an enabled `retry` that succeeds unless
a newcomer takes the place first — a blocked Enqueue is admitted whenever a place frees. -/
theorem free_place_is_claimed (m : BufM) (hn : NoLost m) (hw : m.waiting ≠ [])
    (hfree : m.buf.items.length < m.buf.cap) : m.woken ≠ [] := by
  have := hn hw
  intro he; simp [he] at this; omega

/-- `remove` of a record while callers wait wakes exactly the oldest one -/
theorem remove_wakes_oldest (wos : Bool) (m : BufM) (i : Nat) (w : Nat × Op) (rest : List (Nat × Op))
    (hi : m.buf.cur = some i) (hw : m.waiting = w :: rest) :
    ∃ m', m.step wos .remove = some m' ∧ m'.waiting = rest ∧ m'.woken = m.woken ++ [w] := by
  simp [BufM.step, hi, signalOne, hw]

/-- With waking shutdown, every caller blocked at shutdown returns with the shutdown error: after `shutdown`
nobody waits, and each woken caller's `retry` is enabled and returns `.shutdown`. -/
theorem shutdown_releases_waiters (m : BufM) :
    ∃ m', m.step true .shutdown = some m' ∧ m'.waiting = [] ∧ m'.woken = m.woken ++ m.waiting ∧ m'.buf.shut = true := by
  simp [BufM.step, Buf.shutdown]

theorem retry_after_shutdown_returns (m : BufM) (w : Nat × Op) (hw : m.woken.find? (·.1 == w.1) = some w)
    (hs : m.buf.shut = true) :
    ∃ m', m.step true (.retry w.1) = some m' ∧ m'.returned = m.returned ++ [(w.1, .shutdown)] := by
  simp [BufM.step, hw, hs]

/-- On code where shutdown does NOT wake the waiters (`wos = false`, the unchanged v2 buffer — finding F4) a
caller blocked at shutdown stays blocked forever: `Stuck` is invariant under every step other than `remove`
(the only step that signals; its sole caller, the processing loop, has returned once it has shut the buffer
down). -/
def Stuck (k : Nat) (m : BufM) : Prop := m.buf.shut = true ∧ m.waiting.any (·.1 == k) = true

instance (k : Nat) (m : BufM) : Decidable (Stuck k m) := by unfold Stuck; exact inferInstance

theorem stuck_forever (k : Nat) (m m' : BufM) (l : BufLabel) (h : m.step false l = some m')
    (hl : l ≠ .remove) (hs : Stuck k m) : Stuck k m' := by
  obtain ⟨hsh, hw⟩ := hs
  unfold Stuck
  cases l <;> simp only [BufM.step, Buf.top, Buf.skip, Buf.shutdown] at h <;> (repeat' split at h) <;>
    (try cases h) <;>
    first
    | exact ⟨hsh, hw⟩
    | exact absurd rfl hl
    | (simp_all; done)
    | (refine ⟨by simp_all, ?_⟩; simp_all)

theorem unfixed_shutdown_counterexample :
    ∃ m, BufM.run false (BufM.new 1)
        [.enq 1 ⟨1, 1, 0, 1, true⟩ false, .enq 2 ⟨2, 2, 0, 1, true⟩ false, .shutdown] = some m ∧ Stuck 2 m := by
  refine ⟨_, rfl, ?_⟩
  decide

-- non-vacuity of the invariants on a state with a waiter and a woken caller
example : ∃ m, BufM.run true (BufM.new 1)
    [.enq 1 ⟨1, 1, 0, 1, true⟩ false, .enq 2 ⟨2, 2, 0, 1, true⟩ false, .enq 3 ⟨3, 3, 0, 1, true⟩ false, .top, .remove] = some m
    ∧ m.waiting ≠ [] ∧ m.woken ≠ [] ∧ NoLost m ∧ Bounded m := by
  refine ⟨_, rfl, ?_⟩
  decide

end GoBatcher.C15

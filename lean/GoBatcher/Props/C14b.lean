import GoBatcher.Lemmas.BatcherReach2
/-!
# C14 (machine level) — rejections have no side effects; each delivery increments Attempt() by exactly one

`attempts s obj` = number of times operation object `obj` has been handed to a watcher so far = the number of
`MakeAttempt()` calls (the batch goroutine calls it once per operation of the batch before the callback).
-/
namespace GoBatcher.C14b
open GoBatcher

def attempts (s : St) (obj : Nat) : Nat := ((s.batches.map (fun b => (b.ops.filter (·.obj == obj)).length))).sum

/-- A rejected Enqueue (missing operation, missing Watcher, too expensive, too many attempts) changes nothing. -/
theorem rejection_has_no_side_effect (c : BCfg) (s : St) (k : Nat) (e : Err) : step c s (.enqReject k e) = some s := rfl

theorem attempts_congr {s s' : St} (obj : Nat) (h : s'.batches = s.batches) : attempts s' obj = attempts s obj := by
  unfold attempts; rw [h]

theorem attempts_map {s s' : St} (obj : Nat) (f : RBatch → RBatch)
    (hf : ∀ x, ((f x).ops.filter (·.obj == obj)).length = (x.ops.filter (·.obj == obj)).length)
    (h : s'.batches = s.batches.map f) : attempts s' obj = attempts s obj := by
  unfold attempts; rw [h, List.map_map]
  congr 1
  apply List.map_congr_left
  intro x _
  exact hf x

/-- raising a batch is the delivery: each operation occurrence in it counts once -/
theorem raise_attempts (c : BCfg) (s : St) (p : Batch) (obj : Nat) :
    attempts (raise c s p) obj = attempts s obj + (p.2.filter (·.obj == obj)).length := by
  unfold raise attempts
  split
  · rename_i he
    have : p.2 = [] := by simpa using he
    simp [this]
  · simp

theorem reCost_obj (obj cost : Nat) (o : Op) : (reCost obj cost o).obj = o.obj := by
  unfold reCost; split <;> rfl

/-- nothing but a delivery changes the attempt count -/
theorem only_delivery_counts (c : BCfg) (s s' : St) (l : Label) (h : step c s l = some s')
    (hl : l ≠ .cycleStep ∧ ∀ w, l ≠ .sweepOne w) (obj : Nat) : attempts s' obj = attempts s obj := by
  cases l with
  | cycleStep => exact absurd rfl hl.1
  | sweepOne w => exact absurd rfl (hl.2 w)
  | cbReturn b =>
    simp only [step] at h
    split at h <;> cases h
    exact attempts_map obj _ (by intro x; split <;> rfl) rfl
  | finish b =>
    simp only [step] at h
    (repeat' split at h) <;> cases h
    exact attempts_map obj _ (by intro x; split <;> rfl) rfl
  | setCost o cst =>
    simp only [step] at h; cases h
    refine attempts_map obj (fun b => { b with ops := b.ops.map (reCost o cst) }) ?_ rfl
    intro x
    simp only [List.filter_map, List.length_map]
    congr 1
    apply List.filter_congr
    intro y _
    simp [reCost_obj]
  | _ =>
    simp only [step] at h <;> (repeat' split at h) <;> (try cases h) <;>
      first
      | rfl
      | exact attempts_congr obj (by simp [shutdownV1, shutdownV2, enqOk, enqRefuse, enqBlock, unwake, doAudit])

/-- a cycle step that raises a batch delivers exactly that batch -/
theorem sweep_delivers (c : BCfg) (s s' : St) (w : Nat) (h : step c s (.sweepOne w) = some s') (obj : Nat) :
    ∃ b : List Op, attempts s' obj = attempts s obj + (b.filter (·.obj == obj)).length := by
  simp only [step] at h
  (repeat' split at h) <;> (try cases h)
  rename_i b _
  refine ⟨b, ?_⟩
  have := raise_attempts c s (w, b) obj
  unfold attempts at *
  simpa using this

-- non-vacuity: the same object enqueued twice and delivered in one batch: two attempts
private def cfg : BCfg :=
  { gen := .v2, bufCap := 4, limited := false, flushInt := 100, capInt := 1000, auditInt := 1000, mot := 50, pause := 5,
    errorOnFull := false, mcb := 0, wMaxBatch := fun _ => 0, wMot := fun _ => 0, rollback := true, wos := true }
private def o (k : Nat) : Op := { id := k, obj := 9, w := 0, cost := 1, batchable := true }
example : ∃ s, run cfg (St.init cfg) [.startCall, .enqCount 1 (o 1), .enqInsert 1, .enqCount 2 (o 2), .enqInsert 2, .advance 100,
    .fireF, .takeFlushTick, .cycleBegin 0, .cycleStep, .cycleStep, .scanEnd, .sweepOne 0, .cycleEnd] = some s ∧ attempts s 9 = 2 :=
  ⟨_, rfl, by decide⟩

end GoBatcher.C14b

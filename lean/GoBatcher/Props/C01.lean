import GoBatcher.Lemmas.CycleShape
/-!
# C01 — exactly-once delivery to the own watcher (cycle level)

Conservation through one cycle, for every buffer, configuration and sweep order. The history-level
statement over the whole Batcher machine (enqueuers, ticks, pauses, shutdown) is in `C01b`.
-/
namespace GoBatcher.C01
open GoBatcher

theorem cntB_perm (x : Op) {l₁ l₂ : List Batch} (h : l₁.Perm l₂) : cntB x l₁ = cntB x l₂ := by
  induction h with
  | nil => rfl
  | cons p _ ih => obtain ⟨w, b⟩ := p; simp [ih]
  | swap p q l => obtain ⟨w, b⟩ := p; obtain ⟨w', b'⟩ := q; simp; omega
  | trans _ _ ih1 ih2 => exact ih1.trans ih2

/-- Nothing is lost or duplicated by a cycle: every operation occurrence of the buffer is afterwards in
exactly one place — one batch handed to a watcher, or still buffered — for every sweep order. -/
theorem cycle_exactly_once (c : Cfg) (x : Op) (buf : List Op) (free : Option Nat) (sweep : List Batch)
    (hsw : SweepOK c buf free sweep) :
    cntB x (cycleBatches c buf free sweep) + (cycleBuffer c buf free).count x = buf.count x := by
  have h := scan_conserve c x buf { consumed := 0, openB := [] } free
  have hp := cntB_perm x hsw
  simp only [cycleBatches, cycleBuffer, cntB_append, List.count_append, cntB_nil] at *
  omega

/-- … never another Watcher's: every operation in a batch handed to watcher `w` belongs to `w`. -/
theorem own_watcher (c : Cfg) (buf : List Op) (free : Option Nat) (sweep : List Batch)
    (hsw : SweepOK c buf free sweep) :
    ∀ p ∈ cycleBatches c buf free sweep, ∀ o ∈ p.2, o.w = p.1 := by
  intro p hp
  have hsh := scan_shape c buf { consumed := 0, openB := [] } free (OpenOK_nil c)
  simp only [cycleBatches, List.mem_append] at hp
  rcases hp with hp | hp
  · exact (hsh.2 p hp).1.2.1
  · exact fun o ho => ((hsh.1.1 p (hsw.mem_iff.mp hp)).2.1 o ho).1

/-- mid-cycle version used by the machine: one loop step conserves occurrences -/
theorem step_conserves (c : Cfg) (a : Acc) (av : Bool) (op x : Op)
    {a' : Acc} {out : Option Batch} {s : Bool} (h : stepOp c a av op = .take a' out s) :
    cntB x a'.openB + optCnt x out = cntB x a.openB + (if op = x then 1 else 0) :=
  stepOp_conserve c a av op x h

-- non-vacuity
private def o (id w : Nat) (b : Bool) : Op := { id := id, obj := id, w := w, cost := 1, batchable := b }
example : SweepOK { ge := true, limited := false, allow := 0, mb := fun _ => 0 } [o 0 0 true, o 1 1 true] none
    [(1, [o 1 1 true]), (0, [o 0 0 true])] := by
  unfold SweepOK
  have : (scan { ge := true, limited := false, allow := 0, mb := fun _ => 0 } [o 0 0 true, o 1 1 true]
      { consumed := 0, openB := [] } none).acc.openB = [(1, [o 1 1 true]), (0, [o 0 0 true])] := by decide
  rw [this]

end GoBatcher.C01

import GoBatcher.Lemmas.LeaseReach
import GoBatcher.Props.C07
import GoBatcher.Props.C17
/-!
# C09 — Needed capacity is acquired, and dead peers' capacity reclaimed, in bounded time  (PARTIAL)

What is proved, for M-Lease and all histories:
* faults (refused / errored / slow lease calls, failed provisioning) never stop the acquisition loop and never change
  what the instance counts (`refusal_changes_nothing`, `loop_survives`, `failed_provisioning_changes_nothing`);
* every lease in the store ends at most one lease duration after it was granted, and an instance that no longer runs
  its loop (crashed, stopped) never extends one — so one lease duration after a peer died every partition it held is
  free (`dead_peer_partitions_free`);
* whenever the instance needs more and an existing partition it does not count is free, the next attempt is enabled,
  is granted and is counted (`attempt_enabled`, `free_partition_is_granted`, `grant_in_time_is_counted`);
* `acquires_in_k_iterations`: a needy instance facing free partitions acquires one partition per loop iteration,
  whatever the sleep and the lease-call latencies of each iteration, as long as the iterations together take less
  than one lease duration (the proviso of the property) — so `k` partitions take at most `k × (MaxInterval + latency)`.

What is NOT carried by the model (hence "partial"): the model does not bound the loop's sleep (`MaxInterval` is the
environment's choice of `advance`), so "within lease + partitions × (MaxInterval + latency)" is the theorem above
instantiated with iterations of at most that length; that the real loop wakes at least every MaxInterval, and picks a
free partition when peers still hold others (a random choice — acquisition is then only probabilistically bounded),
is observed on the real code by the lease family's monitor (`needed-capacity-not-acquired-in-bounded-time`).
-/
namespace GoBatcher.C09
open GoBatcher

/-! ### faults only delay -/

/-- a refused / failed lease call leaves the instance exactly as it was before the request, and the store untouched -/
theorem refusal_changes_nothing (n : Nat) (s s1 s2 s3 : LSt) (i p : Nat) (h1 : lstep n s (.issue i p) = some s1)
    (h2 : lstep n s1 (.proc i false) = some s2) (h3 : lstep n s2 (.ret i) = some s3) :
    s3.inst i = s.inst i ∧ s3.store = s.store := by
  unfold lstep at h1 h2 h3
  simp only [LLabel.inst?] at h1 h2 h3
  split at h1
  · rename_i hi
    simp only [hi, if_true] at h2 h3
    simp only [lstepCore] at h1
    split at h1 <;> cases h1
    rename_i hg
    simp only [Bool.and_eq_true, Option.isNone_iff_eq_none] at hg
    simp only [lstepCore, updI_same, Option.isSome_none, Bool.false_eq_true, if_false, Bool.false_and] at h2
    cases h2
    simp only [lstepCore, updI_same] at h3
    cases h3
    constructor
    · simp only [updI_same]
      have := hg.1.1.1.2
      cases hx : s.inst i
      simp only [hx] at this
      simp [this]
    · rfl
  · cases h1

/-- nothing but Stop / cancellation or a crash of that instance ends its acquisition loop -/
theorem loop_survives (n : Nat) (s s' : LSt) (l : LLabel) (h : lstep n s l = some s') (i : Nat)
    (hon : (s.inst i).loopOn = true) (h1 : l ≠ .stop i) (h2 : l ≠ .crash i) : (s'.inst i).loopOn = true := by
  by_cases hi : l.inst? = some i
  · unfold lstep at h
    cases l <;> simp only [LLabel.inst?, Option.some.injEq, reduceCtorEq] at hi <;> subst hi <;>
      simp only [LLabel.inst?, lstepCore] at h <;> (repeat' split at h) <;> (try cases h) <;>
      (try simp only [updI_same, afterGrant]) <;>
      first
        | exact hon
        | exact absurd rfl h1
        | exact absurd rfl h2
        | rfl
  · rw [step_frame n s s' l h i hi]; exact hon

theorem failed_provisioning_changes_nothing (n : Nat) (s s' : LSt) (i : Nat) (h : lstep n s (.start i false) = some s') :
    s' = s := C17.failed_start_changes_nothing n s s' i h

/-! ### leases end by themselves -/

/-- every lease in the store ends at most one lease duration from now -/
def StoreFresh (s : LSt) : Prop := ∀ p j u, s.store p = some (j, u) → u ≤ s.now + s.lease

/-- only a grant to `j` writes a lease of `j` into the store, and it needs a lease call of `j` in flight -/
theorem store_written_only_by_grant (n : Nat) (s s' : LSt) (l : LLabel) (h : lstep n s l = some s') (p : Nat)
    (hne : s'.store p ≠ s.store p) :
    ∃ j cl, l = .proc j true ∧ (s.inst j).call = some cl ∧ cl.result = none ∧ cl.part = p ∧
      s'.store p = some (j, s.now + s.lease) := by
  unfold lstep at h
  cases l <;> simp only [LLabel.inst?, lstepCore] at h <;> (repeat' split at h) <;> (try cases h) <;>
    first
      | exact absurd rfl hne
      | skip
  rename_i j g _ _ cl hcl hres hg
  simp only [Bool.and_eq_true] at hg
  have hres' : cl.result = none := by
    cases hr : cl.result with
    | none => rfl
    | some r => simp [hr] at hres
  have hp : p = cl.part := by
    apply Classical.byContradiction
    intro hx
    exact hne (by simp [updS, hx])
  subst hp
  refine ⟨j, cl, by rw [hg.1], hcl, hres', rfl, by simp⟩

theorem step_storeFresh (n : Nat) (s s' : LSt) (l : LLabel) (h : lstep n s l = some s') (hf : StoreFresh s) : StoreFresh s' := by
  intro p j u hs
  have hl := step_lease n s s' l h
  have hn := step_now_le n s s' l h
  by_cases hne : s'.store p = s.store p
  · rw [hne] at hs
    have := hf p j u hs
    rw [hl]; omega
  · obtain ⟨j', cl, _, _, _, _, he⟩ := store_written_only_by_grant n s s' l h p hne
    rw [he] at hs
    cases hs
    rw [hl]; omega

/-- instance `j` is out of the game: no loop, no lease request still on its way to the store, and it cannot be
started (again) -/
structure Dead (s : LSt) (j : Nat) : Prop where
  off : (s.inst j).loopOn = false
  idle : ∀ cl, (s.inst j).call = some cl → cl.result ≠ none
  used : (s.inst j).phase ≠ .uninit

theorem step_dead (n : Nat) (s s' : LSt) (l : LLabel) (h : lstep n s l = some s') (j : Nat) (hd : Dead s j) : Dead s' j := by
  by_cases hi : l.inst? = some j
  · unfold lstep at h
    have hoff := hd.off
    have hidle := hd.idle
    have hused := hd.used
    cases l <;> simp only [LLabel.inst?, Option.some.injEq, reduceCtorEq] at hi <;> subst hi <;>
      simp only [LLabel.inst?, lstepCore, hoff, Bool.false_and, Bool.false_eq_true, if_false] at h <;>
      (repeat' split at h) <;> (try cases h) <;>
      first
        | exact hd
        | (rename_i hg _; simp only [Bool.and_eq_true, beq_iff_eq] at hg; exact absurd hg.1 hused)
        | (refine ⟨?_, ?_, ?_⟩ <;> simp only [updI_same, afterGrant] <;>
            first
              | exact hoff
              | exact hidle
              | exact hused
              | rfl
              | (intro cl hc; cases hc; simp)
              | (intro cl hc; cases hc))
  · refine ⟨?_, ?_, ?_⟩ <;> rw [step_frame n s s' l h j hi]
    · exact hd.off
    · exact hd.idle
    · exact hd.used

/-- **A dead peer's capacity is reclaimed within one lease duration.** If at `s0` instance `j` has crashed or
stopped, then in every later state every lease the store still holds for `j` ends by `s0.now + lease`: from that
instant on all its partitions are free for others. -/
theorem dead_peer_partitions_free (n : Nat) (j : Nat) : ∀ (ls : List LLabel) (s0 s : LSt), lrun n s0 ls = some s →
    Dead s0 j → ∀ T, (∀ p u, s0.store p = some (j, u) → u ≤ T) → (∀ p u, s.store p = some (j, u) → u ≤ T) := by
  intro ls
  induction ls with
  | nil => intro s0 s h _ T hb; simp [lrun] at h; subst h; exact hb
  | cons l ls ih =>
    intro s0 s h hd T hb
    simp only [lrun] at h
    cases hs : lstep n s0 l with
    | none => simp [hs] at h
    | some s1 =>
      simp [hs] at h
      refine ih s1 s h (step_dead n s0 s1 l hs j hd) T ?_
      intro p u hp
      by_cases hne : s1.store p = s0.store p
      · rw [hne] at hp; exact hb p u hp
      · obtain ⟨j', cl, _, hcall, hres, _, he⟩ := store_written_only_by_grant n s0 s1 l hs p hne
        rw [he] at hp
        cases hp
        exact absurd hres (hd.idle cl hcall)

theorem dead_peer_free_after_lease (n : Nat) (j : Nat) (ls : List LLabel) (s0 s : LSt) (hr : lrun n s0 ls = some s)
    (hd : Dead s0 j) (hf : StoreFresh s0) (hlate : s0.now + s0.lease ≤ s.now) (p u : Nat) (hp : s.store p = some (j, u)) :
    storeFree s p = true := by
  have := dead_peer_partitions_free n j ls s0 s hr hd (s0.now + s0.lease) (fun p u h => hf p j u h) p u hp
  simp only [storeFree, freeAt, hp, decide_eq_true_eq]
  omega

/-! ### one attempt -/

theorem attempt_enabled (n : Nat) (s : LSt) (i p : Nat) (hi : i < n) (hon : (s.inst i).loopOn = true)
    (ha : (s.inst i).alive = true) (hc : (s.inst i).call = none)
    (hd : (s.inst i).held.length < (s.inst i).target) (hr : p < (s.inst i).parts) (hh : p ∉ (s.inst i).held) :
    ∃ s', lstep n s (.issue i p) = some s' := by
  unfold lstep
  simp [LLabel.inst?, hi, lstepCore, hon, ha, hc, hd, hr, hh]

theorem free_partition_is_granted (n : Nat) (s : LSt) (i : Nat) (hi : i < n) (cl : LCall)
    (hc : (s.inst i).call = some cl) (hu : cl.result = none) (hf : storeFree s cl.part = true) :
    ∃ s', lstep n s (.proc i true) = some s' ∧
      (s'.inst i).call = some { cl with result := some (some (s.now + s.lease)) } := by
  unfold lstep
  simp [LLabel.inst?, hi, lstepCore, hc, hu, hf]

theorem grant_in_time_is_counted (n : Nat) (s : LSt) (i : Nat) (hi : i < n) (cl : LCall) (u : Nat)
    (hc : (s.inst i).call = some cl) (hu : cl.result = some (some u)) (ht : s.now < cl.issuedAt + s.lease)
    (hn : cl.part ∉ (s.inst i).held) :
    ∃ s', lstep n s (.ret i) = some s' ∧ (s'.inst i).held = (s.inst i).held ++ [cl.part] ∧
      (s'.inst i).capacity = (s.inst i).capacity + (s.inst i).factor := by
  unfold lstep
  have hlt : ¬ cl.issuedAt + s.lease ≤ s.now := by omega
  have hnc : (s.inst i).held.contains cl.part = false := by simpa using hn
  simp [LLabel.inst?, hi, lstepCore, hc, hu, hlt, afterGrant, hn, LInst.capacity, Nat.mul_succ, Nat.add_assoc]

/-! ### k partitions in k iterations -/

def adv (d : Nat) : List LLabel := if d = 0 then [] else [.advance d]

/-- one loop iteration: sleep `a`, request `p`, the store processes it after `b`, the call returns after another `c` -/
def iteration (i p a b c : Nat) : List LLabel := adv a ++ [.issue i p] ++ adv b ++ [.proc i true] ++ adv c ++ [.ret i]

def schedule (i : Nat) : List Nat → List (Nat × Nat × Nat) → List LLabel
  | p :: ps, (a, b, c) :: gs => iteration i p a b c ++ schedule i ps gs
  | _, _ => []

def duration : List (Nat × Nat × Nat) → Nat
  | [] => 0
  | (a, b, c) :: gs => a + b + c + duration gs

structure Ready (n : Nat) (s : LSt) (i : Nat) (ps : List Nat) (D : Nat) : Prop where
  hi : i < n
  loop : (s.inst i).loopOn = true ∧ (s.inst i).alive = true ∧ (s.inst i).needProvision = false ∧ (s.inst i).call = none
  nodup : ps.Nodup
  range : ∀ p, p ∈ ps → p < (s.inst i).parts ∧ p ∉ (s.inst i).held ∧ storeFree s p = true
  demand : (s.inst i).held.length + ps.length ≤ (s.inst i).target
  quiet : ∀ j, j < n → ∀ t, t ∈ (s.inst j).timers → s.now + D ≤ t.2
  short : D < s.lease

theorem lrun_adv (n : Nat) (s : LSt) (d : Nat) (rest : List LLabel)
    (hq : ∀ j, j < n → ∀ t, t ∈ (s.inst j).timers → s.now + d ≤ t.2) :
    lrun n s (adv d ++ rest) = lrun n { s with now := s.now + d } rest := by
  unfold adv
  by_cases hd : d = 0
  · subst hd; simp
  · have hadv : lCanAdvance s n d = true := by
      unfold lCanAdvance
      simp only [Bool.and_eq_true, decide_eq_true_eq, List.all_eq_true, List.mem_range]
      exact ⟨by omega, fun j hj t ht => hq j hj t ht⟩
    simp [hd, lrun, lstep, LLabel.inst?, lstepCore, hadv]

theorem freeAt_mono (e : Option (Nat × Nat)) (t t' : Nat) (ht : t ≤ t') (h : freeAt e t = true) : freeAt e t' = true := by
  unfold freeAt at *
  split at h
  · rfl
  · simp only [decide_eq_true_eq] at h ⊢; omega

theorem one_iteration (n : Nat) (s : LSt) (i p : Nat) (ps : List Nat) (D a b c : Nat) (rest : List LLabel)
    (hr : Ready n s i (p :: ps) D) (hd : a + b + c ≤ D) :
    ∃ s', lrun n s (iteration i p a b c ++ rest) = lrun n s' rest ∧ Ready n s' i ps (D - (a + b + c)) ∧
      (s'.inst i).held = (s.inst i).held ++ [p] ∧ s'.now = s.now + (a + b + c) := by
  obtain ⟨hon, hal, hnp, hcn⟩ := hr.loop
  obtain ⟨hpr, hph, hpf⟩ := hr.range p List.mem_cons_self
  have hi := hr.hi
  have hdm := hr.demand
  simp only [List.length_cons] at hdm
  have hnc : (s.inst i).held.contains p = false := by simpa using hph
  -- sleep
  unfold iteration
  simp only [List.append_assoc]
  rw [lrun_adv n s a _ (fun j hj t ht => by have := hr.quiet j hj t ht; omega)]
  -- issue
  have hlt : (s.inst i).held.length < (s.inst i).target := by omega
  simp only [List.cons_append, List.nil_append, lrun, lstep, LLabel.inst?, hi, if_true, lstepCore, hon, hal, hnp, hcn,
    hlt, hpr, hnc, Option.isNone_none, Bool.not_false, Bool.and_self, decide_true, Bool.not_true, Option.bind_some]
  -- the store processes the request
  rw [lrun_adv n _ b _ (fun j hj t ht => by
    by_cases hji : j = i
    · subst hji; simp only [updI_same] at ht; have := hr.quiet j hj t ht; simp only; omega
    · simp only [updI_other _ _ _ _ hji] at ht; have := hr.quiet j hj t ht; simp only; omega)]
  have hfree : freeAt (s.store p) (s.now + a + b) = true := freeAt_mono _ _ _ (by omega) hpf
  simp only [lrun, lstep, LLabel.inst?, hi, if_true, lstepCore, updI_same, Option.isSome_none, Bool.false_eq_true, if_false,
    Bool.true_and, storeFree, hfree, Option.bind_some]
  -- the call returns
  rw [lrun_adv n _ c _ (fun j hj t ht => by
    by_cases hji : j = i
    · subst hji; simp only [updI_same] at ht; have := hr.quiet j hj t ht; simp only; omega
    · simp only [updI_other _ _ _ _ hji, updI, if_neg hji] at ht
      have := hr.quiet j hj t (by simpa [updI, hji] using ht); simp only; omega)]
  have hshort := hr.short
  have hnl : ¬ (s.now + a + s.lease ≤ s.now + a + b + c) := by omega
  simp only [lrun, lstep, LLabel.inst?, hi, if_true, lstepCore, updI_same, hnl, if_false, Option.bind_some]
  refine ⟨_, rfl, ?_, ?_, ?_⟩
  · refine ⟨hi, ?_, (List.nodup_cons.mp hr.nodup).2, ?_, ?_, ?_, ?_⟩
    · simp [afterGrant, hon, hal, hnp]
    · intro q hq
      obtain ⟨q1, q2, q3⟩ := hr.range q (List.mem_cons_of_mem _ hq)
      have hqp : q ≠ p := by
        intro e; subst e; exact (List.nodup_cons.mp hr.nodup).1 hq
      refine ⟨by simpa [afterGrant] using q1, ?_, ?_⟩
      · simp only [updI_same, afterGrant, hnc, Bool.false_eq_true, if_false, List.mem_append, List.mem_singleton, not_or]
        exact ⟨q2, hqp⟩
      · have := freeAt_mono _ _ (s.now + a + b + c) (by omega) q3
        simpa [storeFree, updS, hqp] using this
    · simp only [updI_same, afterGrant, hnc, Bool.false_eq_true, if_false, List.length_append, List.length_singleton]
      omega
    · intro j hj t ht
      by_cases hji : j = i
      · subst hji
        simp only [updI_same, afterGrant, List.mem_append, List.mem_singleton] at ht
        rcases ht with ht | ht
        · have := hr.quiet j hj t ht; simp only; omega
        · subst ht; simp only; omega
      · have ht' : t ∈ (s.inst j).timers := by simpa [updI, hji] using ht
        have := hr.quiet j hj t ht'; simp only; omega
    · simp only; omega
  · simp [afterGrant, hph]
  · simp only; omega

/-- **k free partitions are acquired in k loop iterations**, whatever each iteration's sleep and lease-call latency,
provided the iterations together take less than one lease duration. With iterations of at most `MaxInterval + latency`
that is `k × (MaxInterval + latency)` after the partitions became free (at most one lease duration after a peer died). -/
theorem acquires_in_k_iterations (n : Nat) (i : Nat) : ∀ (ps : List Nat) (gs : List (Nat × Nat × Nat)) (s : LSt) (D : Nat),
    ps.length = gs.length → duration gs ≤ D → Ready n s i ps D →
    ∃ s', lrun n s (schedule i ps gs) = some s' ∧ (s'.inst i).held = (s.inst i).held ++ ps ∧ s'.now = s.now + duration gs := by
  intro ps
  induction ps with
  | nil =>
    intro gs s D hl _ _
    cases gs with
    | nil => exact ⟨s, rfl, by simp, rfl⟩
    | cons g gs => simp at hl
  | cons p ps ih =>
    intro gs s D hl hd hr
    cases gs with
    | nil => simp at hl
    | cons g gs =>
      obtain ⟨a, b, c⟩ := g
      simp only [duration] at hd
      obtain ⟨s1, h1, hr1, hh1, hn1⟩ := one_iteration n s i p ps D a b c (schedule i ps gs) hr (by omega)
      obtain ⟨s2, h2, hh2, hn2⟩ := ih gs s1 (D - (a + b + c)) (by simpa using hl) (by omega) hr1
      refine ⟨s2, ?_, ?_, ?_⟩
      · simp only [schedule]; rw [h1, h2]
      · rw [hh2, hh1]; simp
      · rw [hn2, hn1]; simp only [duration]; omega

theorem duration_le (MI L : Nat) : ∀ (gs : List (Nat × Nat × Nat)),
    (∀ g, g ∈ gs → g.1 ≤ MI ∧ g.2.1 + g.2.2 ≤ L) → duration gs ≤ gs.length * (MI + L)
  | [], _ => by simp [duration]
  | (a, b, c) :: gs, h => by
    have h1 := h (a, b, c) List.mem_cons_self
    have h2 := duration_le MI L gs (fun g hg => h g (List.mem_cons_of_mem _ hg))
    simp only [duration, List.length_cons]
    have : (gs.length + 1) * (MI + L) = gs.length * (MI + L) + (MI + L) := Nat.succ_mul _ _
    simp only at h1
    omega

/-- **The time bound of C09**: if every iteration sleeps at most `MI` (MaxInterval) and its lease call takes at most `L`
(latency before + after the store processes it), and `k × (MI + L)` is shorter than a lease, then `k` free, needed
partitions are all counted at most `k × (MI + L)` after they became free — which is at most one lease duration after
the last fault / the death of the peer that held them (`dead_peer_free_after_lease`). That the real loop's sleep is
`rand[0, MaxInterval)` ms is read off the source (skeleton of the loop) and watched by the bounded-time monitor. -/
theorem acquired_within_time_bound (n i : Nat) (ps : List Nat) (gs : List (Nat × Nat × Nat)) (s : LSt) (MI L : Nat)
    (hl : ps.length = gs.length) (hb : ∀ g, g ∈ gs → g.1 ≤ MI ∧ g.2.1 + g.2.2 ≤ L)
    (hr : Ready n s i ps (ps.length * (MI + L))) :
    ∃ s', lrun n s (schedule i ps gs) = some s' ∧ (s'.inst i).held = (s.inst i).held ++ ps ∧
      s'.now ≤ s.now + ps.length * (MI + L) := by
  have hd := duration_le MI L gs hb
  rw [← hl] at hd
  obtain ⟨s', h1, h2, h3⟩ := acquires_in_k_iterations n i ps gs s (ps.length * (MI + L)) hl hd hr
  exact ⟨s', h1, h2, by omega⟩

-- non-vacuity: two free partitions, demand for both, two iterations of 1+1+1 s: both held after 6 s (< 15 s)
private def x0 : LInst := { LInst.init .v2 1 0 2 with phase := .started, loopOn := true, parts := 2, target := 2 }
private def s0 : LSt := { now := 100, lease := 15, store := fun p => if p = 0 then some (7, 90) else none, inst := fun _ => x0 }
example : Ready 1 s0 0 [0, 1] 6 := by
  refine ⟨by decide, by decide, by decide, ?_, by decide, ?_, by decide⟩
  · intro p hp; simp at hp; rcases hp with rfl | rfl <;> decide
  · intro j hj t ht; simp [s0, x0, LInst.init] at ht

end GoBatcher.C09

import GoBatcher.Lemmas.CycleShape
/-!
# C10 — MaxConcurrentBatches respected, slots not leaked (cycle level)

Inside one uninterrupted cycle with `n` free slots: a slot is reserved only while one is free, every reserved
slot belongs to exactly one new batch (raised or still open — the open ones are raised by the sweep), so the
number of batches started never exceeds `n`; operations that cannot get a slot stay buffered. The invariant
over the whole machine (`slotsUsed = batches in progress ≤ n`, slots given back on return/time-out) is `C10b`.
-/
namespace GoBatcher.C10
open GoBatcher

theorem cycle_slots (c : Cfg) (buf : List Op) (n : Nat) :
    let r := scan c buf { consumed := 0, openB := [] } (some n)
    ∃ n', r.free = some n' ∧ n' ≤ n ∧ r.raised.length + r.acc.openB.length = n - n' := by
  obtain ⟨n', h1, h2, h3⟩ := scan_slots c buf { consumed := 0, openB := [] } n
  exact ⟨n', h1, h2, by simpa using h3⟩

/-- never more than `n` batches are started by one cycle that began with `n` free slots -/
theorem cycle_batches_le_slots (c : Cfg) (buf : List Op) (n : Nat) :
    let r := scan c buf { consumed := 0, openB := [] } (some n)
    r.raised.length + r.acc.openB.length ≤ n := by
  obtain ⟨n', _, _, h3⟩ := scan_slots c buf { consumed := 0, openB := [] } n
  simp only [List.length_nil, Nat.zero_add] at h3
  show (scan c buf _ (some n)).raised.length + (scan c buf _ (some n)).acc.openB.length ≤ n
  omega

/-- operations that cannot get a slot stay buffered: they are left in place only when no slot is free -/
theorem skipped_only_without_slot (c : Cfg) (buf : List Op) (a : Acc) (free : Option Nat) :
    (scan c buf a free).kept ≠ [] → slotAvail (scan c buf a free).free = false :=
  scan_kept c buf a free

/-- with zero free slots nothing is released and the buffer is unchanged -/
theorem no_slot_no_release (c : Cfg) (buf : List Op) :
    let r := scan c buf { consumed := 0, openB := [] } (some 0)
    r.raised = [] ∧ r.acc.openB = [] := by
  have := cycle_batches_le_slots c buf 0
  intro r
  have h : r.raised.length + r.acc.openB.length ≤ 0 := this
  constructor
  · exact List.eq_nil_of_length_eq_zero (by omega)
  · exact List.eq_nil_of_length_eq_zero (by omega)

-- non-vacuity
private def o (id w : Nat) (b : Bool) : Op := { id := id, obj := id, w := w, cost := 1, batchable := b }
example : (scan { ge := true, limited := false, allow := 0, mb := fun _ => 0 } [o 0 0 false, o 1 0 false, o 2 0 false]
    { consumed := 0, openB := [] } (some 2)).kept = [o 2 0 false] := by decide

end GoBatcher.C10

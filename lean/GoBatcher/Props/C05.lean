import GoBatcher.Lemmas.CycleOrder
/-!
# C05 — Batches respect watcher, batchability, size limit and order

Model: M-Cycle (`scan`, `finishOrder`, `cycleBatches`), both generations (`Cfg.ge`), every buffer content,
every batch-size limit function `mb`, every allowance, every slot limit, every leftover order.
-/
namespace GoBatcher.C05

open GoBatcher

/-- Everything a complete cycle hands to watchers is a well-formed batch: non-empty, only the watcher's own
operations, a non-batchable operation alone, never above MaxBatchSize. -/
theorem batches_well_formed (c : Cfg) (buf : List Op) (free : Option Nat) (sweep : List Batch)
    (hsw : SweepOK c buf free sweep) :
    ∀ p ∈ cycleBatches c buf free sweep, RaisedOK c p := by
  intro p hp
  have hsh := scan_shape c buf { consumed := 0, openB := [] } free (OpenOK_nil c)
  simp only [cycleBatches, List.mem_append] at hp
  rcases hp with hp | hp
  · exact (hsh.2 p hp).1
  · exact (hsh.1.1 p (hsw.mem_iff.mp hp)).raised

/-- "within one cycle a Watcher gets a second batch only after its previous one was full": every batch raised
before the end-of-cycle sweep is a lone non-batchable operation or has exactly MaxBatchSize operations, and
the sweep raises at most one batch per watcher (the open-batch table has one entry per watcher). -/
theorem second_batch_only_after_full (c : Cfg) (buf : List Op) (free : Option Nat) :
    let r := scan c buf { consumed := 0, openB := [] } free
    (∀ p ∈ r.raised, (∃ o, p.2 = [o] ∧ o.batchable = false) ∨ (c.mb p.1 > 0 ∧ p.2.length = c.mb p.1)) ∧
    (r.acc.openB.map (·.1)).Nodup := by
  have hsh := scan_shape c buf { consumed := 0, openB := [] } free (OpenOK_nil c)
  exact ⟨fun p hp => (hsh.2 p hp).2, hsh.1.2⟩

/-- Operations keep buffer (enqueue) order inside every batch, with or without a slot limit. -/
theorem order_inside_batches (c : Cfg) (buf : List Op) (free : Option Nat) (sweep : List Batch)
    (hsw : SweepOK c buf free sweep) :
    ∀ p ∈ cycleBatches c buf free sweep, p.2.Sublist buf := by
  intro p hp
  have hex := scan_extends c buf { consumed := 0, openB := [] } free
  simp only [cycleBatches, List.mem_append] at hp
  have : Extends { consumed := 0, openB := [] } buf p := by
    rcases hp with hp | hp
    · exact hex.1 p hp
    · exact hex.2 p (hsw.mem_iff.mp hp)
  obtain ⟨pre, l, he, hs, hpre⟩ := this
  rcases hpre with hpre | hpre
  · rw [he, hpre]; simpa using hs
  · simp at hpre

/-- Without a concurrency limit each watcher's batchable operations, and all non-batchable operations, are
released in enqueue order: concatenating what the watcher got (in raise order, its leftover batch last)
gives exactly the corresponding subsequence of the scanned prefix of the buffer. -/
theorem fifo_per_class_without_slot_limit (c : Cfg) (buf : List Op) (w : Nat) :
    let r := scan c buf { consumed := 0, openB := [] } none
    ∃ pre, buf = pre ++ r.rest ∧ r.kept = [] ∧
      (opsOf r.raised).filter (selW w) ++ openOf w r.acc.openB = pre.filter (selW w) ∧
      (opsOf r.raised).filter selS = pre.filter selS := by
  obtain ⟨pre, h1, h2, h3⟩ := scan_fifo c w buf { consumed := 0, openB := [] } (OpenOK_nil c)
  exact ⟨pre, h1, scan_unlimited_kept c buf _, by simpa [openOf, lookupB] using h2, h3⟩

/-! ### non-vacuity / sanity: concrete cycles computed by the same definitions -/

private def o (id w cost : Nat) (b : Bool) : Op := { id := id, obj := id, w := w, cost := cost, batchable := b }
private def cfg2 : Cfg := { ge := true, limited := true, allow := 10, mb := fun w => if w = 1 then 2 else 0 }

-- watcher 1 (limit 2) gets [1,2] at once and [4] at the end; the single 3 goes alone; watcher 2 unlimited
example : (scan cfg2 [o 1 1 1 true, o 2 1 1 true, o 3 1 1 false, o 4 1 1 true, o 5 2 1 true]
      { consumed := 0, openB := [] } none).raised = [(1, [o 1 1 1 true, o 2 1 1 true]), (1, [o 3 1 1 false])] := by decide
example : SweepOK cfg2 [o 1 1 1 true, o 2 1 1 true, o 3 1 1 false, o 4 1 1 true, o 5 2 1 true] none
    [(1, [o 4 1 1 true]), (2, [o 5 2 1 true])] := by
  unfold SweepOK
  have : (scan cfg2 [o 1 1 1 true, o 2 1 1 true, o 3 1 1 false, o 4 1 1 true, o 5 2 1 true]
      { consumed := 0, openB := [] } none).acc.openB = [(2, [o 5 2 1 true]), (1, [o 4 1 1 true])] := by decide
  rw [this]; exact List.Perm.swap _ _ _

-- with one slot, watcher 2's operation is skipped and stays buffered
example : cycleBuffer cfg2 [o 1 1 1 true, o 5 2 1 true, o 2 1 1 true] (some 1) = [o 5 2 1 true] := by decide

end GoBatcher.C05

import GoBatcher.Lemmas.Eventer
/-!
# C20 — The public API is safe under concurrent use and listeners see every event  (PARTIAL)

Proved, over M-Eventer (the listener registry of both generations under its RWMutex; any number of concurrent
AddListener / RemoveListener / emit calls, any interleaving, any order of calling the listeners):

* no event reaches a listener after its RemoveListener has returned (`no_delivery_after_remove`);
* every listener registered when the event is raised receives it exactly once, nobody else receives it, and nothing
  is delivered for that event after the emit has returned (`exactly_once`, `snapshot_is_registered`, `nothing_after_return`);
* listeners can be added and removed at any time: the write steps are enabled whenever no emit is in progress, and an
  emit in progress can always make a step (no deadlock inside the registry) (`writes_enabled_when_idle`, `emit_progress`).

NOT proved (the property's first sentence): freedom from data races, panics and deadlock of every public method of
Batcher and SharedResource is a statement about the Go memory model and runtime; it is observed by the `events` and
`stress` families (race detector, watchdog, per-listener logs), which is exploration, not proof.
The documented names and values of the Batcher / SharedResource events are compared on every trace of the hist and
lease families (C01–C19), not here.
-/
namespace GoBatcher.C20
open GoBatcher

def EReach (s : ESt) : Prop := ∃ ls, erun ESt.init ls = some s

theorem reach_inv {s : ESt} (h : EReach s) : EInv s := by
  obtain ⟨ls, h⟩ := h
  exact run_einv ls _ s h einv_init

/-- **No event reaches a listener after RemoveListener has returned.** -/
theorem no_delivery_after_remove {s s' : ESt} (hr : EReach s) (ev id : Nat) (h : estep s (.deliver ev id) = some s') :
    id ∉ s.removed := by
  have hi := reach_inv hr
  simp only [estep] at h
  split at h <;> cases h
  rename_i hg
  simp only [Bool.and_eq_true, List.contains_eq_mem, decide_eq_true_eq] at hg
  intro hrm
  exact hi.rem id hrm ((hi.pend ev hg.1).2 id hg.2).1

/-- a removed listener stays removed: ids are never reused -/
theorem removed_forever (s s' : ESt) (l : ELabel) (h : estep s l = some s') (id : Nat) (hr : id ∈ s.removed) : id ∈ s'.removed := by
  cases l <;> simp only [estep] at h <;> split at h <;> cases h <;> first | exact hr | exact List.mem_cons_of_mem _ hr

/-- the emit's snapshot is exactly the listeners registered at the moment it takes the lock -/
theorem snapshot_is_registered (s s' : ESt) (ev : Nat) (h : estep s (.emitBegin ev) = some s') :
    (s'.em ev).snap = s.listeners := by
  simp only [estep] at h
  split at h <;> cases h
  simp

/-- **Exactly once.** When an emit has returned, every listener of its snapshot has been called exactly once for
that event and nobody else has been called for it. -/
theorem exactly_once {s : ESt} (hr : EReach s) (ev : Nat) (hf : ev ∈ s.finished) (id : Nat) :
    s.log.count (ev, id) = if id ∈ (s.em ev).snap then 1 else 0 := (reach_inv hr).fin ev hf id

/-- … and that stays so: nothing is delivered for an event whose emit has returned, and its record never changes -/
theorem nothing_after_return {s : ESt} (hr : EReach s) (ev id : Nat) (hf : ev ∈ s.finished) :
    estep s (.deliver ev id) = none := by
  have hi := reach_inv hr
  simp only [estep]
  split
  · rename_i hg
    simp only [Bool.and_eq_true, List.contains_eq_mem, decide_eq_true_eq] at hg
    exact absurd hf (hi.afresh ev hg.1)
  · rfl

theorem finished_forever (s s' : ESt) (l : ELabel) (h : estep s l = some s') (ev : Nat) (hf : ev ∈ s.finished) :
    ev ∈ s'.finished ∧ (s'.em ev).snap = (s.em ev).snap ∨ ev ∈ s.active := by
  cases l <;> simp only [estep] at h <;> split at h <;> cases h
  · exact Or.inl ⟨hf, rfl⟩
  · exact Or.inl ⟨hf, rfl⟩
  · rename_i ev' hg
    simp only [Bool.and_eq_true, Bool.not_eq_true', List.contains_eq_mem, decide_eq_false_iff_not] at hg
    have : ev ≠ ev' := by intro e; subst e; exact hg.2 hf
    exact Or.inl ⟨hf, by simp [updE_other _ _ _ _ this]⟩
  · rename_i ev' id' hg
    by_cases he : ev = ev'
    · subst he
      simp only [Bool.and_eq_true, List.contains_eq_mem, decide_eq_true_eq] at hg
      exact Or.inr hg.1
    · exact Or.inl ⟨hf, by simp [updE_other _ _ _ _ he]⟩
  · exact Or.inl ⟨List.mem_cons_of_mem _ hf, rfl⟩

/-- **Listeners can be added and removed at any time**: whenever no emit is in progress, RemoveListener of any id and
AddListener of a fresh id are enabled -/
theorem writes_enabled_when_idle (s : ESt) (hidle : s.active = []) (id : Nat) :
    (∃ s', estep s (.remove id) = some s') ∧
    (id ∉ s.listeners → id ∉ s.removed → ∃ s', estep s (.add id) = some s') := by
  constructor
  · simp [estep, hidle]
  · intro h1 h2; simp [estep, hidle, h1, h2]

/-- an emit in progress can always take a step: call a pending listener or return (the registry never blocks it) -/
theorem emit_progress (s : ESt) (ev : Nat) (h : ev ∈ s.active) :
    (∃ id s', estep s (.deliver ev id) = some s') ∨ (∃ s', estep s (.emitEnd ev) = some s') := by
  cases hp : (s.em ev).pending with
  | nil => exact Or.inr (by simp [estep, h, hp])
  | cons id t => exact Or.inl ⟨id, by simp [estep, h, hp]⟩

/-- while an emit is in progress the registry does not change: the write steps are not enabled -/
theorem no_write_during_emit (s : ESt) (ev : Nat) (h : ev ∈ s.active) (id : Nat) :
    estep s (.add id) = none ∧ estep s (.remove id) = none := by
  have : s.active.isEmpty = false := by
    cases hs : s.active with
    | nil => rw [hs] at h; cases h
    | cons a t => rfl
  simp [estep, this]

-- non-vacuity: two listeners, an emit delivering to both in the other order, a removal afterwards, a second emit reaching only the remaining one
example : ∃ s, erun ESt.init [.add 1, .add 2, .emitBegin 10, .deliver 10 1, .deliver 10 2, .emitEnd 10, .remove 1,
    .emitBegin 11, .deliver 11 2, .emitEnd 11] = some s ∧ s.log = [(11, 2), (10, 2), (10, 1)] ∧ s.removed = [1] :=
  ⟨_, rfl, by decide, by decide⟩
-- the removed listener cannot be reached by the second emit
example : (erun ESt.init [.add 1, .add 2, .remove 1, .emitBegin 11, .deliver 11 1]).isNone = true := by decide

end GoBatcher.C20

import GoBatcher.Lemmas.BatcherReach2
/-!
# C12 — The limiter is told the current demand every CapacityInterval

Model: M-Batcher. All clauses are invariants or one-step facts, so no temporal logic is needed:
a tick is a `fireC` at exactly `nextC` (every CapacityInterval after Start), the request is the `takeCap`
that consumes it.
-/
namespace GoBatcher.C12
open GoBatcher

/-- A request is made with the current NeedsCapacity() value (including zero), only when a limiter is
attached, and only by an idle loop (not sleeping = paused, not exited = shut down, not before Start). -/
theorem request_carries_current_demand (c : BCfg) (s s' : St) (h : step c s .takeCap = some s') :
    s.loop = .idle ∧ s.tickC = true ∧ s'.tickC = false ∧
    s'.giveMes = (if c.limited then s.giveMes ++ [(s.now, s.target)] else s.giveMes) := by
  simp only [step] at h
  split at h <;> cases h
  rename_i hg
  simp only [Bool.and_eq_true, beq_iff_eq] at hg
  exact ⟨hg.1, hg.2, rfl, rfl⟩

/-- GiveMe is called by nothing else: every other action leaves the request log alone. -/
theorem only_takeCap_requests (c : BCfg) (s s' : St) (l : Label) (hl : l ≠ .takeCap) (h : step c s l = some s') :
    s'.giveMes = s.giveMes := by
  cases l <;> simp only [step] at h <;> (repeat' split at h) <;> (try cases h) <;>
    first
    | rfl
    | exact absurd rfl hl
    | (simp only [raise_giveMes, afterTake_counters]; done)
    | (simp [shutdownV1, shutdownV2, enqOk, enqRefuse, enqBlock, unwake, doAudit, markCbDone, markFinished, doSetCost]; done)

/-- ticks are exactly CapacityInterval apart: a tick fires at `nextC` and moves it by CapacityInterval
(default 100 ms when ≤ 0); Start puts the first one CapacityInterval after Start -/
theorem ticks_every_interval (c : BCfg) (s s' : St) :
    (step c s .fireC = some s' → s.now = s.nextC ∧ s'.nextC = s.nextC + c.capInt ∧ s'.tickC = true) ∧
    (step c s .startCall = some s' → s'.nextC = s.now + c.capInt) := by
  constructor
  · intro h
    simp only [step] at h
    split at h <;> cases h
    rename_i hg
    simp only [Bool.and_eq_true, beq_iff_eq] at hg
    exact ⟨hg.2, rfl, rfl⟩
  · intro h
    simp only [step] at h
    split at h <;> cases h
    rfl

theorem capacity_interval_default (v : Int) (h : v ≤ 0) : applyDefault v defCap = 100000000 := by
  simp [applyDefault, h, defCap]

/-- Exactly once: along every run the number of requests never exceeds the number of ticks (a tick is
answered at most once — ticks that pile up during a pause coalesce into one) … -/
theorem at_most_one_request_per_tick (c : BCfg) (ls : List Label) (s : St)
    (h : run c (St.init c) ls = some s) : ls.count .takeCap + b2n s.tickC ≤ ls.count .fireC := by
  have := run_requests_le_ticks c ls (St.init c) s h
  simpa [St.init, b2n] using this

/-- … and at least once: while running and not paused, time cannot pass over an unanswered tick (nor over an
unanswered audit tick, flush tick or Flush() request) — the request is made at the tick's own instant. -/
theorem tick_answered_before_time_moves (s : St) (dt : Nat) (h : canAdvance s dt = true) (hl : s.loop = .idle) :
    s.tickC = false := (idle_time_passes_only_when_nothing_ready s dt h hl).2.2.2.1

/-- time cannot pass over a due tick either: it fires at exactly `nextC` -/
theorem tick_fires_on_time (s : St) (dt : Nat) (h : canAdvance s dt = true) (hr : tickersRunning s = true) :
    s.now + dt ≤ s.nextC := by
  unfold canAdvance at h
  simp only [Bool.and_eq_true, hr, Bool.not_true, Bool.false_or, decide_eq_true_eq] at h
  exact h.1.1.2.1.2

/-- No request during a pause or after shutdown: `takeCap` is not enabled then. -/
theorem no_request_while_paused_or_stopped (c : BCfg) (s : St) (h : (∃ u, s.loop = .sleeping u) ∨ s.loop = .exited ∨ s.loop = .notStarted) :
    step c s .takeCap = none := by
  rcases h with ⟨u, h⟩ | h | h
  · exact sleeping_blocks_loop c s u _ h rfl
  · exact exited_blocks_loop c s _ h (Or.inl rfl)
  · exact notStarted_blocks_loop c s _ h (Or.inl rfl)

-- non-vacuity: two ticks, two requests with the demand of the moment (0, then 7)
private def cfg : BCfg :=
  { gen := .v2, bufCap := 4, limited := true, flushInt := 1000, capInt := 10, auditInt := 1000, mot := 50, pause := 7,
    errorOnFull := false, mcb := 0, wMaxBatch := fun _ => 0, wMot := fun _ => 0, rollback := true, wos := true }
private def op7 : Op := { id := 1, obj := 1, w := 0, cost := 7, batchable := true }
example : ∃ s, run cfg (St.init cfg) [.startCall, .advance 10, .fireC, .takeCap, .enqCount 1 op7, .enqInsert 1,
    .advance 10, .fireC, .takeCap] = some s ∧ s.giveMes = [(10, 0), (20, 7)] := ⟨_, rfl, by decide⟩

end GoBatcher.C12

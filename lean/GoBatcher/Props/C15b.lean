import GoBatcher.Lemmas.BufferLinked
import GoBatcher.Props.C15
/-!
C15 (linked representation): the v2 buffer AS THE CODE HAS IT — a doubly linked list on a heap with head / tail /
cursor pointers and a separate length counter (`Model/BufferLinked.lean`, transcribed statement by statement from
/repo/v2/buffer.go) — refines the list-with-cursor model that the blocked-caller machine and the Batcher machine
use (`Model/Buffer.lean`):

* for EVERY sequence of buffer operations, of any length, starting from `newBuffer(cap)`, the linked buffer
  returns exactly what the list model returns, operation by operation;
* it never panics: neither `panic("removing from empty buffer ...")`, nor `panic("a buffer tail was not found")`,
  nor a nil-pointer dereference is reachable;
* its `len` field always equals the number of linked nodes and never exceeds `cap` (with C15's L1 bound).
-/
namespace GoBatcher

inductive BOp where
  | top | skip | remove
  | enqueue (op : Op) (errorOnFull : Bool)
  | shutdown
  | size
deriving Repr, DecidableEq

inductive BOut where
  | op (o : Option Op)
  | enq (r : EnqRes)
  | unit
  | size (n : Nat)
deriving Repr, DecidableEq

def Buf.apply (a : Buf) : BOp → Buf × BOut
  | .top => (a.top.1, .op a.top.2)
  | .skip => (a.skip.1, .op a.skip.2)
  | .remove => (a.remove.1, .op a.remove.2)
  | .enqueue op eof => ((a.enqueue op eof).1, .enq (a.enqueue op eof).2)
  | .shutdown => (a.shutdown, .unit)
  | .size => (a, .size a.size)

/-- `none` = the Go code panics -/
def LBuf.apply (b : LBuf) : BOp → Option (LBuf × BOut)
  | .top => b.top.map (fun r => (r.1, .op r.2))
  | .skip => b.skip.map (fun r => (r.1, .op r.2))
  | .remove => b.remove.map (fun r => (r.1, .op r.2))
  | .enqueue op eof => (b.enqueue op eof).map (fun r => (r.1, .enq r.2))
  | .shutdown => some (b.shutdown, .unit)
  | .size => some (b, .size b.size)

def Buf.runOps : Buf → List BOp → Buf × List BOut
  | a, [] => (a, [])
  | a, o :: os => let r := a.apply o; let rest := Buf.runOps r.1 os; (rest.1, r.2 :: rest.2)

def LBuf.runOps : LBuf → List BOp → Option (LBuf × List BOut)
  | b, [] => some (b, [])
  | b, o :: os => (b.apply o).bind fun r => (LBuf.runOps r.1 os).map fun rest => (rest.1, r.2 :: rest.2)

/-- one operation: same result, representation kept, no panic -/
theorem C15_L0_step_refines {b : LBuf} {ns : List (Nat × Op)} {a : Buf} (h : Rep b ns a) (o : BOp) :
    ∃ b' ns', b.apply o = some (b', (a.apply o).2) ∧ Rep b' ns' (a.apply o).1 := by
  cases o with
  | top => obtain ⟨b', h1, h2⟩ := top_refines h; exact ⟨b', ns, by simp [LBuf.apply, Buf.apply, h1], h2⟩
  | skip => obtain ⟨b', h1, h2⟩ := skip_refines h; exact ⟨b', ns, by simp [LBuf.apply, Buf.apply, h1], h2⟩
  | remove => obtain ⟨b', ns', h1, h2⟩ := remove_refines h; exact ⟨b', ns', by simp [LBuf.apply, Buf.apply, h1], h2⟩
  | enqueue op eof =>
    obtain ⟨b', ns', h1, h2⟩ := enqueue_refines h op eof
    exact ⟨b', ns', by simp [LBuf.apply, Buf.apply, h1], h2⟩
  | shutdown => exact ⟨b.shutdown, [], rfl, shutdown_refines h⟩
  | size => exact ⟨b, ns, by simp [LBuf.apply, Buf.apply, LBuf.size, Buf.size, h.len, h.items_len], h⟩

/-- any sequence of operations, from any represented state -/
theorem C15_L0_run_refines : ∀ (os : List BOp) {b : LBuf} {ns : List (Nat × Op)} {a : Buf}, Rep b ns a →
    ∃ b' ns', LBuf.runOps b os = some (b', (Buf.runOps a os).2) ∧ Rep b' ns' (Buf.runOps a os).1
  | [], b, ns, a, h => ⟨b, ns, rfl, h⟩
  | o :: os, b, ns, a, h => by
    obtain ⟨b1, ns1, e1, h1⟩ := C15_L0_step_refines h o
    obtain ⟨b2, ns2, e2, h2⟩ := C15_L0_run_refines os h1
    exact ⟨b2, ns2, by simp [LBuf.runOps, Buf.runOps, e1, e2], h2⟩

/-- C15 / C01 / C08 (linked list): from `newBuffer(cap)`, every operation sequence returns what the list model returns -/
theorem C15_L0_refines_L1 (cap : Nat) (os : List BOp) :
    (LBuf.runOps (LBuf.new cap) os).map (·.2) = some (Buf.runOps (Buf.new cap) os).2 := by
  obtain ⟨b', ns', e, _⟩ := C15_L0_run_refines os (rep_new cap)
  rw [e]; rfl

/-- … and never panics (explicit panics and nil dereferences are all `none`) -/
theorem C15_L0_never_panics (cap : Nat) (os : List BOp) : (LBuf.runOps (LBuf.new cap) os).isSome = true := by
  obtain ⟨b', ns', e, _⟩ := C15_L0_run_refines os (rep_new cap)
  rw [e]; rfl

/-- the list model never holds more than `cap` operations -/
theorem buf_apply_bounded (a : Buf) (o : BOp) (h : a.items.length ≤ a.cap) :
    (a.apply o).1.items.length ≤ (a.apply o).1.cap ∧ (a.apply o).1.cap = a.cap := by
  cases o with
  | top => simp only [Buf.apply, Buf.top]; split <;> exact ⟨h, rfl⟩
  | skip => simp only [Buf.apply, Buf.skip]; split <;> (try split) <;> exact ⟨h, rfl⟩
  | remove =>
    simp only [Buf.apply, Buf.remove]
    split
    · exact ⟨h, rfl⟩
    · rename_i i _
      have : (a.items.eraseIdx i).length ≤ a.items.length := List.length_eraseIdx_le ..
      split <;> exact ⟨by simp only; omega, rfl⟩
  | enqueue op eof =>
    simp only [Buf.apply, Buf.enqueue]
    split
    · exact ⟨h, rfl⟩
    · split
      · exact ⟨h, rfl⟩
      · refine ⟨?_, rfl⟩; simp only [List.length_append, List.length_singleton]; omega
  | shutdown => simp [Buf.apply, Buf.shutdown]
  | size => exact ⟨h, rfl⟩

theorem buf_run_bounded : ∀ (os : List BOp) (a : Buf), a.items.length ≤ a.cap →
    (Buf.runOps a os).1.items.length ≤ a.cap ∧ (Buf.runOps a os).1.cap = a.cap
  | [], _, h => ⟨h, rfl⟩
  | o :: os, a, h => by
    have h1 := buf_apply_bounded a o h
    have h2 := buf_run_bounded os (a.apply o).1 h1.1
    simp only [Buf.runOps]
    rw [h1.2] at h2; exact h2

/-- C15 (linked list): the `len` field (what `OperationsInBuffer()` returns) counts the linked nodes and never exceeds
the configured size, after every operation sequence -/
theorem C15_L0_len_bounded (cap : Nat) (os : List BOp) :
    ∃ b, LBuf.runOps (LBuf.new cap) os = some (b, (Buf.runOps (Buf.new cap) os).2) ∧ b.len ≤ cap ∧ b.cap = cap ∧
      b.len = (Buf.runOps (Buf.new cap) os).1.items.length := by
  obtain ⟨b', ns', e, hr⟩ := C15_L0_run_refines os (rep_new cap)
  have hb := buf_run_bounded os (Buf.new cap) (by simp [Buf.new])
  simp only [Buf.new] at hb
  refine ⟨b', e, ?_, ?_, ?_⟩
  · rw [hr.len, ← hr.items_len]; exact hb.1
  · rw [hr.cap]; exact hb.2
  · rw [hr.len, ← hr.items_len]

/-- non-vacuity: a concrete run through all four `remove` cases and both `enqueue` cases -/
example :
    let o1 : Op := { id := 1, obj := 1, w := 0, cost := 1, batchable := true }
    let o2 : Op := { id := 2, obj := 2, w := 0, cost := 1, batchable := true }
    let o3 : Op := { id := 3, obj := 3, w := 0, cost := 1, batchable := true }
    (LBuf.runOps (LBuf.new 3) [.enqueue o1 false, .enqueue o2 false, .enqueue o3 false, .enqueue o1 true,
        .top, .skip, .remove, .remove, .top, .remove, .size, .remove, .enqueue o2 false, .top]).map (·.2) =
      some [.enq .ok, .enq .ok, .enq .ok, .enq .full, .op (some o1), .op (some o2), .op (some o3), .op none,
            .op (some o1), .op none, .size 0, .op none, .enq .ok, .op (some o2)] := by decide

end GoBatcher

import GoBatcher.Lemmas.BatcherReach
/-!
# C03 — NeedsCapacity equals the cost of all outstanding operations

Model: M-Batcher, all label sequences (concurrent enqueuers, rejected enqueues of every kind, batches that
return early, late or never, audits at any point, pauses, shutdown), both generations.

`outstanding s` = cost of (buffered ⊎ counted-but-not-yet-inserted or blocked callers ⊎ open batches of the
running cycle ⊎ raised batches not yet finished) + what a shutdown discarded.

Full statement `C03_full`: `NeedsCapacity = outstanding` in every reachable state. On the current code this
does NOT hold unconditionally; the file proves the strongest true statement (`C03_partial`, the exclusions are
named in `cleanStep`) and refutes the full one by concrete executions of the model that are replayed on the
implementation by the hist family (findings F3, F9).
-/
namespace GoBatcher.C03
open GoBatcher

/-- the full-strength statement -/
def C03_full (c : BCfg) : Prop := ∀ s, Reachable c s → s.target = outstanding s

/-- Proved: along every run in which (a) costs are constant, (b) v1 is not asked to enqueue after its buffer
channel was closed and nobody is blocked on it at shutdown (finding F3), (c) no audit fires while an Enqueue sits
between counting and inserting (finding F9), with Enqueue taking the cost back on refusal (fact `rollbackOnInsertError`,
true since the fix of F1/F2) and no watcher MaxOperationTime above the Batcher's: NeedsCapacity equals the cost
of everything outstanding — never under- or over-counting. -/
theorem C03_partial (c : BCfg) (hroll : c.rollback = true) (hw : ∀ w, effMot c w ≤ c.mot)
    (ls : List Label) (s : St) (hrun : run c (St.init c) ls = some s)
    (hclean : AllSteps c (cleanStep c) (St.init c) ls) : s.target = outstanding s :=
  run_acct c hroll hw ls _ s hrun hclean (inv_init c) (acct_init c)

/-- It returns to zero when nothing is outstanding. -/
theorem zero_when_nothing_outstanding (c : BCfg) (hroll : c.rollback = true) (hw : ∀ w, effMot c w ≤ c.mot)
    (ls : List Label) (s : St) (hrun : run c (St.init c) ls = some s)
    (hclean : AllSteps c (cleanStep c) (St.init c) ls) (h0 : outstanding s = 0) : s.target = 0 := by
  rw [C03_partial c hroll hw ls s hrun hclean, h0]

/-- It never wraps below zero: whenever a batch finishes, its cost is still contained in the figure, so the
saturating subtraction `incTarget(-total)` never saturates. -/
theorem finish_never_saturates (c : BCfg) (s : St) (b : Nat) (x : RBatch)
    (hid : IdsOK s) (ha : Acct s) (hf : s.batches.find? (fun y => y.id == b) = some x) (hu : x.finished = false) :
    batchCost x ≤ s.target := by
  have hx : x ∈ s.batches := List.mem_of_find?_eq_some hf
  have hxid : x.id = b := by have := List.find?_some hf; simpa using this
  have := costUnfinished_mark s.batches b x hid.2 hx hxid hu
  unfold Acct outstanding at ha
  omega

/-- An Enqueue that is refused by the buffer (full / shut down) leaves NeedsCapacity as it was before the call:
counting and taking back cancel exactly (no saturation under the invariant). -/
theorem refused_enqueue_leaves_demand_unchanged (s : St) (k : Nat) (op : Op) (r : EnqRes)
    (hp : PendOK s) (hm : (k, op) ∈ s.pend) (ha : Acct s) :
    (enqRefuse s k op r true).target + op.cost = s.target := by
  have hrm := costPend_remove k op s.pend hp.1 hm
  unfold Acct outstanding at ha
  simp only [enqRefuse, decTarget, if_true]
  omega

/-- A rejected (invalid) Enqueue changes nothing at all. -/
theorem rejected_enqueue_no_effect (c : BCfg) (s : St) (k : Nat) (e : Err) : step c s (.enqReject k e) = some s := rfl

/-! ### the full statement fails on the model of the current code: concrete executions -/

private def cfgV (g : Gen) (roll : Bool) : BCfg :=
  { gen := g, bufCap := 1, limited := false, flushInt := 100, capInt := 100, auditInt := 50, mot := 10, pause := 5,
    errorOnFull := true, mcb := 0, wMaxBatch := fun _ => 0, wMot := fun _ => 0, rollback := roll, wos := true }
private def op7 : Op := { id := 1, obj := 1, w := 0, cost := 7, batchable := true }
private def op2 : Op := { id := 2, obj := 2, w := 0, cost := 2, batchable := true }

/-- F9 (both generations): the audit tick fires while an Enqueue has counted its cost but not yet inserted the
operation (the hook point `enqueue:counted`): the buffer is empty, so the audit zeroes a correct figure. -/
def f9Run : List Label := [.startCall, .enqCount 1 op7, .advance 50, .fireA, .takeAudit]

theorem C03_counterexample_audit_in_flight : ¬ C03_full (cfgV .v2 true) := by
  intro h
  have hr : ∃ s, run (cfgV .v2 true) (St.init (cfgV .v2 true)) f9Run = some s ∧ s.target = 0 ∧ outstanding s = 7 := by
    refine ⟨_, rfl, ?_, ?_⟩ <;> decide
  obtain ⟨s, hs, ht, ho⟩ := hr
  have := h s ⟨f9Run, hs⟩
  omega

/-- F3 (v1): an Enqueue that arrives after Stop() has closed the buffer channel counts its cost and then panics. -/
def f3Run : List Label := [.startCall, .stopCall, .takeStop, .enqCount 1 op7, .enqInsert 1]

theorem C03_counterexample_v1_after_stop : ¬ C03_full (cfgV .v1 true) := by
  intro h
  have hr : ∃ s, run (cfgV .v1 true) (St.init (cfgV .v1 true)) f3Run = some s ∧ s.target = 7 ∧ outstanding s = 0 := by
    refine ⟨_, rfl, ?_, ?_⟩ <;> decide
  obtain ⟨s, hs, ht, ho⟩ := hr
  have := h s ⟨f3Run, hs⟩
  omega

/-- Regression witness for F1: on code that does not take the cost back (`rollback = false`), a BufferFull
refusal leaves the cost in the figure. -/
def f1Run : List Label := [.enqCount 1 op2, .enqInsert 1, .enqCount 2 op7, .enqInsert 2]

theorem C03_counterexample_without_rollback : ¬ C03_full (cfgV .v2 false) := by
  intro h
  have hr : ∃ s, run (cfgV .v2 false) (St.init (cfgV .v2 false)) f1Run = some s ∧ s.target = 9 ∧ outstanding s = 2 := by
    refine ⟨_, rfl, ?_, ?_⟩ <;> decide
  obtain ⟨s, hs, ht, ho⟩ := hr
  have := h s ⟨f1Run, hs⟩
  omega

/-! ### non-vacuity: a clean run that exercises every class of outstanding cost -/

private def cfgN : BCfg :=
  { gen := .v2, bufCap := 1, limited := false, flushInt := 100, capInt := 100, auditInt := 1000, mot := 50, pause := 5,
    errorOnFull := false, mcb := 0, wMaxBatch := fun _ => 0, wMot := fun _ => 0, rollback := true, wos := true }

/-- op2 is delivered and still in its callback, op7 is buffered, a third caller is blocked on the full buffer -/
def cleanRun : List Label :=
  [.startCall, .enqCount 1 op2, .enqInsert 1, .advance 100, .fireF, .fireC, .takeFlushTick, .cycleBegin 0, .cycleStep,
   .scanEnd, .sweepOne 0, .cycleEnd, .takeCap, .enqCount 2 op7, .enqInsert 2, .enqCount 3 op2, .enqInsert 3]

example : ∃ s, run cfgN (St.init cfgN) cleanRun = some s ∧ s.target = 11 ∧ outstanding s = 11 ∧
    s.bm.buf.items.length = 1 ∧ s.bm.waiting.length = 1 ∧ (unfinished s).length = 1 := by
  refine ⟨_, rfl, ?_, ?_, ?_, ?_, ?_⟩ <;> decide

example : AllSteps cfgN (cleanStep cfgN) (St.init cfgN) cleanRun := by
  simp [AllSteps, cleanRun, cleanStep, cfgN]

end GoBatcher.C03

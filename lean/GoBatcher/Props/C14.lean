import GoBatcher.Model.Validate
/-!
# C14 — Enqueue admits exactly the valid operations (pure part)

The side-effect and attempt-counting clauses are proved on the Batcher machine (`Props/C14b.lean`).
-/
namespace GoBatcher.C14
open GoBatcher

theorem noOperation_iff (i : EnqInput) : validate i = some .noOperation ↔ i.hasOp = false := by
  unfold validate; cases i.hasOp <;> simp <;> (repeat' split) <;> simp

theorem noWatcher_iff (i : EnqInput) :
    validate i = some .noWatcher ↔ i.hasOp = true ∧ i.hasWatcher = false := by
  unfold validate; cases i.hasOp <;> cases i.hasWatcher <;> simp <;> (repeat' split) <;> simp

theorem tooExpensive_iff (i : EnqInput) :
    validate i = some .tooExpensive ↔
      i.hasOp = true ∧ i.hasWatcher = true ∧ i.limited = true ∧ i.cost > i.maxCap := by
  unfold validate; cases i.hasOp <;> cases i.hasWatcher <;> cases i.limited <;> simp <;> (repeat' split) <;> simp_all

theorem tooManyAttempts_iff (i : EnqInput) :
    validate i = some .tooManyAttempts ↔
      i.hasOp = true ∧ i.hasWatcher = true ∧ ¬ (i.limited = true ∧ i.cost > i.maxCap) ∧
      i.maxAttempts > 0 ∧ i.attempt ≥ i.maxAttempts := by
  unfold validate; cases i.hasOp <;> cases i.hasWatcher <;> cases i.limited <;> simp <;> (repeat' split) <;> simp_all <;> omega

/-- every other operation is accepted … -/
theorem accepted_iff (i : EnqInput) :
    validate i = none ↔
      i.hasOp = true ∧ i.hasWatcher = true ∧ (i.limited = true → i.cost ≤ i.maxCap) ∧
      (i.maxAttempts > 0 → i.attempt < i.maxAttempts) := by
  unfold validate; cases i.hasOp <;> cases i.hasWatcher <;> cases i.limited <;> simp <;> (repeat' split) <;> simp_all <;> omega

/-- … including cost equal to MaxCapacity() and any cost when no limiter is attached. -/
theorem cost_eq_max_accepted (i : EnqInput) (h1 : i.hasOp = true) (h2 : i.hasWatcher = true)
    (hc : i.cost = i.maxCap) (ha : i.maxAttempts = 0) : validate i = none := by
  rw [accepted_iff]; exact ⟨h1, h2, fun _ => by omega, fun h => by omega⟩

theorem any_cost_without_limiter (i : EnqInput) (h1 : i.hasOp = true) (h2 : i.hasWatcher = true)
    (hl : i.limited = false) (ha : i.maxAttempts = 0) : validate i = none := by
  rw [accepted_iff]; exact ⟨h1, h2, fun h => by simp [hl] at h, fun h => by omega⟩

/-- after the MaxAttempts-th delivery re-enqueueing is refused (attempt counter = deliveries, see C14b) -/
theorem refused_after_max_attempts (i : EnqInput) (h1 : i.hasOp = true) (h2 : i.hasWatcher = true)
    (hc : i.limited = true → i.cost ≤ i.maxCap) (hk : i.maxAttempts > 0) (ha : i.attempt ≥ i.maxAttempts) :
    validate i = some .tooManyAttempts := by
  rw [tooManyAttempts_iff]; exact ⟨h1, h2, fun ⟨hl, hgt⟩ => by have := hc hl; omega, hk, ha⟩

-- non-vacuity
example : validate { hasOp := true, hasWatcher := true, limited := true, maxCap := 5, cost := 5, maxAttempts := 3, attempt := 2 } = none := by decide
example : validate { hasOp := true, hasWatcher := true, limited := true, maxCap := 5, cost := 6, maxAttempts := 3, attempt := 3 } = some .tooExpensive := by decide

end GoBatcher.C14

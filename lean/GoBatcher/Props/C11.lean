import GoBatcher.Lemmas.BatcherReach2
/-!
# C11 — A stuck callback is written off exactly at MaxOperationTime

Model: M-Batcher. `finish b` is the batch goroutine passing its `select` (callback returned or
`time.After(maxOperationTime)` fired): it subtracts the batch cost from the target and releases the slot.
"Exactly" is exact in the model's / synctest's time.
-/
namespace GoBatcher.C11
open GoBatcher

/-- which limit applies: the Watcher's MaxOperationTime if set (> 0), otherwise the Batcher's, whose default
(when unset, zero or negative) is one minute -/
theorem limit_precedence (c : BCfg) (w : Nat) :
    effMot c w = (if c.wMot w > 0 then c.wMot w else c.mot) := rfl

theorem batcher_default (v : Int) (h : v ≤ 0) : applyDefault v defMot = 60000000000 := by
  simp [applyDefault, h, defMot]

theorem explicit_value_kept (v d : Int) (h : v > 0) : (applyDefault v d : Int) = v := by
  have : ¬ v ≤ 0 := by omega
  simp [applyDefault, this]; omega

/-- every batch's deadline is its raise time + the applicable limit -/
theorem deadline_is_raise_plus_limit (c : BCfg) (s : St) (h : Reachable c s) :
    ∀ b ∈ s.batches, b.deadline = b.raisedAt + effMot c b.w := by
  intro b hb
  obtain ⟨t, _, _, hd⟩ := (reachable_inv c s h).time.2.1 b hb
  exact hd

/-- not earlier: a batch is finished only if its callback returned or its deadline has been reached -/
def FinOK (s : St) : Prop := ∀ b ∈ s.batches, b.finished = true → b.cbDone = true ∨ b.deadline ≤ s.now

theorem finOK_congr {s s' : St} (hb : s'.batches = s.batches) (hn : s'.now = s.now) (h : FinOK s) : FinOK s' := by
  unfold FinOK at *; rw [hb, hn]; exact h

theorem raise_finOK (c : BCfg) (s : St) (p : Batch) (h : FinOK s) : FinOK (raise c s p) := by
  unfold raise
  split
  · exact h
  · intro y hy hfin
    simp only [List.mem_append, List.mem_singleton] at hy
    rcases hy with hy | hy
    · exact h y hy hfin
    · subst hy; simp at hfin

set_option linter.unusedSimpArgs false in
theorem step_finOK (c : BCfg) (s s' : St) (l : Label) (h : step c s l = some s') (hid : IdsOK s) (hi : FinOK s) : FinOK s' := by
  unfold FinOK at *
  cases l with
  | finish b =>
    simp only [step] at h
    split at h
    · cases h
    · rename_i x hf
      split at h <;> cases h
      rename_i hg
      simp only [Bool.and_eq_true, Bool.not_eq_true', Bool.or_eq_true, decide_eq_true_eq] at hg
      have hx : x ∈ s.batches := List.mem_of_find?_eq_some hf
      have hxid : x.id = b := by have := List.find?_some hf; simpa using this
      intro y hy hfin
      simp only [markFinished, List.mem_map] at hy
      obtain ⟨z, hz, rfl⟩ := hy
      by_cases hzb : z.id = b
      · have hzx : x = z := ids_unique s.batches hid.2 x z hx hz (by rw [hxid, hzb])
        subst hzx
        simp only [hzb, beq_self_eq_true, if_true]
        exact hg.2
      · have : (z.id == b) = false := by simpa using hzb
        simp only [this] at hfin ⊢
        exact hi z hz hfin
  | cbReturn b =>
    simp only [step] at h
    split at h <;> cases h
    intro y hy hfin
    simp only [markCbDone, List.mem_map] at hy
    obtain ⟨z, hz, rfl⟩ := hy
    by_cases hzb : z.id = b
    · simp [hzb]
    · have : (z.id == b) = false := by simpa using hzb
      simp only [this] at hfin ⊢
      exact hi z hz hfin
  | advance dt =>
    simp only [step] at h
    split at h <;> cases h
    intro y hy hfin
    rcases hi y hy hfin with h1 | h1
    · exact Or.inl h1
    · exact Or.inr (Nat.le_trans h1 (Nat.le_add_right _ _))
  | setCost obj cost =>
    simp only [step] at h; cases h
    intro y hy hfin
    simp only [doSetCost, List.mem_map] at hy
    obtain ⟨z, hz, rfl⟩ := hy
    exact hi z hz hfin
  | cycleStep =>
    simp only [step] at h
    (repeat' split at h) <;> (try cases h) <;>
      first
      | exact hi
      | exact finOK_congr (by simp) (by simp) hi
      | exact raise_finOK c _ _ (finOK_congr (by simp) (by simp) hi)
  | sweepOne w =>
    simp only [step] at h
    (repeat' split at h) <;> (try cases h)
    rename_i b hb
    exact finOK_congr (s := raise c s (w, b)) rfl rfl (raise_finOK c s _ hi)
  | _ =>
    simp only [step] at h <;> (repeat' split at h) <;> (try cases h) <;>
      first
      | exact hi
      | (simp_all [shutdownV1, shutdownV2, enqOk, enqRefuse, enqBlock, unwake, doAudit]; done)

theorem run_finOK (c : BCfg) : ∀ (ls : List Label) (s s' : St), run c s ls = some s' → Inv c s → FinOK s → FinOK s' := by
  intro ls
  induction ls with
  | nil => intro s s' h _ hf; simp [run] at h; subst h; exact hf
  | cons l ls ih =>
    intro s s' h hi hf
    simp only [run] at h
    cases hs : step c s l with
    | none => simp [hs] at h
    | some s1 => simp [hs] at h; exact ih s1 s' h (step_inv c s s1 l hs hi) (step_finOK c s s1 l hs hi.ids hf)

/-- **Exactly at MaxOperationTime.** In every reachable state in which time can pass (everything runnable has
run — the states an observer samples), a batch counts as finished iff its callback has returned or
MaxOperationTime has elapsed since it was raised — not earlier, not later. -/
theorem finished_iff_returned_or_timed_out (c : BCfg) (s : St) (h : Reachable c s) (dt : Nat)
    (hadv : canAdvance s dt = true) :
    ∀ b ∈ s.batches, b.finished = true ↔ (b.cbDone = true ∨ b.raisedAt + effMot c b.w ≤ s.now) := by
  obtain ⟨ls, hr⟩ := h
  have hinv := run_inv c ls _ s hr (inv_init c)
  have hfin := run_finOK c ls _ s hr (inv_init c) (by simp [FinOK, St.init])
  intro b hb
  have hd := deadline_is_raise_plus_limit c s ⟨ls, hr⟩ b hb
  rw [← hd]
  constructor
  · exact hfin b hb
  · intro hor
    cases hf : b.finished with
    | true => rfl
    | false =>
      exfalso
      unfold canAdvance at hadv
      simp only [Bool.and_eq_true, List.all_eq_true] at hadv
      have := hadv.1.2 b (by simp [unfinished, List.mem_filter, hb, hf])
      simp only [Bool.and_eq_true, Bool.not_eq_true', decide_eq_true_eq] at this
      have hdt : dt > 0 := by simpa using hadv.1.1.1.1
      rcases hor with h1 | h1
      · rw [this.1] at h1; cases h1
      · omega

/-- **Only once**, even if the callback returns afterwards: the write-off is enabled only for an unfinished
batch, it marks it finished, and a later callback return changes nothing but the `cbDone` flag. -/
theorem finish_only_once (c : BCfg) (s s' : St) (b : Nat) (h : step c s (.finish b) = some s') :
    ∃ x, s.batches.find? (fun y => y.id == b) = some x ∧ x.finished = false ∧
      s'.target = s.target - batchCost x ∧ s'.slots = (if c.mcb != 0 then s.slots - 1 else s.slots) := by
  simp only [step] at h
  split at h
  · cases h
  · rename_i x hf
    split at h <;> cases h
    rename_i hg
    simp only [Bool.and_eq_true, Bool.not_eq_true'] at hg
    exact ⟨x, hf, hg.1, rfl, rfl⟩

theorem find_after_mark (l : List RBatch) (b : Nat) (x : RBatch) (hf : l.find? (fun y => y.id == b) = some x) :
    (l.map (fun y => if y.id == b then { y with finished := true } else y)).find? (fun y => y.id == b)
      = some { x with finished := true } := by
  induction l with
  | nil => simp at hf
  | cons y t ih =>
    by_cases hyb : y.id = b
    · have hb' : (y.id == b) = true := by simpa using hyb
      simp only [List.find?_cons, hb'] at hf
      cases hf
      simp [List.find?_cons, hyb]
    · have hb' : (y.id == b) = false := by simpa using hyb
      simp only [List.find?_cons, hb'] at hf
      simp only [List.map_cons, hb', Bool.false_eq_true, if_false, List.find?_cons]
      exact ih hf

theorem finished_stays_finished (c : BCfg) (s s' : St) (b : Nat) (h : step c s (.finish b) = some s') :
    step c s' (.finish b) = none := by
  simp only [step] at h
  split at h
  · cases h
  · rename_i x hf
    split at h <;> cases h
    have := find_after_mark s.batches b x hf
    simp only [step, markFinished, this]
    simp

theorem late_return_changes_nothing (c : BCfg) (s s' : St) (b : Nat) (h : step c s (.cbReturn b) = some s') :
    s'.target = s.target ∧ s'.slots = s.slots := by
  simp only [step] at h
  split at h <;> cases h
  exact ⟨rfl, rfl⟩

-- non-vacuity: a batch raised at 100 with limit 50 is unfinished at 149 and written off at exactly 150
private def cfg : BCfg :=
  { gen := .v2, bufCap := 1, limited := false, flushInt := 100, capInt := 1000, auditInt := 1000, mot := 50, pause := 5,
    errorOnFull := false, mcb := 0, wMaxBatch := fun _ => 0, wMot := fun _ => 0, rollback := true, wos := true }
private def op2 : Op := { id := 1, obj := 1, w := 0, cost := 2, batchable := false }
private def pre : List Label :=
  [.startCall, .enqCount 1 op2, .enqInsert 1, .advance 100, .fireF, .takeFlushTick, .cycleBegin 0, .cycleStep, .scanEnd, .cycleEnd]
example : ∃ s, run cfg (St.init cfg) (pre ++ [.advance 49]) = some s ∧ s.target = 2 := ⟨_, rfl, by decide⟩
example : run cfg (St.init cfg) (pre ++ [.advance 49, .finish 0]) = none := by decide
example : run cfg (St.init cfg) (pre ++ [.advance 51]) = none := by decide
example : ∃ s, run cfg (St.init cfg) (pre ++ [.advance 50, .finish 0, .cbReturn 0]) = some s ∧ s.target = 0 := ⟨_, rfl, by decide⟩

end GoBatcher.C11

import GoBatcher.Lemmas.BatcherReach2
import GoBatcher.Props.C15
/-!
# C16 — Batcher lifecycle: start once, stop cleanly, nothing happens after shutdown

Model: M-Batcher (v1 Stop()/v2 context cancellation = `stopCall`). The v2 "setters panic after Start" clause
is a finite table regenerated from the source (`Expect.facts_C16_setter_guards`).
Finding F3 (v1): Enqueue after Stop() panics — `v1_enqueue_after_stop_panics` is the model's witness.
-/
namespace GoBatcher.C16
open GoBatcher

/-- Start succeeds iff the Batcher was never started (nor stopped): exactly once. -/
theorem start_iff_uninit (c : BCfg) (s : St) : (step c s .startCall).isSome ↔ s.phase = .uninit := by
  simp only [step]
  by_cases h : s.phase = .uninit <;> simp [h]

theorem later_starts_fail (c : BCfg) (s : St) : (step c s .startAgain = some s) ↔ s.phase ≠ .uninit := by
  simp only [step]
  by_cases h : s.phase = .uninit <;> simp [h]

/-- once left, `uninit` never comes back: Start can never succeed a second time -/
theorem never_uninit_again (c : BCfg) (s s' : St) (l : Label) (h : step c s l = some s') (hp : s.phase ≠ .uninit) :
    s'.phase ≠ .uninit := by
  cases l <;> simp only [step] at h <;> (repeat' split at h) <;> (try cases h) <;>
    first
    | exact hp
    | (simp only [raise_phase, afterTake_phase]; exact hp)
    | (simp_all [shutdownV1, shutdownV2, enqOk, enqRefuse, enqBlock, unwake, doAudit, markCbDone, markFinished, doSetCost]; done)

/-- exactly one shutdown event, raised when the loop exits -/
theorem one_shutdown_event (c : BCfg) (s : St) (h : Reachable c s) :
    s.shutdowns = (if s.loop = .exited then 1 else 0) := by
  have := (reachable_inv2 c s h).shut.1
  rw [this]; simp [b2n]

/-- after the shutdown nothing is released and no capacity is requested: no loop action is enabled, ever again -/
theorem nothing_after_shutdown (c : BCfg) (s : St) (l : Label) (hs : s.loop = .exited) (hl : l.isLoop = true ∨ l = .wake) :
    step c s l = none := exited_blocks_loop c s l hs hl

theorem exited_forever (c : BCfg) (s s' : St) (l : Label) (h : step c s l = some s') (hs : s.loop = .exited)
    (hp : s.phase ≠ .uninit) : s'.loop = .exited := by
  cases l <;> simp only [step] at h <;> (repeat' split at h) <;> (try cases h) <;>
    first
    | exact hs
    | (simp_all [shutdownV1, shutdownV2, enqOk, enqRefuse, enqBlock, unwake, doAudit, markCbDone, markFinished, doSetCost]; done)

/-- Termination as a bound: once a stop has been requested, an idle loop must take it before time passes, a
cycle completes without time passing, and a sleeping loop wakes at the end of its sleep at the latest — so the
loop exits within PauseTime of the request, from every phase including paused. -/
theorem stop_is_taken_within_pause_time (s : St) (dt : Nat) (hstop : s.stopReq = true) (h : canAdvance s dt = true) :
    (∃ u, s.loop = .sleeping u ∧ s.now + dt ≤ u) ∨ s.loop = .exited ∨ s.loop = .notStarted := by
  cases hl : s.loop with
  | idle => have := (idle_time_passes_only_when_nothing_ready s dt h hl).1; simp [hstop] at this
  | sleeping u => exact Or.inl ⟨u, rfl, sleep_not_overslept s dt u h hl⟩
  | cycle a acc => exact absurd hl ((no_time_inside_cycle s dt h).1 a acc)
  | sweep acc => exact absurd hl ((no_time_inside_cycle s dt h).2 acc)
  | exited => exact Or.inr (Or.inl rfl)
  | notStarted => exact Or.inr (Or.inr rfl)

/-- and the stop arm is enabled whenever the loop is idle with a stop requested -/
theorem stop_enabled_when_idle (c : BCfg) (s : St) (hl : s.loop = .idle) (hstop : s.stopReq = true) :
    ∃ s', step c s .takeStop = some s' ∧ s'.loop = .exited ∧ s'.shutdowns = s.shutdowns + 1 := by
  simp only [step, hl, hstop]
  cases c.gen <;> simp [shutdownV1, shutdownV2]

/-- v2: Enqueue after shutdown reports BufferIsShutdown (and leaves the demand unchanged, C03) -/
theorem v2_enqueue_after_shutdown_is_refused (c : BCfg) (s : St) (k : Nat) (op : Op) (hg : c.gen = .v2)
    (hs : s.bm.buf.shut = true) (hf : findPend k s.pend = some op)
    (hw : (s.bm.waiting.any (·.1 == k) || s.bm.woken.any (·.1 == k)) = false) :
    step c s (.enqInsert k) = some (enqRefuse s k op .shutdown c.rollback) := by
  simp [step, hf, hw, hg, hs]

theorem v2_shutdown_shuts_buffer (c : BCfg) (s : St) : (shutdownV2 c s).bm.buf.shut = true := by
  unfold shutdownV2; cases c.wos <;> simp [Buf.shutdown]

/-- Finding F3 (v1): after Stop() the buffer channel is closed and a later Enqueue counts its cost and then
panics ("send on closed channel") instead of returning an error. -/
theorem v1_enqueue_after_stop_panics (c : BCfg) (s : St) (k : Nat) (op : Op) (hg : c.gen = .v1)
    (hs : s.closed = true) (hf : findPend k s.pend = some op)
    (hw : (s.bm.waiting.any (·.1 == k) || s.bm.woken.any (·.1 == k)) = false) :
    step c s (.enqInsert k) = some (enqRefuse s k op .shutdown false) := by
  simp [step, hf, hw, hg, hs]

end GoBatcher.C16

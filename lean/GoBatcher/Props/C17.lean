import GoBatcher.Lemmas.LeaseReach
import GoBatcher.Props.C06
/-!
# C17 — SharedResource lifecycle and live reconfiguration are safe

Model: M-Lease. `start` stands for v2 `Start` and for v1 `Provision` + `Start` (the orders v1 rejects are decided by
the phase checks, compared with the code as extracted facts and exercised by the lease family).
"Never panics": in the model every partition index in use is provably inside the provisioned range (below); the
absence of panics in the real code is observed by the harness on every scenario, not proved.
-/
namespace GoBatcher.C17
open GoBatcher

def rank : LPhase → Nat
  | .uninit => 0 | .started => 1 | .stopped => 2

/-- the lifecycle only moves forward -/
theorem phase_monotone (n : Nat) (s s' : LSt) (l : LLabel) (h : lstep n s l = some s') (i : Nat) :
    rank (s.inst i).phase ≤ rank (s'.inst i).phase := by
  by_cases hi : l.inst? = some i
  · unfold lstep at h
    cases l <;> simp only [LLabel.inst?, Option.some.injEq, reduceCtorEq] at hi <;> subst hi <;>
      simp only [LLabel.inst?, lstepCore] at h <;> (repeat' split at h) <;> (try cases h) <;>
      (try simp only [updI_same, afterGrant]) <;>
      first
        | exact Nat.le_refl _
        | (rename_i hg _; simp only [Bool.and_eq_true, beq_iff_eq] at hg; rw [hg.1]; simp [rank])
        | (cases (s.inst _).phase <;> simp [rank])
  · rw [step_frame n s s' l h i hi]; exact Nat.le_refl _

theorem run_phase_monotone (n : Nat) (i : Nat) : ∀ (ls : List LLabel) (s s' : LSt), lrun n s ls = some s' →
    rank (s.inst i).phase ≤ rank (s'.inst i).phase := by
  intro ls
  induction ls with
  | nil => intro s s' h; simp [lrun] at h; subst h; exact Nat.le_refl _
  | cons l ls ih =>
    intro s s' h
    simp only [lrun] at h
    cases hs : lstep n s l with
    | none => simp [hs] at h
    | some s1 =>
      simp [hs] at h
      exact Nat.le_trans (phase_monotone n s s1 l hs i) (ih s1 s' h)

/-- Start is accepted only on a resource that has not been started … -/
theorem start_only_uninit (n : Nat) (s s' : LSt) (i : Nat) (ok : Bool) (h : lstep n s (.start i ok) = some s') :
    (s.inst i).phase = .uninit := by
  unfold lstep at h
  simp only [LLabel.inst?] at h
  split at h
  · simp only [lstepCore] at h
    split at h
    · rename_i hg; simp only [Bool.and_eq_true, beq_iff_eq] at hg; exact hg.1
    · cases h
  · cases h

/-- … so **it starts exactly once**: after a successful start no later Start is accepted, whatever happened in between -/
theorem starts_once (n : Nat) (s s1 s2 : LSt) (i : Nat) (ok ok' : Bool) (_h : lstep n s (.start i ok) = some s1)
    (hst : (s1.inst i).phase = .started) (ls : List LLabel) (hr : lrun n s1 ls = some s2) :
    lstep n s2 (.start i ok') = none := by
  cases h2 : lstep n s2 (.start i ok') with
  | none => rfl
  | some s3 =>
    have h0 := start_only_uninit n s2 s3 i ok' h2
    have hm := run_phase_monotone n i ls s1 s2 hr
    rw [hst, h0] at hm
    simp [rank] at hm

/-- **A provisioning failure reported to the caller leaves the resource not started** (it can be started later) -/
theorem failed_start_changes_nothing (n : Nat) (s s' : LSt) (i : Nat) (h : lstep n s (.start i false) = some s') : s' = s := by
  unfold lstep at h
  simp only [LLabel.inst?] at h
  split at h
  · simp only [lstepCore] at h
    split at h
    · simp only [Bool.false_and, Bool.false_eq_true, if_false] at h; cases h; rfl
    · cases h
  · cases h

/-- **Exactly one shutdown event**: never more than one … -/
theorem at_most_one_shutdown {n lease : Nat} {inst : Nat → LInst} (hc : Configured inst) {s : LSt}
    (h : LReach n lease inst s) (i : Nat) : (s.inst i).shutdowns ≤ 1 := (reach_lwf hc h i).shut

/-- … and a stopped resource has raised exactly one, runs no loop, **issues no lease request**, and cannot be stopped or started again -/
theorem stopped_is_final {n lease : Nat} {inst : Nat → LInst} (hc : Configured inst) {s : LSt}
    (h : LReach n lease inst s) (i : Nat) (hs : (s.inst i).phase = .stopped) :
    (s.inst i).shutdowns = 1 ∧ (∀ p, lstep n s (.issue i p) = none) ∧ lstep n s (.stop i) = none ∧
    (∀ ok, lstep n s (.start i ok) = none) := by
  obtain ⟨hoff, hone⟩ := (reach_lwf hc h i).stopped hs
  refine ⟨hone, ?_, ?_, ?_⟩
  · intro p
    unfold lstep; simp only [LLabel.inst?, lstepCore, hoff]
    split <;> simp
  · unfold lstep; simp only [LLabel.inst?, lstepCore, hoff]
    split <;> simp
  · intro ok
    unfold lstep; simp only [LLabel.inst?, lstepCore, hs]
    split <;> simp

/-- the shutdown is raised by the step that stops the loop -/
theorem stop_raises_shutdown (n : Nat) (s s' : LSt) (i : Nat) (h : lstep n s (.stop i) = some s') :
    (s'.inst i).shutdowns = (s.inst i).shutdowns + 1 ∧ (s'.inst i).phase = .stopped ∧ (s'.inst i).loopOn = false := by
  unfold lstep at h
  simp only [LLabel.inst?] at h
  split at h
  · simp only [lstepCore] at h
    split at h <;> cases h
    simp
  · cases h

/-- **SetReservedCapacity takes effect immediately** in Capacity() and MaxCapacity() -/
theorem setReserved_immediate (n : Nat) (s s' : LSt) (i v : Nat) (h : lstep n s (.setReserved i v) = some s') :
    (s'.inst i).capacity = v + (s.inst i).factor * (s.inst i).held.length ∧
    (s'.inst i).maxCapacity + (s.inst i).reserved = (s.inst i).maxCapacity + v := by
  unfold lstep at h
  simp only [LLabel.inst?] at h
  split at h
  · simp only [lstepCore] at h
    split at h <;> cases h
    simp only [updI_same, LInst.capacity, LInst.maxCapacity, true_and]
    cases (s.inst i).gen <;> simp only <;> omega
  · cases h

/-- **SetSharedCapacity re-provisions to the new count**: partitions that still exist stay counted, dropped ones are not -/
theorem reprovision (n : Nat) (s s' : LSt) (i : Nat) (h : lstep n s (.provision i) = some s') :
    (s'.inst i).parts = partitionCount (s.inst i).gen (s.inst i).shared (s.inst i).factor ∧
    (∀ p, p ∈ (s'.inst i).held ↔ p ∈ (s.inst i).held ∧ p < (s'.inst i).parts) ∧
    (s'.inst i).timers = (s.inst i).timers := by
  unfold lstep at h
  simp only [LLabel.inst?] at h
  split at h
  · simp only [lstepCore] at h
    split at h <;> cases h
    simp
  · cases h

/-- a SetSharedCapacity records the new value and a pending re-provisioning, which the loop can carry out as soon as
no lease call is in flight (the loop notices the request at the top of its next iteration) -/
theorem setShared_requests_provisioning (n : Nat) (s s' : LSt) (i v : Nat) (h : lstep n s (.setShared i v) = some s') :
    (s'.inst i).shared = v ∧ (s'.inst i).needProvision = true ∧
    ((s'.inst i).loopOn = true → (s'.inst i).call = none → ∃ s'', lstep n s' (.provision i) = some s'') := by
  unfold lstep at h
  simp only [LLabel.inst?] at h
  split at h
  · rename_i hi
    simp only [lstepCore] at h
    split at h <;> cases h
    refine ⟨by simp, by simp, ?_⟩
    intro hon hc
    simp only [updI_same] at hon hc
    unfold lstep
    simp [LLabel.inst?, hi, lstepCore, hon, hc]
  · cases h

/-- **Index safety for every history** (the model counterpart of "never panics"): whatever leases expire meanwhile,
every partition an instance counts, and the partition of its lease call in flight, exists; an expiry for a partition
that was dropped by a shrink is a no-op. -/
theorem indexes_in_range {n lease : Nat} {inst : Nat → LInst} (hc : Configured inst) {s : LSt}
    (h : LReach n lease inst s) (i : Nat) :
    (∀ p, p ∈ (s.inst i).held → p < (s.inst i).parts) ∧ (∀ cl, (s.inst i).call = some cl → cl.part < (s.inst i).parts) :=
  ⟨(reach_lwf hc h i).inRange, fun cl hcl => ((reach_lwf hc h i).callOK cl hcl).1⟩

theorem expire_of_dropped_is_noop (n : Nat) (s s' : LSt) (i p c : Nat) (h : lstep n s (.expire i p c) = some s')
    (hp : p ∉ (s.inst i).held) : (s'.inst i).held = (s.inst i).held := by
  unfold lstep at h
  simp only [LLabel.inst?] at h
  split at h
  · simp only [lstepCore] at h
    split at h <;> cases h
    simp only [updI_same]
    apply List.filter_eq_self.mpr
    intro a ha
    simp only [bne_iff_ne, ne_eq]
    intro e; subst e; exact hp ha
  · cases h

-- non-vacuity: grow, acquire partition 2, shrink to one partition: partition 2 is dropped, its expiry later is harmless
example : ∃ s, lrun 1 (initSt 15 (fun _ => LInst.init .v2 5 7 12))
    [.start 0 true, .provision 0, .giveMe 0 20, .issue 0 2, .proc 0 true, .ret 0, .setShared 0 5, .provision 0,
     .advance 15, .expire 0 2 15, .stop 0] = some s ∧
    (s.inst 0).parts = 1 ∧ (s.inst 0).held = [] ∧ (s.inst 0).shutdowns = 1 := ⟨_, rfl, by decide, by decide, by decide⟩

end GoBatcher.C17

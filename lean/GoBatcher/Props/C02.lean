import GoBatcher.Lemmas.Cycle
/-!
# C02 — Per-cycle rate limit (cycle level)

`A = c.allow` is the allowance the cycle read once at its start (`uint32(float64(Capacity())/1000.0 *
float64(FlushInterval.Milliseconds()))`; the float conversion is executed natively by the driver and tested,
not proved). Capacity may change arbitrarily between cycles and differ from MaxCapacity: nothing here
depends on either. The tick / Flush() counting clause is `C02b` (Batcher machine).
-/
namespace GoBatcher.C02
open GoBatcher

/-- An operation is released only while the cost already released in this cycle is below the allowance
(v2, `ge = true`) / not above it (v1). -/
theorem released_only_below_allowance (c : Cfg) (a : Acc) (av : Bool) (op : Op)
    {a' : Acc} {out : Option Batch} {s : Bool} (hl : c.limited = true)
    (h : stepOp c a av op = .take a' out s) :
    (c.ge = true → a.consumed < c.allow) ∧ (c.ge = false → a.consumed ≤ c.allow) := by
  have := stepOp_not_cutoff c a av op h
  simp only [cutoff, hl, Bool.true_and] at this
  constructor
  · intro hge; simp [hge] at this; exact this
  · intro hge; simp [hge] at this; omega

/-- A whole cycle releases less than allowance + the cost of its last operation (v2; v1: at most). -/
theorem cycle_release_bound (c : Cfg) (buf : List Op) (free : Option Nat) (hl : c.limited = true) :
    let r := scan c buf { consumed := 0, openB := [] } free
    r.acc.consumed = 0 ∨ ∃ op ∈ buf,
      (c.ge = true → r.acc.consumed < c.allow + op.cost) ∧ (c.ge = false → r.acc.consumed ≤ c.allow + op.cost) := by
  intro r
  rcases scan_last c buf { consumed := 0, openB := [] } free with h | ⟨op, hop, k, hk, he⟩
  · exact Or.inl h
  · refine Or.inr ⟨op, hop, ?_, ?_⟩
    · intro hge
      simp only [cutoff, hl, hge, Bool.true_and, if_true, decide_eq_false_iff_not, Nat.not_le] at hk
      show (scan c buf _ free).acc.consumed < _
      omega
    · intro hge
      simp only [cutoff, hl, hge, Bool.true_and] at hk
      simp at hk
      show (scan c buf _ free).acc.consumed ≤ _
      omega

/-- `consumed` is exactly the cost of everything the cycle handed out (raised + still-open batches). -/
theorem consumed_is_released_cost (c : Cfg) (buf : List Op) (free : Option Nat) :
    let r := scan c buf { consumed := 0, openB := [] } free
    r.acc.consumed = costB r.raised + costB r.acc.openB := by
  have := scan_cost c buf { consumed := 0, openB := [] } free
  simpa using this

/-- v2 releases nothing at all when the allowance is zero. -/
theorem v2_zero_allowance_releases_nothing (c : Cfg) (buf : List Op) (free : Option Nat)
    (hl : c.limited = true) (hge : c.ge = true) (h0 : c.allow = 0) (sweep : List Batch)
    (hsw : SweepOK c buf free sweep) :
    cycleBatches c buf free sweep = [] ∧ cycleBuffer c buf free = buf := by
  unfold SweepOK at hsw
  cases buf with
  | nil =>
    simp only [scan] at hsw
    simp [cycleBatches, cycleBuffer, scan, List.Perm.eq_nil hsw]
  | cons op rest =>
    have hc : cutoff c 0 = true := by simp [cutoff, hl, hge, h0]
    have hs : ∀ av, stepOp c { consumed := 0, openB := [] } av op = .stop := by
      intro av; simp [stepOp, hc]
    simp only [scan, hs] at hsw
    simp [cycleBatches, cycleBuffer, scan, hs, List.Perm.eq_nil hsw]

-- non-vacuity: v2, allowance 3, costs 2,2,2: two released (2 < 3, then 4 ≥ 3 stops), v1 releases three? (2,4 > 3 stops after second… 4 > 3) -> two
private def o (id cost : Nat) : Op := { id := id, obj := id, w := 0, cost := cost, batchable := false }
example : (cycleBuffer { ge := true, limited := true, allow := 3, mb := fun _ => 0 } [o 0 2, o 1 2, o 2 2] none) = [o 2 2] := by decide
example : (cycleBuffer { ge := false, limited := true, allow := 4, mb := fun _ => 0 } [o 0 2, o 1 2, o 2 2, o 3 2] none) = [o 3 2] := by decide
example : (cycleBuffer { ge := true, limited := true, allow := 4, mb := fun _ => 0 } [o 0 2, o 1 2, o 2 2, o 3 2] none) = [o 2 2, o 3 2] := by decide

end GoBatcher.C02

import GoBatcher.Lemmas.Lease
/-!
# C04 — A partition is counted only while its lease is valid; instances never share one

Model: M-Lease — any number `n` of instances of either generation on one lease store, all demand histories,
lease-call latencies (the store may process a request at any instant between issue and return), poll and partition
choices, refusals and errors at any call, crashes, stops, and v2 reconfiguration in between.

The statements are about *settled* instants (every expiry timer that is due has fired — the states in which an
observer reads `Capacity()`; the expiry goroutine and the observer race at the very instant a lease ends).

History: on the code as found, three things broke this property (findings F7: timer started at the return of the
lease call; F8: v2 re-provisioning blocked expiry; F10: a stopped v2 instance never cleared its partitions). All
three were shown by the lease family on the real code and repaired (`fix:` commits); the model is the repaired code.
-/
namespace GoBatcher.C04
open GoBatcher

def initSt (lease : Nat) (inst : Nat → LInst) : LSt := { now := 0, lease := lease, store := fun _ => none, inst := inst }

/-- an initial configuration: nothing held, no timers, no calls -/
def Fresh (inst : Nat → LInst) : Prop := ∀ i, (inst i).held = [] ∧ (inst i).timers = [] ∧ (inst i).call = none

theorem excl_init (lease : Nat) (inst : Nat → LInst) (h : Fresh inst) (n : Nat) :
    Excl (initSt lease inst) ∧ Inert n (initSt lease inst) := by
  refine ⟨⟨?_, ?_, ?_, ?_⟩, fun i _ => ⟨(h i).2.1, (h i).1, (h i).2.2⟩⟩
  · intro i p hp; simp [initSt, (h i).1] at hp
  · intro i cl u h1; simp [initSt, (h i).2.2] at h1
  · intro i cl h1; simp [initSt, (h i).2.2] at h1
  · intro i p c hm; simp [initSt, (h i).2.1] at hm

theorem run_excl (n : Nat) : ∀ (ls : List LLabel) (s s' : LSt), lrun n s ls = some s' → Excl s → Inert n s →
    Excl s' ∧ Inert n s' := by
  intro ls
  induction ls with
  | nil => intro s s' h he hi; simp [lrun] at h; subst h; exact ⟨he, hi⟩
  | cons l ls ih =>
    intro s s' h he hi
    simp only [lrun] at h
    cases hs : lstep n s l with
    | none => simp [hs] at h
    | some s1 =>
      simp [hs] at h
      have := step_excl n s s1 l hs hi he
      exact ih s1 s' h this.1 this.2

/-- every expiry timer that is due has fired -/
def Settled (s : LSt) : Prop := ∀ i p c, (p, c) ∈ (s.inst i).timers → s.now < c

/-- **Counted only while the lease is valid.** In every reachable settled state, a partition that instance `i`
counts toward Capacity() is leased to `i` in the store, and that lease has not run out. -/
theorem counted_only_while_lease_valid (n lease : Nat) (inst : Nat → LInst) (hf : Fresh inst)
    (ls : List LLabel) (s : LSt) (hr : lrun n (initSt lease inst) ls = some s) (hs : Settled s)
    (i p : Nat) (hp : p ∈ (s.inst i).held) : ∃ u, s.store p = some (i, u) ∧ s.now < u := by
  have he := (run_excl n ls _ s hr (excl_init lease inst hf n).1 (excl_init lease inst hf n).2).1
  obtain ⟨c, hc, hor⟩ := he.hold i p hp
  have hlt := hs i p c hc
  rcases hor with h1 | ⟨u, hu, hcu⟩
  · omega
  · exact ⟨u, hu, by omega⟩

/-- **Instances never share a partition.** -/
theorem no_partition_counted_twice (n lease : Nat) (inst : Nat → LInst) (hf : Fresh inst)
    (ls : List LLabel) (s : LSt) (hr : lrun n (initSt lease inst) ls = some s) (hs : Settled s)
    (i j p : Nat) (hi : p ∈ (s.inst i).held) (hj : p ∈ (s.inst j).held) : i = j := by
  obtain ⟨u, hu, _⟩ := counted_only_while_lease_valid n lease inst hf ls s hr hs i p hi
  obtain ⟨u', hu', _⟩ := counted_only_while_lease_valid n lease inst hf ls s hr hs j p hj
  rw [hu] at hu'
  cases hu'
  rfl

/-- The lease is counted conservatively, from the moment the request was issued: every expiry timer is set to
`issuedAt + lease`, never later (the grant of a slow call that comes back after that instant is not counted at all). -/
theorem counted_from_issue (n : Nat) (s s' : LSt) (i : Nat) (h : lstep n s (.ret i) = some s') (cl : LCall)
    (hc : (s.inst i).call = some cl) :
    (s'.inst i).timers = (s.inst i).timers ∨ (s'.inst i).timers = (s.inst i).timers ++ [(cl.part, cl.issuedAt + s.lease)] := by
  unfold lstep at h
  simp only [LLabel.inst?] at h
  split at h
  · simp only [lstepCore, hc] at h
    (repeat' split at h) <;> cases h <;> simp [afterGrant]
  · cases h

/-! ### the sum of shared capacity -/

theorem nodup_lt_length (l : List Nat) (P : Nat) (hn : l.Nodup) (hl : ∀ x ∈ l, x < P) : l.length ≤ P := by
  induction P generalizing l with
  | zero =>
    cases l with
    | nil => simp
    | cons a t => exact absurd (hl a List.mem_cons_self) (by omega)
  | succ k ih =>
    -- remove k from l
    have h1 : (l.erase k).length ≤ k := by
      apply ih
      · exact hn.erase k
      · intro x hx
        have hxl : x ∈ l := List.mem_of_mem_erase hx
        have hne : x ≠ k := by
          intro e; subst e
          exact (List.Nodup.not_mem_erase hn) hx
        have := hl x hxl
        omega
    by_cases hk : k ∈ l
    · have := List.length_erase_of_mem hk
      have hpos : l.length > 0 := List.length_pos_of_mem hk
      omega
    · rw [List.erase_of_not_mem hk] at h1; omega

/-- For any set of instances, the partitions they count are pairwise different, so together they count at most
as many partitions as exist (`P`): the sum of their shared capacity never exceeds partitions × factor. -/
theorem total_held_le_partitions (n lease : Nat) (inst : Nat → LInst) (hf : Fresh inst)
    (ls : List LLabel) (s : LSt) (hr : lrun n (initSt lease inst) ls = some s) (hs : Settled s)
    (P : Nat) (is : List Nat) (hnd : is.Nodup)
    (hheld : ∀ i ∈ is, (s.inst i).held.Nodup ∧ ∀ p ∈ (s.inst i).held, p < P) :
    ((is.map fun i => (s.inst i).held.length).sum) ≤ P := by
  have hflat : ((is.flatMap fun i => (s.inst i).held).length) = (is.map fun i => (s.inst i).held.length).sum := by
    induction is with
    | nil => rfl
    | cons a t ih' => simp [List.flatMap_cons]
  rw [← hflat]
  apply nodup_lt_length
  · -- pairwise different across instances, nodup inside each
    clear hflat
    induction is with
    | nil => simp
    | cons a t ih' =>
      simp only [List.flatMap_cons]
      have hnd' := List.nodup_cons.mp hnd
      apply List.nodup_append.mpr
      refine ⟨(hheld a List.mem_cons_self).1, ih' hnd'.2 (fun i hi => hheld i (List.mem_cons_of_mem _ hi)), ?_⟩
      intro x hx y hy
      obtain ⟨j, hjt, hyj⟩ := List.mem_flatMap.mp hy
      intro e; subst e
      have := no_partition_counted_twice n lease inst hf ls s hr hs a j x hx hyj
      subst this
      exact hnd'.1 hjt
  · intro x hx
    obtain ⟨j, hj, hxj⟩ := List.mem_flatMap.mp hx
    exact (hheld j hj).2 x hxj

-- non-vacuity: two instances, one partition; the second is refused while the first holds the lease, and gets it after expiry
private def i0 : LInst := { LInst.init .v2 1 0 1 with target := 1 }
private def cfg2 : Nat → LInst := fun _ => i0
example : Fresh cfg2 := by intro i; simp [cfg2, i0, LInst.init]
example : ∃ s, lrun 2 (initSt 15 cfg2) [.start 0 true, .start 1 true, .provision 0, .provision 1, .issue 0 0, .proc 0 true,
    .advance 2, .ret 0, .issue 1 0, .proc 1 true, .ret 1, .advance 13, .expire 0 0 15, .issue 1 0, .proc 1 true, .ret 1] = some s
    ∧ (s.inst 0).held = [] ∧ (s.inst 1).held = [0] ∧ s.store 0 = some (1, 30) := by
  refine ⟨_, rfl, ?_, ?_, ?_⟩ <;> decide

end GoBatcher.C04

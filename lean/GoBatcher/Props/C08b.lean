import GoBatcher.Lemmas.BatcherReach2
/-!
# C08 (machine level) — a manual Flush() starts a cycle as soon as the loop is free; calls coalesce
-/
namespace GoBatcher.C08b
open GoBatcher

/-- Flush() always leaves a request pending (several calls while one is pending coalesce into it) -/
theorem flush_call_requests (c : BCfg) (s : St) :
    step c s .flushCall = some { s with flushReq := true, flushCalls := s.flushCalls + 1 } := rfl

/-- … an idle loop can start the cycle at once (the limiter's Capacity() read gives the allowance `a`) … -/
theorem cycle_enabled_when_idle (c : BCfg) (s : St) (a : Nat) (hl : s.loop = .idle) (hf : s.flushReq = true) :
    (step c s (.cycleBegin a)).isSome := by
  simp [step, hl, hf]

/-- … and must: time cannot pass while an idle loop has a flush request pending. During a pause the request
stays pending (nothing consumes it) and the same applies from the instant of the resume. -/
theorem flush_request_is_urgent (s : St) (dt : Nat) (h : canAdvance s dt = true) (hl : s.loop = .idle) :
    s.flushReq = false := (idle_time_passes_only_when_nothing_ready s dt h hl).2.2.2.2.2

theorem pause_keeps_flush_request (c : BCfg) (s s' : St) (l : Label) (hl : l = .takePause ∨ l = .wake)
    (h : step c s l = some s') : s'.flushReq = s.flushReq := by
  rcases hl with hl | hl <;> subst hl <;> simp only [step] at h <;> (repeat' split at h) <;> cases h <;> rfl

/-- a cycle always runs to its end without time passing (work happens at one instant) -/
theorem cycle_completes_in_zero_time (s : St) (dt : Nat) (h : canAdvance s dt = true) :
    (∀ a acc, s.loop ≠ .cycle a acc) ∧ (∀ acc, s.loop ≠ .sweep acc) := no_time_inside_cycle s dt h

end GoBatcher.C08b

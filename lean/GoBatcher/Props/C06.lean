import GoBatcher.Lemmas.LeaseReach
import GoBatcher.Props.C04
/-!
# C06 — Capacity() = reserved + factor × held partitions, within MaxCapacity

Model: M-Lease (`Model/Lease.lean`). `LInst.capacity` *is* `reserved + factor × |held|` — the correspondence check
(lease family) compares it with `Capacity()` of the real code at every settled sample; the theorems below bound it
and pin the partition count and MaxCapacity() for every configuration and every history.
-/
namespace GoBatcher.C06
open GoBatcher

/-- `ceilDivN` is the ceiling of the quotient -/
theorem ceilDiv_spec (a f : Nat) (hf : 0 < f) : a ≤ f * ceilDivN a f ∧ f * ceilDivN a f < a + f := by
  unfold ceilDivN
  have h1 := Nat.div_add_mod (a + f - 1) f
  have h2 := Nat.mod_lt (a + f - 1) hf
  constructor <;> omega

theorem ceilDiv_of_dvd (a f : Nat) (hf : 0 < f) (hd : a % f = 0) : f * ceilDivN a f = a := by
  obtain ⟨h1, h2⟩ := ceilDiv_spec a f hf
  have h3 := Nat.div_add_mod a f
  rw [hd] at h3
  -- f * q = a with q = a / f; f * ceil is a multiple of f in [a, a+f)
  have h4 : f * ceilDivN a f = f * (a / f) := by
    have : ceilDivN a f = a / f := by
      unfold ceilDivN
      have e : a + f - 1 = f * (a / f) + (f - 1) := by omega
      rw [e, Nat.mul_add_div hf]
      have : (f - 1) / f = 0 := Nat.div_eq_of_lt (by omega)
      omega
    rw [this]
  omega

/-- `Capacity()` is the reserve plus `factor` for every counted partition — nothing else is counted -/
theorem capacity_formula (x : LInst) : x.capacity = x.reserved + x.factor * x.held.length := rfl

/-- in every reachable state every instance counts only existing partitions, each once -/
theorem held_le_parts {n lease : Nat} {inst : Nat → LInst} (hc : Configured inst) {s : LSt}
    (h : LReach n lease inst s) (i : Nat) : (s.inst i).held.length ≤ (s.inst i).parts :=
  C04.nodup_lt_length _ _ ((reach_lwf hc h i).nodup) ((reach_lwf hc h i).inRange)

/-- **Capacity() never exceeds reserved + factor × provisioned partitions** -/
theorem capacity_le {n lease : Nat} {inst : Nat → LInst} (hc : Configured inst) {s : LSt}
    (h : LReach n lease inst s) (i : Nat) :
    (s.inst i).capacity ≤ (s.inst i).reserved + (s.inst i).factor * (s.inst i).parts := by
  unfold LInst.capacity
  have := Nat.mul_le_mul_left (s.inst i).factor (held_le_parts hc h i)
  omega

/-- never more than 500 partitions, in either generation -/
theorem parts_le_500 {n lease : Nat} {inst : Nat → LInst} (hc : Configured inst) {s : LSt}
    (h : LReach n lease inst s) (i : Nat) : (s.inst i).parts ≤ 500 := (reach_lwf hc h i).partsMax

/-- provisioning creates exactly `partitionCount` partitions … -/
theorem provision_count (n : Nat) (s s' : LSt) (i : Nat) (h : lstep n s (.provision i) = some s') :
    (s'.inst i).parts = partitionCount (s.inst i).gen (s.inst i).shared (s.inst i).factor := by
  unfold lstep at h
  simp only [LLabel.inst?] at h
  split at h
  · simp only [lstepCore] at h
    split at h <;> cases h
    simp
  · cases h

/-- … which is `ceil(shared / factor)` whenever that is at most 500, and 500 otherwise (v2) -/
theorem partitionCount_v2 (sh f : Nat) :
    partitionCount .v2 sh f = if ceilDivN sh f > 500 then 500 else ceilDivN sh f := rfl
theorem partitionCount_v1 (sh f : Nat) : partitionCount .v1 sh f = ceilDivN sh f := rfl

/-- v1 refuses a configuration of more than 500 partitions: Start/Provision leaves the resource as it was -/
theorem v1_refuses_over_500 (n : Nat) (s s' : LSt) (i : Nat) (ok : Bool) (h : lstep n s (.start i ok) = some s')
    (hg : (s.inst i).gen = .v1) (hbig : ceilDivN (s.inst i).shared (s.inst i).factor > 500) : s' = s := by
  unfold lstep at h
  simp only [LLabel.inst?] at h
  split at h
  · simp only [lstepCore] at h
    split at h
    · split at h
      · rename_i hok
        simp [hg, maxPartitions, hbig] at hok
      · cases h; rfl
    · cases h
  · cases h

/-- outside a pending re-provisioning, the provisioned count is the configured one (or nothing is provisioned yet) -/
theorem parts_cfg {n lease : Nat} {inst : Nat → LInst} (hc : Configured inst) {s : LSt}
    (h : LReach n lease inst s) (i : Nat) (hp : (s.inst i).needProvision = false) :
    (s.inst i).parts = 0 ∨ (s.inst i).parts = partitionCount (s.inst i).gen (s.inst i).shared (s.inst i).factor :=
  (reach_lwf hc h i).partsCfg hp

theorem factor_pos_init (g : LGen) (f r sh : Nat) : 0 < (LInst.init g f r sh).factor := by
  simp only [LInst.init]; split <;> omega

/-- `factor × partitionCount ≤ MaxCapacity() − reserved` when SharedCapacity is a multiple of Factor -/
theorem factor_mul_count_le_max (x : LInst) (hf : 0 < x.factor) (hd : x.shared % x.factor = 0)
    (hv1 : x.gen = .v1 → ceilDivN x.shared x.factor ≤ 500) :
    x.reserved + x.factor * partitionCount x.gen x.shared x.factor = x.maxCapacity := by
  have e := ceilDiv_of_dvd x.shared x.factor hf hd
  unfold LInst.maxCapacity partitionCount
  cases hg : x.gen with
  | v1 => simp only; omega
  | v2 =>
    simp only [maxPartitions]
    by_cases hb : ceilDivN x.shared x.factor > 500
    · have h501 := Nat.mul_le_mul_left x.factor (show 501 ≤ ceilDivN x.shared x.factor from hb)
      have : x.shared > x.factor * 500 := by omega
      simp [hb, this]
    · have h500 := Nat.mul_le_mul_left x.factor (show ceilDivN x.shared x.factor ≤ 500 by omega)
      have : ¬ x.shared > x.factor * 500 := by omega
      simp [hb, this]; omega

/-- **Capacity() ≤ MaxCapacity()** whenever SharedCapacity is a multiple of Factor (no re-provisioning pending) -/
theorem capacity_le_maxCapacity {n lease : Nat} {inst : Nat → LInst} (hc : Configured inst) {s : LSt}
    (h : LReach n lease inst s) (i : Nat) (hf : 0 < (s.inst i).factor)
    (hd : (s.inst i).shared % (s.inst i).factor = 0) (hp : (s.inst i).needProvision = false)
    (hv1 : (s.inst i).gen = .v1 → ceilDivN (s.inst i).shared (s.inst i).factor ≤ 500) :
    (s.inst i).capacity ≤ (s.inst i).maxCapacity := by
  have h1 := capacity_le hc h i
  rw [← factor_mul_count_le_max _ hf hd hv1]
  rcases parts_cfg hc h i hp with h0 | h0
  · rw [h0] at h1; simp at h1; omega
  · rw [h0] at h1; exact h1

/-- MaxCapacity() is reserved + shared; in v2 the shared part is capped at 500 × factor -/
theorem maxCapacity_v1 (x : LInst) (h : x.gen = .v1) : x.maxCapacity = x.reserved + x.shared := by
  simp [LInst.maxCapacity, h]
theorem maxCapacity_v2 (x : LInst) (h : x.gen = .v2) :
    x.maxCapacity = x.reserved + min x.shared (x.factor * 500) := by
  simp only [LInst.maxCapacity, h, maxPartitions]
  by_cases hb : x.shared > x.factor * 500 <;> simp [hb, Nat.min_def] <;> omega

/-- **A partition starts being counted only when a grant is reported** (the `ret` of a call the store granted) -/
theorem counted_only_from_reported_grant (n : Nat) (s s' : LSt) (l : LLabel) (h : lstep n s l = some s') (i p : Nat)
    (hnew : p ∈ (s'.inst i).held) (hold : p ∉ (s.inst i).held) :
    l = .ret i ∧ ∃ cl u, (s.inst i).call = some cl ∧ cl.part = p ∧ cl.result = some (some u) := by
  by_cases hl : l.inst? = some i
  · unfold lstep at h
    cases l <;> simp only [LLabel.inst?, Option.some.injEq, reduceCtorEq] at hl <;> subst hl <;>
      simp only [LLabel.inst?, lstepCore] at h <;> (repeat' split at h) <;> (try cases h) <;>
      (try simp only [updI_same] at hnew) <;>
      first
        | exact absurd hnew hold
        | exact absurd (List.mem_filter.mp hnew).1 hold
        | skip
    -- the granted `ret`
    rename_i _ _ cl hcl _ u hres _
    refine ⟨rfl, cl, u, hcl, ?_, hres⟩
    simp only [afterGrant] at hnew
    split at hnew
    · exact absurd hnew hold
    · simp only [List.mem_append, List.mem_singleton] at hnew
      rcases hnew with h1 | h1
      · exact absurd h1 hold
      · exact h1.symm
  · rw [step_frame n s s' l h i hl] at hnew
    exact absurd hnew hold

-- non-vacuity: shared 12, factor 5 ⇒ 3 partitions; one grant ⇒ capacity 7 + 5
example : ∃ s, lrun 1 (initSt 15 (fun _ => LInst.init .v2 5 7 12))
    [.start 0 true, .provision 0, .giveMe 0 20, .issue 0 2, .proc 0 true, .ret 0] = some s ∧
    (s.inst 0).parts = 3 ∧ (s.inst 0).capacity = 12 ∧ (s.inst 0).maxCapacity = 19 := ⟨_, rfl, by decide, by decide, by decide⟩

end GoBatcher.C06

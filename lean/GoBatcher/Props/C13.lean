import GoBatcher.Lemmas.BatcherReach2
/-!
# C13 — Pause suspends all processing for exactly PauseTime and always resumes

Model: M-Batcher. "Exactly" is exact in the model's (and synctest's) time; wall-clock jitter is outside it.
-/
namespace GoBatcher.C13
open GoBatcher

/-- Pause() has an effect exactly when the Batcher is running and not already paused; otherwise (already
paused, before Start, after shutdown) it changes nothing — so it cannot extend a pause. -/
theorem pause_call_effect (c : BCfg) (s : St) :
    step c s .pauseCall = some (if s.phase = .started
      then { s with pauseReq := true, phase := .paused, effPauseCalls := s.effPauseCalls + 1 } else s) := by
  simp only [step]
  by_cases h : s.phase = .started <;> simp [h]

/-- The pause event starts a sleep of exactly PauseTime (default applied by the configuration) … -/
theorem pause_event_starts_sleep (c : BCfg) (s s' : St) (h : step c s .takePause = some s') :
    s'.loop = .sleeping (s.now + c.pause) ∧ s'.pauses = s.pauses + 1 ∧ s'.pauseReq = false := by
  simp only [step] at h
  split at h <;> cases h
  exact ⟨rfl, rfl, rfl⟩

/-- … during which no batch is released, no capacity is requested and no audit runs (no loop action is enabled
at all, at any instant of the sleep, for every watcher, buffer content and limiter) … -/
theorem nothing_happens_while_paused (c : BCfg) (s : St) (u : Nat) (l : Label) (hs : s.loop = .sleeping u)
    (hl : l.isLoop = true) : step c s l = none :=
  sleeping_blocks_loop c s u l hs hl

/-- … the sleep cannot be overslept (time does not pass beyond its end before the loop wakes) … -/
theorem sleep_ends_exactly (c : BCfg) (s : St) (h : Reachable c s) (u : Nat) (hs : s.loop = .sleeping u) :
    s.now ≤ u ∧ ∀ dt, canAdvance s dt = true → s.now + dt ≤ u :=
  ⟨(reachable_inv2 c s h).sleep u hs, fun dt hd => sleep_not_overslept s dt u hd hs⟩

/-- … and the resume happens at that instant and at no other, returning the Batcher to `started`, so Pause()
works again after every resume. -/
theorem resume_exactly_at_end (c : BCfg) (s s' : St) (h : step c s .wake = some s') :
    ∃ u, s.loop = .sleeping u ∧ s.now = u ∧ s'.loop = .idle ∧ (s.phase = .paused → s'.phase = .started) := by
  obtain ⟨u, h1, h2, h3, h4⟩ := wake_only_at_end c s s' h
  refine ⟨u, h1, h2, h3, ?_⟩
  intro hp; rw [h4]; simp [hp]

/-- the pause itself loses nothing: buffer, demand and batches are untouched by pause and resume -/
theorem pause_and_resume_keep_everything (c : BCfg) (s s' : St) (l : Label) (hl : l = .takePause ∨ l = .wake)
    (h : step c s l = some s') :
    s'.bm = s.bm ∧ s'.target = s.target ∧ s'.batches = s.batches ∧ s'.pend = s.pend := by
  rcases hl with hl | hl <;> subst hl <;> simp only [step] at h <;> (repeat' split at h) <;> cases h <;> exact ⟨rfl, rfl, rfl, rfl⟩

/-- number of pause events = number of effective Pause() calls (minus the one still pending); while a request
is pending or the loop sleeps the phase is not `started`, so no further call is effective -/
theorem pauses_match_effective_calls (c : BCfg) (s : St) (h : Reachable c s) :
    s.pauses + b2n s.pauseReq = s.effPauseCalls ∧
    (∀ u, s.loop = .sleeping u → s.pauseReq = false ∧ s.phase ≠ .started) :=
  ⟨(reachable_inv2 c s h).pause.1, (reachable_inv2 c s h).pause.2.2⟩

/-- default: `applyDefaults` replaces a PauseTime ≤ 0 by 500 ms -/
theorem pause_default (v : Int) (h : v ≤ 0) : applyDefault v defPause = 500000000 := by
  simp [applyDefault, h, defPause]

-- non-vacuity: a paused state is reachable, and the wake-up is enabled exactly 7 time units later
private def cfg : BCfg :=
  { gen := .v2, bufCap := 1, limited := false, flushInt := 100, capInt := 100, auditInt := 1000, mot := 50, pause := 7,
    errorOnFull := false, mcb := 0, wMaxBatch := fun _ => 0, wMot := fun _ => 0, rollback := true, wos := true }
example : ∃ s, run cfg (St.init cfg) [.startCall, .advance 3, .pauseCall, .pauseCall, .takePause, .pauseCall, .advance 7, .wake] = some s ∧
    s.now = 10 ∧ s.pauses = 1 ∧ s.effPauseCalls = 1 ∧ s.phase = .started := by
  refine ⟨_, rfl, ?_, ?_, ?_, ?_⟩ <;> decide
example : run cfg (St.init cfg) [.startCall, .advance 3, .pauseCall, .takePause, .advance 6, .wake] = none := by decide
example : run cfg (St.init cfg) [.startCall, .advance 3, .pauseCall, .takePause, .advance 8] = none := by decide

end GoBatcher.C13

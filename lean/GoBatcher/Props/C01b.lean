import GoBatcher.Lemmas.BatcherReach2
import GoBatcher.Lemmas.CycleOrder
/-!
# C01 (machine level) — every accepted operation is delivered exactly once, to its own watcher

History invariant over M-Batcher, for every label sequence (concurrent enqueuers, ticks, manual flushes,
pauses, capacity profiles, slot limits, the same operation enqueued several times, shutdown):

    inserted (= accepted: the call returned nil)  =  buffered ⊎ open batches of the running cycle ⊎ all raised batches ⊎ discarded at shutdown

as multisets of operation occurrences (`count`), so an accepted operation is at all times either still buffered
or in exactly one batch (or discarded by a shutdown), never in two and never lost; an Enqueue that returns an
error never enters `inserted`. Costs are constant (`setCost` excluded: it rewrites cost fields, not identities).
-/
namespace GoBatcher.C01b
open GoBatcher

def cntR (x : Op) (l : List RBatch) : Nat := ((l.map (fun b => b.ops.count x))).sum

def cntOpen (x : Op) (s : St) : Nat :=
  match s.loop with
  | .cycle _ acc => cntB x acc.openB
  | .sweep acc => cntB x acc.openB
  | _ => 0

def Conserved (s : St) : Prop :=
  ∀ x, s.inserted.count x = s.bm.buf.items.count x + cntOpen x s + cntR x s.batches + s.discarded.count x

theorem cntR_append (x : Op) (l₁ l₂ : List RBatch) : cntR x (l₁ ++ l₂) = cntR x l₁ + cntR x l₂ := by
  simp [cntR]

theorem raise_cntR (c : BCfg) (s : St) (p : Batch) (x : Op) : cntR x (raise c s p).batches = cntR x s.batches + p.2.count x := by
  unfold raise
  split
  · rename_i he
    have : p.2 = [] := by simpa using he
    simp [this]
  · simp [cntR]

theorem cntR_map (x : Op) (l : List RBatch) (f : RBatch → RBatch) (hf : ∀ y, (f y).ops = y.ops) :
    cntR x (l.map f) = cntR x l := by
  unfold cntR; rw [List.map_map]
  congr 1
  apply List.map_congr_left
  intro y _; simp [hf]

theorem count_eraseIdx (l : List Op) (i : Nat) (op x : Op) (h : l[i]? = some op) :
    (l.eraseIdx i).count x + (if op = x then 1 else 0) = l.count x := by
  induction l generalizing i with
  | nil => simp at h
  | cons y t ih =>
    cases i with
    | zero => simp at h; subst h; simp [count_cons_ite]
    | succ j =>
      simp at h
      have := ih j h
      simp only [List.eraseIdx_cons_succ, count_cons_ite]
      omega

theorem conserved_congr (s s' : St) (h1 : s'.inserted = s.inserted) (h2 : s'.bm.buf.items = s.bm.buf.items)
    (h3 : ∀ x, cntOpen x s' = cntOpen x s) (h4 : s'.batches = s.batches) (h5 : s'.discarded = s.discarded)
    (h : Conserved s) : Conserved s' := by
  unfold Conserved at *
  intro x
  rw [h1, h2, h3 x, h4, h5]
  exact h x

theorem cntOpen_of_loop {s s' : St} (h : s'.loop = s.loop) (x : Op) : cntOpen x s' = cntOpen x s := by
  unfold cntOpen; rw [h]

theorem v1Handoff_conserved (s : St) (x : Op) :
    (v1Handoff s).inserted.count x + s.bm.buf.items.count x = s.inserted.count x + (v1Handoff s).bm.buf.items.count x := by
  unfold v1Handoff
  split
  · omega
  · simp only [List.count_append]; omega

def takeBase (c : BCfg) (s : St) (i a : Nat) (acc' : Acc) (sl : Bool) : St :=
  { s with bm := { s.bm with buf := removeAt s.bm.buf i }, slots := slotsAfter c s sl, loop := .cycle a acc' }

theorem afterTake_items (c : BCfg) (s : St) (i a : Nat) (acc' : Acc) (sl : Bool) (x : Op) :
    (afterTake c s i a acc' sl).inserted.count x + (removeAt s.bm.buf i).items.count x
      = s.inserted.count x + (afterTake c s i a acc' sl).bm.buf.items.count x := by
  unfold afterTake
  cases c.gen with
  | v2 => simp [afterTakeV2]
  | v1 =>
    have := v1Handoff_conserved (takeBase c s i a acc' sl) x
    simpa [afterTakeV1, takeBase] using this

theorem enqOk_conserved (s : St) (k : Nat) (op : Op) (hi : Conserved s) : Conserved (enqOk s k op) := by
  intro x
  have := hi x
  have hco : cntOpen x (enqOk s k op) = cntOpen x s := rfl
  rw [hco]
  simp only [enqOk, List.count_append]
  omega

theorem unwake_conserved (s : St) (w : Nat × Op) (hi : Conserved s) : Conserved (unwake s w) :=
  conserved_congr s _ rfl rfl (fun _ => rfl) rfl rfl hi

theorem step_conserved (c : BCfg) (s s' : St) (l : Label) (h : step c s l = some s')
    (hl : ∀ o k, l ≠ .setCost o k) (hst : StartOK s) (hi : Conserved s) : Conserved s' := by
  cases l with
  | setCost o k => exact absurd rfl (hl o k)
  | enqInsert k =>
    simp only [step] at h
    (repeat' split at h) <;> (try cases h) <;>
      first
      | exact conserved_congr s _ rfl rfl (fun x => rfl) rfl rfl hi
      | exact enqOk_conserved s k _ hi
  | enqAdmit k =>
    simp only [step] at h
    (repeat' split at h) <;> (try cases h) <;>
      first
      | exact conserved_congr s _ rfl rfl (fun x => rfl) rfl rfl hi
      | exact enqOk_conserved _ k _ (unwake_conserved s _ hi)
  | takeStop =>
    simp only [step] at h
    split at h
    · rename_i hg
      simp only [Bool.and_eq_true, beq_iff_eq] at hg
      have h0 : ∀ x, cntOpen x s = 0 := by intro x; unfold cntOpen; rw [hg.1]
      split at h <;> cases h
      · exact conserved_congr s _ rfl rfl (fun x => by rw [h0 x]; rfl) rfl rfl hi
      · intro x
        have := hi x
        have hco : cntOpen x (shutdownV2 c s) = 0 := rfl
        rw [hco]; rw [h0 x] at this
        unfold shutdownV2
        cases c.wos <;> simp [Buf.shutdown, List.count_append] <;> omega
    · cases h
  | cycleBegin a =>
    simp only [step] at h
    split at h <;> cases h
    rename_i hg
    simp only [Bool.and_eq_true, beq_iff_eq] at hg
    have hitems : (s.bm.buf.top.1).items = s.bm.buf.items := by simp only [Buf.top]; split <;> rfl
    refine conserved_congr s _ rfl hitems (fun x => ?_) rfl rfl hi
    unfold cntOpen; rw [hg.1]; rfl
  | cycleStep =>
    simp only [step] at h
    split at h
    · rename_i allow acc hloop
      split at h
      · cases h
      · rename_i i hcur
        split at h
        · cases h
        · rename_i op hop
          have hrem : ∀ x, (removeAt s.bm.buf i).items.count x + (if op = x then 1 else 0) = s.bm.buf.items.count x := by
            intro x
            exact count_eraseIdx _ i op x hop
          have hopen : ∀ x, cntOpen x s = cntB x acc.openB := by intro x; unfold cntOpen; rw [hloop]
          split at h
          · cases h
          · cases h
            have hitems : (s.bm.buf.skip.1).items = s.bm.buf.items := by
              simp only [Buf.skip]; split
              · rfl
              · split <;> rfl
            exact conserved_congr s _ rfl hitems (fun x => rfl) rfl rfl hi
          · rename_i acc' slot hs
            cases h
            intro x
            have h1 := stepOp_conserve (cycleCfg c allow) acc (slotFree c s) op x hs
            simp only [optCnt] at h1
            have h2 := afterTake_items c s i allow acc' slot x
            have := hi x
            rw [hopen x] at this
            simp only [afterTake_batches, afterTake_discarded, cntOpen, afterTake_loop]
            have := hrem x
            omega
          · rename_i acc' p slot hs
            cases h
            intro x
            obtain ⟨w, b⟩ := p
            have h1 := stepOp_conserve (cycleCfg c allow) acc (slotFree c s) op x hs
            simp only [optCnt] at h1
            have h2 := afterTake_items c s i allow acc' slot x
            have h3 := raise_cntR c (afterTake c s i allow acc' slot) (w, b) x
            have := hi x
            rw [hopen x] at this
            simp only [raise_inserted, raise_bm, raise_discarded, cntOpen, raise_loop, afterTake_loop, h3,
              afterTake_batches, afterTake_discarded]
            have := hrem x
            omega
    · cases h
  | scanEnd =>
    simp only [step] at h
    split at h
    · rename_i allow acc hloop
      split at h <;> cases h
      exact conserved_congr s _ rfl rfl (fun x => by unfold cntOpen; rw [hloop]) rfl rfl hi
    · cases h
  | sweepOne w =>
    simp only [step] at h
    split at h
    · rename_i acc hloop
      split at h
      · cases h
      · rename_i b hb
        cases h
        intro x
        have he := cntB_erase_lookup x w acc.openB
        rw [hb] at he
        simp only at he
        have h3 := raise_cntR c s (w, b) x
        have := hi x
        have hopen : cntOpen x s = cntB x acc.openB := by unfold cntOpen; rw [hloop]
        rw [hopen] at this
        simp only [raise_inserted, raise_bm, raise_discarded, cntOpen, h3]
        omega
    · cases h
  | cycleEnd =>
    simp only [step] at h
    split at h
    · rename_i acc hloop
      split at h <;> cases h
      rename_i he
      refine conserved_congr s _ rfl rfl (fun x => ?_) rfl rfl hi
      have : acc.openB = [] := by simpa using he
      unfold cntOpen; rw [hloop]; simp [this]
    · cases h
  | cbReturn b =>
    simp only [step] at h
    split at h <;> cases h
    intro x
    have := hi x
    have hco : cntOpen x (markCbDone s b) = cntOpen x s := rfl
    rw [hco]
    simp only [markCbDone]
    rw [cntR_map x s.batches _ (by intro y; split <;> rfl)]
    exact this
  | finish b =>
    simp only [step] at h
    (repeat' split at h) <;> cases h
    intro x
    have := hi x
    rename_i y _ _
    have hco : cntOpen x (markFinished c s b y) = cntOpen x s := rfl
    rw [hco]
    simp only [markFinished]
    rw [cntR_map x s.batches _ (by intro y; split <;> rfl)]
    exact this
  | startCall =>
    simp only [step] at h
    split at h <;> cases h
    rename_i hg
    have hl' := hst (by simpa using hg)
    exact conserved_congr s _ rfl rfl (fun x => by unfold cntOpen; rw [hl']) rfl rfl hi
  | takePause =>
    simp only [step] at h
    split at h <;> cases h
    rename_i hg
    simp only [Bool.and_eq_true, beq_iff_eq] at hg
    exact conserved_congr s _ rfl rfl (fun x => by unfold cntOpen; rw [hg.1]) rfl rfl hi
  | wake =>
    simp only [step] at h
    split at h
    · rename_i u hl'
      split at h <;> cases h
      exact conserved_congr s _ rfl rfl (fun x => by unfold cntOpen; rw [hl']) rfl rfl hi
    · cases h
  | _ =>
    simp only [step] at h <;> (repeat' split at h) <;> (try cases h) <;>
      first
      | exact hi
      | exact conserved_congr s _ rfl rfl (fun x => rfl) rfl rfl hi
      | exact conserved_congr s _ (by simp [enqRefuse, doAudit]) (by simp [enqRefuse, doAudit]) (fun x => rfl) (by simp [enqRefuse, doAudit]) (by simp [enqRefuse, doAudit]) hi

def noSetCost (_ : St) : Label → Prop
  | .setCost _ _ => False
  | _ => True

/-- **Exactly once.** In every state reachable with constant costs, every operation occurrence that was accepted
is in exactly one place: buffered, in an open batch of the running cycle, in one raised batch, or discarded by
the shutdown. -/
theorem accepted_is_in_exactly_one_place (c : BCfg) : ∀ (ls : List Label) (s s' : St), run c s ls = some s' →
    AllSteps c noSetCost s ls → Inv c s → Conserved s → Conserved s' := by
  intro ls
  induction ls with
  | nil => intro s s' h _ _ hc; simp [run] at h; subst h; exact hc
  | cons l ls ih =>
    intro s s' h ha hi hc
    simp only [run] at h
    cases hs : step c s l with
    | none => simp [hs] at h
    | some s1 =>
      simp [hs] at h
      have hl : ∀ o k, l ≠ .setCost o k := by
        intro o k e; subst e; exact ha.1
      exact ih s1 s' h (ha.2 s1 hs) (step_inv c s s1 l hs hi) (step_conserved c s s1 l hs hl hi.start hc)

theorem conserved_init (c : BCfg) : Conserved (St.init c) := by
  intro x; simp [St.init, BufM.new, Buf.new, cntOpen, cntR]

/-- An Enqueue that returns an error never leads to a delivery: only `enqOk` (the call returns nil) adds to `inserted`. -/
theorem refused_is_never_inserted (s : St) (k : Nat) (op : Op) (r : EnqRes) (tb : Bool) :
    (enqRefuse s k op r tb).inserted = s.inserted ∧ (enqBlock s k op).inserted = s.inserted := ⟨rfl, rfl⟩

/-! ### never another Watcher's -/

def OwnOK (s : St) : Prop :=
  (∀ b ∈ s.batches, ∀ o ∈ b.ops, o.w = b.w) ∧
  (match s.loop with
   | .cycle _ acc => ∀ p ∈ acc.openB, ∀ o ∈ p.2, o.w = p.1
   | .sweep acc => ∀ p ∈ acc.openB, ∀ o ∈ p.2, o.w = p.1
   | _ => True)

theorem raise_own (c : BCfg) (s : St) (p : Batch) (hp : ∀ o ∈ p.2, o.w = p.1)
    (h : ∀ b ∈ s.batches, ∀ o ∈ b.ops, o.w = b.w) : ∀ b ∈ (raise c s p).batches, ∀ o ∈ b.ops, o.w = b.w := by
  unfold raise
  split
  · exact h
  · intro b hb
    simp only [List.mem_append, List.mem_singleton] at hb
    rcases hb with hb | hb
    · exact h b hb
    · subst hb; exact hp

theorem stepOp_own (cc : Cfg) (a : Acc) (av : Bool) (op : Op) (h : ∀ p ∈ a.openB, ∀ o ∈ p.2, o.w = p.1)
    {a' : Acc} {out : Option Batch} {sl : Bool} (hs : stepOp cc a av op = .take a' out sl) :
    (∀ p ∈ a'.openB, ∀ o ∈ p.2, o.w = p.1) ∧ (∀ p, out = some p → ∀ o ∈ p.2, o.w = p.1) := by
  have he := stepOp_entries cc a av op hs
  have key : ∀ p, FromStep a op p → ∀ o ∈ p.2, o.w = p.1 := by
    intro p ⟨b, hb, hbo⟩ o ho
    rw [hb] at ho ⊢
    simp only [List.mem_append, List.mem_singleton] at ho
    rcases ho with ho | ho
    · rcases hbo with hbo | hbo
      · subst hbo; simp at ho
      · exact h _ hbo o ho
    · subst ho; rfl
  constructor
  · intro p hp
    rcases he.1 p hp with h1 | h1
    · exact h p h1
    · exact key p h1
  · intro p hp; exact key p (he.2 p hp)

theorem reCost_w (o k : Nat) (x : Op) : (reCost o k x).w = x.w := by unfold reCost; split <;> rfl

theorem step_ownOK (c : BCfg) (s s' : St) (l : Label) (h : step c s l = some s') (hl : ∀ o k, l ≠ .setCost o k)
    (hi : OwnOK s) : OwnOK s' := by
  obtain ⟨hb, hloop⟩ := hi
  cases l with
  | cycleStep =>
    simp only [step] at h
    split at h
    · rename_i allow acc hl
      have hacc : ∀ p ∈ acc.openB, ∀ o ∈ p.2, o.w = p.1 := by rw [hl] at hloop; exact hloop
      (repeat' split at h) <;> (try cases h)
      · exact ⟨hb, by simp only; rw [hl]; exact hacc⟩
      · rename_i hs
        have := (stepOp_own _ _ _ _ hacc hs).1
        exact ⟨by simp only [afterTake_batches]; exact hb, by simp only [afterTake_loop]; exact this⟩
      · rename_i acc' p slot hs
        have h1 := stepOp_own _ _ _ _ hacc hs
        refine ⟨raise_own c _ p (h1.2 p rfl) (by simp only [afterTake_batches]; exact hb), ?_⟩
        simp only [raise_loop, afterTake_loop]; exact h1.1
    · cases h
  | sweepOne w =>
    simp only [step] at h
    split at h
    · rename_i acc hl
      split at h
      · cases h
      · rename_i b hbk
        cases h
        have hacc : ∀ p ∈ acc.openB, ∀ o ∈ p.2, o.w = p.1 := by rw [hl] at hloop; exact hloop
        refine ⟨raise_own c s (w, b) (hacc (w, b) (lookupB_mem hbk)) hb, ?_⟩
        simp only
        intro p hp
        exact hacc p (mem_eraseB hp)
    · cases h
  | scanEnd =>
    simp only [step] at h
    split at h
    · rename_i allow acc hl
      split at h <;> cases h
      exact ⟨hb, by simp only; rw [hl] at hloop; exact hloop⟩
    · cases h
  | cycleBegin a =>
    simp only [step] at h
    split at h <;> cases h
    exact ⟨hb, by simp⟩
  | setCost o k => exact absurd rfl (hl o k)
  | cbReturn b =>
    simp only [step] at h
    split at h <;> cases h
    refine ⟨?_, hloop⟩
    intro y hy o ho
    simp only [markCbDone, List.mem_map] at hy
    obtain ⟨z, hz, rfl⟩ := hy
    split at ho <;> first | exact hb z hz o ho | (split <;> exact hb z hz o ho)
  | finish b =>
    simp only [step] at h
    (repeat' split at h) <;> cases h
    refine ⟨?_, hloop⟩
    intro y hy o ho
    simp only [markFinished, List.mem_map] at hy
    obtain ⟨z, hz, rfl⟩ := hy
    split at ho <;> first | exact hb z hz o ho | (split <;> exact hb z hz o ho)
  | _ =>
    simp only [step] at h <;> (repeat' split at h) <;> (try cases h) <;>
      first
      | exact ⟨hb, hloop⟩
      | (refine ⟨hb, ?_⟩; simp_all; done)
      | (refine ⟨by simp [shutdownV1, shutdownV2, enqOk, enqRefuse, enqBlock, unwake, doAudit]; exact hb, ?_⟩
         simp_all [shutdownV1, shutdownV2, enqOk, enqRefuse, enqBlock, unwake, doAudit])

end GoBatcher.C01b

import GoBatcher.Lemmas.LeaseReach
import GoBatcher.Props.C04
/-!
# C07 — Shared capacity is acquired only on demand and given back when demand falls

Model: M-Lease. All GiveMe histories, factors, reserves, grant / refusal outcomes and timings, any number of
instances, unbounded time.
-/
namespace GoBatcher.C07
open GoBatcher

/-- **A lease request is issued only below the target**, for an existing partition the instance is not counting. -/
theorem request_only_on_demand (n : Nat) (s s' : LSt) (i p : Nat) (h : lstep n s (.issue i p) = some s') :
    (s.inst i).held.length < (s.inst i).target ∧ p < (s.inst i).parts ∧ p ∉ (s.inst i).held := by
  unfold lstep at h
  simp only [LLabel.inst?] at h
  split at h
  · simp only [lstepCore] at h
    split at h <;> cases h
    rename_i hg
    simp only [Bool.and_eq_true, Option.isNone_iff_eq_none, decide_eq_true_eq, Bool.not_eq_true', List.contains_eq_mem,
      decide_eq_false_iff_not] at hg
    exact ⟨hg.1.1.2, hg.1.2, hg.2⟩
  · cases h

/-- the target is what the most recent GiveMe required: the capacity asked above the reserve *at that time*,
divided by the factor, rounded up … -/
theorem giveMe_sets_target (n : Nat) (s s' : LSt) (i v : Nat) (h : lstep n s (.giveMe i v) = some s') :
    (s'.inst i).target = ceilDivN (v - (s.inst i).reserved) (s.inst i).factor := by
  unfold lstep at h
  simp only [LLabel.inst?] at h
  split at h
  · simp only [lstepCore] at h; cases h; simp [neededPartitions]
  · cases h

/-- … and nothing but a GiveMe of that instance changes it -/
theorem target_kept (n : Nat) (s s' : LSt) (l : LLabel) (h : lstep n s l = some s') (i : Nat)
    (hl : ∀ v, l ≠ .giveMe i v) : (s'.inst i).target = (s.inst i).target := by
  by_cases hi : l.inst? = some i
  · unfold lstep at h
    cases l <;> simp only [LLabel.inst?, Option.some.injEq, reduceCtorEq] at hi <;> subst hi <;>
      simp only [LLabel.inst?, lstepCore] at h <;> (repeat' split at h) <;> (try cases h) <;>
      first
        | exact absurd rfl (hl _)
        | rfl
        | (simp only [updI_same, afterGrant])
  · rw [step_frame n s s' l h i hi]

/-- a request at or below the reserve asks for no partition -/
theorem target_zero_of_le_reserve (x : LInst) (v : Nat) (hf : 0 < x.factor) (hv : v ≤ x.reserved) :
    neededPartitions x v = 0 := by
  unfold neededPartitions ceilDivN
  have : v - x.reserved = 0 := by omega
  rw [this]
  exact Nat.div_eq_of_lt (by omega)

/-- **Never renewed.** In every reachable state, every counted partition has a pending expiry at most one lease
duration ahead; expiries are only ever *added* for a newly reported grant, at `issuedAt + lease` (`C04.counted_from_issue`),
so no hold outlives the lease duration that followed its report. -/
theorem never_renewed {n lease : Nat} {inst : Nat → LInst} (hc : Configured inst) {s : LSt}
    (h : LReach n lease inst s) (i p : Nat) (hp : p ∈ (s.inst i).held) :
    ∃ c, (p, c) ∈ (s.inst i).timers ∧ c ≤ s.now + s.lease := by
  obtain ⟨c, hm, _⟩ := (reach_excl hc h).hold i p hp
  exact ⟨c, hm, (reach_lwf hc h i).timerFresh p c hm⟩

/-- timers are never postponed: a step keeps each pending expiry as it is, or adds the one of the grant being reported -/
theorem timers_never_postponed (n : Nat) (s s' : LSt) (l : LLabel) (h : lstep n s l = some s') (i : Nat) (t : Nat × Nat)
    (ht : t ∈ (s'.inst i).timers) :
    t ∈ (s.inst i).timers ∨ (l = .ret i ∧ ∃ cl, (s.inst i).call = some cl ∧ t = (cl.part, cl.issuedAt + s.lease)) := by
  by_cases hi : l.inst? = some i
  · unfold lstep at h
    cases l <;> simp only [LLabel.inst?, Option.some.injEq, reduceCtorEq] at hi <;> subst hi <;>
      simp only [LLabel.inst?, lstepCore] at h <;> (repeat' split at h) <;> (try cases h) <;>
      (try simp only [updI_same] at ht) <;>
      first
        | exact Or.inl ht
        | exact Or.inl (List.mem_of_mem_erase ht)
        | skip
    rename_i _ _ cl hcl _ u hres _
    simp only [afterGrant, List.mem_append, List.mem_singleton] at ht
    rcases ht with h1 | h1
    · exact Or.inl h1
    · exact Or.inr ⟨rfl, cl, hcl, h1⟩
  · rw [step_frame n s s' l h i hi] at ht; exact Or.inl ht

/-! ### decay to the reserve -/

/-- instance `i` has no demand, and everything it holds or may still be granted ends by `T` -/
structure Quiet (T : Nat) (s : LSt) (i : Nat) : Prop where
  target : (s.inst i).target = 0
  timers : ∀ p c, (p, c) ∈ (s.inst i).timers → c ≤ T
  call : ∀ cl, (s.inst i).call = some cl → cl.issuedAt + s.lease ≤ T

theorem step_quiet (n : Nat) (s s' : LSt) (l : LLabel) (h : lstep n s l = some s') (i T : Nat)
    (hl : ∀ v, l ≠ .giveMe i v) (hq : Quiet T s i) : Quiet T s' i := by
  have htg := target_kept n s s' l h i hl
  have hle := step_lease n s s' l h
  refine ⟨by rw [htg]; exact hq.target, ?_, ?_⟩
  · intro p c hm
    rcases timers_never_postponed n s s' l h i (p, c) hm with h1 | ⟨_, cl, hcl, he⟩
    · exact hq.timers p c h1
    · cases he; exact hq.call cl hcl
  · intro cl hcl
    rw [hle]
    by_cases hi : l.inst? = some i
    · unfold lstep at h
      revert hcl
      cases l <;> simp only [LLabel.inst?, Option.some.injEq, reduceCtorEq] at hi <;> subst hi <;>
        simp only [LLabel.inst?, lstepCore] at h <;> (repeat' split at h) <;> (try cases h) <;> intro hcl <;>
        (try simp only [updI_same, afterGrant] at hcl) <;>
        first
          | exact hq.call cl hcl
          | (cases hcl)
          | skip
      · -- issue: impossible, the target is 0
        rename_i hg
        simp only [Bool.and_eq_true, decide_eq_true_eq] at hg
        have := hq.target
        omega
      all_goals
        rename_i cl0 hcl0 _ _
        exact hq.call cl0 hcl0
    · rw [step_frame n s s' l h i hi] at hcl; exact hq.call cl hcl

theorem run_quiet (n : Nat) (i T : Nat) : ∀ (ls : List LLabel) (s s' : LSt), lrun n s ls = some s' →
    (∀ l ∈ ls, ∀ v, l ≠ .giveMe i v) → Quiet T s i → Quiet T s' i := by
  intro ls
  induction ls with
  | nil => intro s s' h _ hq; simp [lrun] at h; subst h; exact hq
  | cons l ls ih =>
    intro s s' h hl hq
    simp only [lrun] at h
    cases hs : lstep n s l with
    | none => simp [hs] at h
    | some s1 =>
      simp [hs] at h
      exact ih s1 s' h (fun l' hm => hl l' (List.mem_cons_of_mem _ hm))
        (step_quiet n s s1 l hs i T (hl l List.mem_cons_self) hq)

/-- **Capacity decays to the reserve within one lease duration.** Once the requested capacity is at or below the
reserve (target 0 in state `s0`), and for as long as no new GiveMe arrives: the instance issues no further lease
request, and every settled state at least one lease duration later counts no partition at all. -/
theorem decays_to_reserve {n lease : Nat} {inst : Nat → LInst} (hc : Configured inst) {s0 : LSt}
    (h0 : LReach n lease inst s0) (i : Nat) (ht : (s0.inst i).target = 0)
    (ls : List LLabel) (s : LSt) (hr : lrun n s0 ls = some s) (hl : ∀ l ∈ ls, ∀ v, l ≠ .giveMe i v) :
    (∀ p, lstep n s (.issue i p) = none) ∧
    (s0.now + s0.lease ≤ s.now → C04.Settled s → (s.inst i).held = [] ∧ (s.inst i).capacity = (s.inst i).reserved) := by
  have hq0 : Quiet (s0.now + s0.lease) s0 i := by
    refine ⟨ht, fun p c hm => (reach_lwf hc h0 i).timerFresh p c hm, fun cl hcl => ?_⟩
    have := ((reach_lwf hc h0 i).callOK cl hcl).2.2
    omega
  have hq := run_quiet n i _ ls s0 s hr hl hq0
  constructor
  · intro p
    cases hst : lstep n s (.issue i p) with
    | none => rfl
    | some s1 =>
      have := (request_only_on_demand n s s1 i p hst).1
      rw [hq.target] at this
      omega
  · intro hlate hset
    have hreach := reach_run h0 ls hr
    have hnil : (s.inst i).held = [] := by
      cases hh : (s.inst i).held with
      | nil => rfl
      | cons p t =>
        have hp : p ∈ (s.inst i).held := by rw [hh]; exact List.mem_cons_self
        obtain ⟨c, hm, _⟩ := (reach_excl hc hreach).hold i p hp
        have h1 := hq.timers p c hm
        have h2 := hset i p c hm
        omega
    exact ⟨hnil, by simp [LInst.capacity, hnil]⟩

-- non-vacuity: demand raised, a partition acquired, demand dropped, 15 s later the partition is gone and no request is enabled
example : ∃ s, lrun 1 (initSt 15 (fun _ => LInst.init .v2 5 7 12))
    [.start 0 true, .provision 0, .giveMe 0 20, .issue 0 2, .proc 0 true, .ret 0, .giveMe 0 7, .advance 15, .expire 0 2 15] = some s ∧
    (s.inst 0).capacity = 7 ∧ lstep 1 s (.issue 0 1) = none := ⟨_, rfl, by decide, by decide⟩

end GoBatcher.C07

import GoBatcher.Lemmas.BatcherReach2
/-!
# C02 (machine level) — cycles start only on FlushInterval ticks, one per tick; each Flush() adds at most one
-/
namespace GoBatcher.C02b
open GoBatcher

/-- In every reachable state: cycles begun (+ a pending request) ≤ flush ticks taken + Flush() calls.
Requests coalesce in the 1-slot channel, so k calls (or ticks) while one is pending add one cycle. -/
theorem cycles_bounded_by_ticks_and_calls (c : BCfg) (s : St) (h : Reachable c s) :
    s.cycles + b2n s.flushReq ≤ s.flushTicksTaken + s.flushCalls :=
  (reachable_inv2 c s h).cyc

/-- a cycle begins only by consuming a request, and a request is made only by a tick or a Flush() call -/
theorem cycle_needs_request (c : BCfg) (s s' : St) (a : Nat) (h : step c s (.cycleBegin a) = some s') :
    s.loop = .idle ∧ s.flushReq = true ∧ s'.flushReq = false ∧ s'.cycles = s.cycles + 1 := by
  simp only [step] at h
  split at h <;> cases h
  rename_i hg
  simp only [Bool.and_eq_true, beq_iff_eq] at hg
  exact ⟨hg.1, hg.2, rfl, rfl⟩

/-- ticks are exactly FlushInterval apart (default 100 ms), and a tick is taken at most once -/
theorem flush_ticks (c : BCfg) (s s' : St) :
    (step c s .fireF = some s' → s.now = s.nextF ∧ s'.nextF = s.nextF + c.flushInt ∧ s'.tickF = true) ∧
    (step c s .takeFlushTick = some s' → s.tickF = true ∧ s'.tickF = false ∧ s'.flushReq = true) := by
  constructor
  · intro h
    simp only [step] at h
    split at h <;> cases h
    rename_i hg
    simp only [Bool.and_eq_true, beq_iff_eq] at hg
    exact ⟨hg.2, rfl, rfl⟩
  · intro h
    simp only [step] at h
    split at h <;> cases h
    rename_i hg
    simp only [Bool.and_eq_true, beq_iff_eq] at hg
    exact ⟨hg.2, rfl, rfl⟩

theorem flush_interval_default (v : Int) (h : v ≤ 0) : applyDefault v defFlush = 100000000 := by
  simp [applyDefault, h, defFlush]

end GoBatcher.C02b

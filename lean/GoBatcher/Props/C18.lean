import GoBatcher.Model.LeaseMgr
/-!
# C18 — A lease is reported only when storage confirmed it; every error is handled

Model: M-LeaseMgr. The theorems quantify over EVERY error value (any service-code string, known to the SDK or
not, and non-storage errors), every partition index and every sequence of per-blob outcomes of any length.
The list of SDK codes, the case lists of the switches and the request parameters (15 s, If-None-Match *, blob
name = index) are regenerated facts / observed by the fault enumeration and the loopback run.
-/
namespace GoBatcher.C18
open GoBatcher

/-- a lease (of the 15 s asked for) is reported iff the acquire call succeeded -/
theorem lease_reported_iff_confirmed (index : Nat) (e : SdkErr) :
    ((leaseOutcome index e).1 = leaseSeconds ↔ e = .none) ∧ ((leaseOutcome index e).1 = 0 ∨ (leaseOutcome index e).1 = leaseSeconds) := by
  unfold leaseOutcome leaseSeconds
  split <;> simp

/-- on failure: a `failed` event for lease-already-present, an `error` event for everything else; none on success -/
theorem lease_failure_events (index : Nat) (e : SdkErr) :
    ((leaseOutcome index e).2 = [.failed index] ↔ e = .storage "LeaseAlreadyPresent") ∧
    ((leaseOutcome index e).2 = [.error] ↔ (e ≠ .none ∧ e ≠ .storage "LeaseAlreadyPresent")) ∧
    ((leaseOutcome index e).2 = [] ↔ e = .none) := by
  unfold leaseOutcome
  split <;> simp_all

/-- provisioning the container succeeds only for success and container-already-exists -/
theorem provision_success_iff (e : SdkErr) :
    (provisionOutcome e).1 = false ↔ (e = .none ∨ e = .storage "ContainerAlreadyExists") := by
  unfold provisionOutcome
  split <;> simp_all

/-- a blob counts as present only for success, blob-already-exists and blob-leased (LeaseIdMissing) -/
theorem blob_ok_iff (e : SdkErr) :
    blobOutcome e ≠ .err ↔ (e = .none ∨ e = .storage "BlobAlreadyExists" ∨ e = .storage "LeaseIdMissing") := by
  unfold blobOutcome
  split <;> simp_all

/-- v1: the run returns an error iff some blob upload failed otherwise, and it stops at the FIRST such blob
(blobs 0..k attempted, exactly k created/verified events before it), for any number of blobs and any position -/
theorem v1_stops_at_first_error (results : List SdkErr) (i : Nat) :
    let r := createV1 results i
    (r.1 = true ↔ ∃ e ∈ results, blobOutcome e = .err) ∧
    r.2.2 = (results.takeWhile (fun e => blobOutcome e != .err)).length + (if r.1 then 1 else 0) ∧
    r.2.1.length = (results.takeWhile (fun e => blobOutcome e != .err)).length := by
  induction results generalizing i with
  | nil => simp [createV1]
  | cons e rest ih =>
    have := ih (i + 1)
    cases hb : blobOutcome e <;> simp only [createV1, hb] <;> simp_all [List.takeWhile_cons] <;> omega

/-- v2: every blob 0..n-1 is attempted whatever fails, and each failure raises exactly one error event -/
theorem v2_attempts_all (results : List SdkErr) (i : Nat) :
    (createV2 results i).2 = results.length ∧ (createV2 results i).1.length = results.length ∧
    ((createV2 results i).1.filter (· == .error)).length = (results.filter (fun e => blobOutcome e == .err)).length := by
  induction results generalizing i with
  | nil => simp [createV2]
  | cons e rest ih =>
    have := ih (i + 1)
    cases hb : blobOutcome e <;> simp only [createV2, hb] <;> simp_all [List.filter_cons]

/-- blob `i` of the run is the `i`-th one: events carry the blob's own index -/
theorem v2_event_indexes (results : List SdkErr) (i : Nat) :
    ∀ k, (h : k < results.length) →
      ((createV2 results i).1[k]? = some (.createdBlob (i + k)) ∨ (createV2 results i).1[k]? = some (.verifiedBlob (i + k)) ∨
       (createV2 results i).1[k]? = some .error) := by
  induction results generalizing i with
  | nil => intro k h; simp at h
  | cons e rest ih =>
    intro k h
    cases k with
    | zero => cases hb : blobOutcome e <;> simp [createV2, hb]
    | succ j =>
      have := ih (i + 1) j (by simpa using h)
      have e1 : i + 1 + j = i + (j + 1) := by omega
      cases hb : blobOutcome e <;> simp only [createV2, hb] <;> simp <;> (rw [← e1]; exact this)

-- non-vacuity / sanity
example : createV1 [.none, .storage "BlobAlreadyExists", .storage "AuthenticationFailed", .none] =
    (true, [.createdBlob 0, .verifiedBlob 1], 3) := by decide
example : createV2 [.none, .other, .storage "LeaseIdMissing"] = ([.createdBlob 0, .error, .verifiedBlob 2], 3) := by decide
example : leaseOutcome 3 (.storage "LeaseAlreadyPresent") = (0, [.failed 3]) := by decide

end GoBatcher.C18

import GoBatcher.Lemmas.BatcherSlots
/-!
# C10 (machine level) — MaxConcurrentBatches is never exceeded and slots are never leaked

Model: M-Batcher, all interleavings of completions (return / time-out / late return) with flush cycles, for
watchers whose MaxOperationTime does not exceed the Batcher's (the property's restriction).
`Inflight()` is `s.slots`.
-/
namespace GoBatcher.C10b
open GoBatcher

theorem run_slots (c : BCfg) (hw : ∀ w, effMot c w ≤ c.mot) : ∀ (ls : List Label) (s s' : St),
    run c s ls = some s' → Inv c s → OpenNE s → SlotsOK c s → SlotsOK c s' ∧ OpenNE s' := by
  intro ls
  induction ls with
  | nil => intro s s' h _ hn hs; simp [run] at h; subst h; exact ⟨hs, hn⟩
  | cons l ls ih =>
    intro s s' h hi hn hs
    simp only [run] at h
    cases hst : step c s l with
    | none => simp [hst] at h
    | some s1 =>
      simp [hst] at h
      exact ih s1 s' h (step_inv c s s1 l hst hi) (step_openNE c s s1 l hst hn)
        (step_slotsOK c s s1 l hst hw hi.ids hi.time hi.start hn hs)

/-- In every reachable state: Inflight() equals the number of batches in progress (raised and neither returned
nor timed out) plus the batches the running cycle has opened and will raise in its sweep; and it never
exceeds MaxConcurrentBatches. Without a limit Inflight() is 0. -/
theorem inflight_is_batches_in_progress (c : BCfg) (hw : ∀ w, effMot c w ≤ c.mot) (s : St) (h : Reachable c s) :
    (c.mcb = 0 → s.slots = 0) ∧
    (c.mcb ≠ 0 → s.slots = nUnfinished s.batches + openCount s ∧ s.slots ≤ c.mcb) := by
  obtain ⟨ls, hr⟩ := h
  exact (run_slots c hw ls _ s hr (inv_init c) (by simp [OpenNE, St.init])
    (by simp [SlotsOK, St.init, nUnfinished, openCount])).1

/-- between cycles (loop not in a cycle) Inflight() is exactly the number of batches in progress, ≤ n -/
theorem at_most_n_in_progress (c : BCfg) (hw : ∀ w, effMot c w ≤ c.mot) (s : St) (h : Reachable c s)
    (hm : c.mcb ≠ 0) : nUnfinished s.batches ≤ c.mcb := by
  have := (inflight_is_batches_in_progress c hw s h).2 hm
  omega

/-- every slot is given back when its batch returns or times out: finishing a batch frees exactly one slot -/
theorem finish_frees_one_slot (c : BCfg) (s s' : St) (b : Nat) (h : step c s (.finish b) = some s') (hm : c.mcb ≠ 0) :
    s'.slots = s.slots - 1 := by
  simp only [step] at h
  split at h
  · cases h
  · split at h <;> cases h
    have hm' : (c.mcb != 0) = true := by simpa using hm
    simp [markFinished, hm']

/-- operations that cannot get a slot stay buffered: a cycle step that finds no free slot leaves the buffer
content and the demand untouched (it only moves the cursor) -/
theorem no_slot_no_release (c : BCfg) (s s' : St) (a : Nat) (acc : Acc) (i : Nat) (op : Op)
    (hl : s.loop = .cycle a acc) (hc : curPos c s = some i) (ho : s.bm.buf.items[i]? = some op)
    (hk : stepOp (cycleCfg c a) acc (slotFree c s) op = .skip) (h : step c s .cycleStep = some s') :
    s'.bm.buf.items = s.bm.buf.items ∧ s'.batches = s.batches ∧ s'.slots = s.slots ∧ s'.target = s.target := by
  simp only [step, hl, hc, ho, hk] at h
  cases h
  refine ⟨?_, rfl, rfl, rfl⟩
  simp only [Buf.skip]; split
  · rfl
  · split <;> rfl

/-- the Batcher cannot stall for lack of slots once callbacks finish: a finished batch makes `slotFree` true again -/
theorem slot_free_after_finish (c : BCfg) (hw : ∀ w, effMot c w ≤ c.mot) (s s' : St) (b : Nat)
    (hr : Reachable c s) (h : step c s (.finish b) = some s') : slotFree c s' = true := by
  by_cases hm : c.mcb = 0
  · simp [slotFree, hm]
  · have h1 := finish_frees_one_slot c s s' b h hm
    have h2 := ((inflight_is_batches_in_progress c hw s hr).2 hm).2
    obtain ⟨x, hf, hu, _, _⟩ : ∃ x, s.batches.find? (fun y => y.id == b) = some x ∧ x.finished = false ∧ True ∧ True := by
      simp only [step] at h
      split at h
      · cases h
      · rename_i x hf
        split at h <;> cases h
        rename_i hg
        simp only [Bool.and_eq_true, Bool.not_eq_true'] at hg
        exact ⟨x, hf, hg.1, trivial, trivial⟩
    -- x is unfinished, so at least one slot is in use
    have hx : x ∈ s.batches := List.mem_of_find?_eq_some hf
    have hpos : nUnfinished s.batches ≥ 1 := by
      unfold nUnfinished
      exact List.length_pos_of_mem (List.mem_filter.mpr ⟨hx, by simp [hu]⟩)
    have h3 := ((inflight_is_batches_in_progress c hw s hr).2 hm).1
    simp only [slotFree, Bool.or_eq_true, beq_iff_eq, decide_eq_true_eq]
    right; omega

-- non-vacuity: limit 1, two single operations: the second stays buffered until the first batch finishes
private def cfg : BCfg :=
  { gen := .v2, bufCap := 4, limited := false, flushInt := 100, capInt := 1000, auditInt := 1000, mot := 50, pause := 5,
    errorOnFull := false, mcb := 1, wMaxBatch := fun _ => 0, wMot := fun _ => 0, rollback := true, wos := true }
private def o1 : Op := { id := 1, obj := 1, w := 0, cost := 2, batchable := false }
private def o2 : Op := { id := 2, obj := 2, w := 0, cost := 3, batchable := false }
example : ∃ s, run cfg (St.init cfg) [.startCall, .enqCount 1 o1, .enqInsert 1, .enqCount 2 o2, .enqInsert 2, .advance 100,
    .fireF, .takeFlushTick, .cycleBegin 0, .cycleStep, .cycleStep, .scanEnd, .cycleEnd] = some s ∧
    s.slots = 1 ∧ s.bm.buf.items = [o2] ∧ nUnfinished s.batches = 1 := by
  refine ⟨_, rfl, ?_, ?_, ?_⟩ <;> decide

end GoBatcher.C10b

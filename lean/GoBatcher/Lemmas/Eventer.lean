import GoBatcher.Model.Eventer
/-! The invariant of M-Eventer. -/
namespace GoBatcher

@[simp] theorem updE_same (f : Nat → Emit) (ev : Nat) (x : Emit) : updE f ev x ev = x := by simp [updE]
theorem updE_other (f : Nat → Emit) (ev k : Nat) (x : Emit) (h : k ≠ ev) : updE f ev x k = f k := by simp [updE, h]

theorem count_pair_cons (a b : Nat × Nat) (l : List (Nat × Nat)) :
    (a :: l).count b = (if a = b then 1 else 0) + l.count b := by
  rw [List.count_cons]
  by_cases h : a = b
  · simp [h]; omega
  · have : (a == b) = false := by simpa using h
    simp [h, this]

structure EInv (s : ESt) : Prop where
  lnodup : s.listeners.Nodup
  rem : ∀ id, id ∈ s.removed → id ∉ s.listeners
  anodup : s.active.Nodup
  afresh : ∀ ev, ev ∈ s.active → ev ∉ s.finished
  pend : ∀ ev, ev ∈ s.active → (s.em ev).pending.Nodup ∧
      (∀ id, id ∈ (s.em ev).pending → id ∈ s.listeners ∧ id ∉ (s.em ev).done)
  snap : ∀ ev, ev ∈ s.active → ∀ id, id ∈ (s.em ev).snap ↔ (id ∈ (s.em ev).pending ∨ id ∈ (s.em ev).done)
  cnt : ∀ ev, ev ∈ s.active → ∀ id, s.log.count (ev, id) = if id ∈ (s.em ev).done then 1 else 0
  logev : ∀ p, p ∈ s.log → p.1 ∈ s.active ∨ p.1 ∈ s.finished
  fin : ∀ ev, ev ∈ s.finished → ∀ id, s.log.count (ev, id) = if id ∈ (s.em ev).snap then 1 else 0

theorem einv_init : EInv ESt.init := by
  refine ⟨?_, ?_, ?_, ?_, ?_, ?_, ?_, ?_, ?_⟩ <;> simp [ESt.init]

theorem step_einv (s s' : ESt) (l : ELabel) (h : estep s l = some s') (hi : EInv s) : EInv s' := by
  cases l with
  | add id =>
    simp only [estep] at h
    split at h <;> cases h
    rename_i hg
    simp only [Bool.and_eq_true, List.isEmpty_iff, Bool.not_eq_true', List.contains_eq_mem, decide_eq_false_iff_not] at hg
    obtain ⟨⟨ha, hl⟩, hr⟩ := hg
    refine ⟨List.nodup_cons.mpr ⟨hl, hi.lnodup⟩, ?_, hi.anodup, hi.afresh, ?_, ?_, ?_, hi.logev, hi.fin⟩
    · intro r hr' hm
      simp only [List.mem_cons] at hm
      rcases hm with hm | hm
      · subst hm; exact hr hr'
      · exact hi.rem r hr' hm
    · intro ev hev; simp only at hev; rw [ha] at hev; cases hev
    · intro ev hev; simp only at hev; rw [ha] at hev; cases hev
    · intro ev hev; simp only at hev; rw [ha] at hev; cases hev
  | remove id =>
    simp only [estep] at h
    split at h <;> cases h
    rename_i ha
    simp only [List.isEmpty_iff] at ha
    refine ⟨hi.lnodup.erase id, ?_, hi.anodup, hi.afresh, ?_, ?_, ?_, hi.logev, hi.fin⟩
    · intro r hr hm
      simp only [List.mem_cons] at hr
      rcases hr with hr | hr
      · subst hr; exact (List.Nodup.not_mem_erase hi.lnodup) hm
      · exact hi.rem r hr (List.mem_of_mem_erase hm)
    · intro ev hev; simp only at hev; rw [ha] at hev; cases hev
    · intro ev hev; simp only at hev; rw [ha] at hev; cases hev
    · intro ev hev; simp only at hev; rw [ha] at hev; cases hev
  | emitBegin ev =>
    simp only [estep] at h
    split at h <;> cases h
    rename_i hg
    simp only [Bool.and_eq_true, Bool.not_eq_true', List.contains_eq_mem, decide_eq_false_iff_not] at hg
    obtain ⟨hna, hnf⟩ := hg
    have hzero : ∀ id, s.log.count (ev, id) = 0 := by
      intro id
      apply List.count_eq_zero.mpr
      intro hm
      rcases hi.logev _ hm with h1 | h1
      · exact hna h1
      · exact hnf h1
    refine ⟨hi.lnodup, hi.rem, List.nodup_cons.mpr ⟨hna, hi.anodup⟩, ?_, ?_, ?_, ?_, ?_, ?_⟩
    · intro k hk
      simp only [List.mem_cons] at hk
      rcases hk with hk | hk
      · subst hk; exact hnf
      · exact hi.afresh k hk
    · intro k hk
      simp only [List.mem_cons] at hk
      by_cases hke : k = ev
      · subst hke
        simp only [updE_same]
        exact ⟨hi.lnodup, fun id hid => ⟨hid, by simp⟩⟩
      · rcases hk with hk | hk
        · exact absurd hk hke
        · simp only [updE_other _ _ _ _ hke]; exact hi.pend k hk
    · intro k hk id
      simp only [List.mem_cons] at hk
      by_cases hke : k = ev
      · subst hke; simp
      · rcases hk with hk | hk
        · exact absurd hk hke
        · simp only [updE_other _ _ _ _ hke]; exact hi.snap k hk id
    · intro k hk id
      simp only [List.mem_cons] at hk
      by_cases hke : k = ev
      · subst hke; simp [hzero]
      · rcases hk with hk | hk
        · exact absurd hk hke
        · simp only [updE_other _ _ _ _ hke]; exact hi.cnt k hk id
    · intro p hp
      rcases hi.logev p hp with h1 | h1
      · exact Or.inl (List.mem_cons_of_mem _ h1)
      · exact Or.inr h1
    · intro k hk id
      have hke : k ≠ ev := by intro e; subst e; exact hnf hk
      simp only [updE_other _ _ _ _ hke]; exact hi.fin k hk id
  | deliver ev id =>
    simp only [estep] at h
    split at h <;> cases h
    rename_i hg
    simp only [Bool.and_eq_true, List.contains_eq_mem, decide_eq_true_eq] at hg
    obtain ⟨hact, hpen⟩ := hg
    obtain ⟨pn, pm⟩ := hi.pend ev hact
    have hidnd : id ∉ (s.em ev).done := (pm id hpen).2
    refine ⟨hi.lnodup, hi.rem, hi.anodup, hi.afresh, ?_, ?_, ?_, ?_, ?_⟩
    · intro k hk
      by_cases hke : k = ev
      · subst hke
        simp only [updE_same]
        refine ⟨pn.erase id, ?_⟩
        intro id' hid'
        have hmem := List.mem_of_mem_erase hid'
        refine ⟨(pm id' hmem).1, ?_⟩
        simp only [List.mem_cons, not_or]
        refine ⟨?_, (pm id' hmem).2⟩
        intro e; subst e; exact (List.Nodup.not_mem_erase pn) hid'
      · simp only [updE_other _ _ _ _ hke]; exact hi.pend k hk
    · intro k hk id'
      by_cases hke : k = ev
      · subst hke
        simp only [updE_same, List.mem_cons]
        rw [hi.snap k hk id']
        by_cases hii : id' = id
        · subst hii; simp [hpen]
        · rw [List.mem_erase_of_ne hii]; simp [hii]
      · simp only [updE_other _ _ _ _ hke]; exact hi.snap k hk id'
    · intro k hk id'
      simp only [count_pair_cons]
      by_cases hke : k = ev
      · subst hke
        simp only [updE_same, List.mem_cons]
        rw [hi.cnt k hk id']
        by_cases hii : id' = id
        · subst hii; simp [hidnd]
        · have : ¬ ((k, id) = (k, id')) := by intro e; cases e; exact hii rfl
          simp [this, hii]
      · simp only [updE_other _ _ _ _ hke]
        have : ¬ ((ev, id) = (k, id')) := by intro e; cases e; exact hke rfl
        simp only [this, if_false, Nat.zero_add]
        exact hi.cnt k hk id'
    · intro p hp
      simp only [List.mem_cons] at hp
      rcases hp with hp | hp
      · subst hp; exact Or.inl hact
      · exact hi.logev p hp
    · intro k hk id'
      have hke : k ≠ ev := by intro e; subst e; exact hi.afresh k hact hk
      simp only [updE_other _ _ _ _ hke, count_pair_cons]
      have : ¬ ((ev, id) = (k, id')) := by intro e; cases e; exact hke rfl
      simp only [this, if_false, Nat.zero_add]
      exact hi.fin k hk id'
  | emitEnd ev =>
    simp only [estep] at h
    split at h <;> cases h
    rename_i hg
    simp only [Bool.and_eq_true, List.contains_eq_mem, decide_eq_true_eq, List.isEmpty_iff] at hg
    obtain ⟨hact, hpe⟩ := hg
    refine ⟨hi.lnodup, hi.rem, hi.anodup.erase ev, ?_, ?_, ?_, ?_, ?_, ?_⟩
    · intro k hk
      have hka := List.mem_of_mem_erase hk
      simp only [List.mem_cons, not_or]
      refine ⟨?_, hi.afresh k hka⟩
      intro e; subst e; exact (List.Nodup.not_mem_erase hi.anodup) hk
    · intro k hk; exact hi.pend k (List.mem_of_mem_erase hk)
    · intro k hk; exact hi.snap k (List.mem_of_mem_erase hk)
    · intro k hk; exact hi.cnt k (List.mem_of_mem_erase hk)
    · intro p hp
      rcases hi.logev p hp with h1 | h1
      · by_cases hpe' : p.1 = ev
        · exact Or.inr (by rw [hpe']; exact List.mem_cons_self)
        · exact Or.inl ((List.mem_erase_of_ne hpe').mpr h1)
      · exact Or.inr (List.mem_cons_of_mem _ h1)
    · intro k hk id
      simp only [List.mem_cons] at hk
      rcases hk with hk | hk
      · subst hk
        rw [hi.cnt k hact id]
        have := hi.snap k hact id
        rw [hpe] at this
        simp only [List.not_mem_nil, false_or] at this
        by_cases hd : id ∈ (s.em k).done
        · simp [hd, this.mpr hd]
        · have : id ∉ (s.em k).snap := fun hm => hd (this.mp hm)
          simp [hd, this]
      · exact hi.fin k hk id

theorem run_einv : ∀ (ls : List ELabel) (s s' : ESt), erun s ls = some s' → EInv s → EInv s' := by
  intro ls
  induction ls with
  | nil => intro s s' h hi; simp [erun] at h; subst h; exact hi
  | cons l ls ih =>
    intro s s' h hi
    simp only [erun] at h
    cases hs : estep s l with
    | none => simp [hs] at h
    | some s1 =>
      simp [hs] at h
      exact ih s1 s' h (step_einv s s1 l hs hi)

end GoBatcher

import GoBatcher.Lemmas.BatcherReach
/-! Loop-level facts of M-Batcher: urgency (maximal progress), what a sleeping / exited loop cannot do,
counting invariants for ticks, requests, cycles and pauses. -/
namespace GoBatcher

/-- labels taken by the processing-loop goroutine -/
def Label.isLoop : Label → Bool
  | .takeStop | .takePause | .takeAudit | .takeCap | .takeFlushTick | .cycleBegin _ | .cycleStep | .scanEnd
  | .sweepOne _ | .cycleEnd => true
  | _ => false

/-- labels by which the loop releases operations or asks for capacity -/
def Label.isWork : Label → Bool
  | .takeAudit | .takeCap | .takeFlushTick | .cycleBegin _ | .cycleStep | .scanEnd | .sweepOne _ | .cycleEnd => true
  | _ => false

/-- a loop that is sleeping (paused) takes no loop action at all; only `wake` leads out of the sleep -/
theorem sleeping_blocks_loop (c : BCfg) (s : St) (u : Nat) (l : Label) (hs : s.loop = .sleeping u)
    (hl : l.isLoop = true) : step c s l = none := by
  cases l <;> simp [Label.isLoop] at hl <;> simp [step, hs]

/-- after shutdown (the loop has exited) no loop action is possible: no batch is released, no capacity requested -/
theorem exited_blocks_loop (c : BCfg) (s : St) (l : Label) (hs : s.loop = .exited)
    (hl : l.isLoop = true ∨ l = .wake) : step c s l = none := by
  rcases hl with hl | hl
  · cases l <;> simp [Label.isLoop] at hl <;> simp [step, hs]
  · subst hl; simp [step, hs]

/-- before Start likewise -/
theorem notStarted_blocks_loop (c : BCfg) (s : St) (l : Label) (hs : s.loop = .notStarted)
    (hl : l.isLoop = true ∨ l = .wake) : step c s l = none := by
  rcases hl with hl | hl
  · cases l <;> simp [Label.isLoop] at hl <;> simp [step, hs]
  · subst hl; simp [step, hs]

/-- Urgency: time can pass with an idle loop only when no arm of its `select` is ready — every tick that
fired, every Flush() request, every Pause() and every stop request has been taken first. -/
theorem idle_time_passes_only_when_nothing_ready (s : St) (dt : Nat) (h : canAdvance s dt = true)
    (hl : s.loop = .idle) :
    s.stopReq = false ∧ s.pauseReq = false ∧ s.tickA = false ∧ s.tickC = false ∧ s.tickF = false ∧ s.flushReq = false := by
  unfold canAdvance at h
  simp only [hl, Bool.and_eq_true] at h
  have := h.1.1.1.2
  simp only [armReady, Bool.not_eq_true', Bool.or_eq_false_iff] at this
  obtain ⟨⟨⟨⟨⟨h1, h2⟩, h3⟩, h4⟩, h5⟩, h6⟩ := this
  exact ⟨h1, h2, h3, h4, h5, h6⟩

/-- no time passes inside a flush cycle -/
theorem no_time_inside_cycle (s : St) (dt : Nat) (h : canAdvance s dt = true) :
    (∀ a acc, s.loop ≠ .cycle a acc) ∧ (∀ acc, s.loop ≠ .sweep acc) := by
  unfold canAdvance at h
  constructor
  · intro a acc hl; simp [hl] at h
  · intro acc hl; simp [hl] at h

/-- a sleeping loop is woken exactly at the end of its sleep: time cannot pass beyond it … -/
theorem sleep_not_overslept (s : St) (dt u : Nat) (h : canAdvance s dt = true) (hl : s.loop = .sleeping u) :
    s.now + dt ≤ u := by
  unfold canAdvance at h
  simp only [hl, Bool.and_eq_true, decide_eq_true_eq] at h
  exact h.1.1.1.2

/-- … and `wake` is enabled at that instant only -/
theorem wake_only_at_end (c : BCfg) (s s' : St) (h : step c s .wake = some s') :
    ∃ u, s.loop = .sleeping u ∧ s.now = u ∧ s'.loop = .idle ∧
      s'.phase = (if s.phase == .paused then .started else s.phase) := by
  simp only [step] at h
  split at h
  · rename_i u hl
    split at h
    · rename_i hu
      cases h
      exact ⟨u, hl, by simpa using hu, rfl, rfl⟩
    · cases h
  · cases h

/-- the invariant behind "exactly PauseTime": while sleeping, now ≤ end of sleep -/
def SleepOK (s : St) : Prop := ∀ u, s.loop = .sleeping u → s.now ≤ u

set_option linter.unusedSimpArgs false in
theorem step_sleepOK (c : BCfg) (s s' : St) (l : Label) (h : step c s l = some s') (hi : SleepOK s) : SleepOK s' := by
  unfold SleepOK at *
  cases l with
  | advance dt =>
    simp only [step] at h
    split at h
    · rename_i hadv
      cases h
      intro u hu
      exact sleep_not_overslept s dt u hadv hu
    · cases h
  | takePause =>
    simp only [step] at h
    split at h <;> cases h
    intro u hu
    simp at hu
    show s.now ≤ u
    omega
  | setCost obj cost =>
    simp only [step] at h
    cases h
    intro u hu
    apply hi u
    simp only [doSetCost] at hu
    split at hu <;> first | (cases hu) | exact hu
  | _ =>
    simp only [step] at h <;> (repeat' split at h) <;> (try cases h) <;>
      first
      | exact hi
      | (intro u hu; simp_all [shutdownV1, shutdownV2, enqOk, enqRefuse, enqBlock, unwake, doAudit, markCbDone, markFinished, doSetCost]; done)

end GoBatcher

namespace GoBatcher

def b2n (b : Bool) : Nat := if b then 1 else 0

/-- every cycle was asked for by a FlushInterval tick or a Flush() call; requests coalesce in the 1-slot channel -/
def CycleCountOK (s : St) : Prop := s.cycles + b2n s.flushReq ≤ s.flushTicksTaken + s.flushCalls

set_option linter.unusedSimpArgs false in
theorem step_cycleCountOK (c : BCfg) (s s' : St) (l : Label) (h : step c s l = some s') (hi : CycleCountOK s) :
    CycleCountOK s' := by
  unfold CycleCountOK at *
  cases l <;> simp only [step] at h <;> (repeat' split at h) <;> (try cases h) <;>
    first
    | exact hi
    | (simp only [raise_flags, raise_counters, afterTake_flags, afterTake_counters]; exact hi)
    | (simp_all [b2n, shutdownV1, shutdownV2, enqOk, enqRefuse, enqBlock, unwake, doAudit, markCbDone, markFinished, doSetCost]; done)
    | (cases hf : s.flushReq <;> simp_all [b2n] <;> omega)

/-- pause events = effective Pause() calls; a pending pause request means the phase is not `started`,
so a further Pause() cannot be effective (and cannot extend the pause) -/
def PauseCountOK (s : St) : Prop :=
  s.pauses + b2n s.pauseReq = s.effPauseCalls ∧ (s.pauseReq = true → s.phase = .paused ∨ s.phase = .stopped) ∧
  (∀ u, s.loop = .sleeping u → s.pauseReq = false ∧ s.phase ≠ .started)

set_option linter.unusedSimpArgs false in
theorem step_pauseCountOK (c : BCfg) (s s' : St) (l : Label) (h : step c s l = some s') (hi : PauseCountOK s) :
    PauseCountOK s' := by
  unfold PauseCountOK at *
  obtain ⟨h1, h2, h3⟩ := hi
  cases l with
  | setCost obj cost =>
    simp only [step] at h; cases h
    refine ⟨h1, h2, ?_⟩
    intro u hu
    apply h3 u
    simp only [doSetCost] at hu
    split at hu <;> first | (cases hu) | exact hu
  | wake =>
    simp only [step] at h
    split at h
    · rename_i u hl
      split at h <;> cases h
      have hreq := (h3 u hl).1
      refine ⟨h1, ?_, by intro u hu; simp at hu⟩
      intro hp
      simp only at hp
      rw [hreq] at hp
      cases hp
    · cases h
  | pauseCall =>
    simp only [step] at h
    split at h <;> cases h
    · rename_i hg
      have hst : s.phase = .started := by simpa using hg
      have hreq : s.pauseReq = false := by
        cases hr : s.pauseReq with
        | false => rfl
        | true => rcases h2 hr with h | h <;> simp [hst] at h
      refine ⟨?_, fun _ => Or.inl rfl, ?_⟩
      · simp [b2n, hreq] at h1 ⊢; omega
      · intro u hu
        exact absurd hst (h3 u hu).2
    · exact ⟨h1, h2, h3⟩
  | takePause =>
    simp only [step] at h
    split at h <;> cases h
    rename_i hg
    simp only [Bool.and_eq_true, beq_iff_eq] at hg
    refine ⟨?_, ?_, ?_⟩
    · simp [b2n, hg.2] at h1 ⊢; omega
    · intro hp; simp at hp
    · intro u _
      refine ⟨rfl, ?_⟩
      rcases h2 hg.2 with h | h <;> simp [h]
  | _ =>
    simp only [step] at h <;> (repeat' split at h) <;> (try cases h) <;>
      first
      | exact ⟨h1, h2, h3⟩
      | (simp only [raise_flags, raise_counters, raise_phase, raise_loop, afterTake_flags, afterTake_counters, afterTake_phase, afterTake_loop]
         exact ⟨h1, h2, by intro u hu; simp at hu⟩)
      | (refine ⟨?_, ?_, ?_⟩ <;> simp_all [b2n, shutdownV1, shutdownV2, enqOk, enqRefuse, enqBlock, unwake, doAudit, markCbDone, markFinished] <;> omega)
      | (refine ⟨?_, ?_, ?_⟩ <;> simp_all [b2n, shutdownV1, shutdownV2, enqOk, enqRefuse, enqBlock, unwake, doAudit, markCbDone, markFinished])

/-- exactly one shutdown event, raised when the loop exits; once exited the loop stays exited unless it was
never started (phase bookkeeping: Start is possible only from `uninit`) -/
def ShutdownOK (s : St) : Prop :=
  s.shutdowns = b2n (decide (s.loop = .exited)) ∧ (s.loop = .exited → s.phase ≠ .uninit)

set_option linter.unusedSimpArgs false in
theorem step_shutdownOK (c : BCfg) (s s' : St) (l : Label) (h : step c s l = some s') (hst : StartOK s)
    (hi : ShutdownOK s) : ShutdownOK s' := by
  unfold ShutdownOK at *
  obtain ⟨h1, h2⟩ := hi
  cases l with
  | setCost obj cost =>
    simp only [step] at h; cases h
    have hl : (doSetCost s obj cost).loop = .exited ↔ s.loop = .exited := by
      simp only [doSetCost]; split <;> simp_all
    refine ⟨?_, fun he => h2 (hl.mp he)⟩
    show s.shutdowns = _
    rw [h1]; simp only [b2n, hl]
  | startCall =>
    simp only [step] at h
    split at h <;> cases h
    rename_i hg
    have := hst (by simpa using hg)
    simp_all [b2n]
  | takeStop =>
    simp only [step] at h
    split at h
    · rename_i hg
      simp only [Bool.and_eq_true, beq_iff_eq] at hg
      have hne : s.phase ≠ .uninit := fun e => by have := hst e; rw [hg.1] at this; cases this
      have hnl : ¬ (s.loop = .exited) := by rw [hg.1]; simp
      split at h <;> cases h <;> simp_all [b2n, shutdownV1, shutdownV2]
    · cases h
  | _ =>
    simp only [step] at h <;> (repeat' split at h) <;> (try cases h) <;>
      first
      | exact ⟨h1, h2⟩
      | (simp only [raise_counters, raise_shutdowns, raise_phase, raise_loop, afterTake_counters, afterTake_phase, afterTake_loop]
         simp_all [b2n]; done)
      | (simp_all [b2n, shutdownV1, shutdownV2, enqOk, enqRefuse, enqBlock, unwake, doAudit, markCbDone, markFinished]; done)

set_option linter.unusedSimpArgs false in
theorem step_tickC (c : BCfg) (s s1 : St) (l : Label) (hs : step c s l = some s1) :
    (if l = .takeCap then 1 else 0) + b2n s1.tickC ≤ (if l = .fireC then 1 else 0) + b2n s.tickC := by
  cases l <;> simp only [step] at hs <;> (repeat' split at hs) <;> (try cases hs) <;>
    first
    | (simp [b2n]; done)
    | (simp only [raise_flags, afterTake_flags]; simp [b2n]; done)
    | (simp [b2n, shutdownV1, shutdownV2, enqOk, enqRefuse, enqBlock, unwake, doAudit, markCbDone, markFinished, doSetCost]; done)
    | (cases ht : s.tickC <;> simp_all [b2n, shutdownV1, shutdownV2, enqOk, enqRefuse, enqBlock, unwake, doAudit, markCbDone, markFinished, doSetCost])

/-- capacity requests vs capacity ticks along a run: every request answers a tick, a tick is answered at most once -/
theorem run_requests_le_ticks (c : BCfg) : ∀ (ls : List Label) (s s' : St), run c s ls = some s' →
    ls.count .takeCap + b2n s'.tickC ≤ ls.count .fireC + b2n s.tickC := by
  intro ls
  induction ls with
  | nil => intro s s' h; simp [run] at h; subst h; simp
  | cons l ls ih =>
    intro s s' h
    simp only [run] at h
    cases hs : step c s l with
    | none => simp [hs] at h
    | some s1 =>
      simp [hs] at h
      have := ih s1 s' h
      have key := step_tickC c s s1 l hs
      simp only [List.count_cons]
      have e1 : (if (l == Label.takeCap) = true then 1 else 0) = (if l = .takeCap then 1 else 0) := by
        by_cases hh : l = .takeCap <;> simp [hh]
      have e2 : (if (l == Label.fireC) = true then 1 else 0) = (if l = .fireC then 1 else 0) := by
        by_cases hh : l = .fireC <;> simp [hh]
      omega

end GoBatcher

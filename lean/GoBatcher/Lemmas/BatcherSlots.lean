import GoBatcher.Lemmas.BatcherReach2
import GoBatcher.Lemmas.CycleOrder
/-! The slot invariant of M-Batcher (C10): `slots` = batches in progress (+ open batches of the running cycle). -/
namespace GoBatcher

def openCount (s : St) : Nat :=
  match s.loop with
  | .cycle _ acc => acc.openB.length
  | .sweep acc => acc.openB.length
  | _ => 0

def nUnfinished (l : List RBatch) : Nat := (l.filter (fun b => !b.finished)).length

/-- open batches of a running cycle are never empty -/
def OpenNE (s : St) : Prop :=
  match s.loop with
  | .cycle _ acc => ∀ p ∈ acc.openB, p.2 ≠ []
  | .sweep acc => ∀ p ∈ acc.openB, p.2 ≠ []
  | _ => True

theorem stepOp_openNE (cc : Cfg) (a : Acc) (av : Bool) (op : Op) (h : ∀ p ∈ a.openB, p.2 ≠ [])
    {a' : Acc} {out : Option Batch} {s : Bool} (hs : stepOp cc a av op = .take a' out s) :
    (∀ p ∈ a'.openB, p.2 ≠ []) ∧ (∀ p, out = some p → p.2 ≠ []) := by
  have he := stepOp_entries cc a av op hs
  constructor
  · intro p hp
    rcases he.1 p hp with h1 | ⟨b, hb, _⟩
    · exact h p h1
    · rw [hb]; simp
  · intro p hp
    obtain ⟨b, hb, _⟩ := he.2 p hp
    rw [hb]; simp

/-- one loop step: every reserved slot is exactly one new batch (raised now or opened) -/
theorem stepOp_count (cc : Cfg) (a : Acc) (av : Bool) (op : Op)
    {a' : Acc} {out : Option Batch} {slot : Bool} (hs : stepOp cc a av op = .take a' out slot) :
    out.toList.length + a'.openB.length = a.openB.length + (if slot then 1 else 0) ∧ (slot = true → av = true) := by
  refine ⟨?_, fun h => by subst h; exact stepOp_slot_avail cc a av op hs⟩
  unfold stepOp at hs
  split at hs
  · cases hs
  · split at hs
    · split at hs
      · rename_i b hb
        have hl := eraseB_length_some hb
        unfold place at hs
        split at hs <;> (injection hs with h1 h2 h3; subst h1 h2 h3; simp; omega)
      · rename_i hb
        have hl := lookupB_none_erase _ _ hb
        split at hs
        · unfold place at hs
          split at hs <;> (injection hs with h1 h2 h3; subst h1 h2 h3; simp [hl]; try omega)
        · cases hs
    · split at hs
      · injection hs with h1 h2 h3; subst h1 h2 h3; simp; omega
      · cases hs

theorem nUnfinished_cons (y : RBatch) (t : List RBatch) :
    nUnfinished (y :: t) = (if y.finished then 0 else 1) + nUnfinished t := by
  unfold nUnfinished
  cases hy : y.finished <;> simp [List.filter_cons, hy] <;> omega

theorem nUnfinished_append (l₁ l₂ : List RBatch) : nUnfinished (l₁ ++ l₂) = nUnfinished l₁ + nUnfinished l₂ := by
  simp [nUnfinished, List.filter_append]

theorem raise_nUnfinished (c : BCfg) (s : St) (p : Batch) (hp : p.2 ≠ []) :
    nUnfinished (raise c s p).batches = nUnfinished s.batches + 1 := by
  unfold raise
  have : p.2.isEmpty = false := by simpa using hp
  simp only [this, Bool.false_eq_true, if_false, nUnfinished_append, nUnfinished_cons]
  simp [nUnfinished]

theorem nUnfinished_mark (l : List RBatch) (b : Nat) (x : RBatch) (hnd : (l.map (·.id)).Nodup)
    (hx : x ∈ l) (hid : x.id = b) (hf : x.finished = false) :
    nUnfinished (l.map (markFin b)) + 1 = nUnfinished l := by
  induction l with
  | nil => simp at hx
  | cons y t ih =>
    simp only [List.map_cons, List.nodup_cons] at hnd
    simp only [List.mem_cons] at hx
    simp only [List.map_cons, nUnfinished_cons]
    rcases hx with hx | hx
    · subst hx
      have hrest : t.map (markFin b) = t := by
        have : ∀ y ∈ t, markFin b y = id y := by
          intro y hy
          exact markFin_ne (fun e => hnd.1 (List.mem_map.mpr ⟨y, hy, by rw [e, hid]⟩))
        rw [List.map_congr_left this, List.map_id]
      rw [hrest, markFin_eq hid, hf]
      simp; omega
    · have hne : y.id ≠ b := fun e => hnd.1 (List.mem_map.mpr ⟨x, hx, by rw [hid, e]⟩)
      have := ih hnd.2 hx
      rw [markFin_ne hne]
      omega

theorem nUnfinished_mapCb (l : List RBatch) (b : Nat) :
    nUnfinished (l.map (fun x => if x.id == b then { x with cbDone := true } else x)) = nUnfinished l := by
  induction l with
  | nil => rfl
  | cons y t ih =>
    simp only [List.map_cons, nUnfinished_cons, ih]
    split <;> rfl

end GoBatcher

namespace GoBatcher

theorem openNE_of_loop {s s' : St} (h : s'.loop = s.loop) (hi : OpenNE s) : OpenNE s' := by
  unfold OpenNE at *; rw [h]; exact hi

set_option linter.unusedSimpArgs false in
theorem step_openNE (c : BCfg) (s s' : St) (l : Label) (h : step c s l = some s') (hi : OpenNE s) : OpenNE s' := by
  cases l with
  | cycleStep =>
    simp only [step] at h
    split at h
    · rename_i allow acc hloop
      have hacc : ∀ p ∈ acc.openB, p.2 ≠ [] := by unfold OpenNE at hi; rw [hloop] at hi; exact hi
      (repeat' split at h) <;> (try cases h)
      · exact openNE_of_loop (s := s) rfl hi
      · rename_i hs
        have := (stepOp_openNE _ _ _ _ hacc hs).1
        unfold OpenNE; simp only [afterTake_loop]; exact this
      · rename_i hs
        have := (stepOp_openNE _ _ _ _ hacc hs).1
        unfold OpenNE; simp only [raise_loop, afterTake_loop]; exact this
    · cases h
  | cycleBegin a =>
    simp only [step] at h
    split at h <;> cases h
    unfold OpenNE; simp
  | scanEnd =>
    simp only [step] at h
    split at h
    · rename_i allow acc hloop
      split at h <;> cases h
      unfold OpenNE at *; rw [hloop] at hi; exact hi
    · cases h
  | sweepOne w =>
    simp only [step] at h
    split at h
    · rename_i acc hloop
      split at h <;> cases h
      unfold OpenNE at *
      rw [hloop] at hi
      simp only
      intro p hp
      exact hi p (mem_eraseB hp)
    · cases h
  | setCost obj cost =>
    simp only [step] at h; cases h
    unfold OpenNE doSetCost at *
    simp only
    split at hi <;> simp_all [reCostAcc, reCostB] <;>
      (intro a b x x1 hx _ hmap hb; subst hmap; exact hi x x1 hx (by simpa using hb))
  | _ =>
    simp only [step] at h <;> (repeat' split at h) <;> (try cases h) <;>
      first
      | exact hi
      | exact openNE_of_loop (s := s) rfl hi
      | (unfold OpenNE; simp [shutdownV1, shutdownV2]; done)
      | exact openNE_of_loop (s := s) (by simp [enqOk, enqRefuse, enqBlock, unwake, doAudit, markCbDone, markFinished]) hi

/-- `len(r.inflight)` = batches in progress + batches the running cycle has opened; never above the limit -/
def SlotsOK (c : BCfg) (s : St) : Prop :=
  (c.mcb = 0 → s.slots = 0) ∧ (c.mcb ≠ 0 → s.slots = nUnfinished s.batches + openCount s ∧ s.slots ≤ c.mcb)

theorem openCount_of_loop {s s' : St} (h : s'.loop = s.loop) : openCount s' = openCount s := by
  unfold openCount; rw [h]

theorem slotsOK_congr {c : BCfg} (s s' : St) (hs : s'.slots = s.slots) (hb : s'.batches = s.batches)
    (hl : openCount s' = openCount s) (h : SlotsOK c s) : SlotsOK c s' := by
  unfold SlotsOK at *; rw [hs, hb, hl]; exact h

end GoBatcher

namespace GoBatcher

theorem slotFree_spec (c : BCfg) (s : St) (h : slotFree c s = true) (hm : c.mcb ≠ 0) : s.slots < c.mcb := by
  unfold slotFree at h
  simp only [Bool.or_eq_true, beq_iff_eq, decide_eq_true_eq] at h
  rcases h with h | h
  · exact absurd h hm
  · exact h

/-- when the audit condition holds (healthy watchers), no batch is in progress -/
theorem audit_no_unfinished (c : BCfg) (s : St) (hw : ∀ w, effMot c w ≤ c.mot) (hcond : auditCond c s = true)
    (ht : TimeOK c s) : nUnfinished s.batches = 0 := by
  unfold auditCond at hcond
  simp only [Bool.and_eq_true] at hcond
  unfold nUnfinished
  have : s.batches.filter (fun b => !b.finished) = [] := by
    apply List.filter_eq_nil_iff.mpr
    intro b hb
    simp only [Bool.not_eq_true', Bool.not_eq_false]
    cases hf : b.finished with
    | true => rfl
    | false =>
      exfalso
      obtain ⟨t, hlt, hr, hd⟩ := ht.2.1 b hb
      have hlive := ht.1 b hb hf
      have h2 := hcond.2
      rw [hlt] at h2
      simp at h2
      have := hw b.w
      omega
  rw [this]; rfl

theorem step_slotsOK (c : BCfg) (s s' : St) (l : Label) (h : step c s l = some s')
    (hw : ∀ w, effMot c w ≤ c.mot) (hid : IdsOK s) (ht : TimeOK c s) (hst : StartOK s) (hne : OpenNE s)
    (hi : SlotsOK c s) : SlotsOK c s' := by
  cases l with
  | cycleStep =>
    simp only [step] at h
    split at h
    · rename_i allow acc hloop
      have hoc : openCount s = acc.openB.length := by unfold openCount; rw [hloop]
      have hacc : ∀ p ∈ acc.openB, p.2 ≠ [] := by unfold OpenNE at hne; rw [hloop] at hne; exact hne
      (repeat' split at h) <;> (try cases h)
      · exact slotsOK_congr s _ rfl rfl (openCount_of_loop rfl) hi
      · rename_i acc' slot hs
        have hc := stepOp_count _ _ _ _ hs
        simp only [Option.toList_none, List.length_nil, Nat.zero_add] at hc
        unfold SlotsOK at *
        simp only [afterTake_slots, afterTake_batches, openCount, afterTake_loop, slotsAfter]
        rw [hoc] at hi
        constructor
        · intro hm; simp [hm, hi.1 hm]
        · intro hm
          have h0 := hi.2 hm
          have hm' : (c.mcb != 0) = true := by simpa using hm
          cases slot with
          | false => simp at hc ⊢; omega
          | true =>
            have := slotFree_spec c s (hc.2 rfl) hm
            simp [hm'] at hc ⊢; omega
      · rename_i acc' p slot hs
        have hc := stepOp_count _ _ _ _ hs
        have hpne := (stepOp_openNE _ _ _ _ hacc hs).2 p rfl
        simp only [Option.toList_some, List.length_cons, List.length_nil] at hc
        have hr := fun st => raise_nUnfinished c st p hpne
        unfold SlotsOK at *
        simp only [raise_slots, afterTake_slots, openCount, raise_loop, afterTake_loop, slotsAfter, hr, afterTake_batches]
        rw [hoc] at hi
        constructor
        · intro hm; simp [hm, hi.1 hm]
        · intro hm
          have h0 := hi.2 hm
          have hm' : (c.mcb != 0) = true := by simpa using hm
          cases slot with
          | false => simp at hc ⊢; omega
          | true =>
            have := slotFree_spec c s (hc.2 rfl) hm
            simp [hm'] at hc ⊢; omega
    · cases h
  | sweepOne w =>
    simp only [step] at h
    split at h
    · rename_i acc hloop
      split at h
      · cases h
      · rename_i b hb
        cases h
        have hoc : openCount s = acc.openB.length := by unfold openCount; rw [hloop]
        have hbne : b ≠ [] := by
          unfold OpenNE at hne; rw [hloop] at hne
          exact hne (w, b) (lookupB_mem hb)
        have hl := eraseB_length_some hb
        have hr := raise_nUnfinished c s (w, b) hbne
        unfold SlotsOK at *
        simp only [raise_slots, openCount, hr]
        rw [hoc] at hi
        refine ⟨hi.1, fun hm => ?_⟩
        have := hi.2 hm
        omega
    · cases h
  | finish b =>
    simp only [step] at h
    split at h
    · cases h
    · rename_i x hf
      split at h <;> cases h
      rename_i hg
      simp only [Bool.and_eq_true, Bool.not_eq_true'] at hg
      have hx : x ∈ s.batches := List.mem_of_find?_eq_some hf
      have hxid : x.id = b := by have := List.find?_some hf; simpa using this
      have hmark := nUnfinished_mark s.batches b x hid.2 hx hxid hg.1
      have hoc : openCount (markFinished c s b x) = openCount s := rfl
      unfold SlotsOK at *
      rw [hoc]
      simp only [markFinished]
      have : s.batches.map (fun y => if y.id == b then { y with finished := true } else y) = s.batches.map (markFin b) := rfl
      rw [this]
      constructor
      · intro hm; simp [hm, hi.1 hm]
      · intro hm
        have h0 := hi.2 hm
        have hm' : (c.mcb != 0) = true := by simpa using hm
        simp only [hm', if_true]
        omega
  | cbReturn b =>
    simp only [step] at h
    split at h <;> cases h
    have hoc : openCount (markCbDone s b) = openCount s := rfl
    unfold SlotsOK at *
    rw [hoc]
    simp only [markCbDone, nUnfinished_mapCb]
    exact hi
  | takeAudit =>
    simp only [step] at h
    split at h <;> cases h
    rename_i hg
    simp only [Bool.and_eq_true, beq_iff_eq] at hg
    have hoc : openCount (doAudit c s) = openCount s := rfl
    have hoc0 : openCount s = 0 := by unfold openCount; rw [hg.1]
    unfold SlotsOK at *
    rw [hoc]
    by_cases hc : auditCond c s = true
    · have hu := audit_no_unfinished c s hw hc ht
      simp only [doAudit, hc, Bool.true_and]
      constructor
      · intro hm; split <;> simp [hi.1 hm]
      · intro hm
        have h0 := hi.2 hm
        rw [hu, hoc0] at h0 ⊢
        split <;> simp_all
    · have hc' : auditCond c s = false := by simpa using hc
      simp only [doAudit, hc', Bool.false_and, Bool.false_eq_true, if_false]
      exact hi
  | cycleBegin a =>
    simp only [step] at h
    split at h <;> cases h
    rename_i hg
    simp only [Bool.and_eq_true, beq_iff_eq] at hg
    have hoc0 : openCount s = 0 := by unfold openCount; rw [hg.1]
    unfold SlotsOK at *
    simp only [openCount, List.length_nil]
    rw [hoc0] at hi
    exact hi
  | scanEnd =>
    simp only [step] at h
    split at h
    · rename_i allow acc hloop
      split at h <;> cases h
      have : openCount ({ s with loop := .sweep acc } : St) = openCount s := by unfold openCount; rw [hloop]
      exact slotsOK_congr s _ rfl rfl this hi
    · cases h
  | cycleEnd =>
    simp only [step] at h
    split at h
    · rename_i acc hloop
      split at h <;> cases h
      rename_i he
      have hoc0 : openCount s = 0 := by
        unfold openCount; rw [hloop]
        have : acc.openB = [] := by simpa using he
        simp [this]
      have : openCount ({ s with loop := .idle } : St) = openCount s := by rw [hoc0]; rfl
      exact slotsOK_congr s _ rfl rfl this hi
    · cases h
  | startCall =>
    simp only [step] at h
    split at h <;> cases h
    rename_i hg
    have hl := hst (by simpa using hg)
    have : openCount ({ s with phase := .started, loop := .idle, nextF := s.now + c.flushInt, nextC := s.now + c.capInt,
                               nextA := s.now + c.auditInt } : St) = openCount s := by
      unfold openCount; rw [hl]
    exact slotsOK_congr s _ rfl rfl this hi
  | takePause =>
    simp only [step] at h
    split at h <;> cases h
    rename_i hg
    simp only [Bool.and_eq_true, beq_iff_eq] at hg
    have : openCount ({ s with pauseReq := false, loop := .sleeping (s.now + c.pause), pauses := s.pauses + 1 } : St) = openCount s := by
      unfold openCount; rw [hg.1]
    exact slotsOK_congr s _ rfl rfl this hi
  | wake =>
    simp only [step] at h
    split at h
    · rename_i u hl
      split at h <;> cases h
      have : openCount ({ s with loop := .idle, phase := if s.phase == .paused then .started else s.phase } : St) = openCount s := by
        unfold openCount; rw [hl]
      exact slotsOK_congr s _ rfl rfl this hi
    · cases h
  | takeStop =>
    simp only [step] at h
    split at h
    · rename_i hg
      simp only [Bool.and_eq_true, beq_iff_eq] at hg
      have hoc0 : openCount s = 0 := by unfold openCount; rw [hg.1]
      split at h <;> cases h
      · have : openCount (shutdownV1 s) = openCount s := by rw [hoc0]; rfl
        exact slotsOK_congr s _ rfl rfl this hi
      · have : openCount (shutdownV2 c s) = openCount s := by rw [hoc0]; rfl
        exact slotsOK_congr s _ rfl rfl this hi
    · cases h
  | setCost obj cost =>
    simp only [step] at h; cases h
    have hoc : openCount (doSetCost s obj cost) = openCount s := by
      unfold openCount doSetCost
      cases hl : s.loop <;> simp [reCostAcc, reCostB]
    have hb : nUnfinished (doSetCost s obj cost).batches = nUnfinished s.batches := by
      simp only [doSetCost, nUnfinished, List.filter_map, List.length_map]
      rfl
    unfold SlotsOK at *
    rw [hoc, hb]
    exact hi
  | _ =>
    simp only [step] at h <;> (repeat' split at h) <;> (try cases h) <;>
      first
      | exact hi
      | exact slotsOK_congr s _ rfl rfl (openCount_of_loop rfl) hi

end GoBatcher

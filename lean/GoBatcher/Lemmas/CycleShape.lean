import GoBatcher.Lemmas.Cycle
/-! Shape of batches produced by a cycle (helper lemmas for C05 / C10). -/
namespace GoBatcher

/-- a well-formed *open* batch of watcher `w`: non-empty, all own & batchable, not yet full -/
def OpenBatchOK (c : Cfg) (p : Batch) : Prop :=
  p.2 ≠ [] ∧ (∀ o ∈ p.2, o.w = p.1 ∧ o.batchable = true) ∧ isFull c p.1 p.2.length = false

def OpenOK (c : Cfg) (bs : List Batch) : Prop :=
  (∀ p ∈ bs, OpenBatchOK c p) ∧ (bs.map (·.1)).Nodup

/-- a well-formed *raised* batch: either a lone non-batchable operation, or own batchable operations
within the size limit; `full` tells whether it reached the limit exactly -/
def RaisedOK (c : Cfg) (p : Batch) : Prop :=
  p.2 ≠ [] ∧ (∀ o ∈ p.2, o.w = p.1) ∧
  ((∃ o, p.2 = [o] ∧ o.batchable = false) ∨
   ((∀ o ∈ p.2, o.batchable = true) ∧ (c.mb p.1 > 0 → p.2.length ≤ c.mb p.1)))

/-- raised in the middle of a cycle: a single, or a batch that is exactly full -/
def MidRaisedOK (c : Cfg) (p : Batch) : Prop :=
  RaisedOK c p ∧ ((∃ o, p.2 = [o] ∧ o.batchable = false) ∨ (c.mb p.1 > 0 ∧ p.2.length = c.mb p.1))

theorem OpenOK_nil (c : Cfg) : OpenOK c [] := by simp [OpenOK]

theorem lookupB_mem {w : Nat} {l : List Batch} {b : List Op} (h : lookupB w l = some b) : (w, b) ∈ l := by
  induction l with
  | nil => simp [lookupB] at h
  | cons hd t ih =>
    obtain ⟨w', b'⟩ := hd
    simp only [lookupB] at h
    by_cases hw : w' = w
    · simp [hw] at h; simp [hw, h]
    · simp [hw] at h; exact List.mem_cons_of_mem _ (ih h)

theorem mem_eraseB {w : Nat} {l : List Batch} {p : Batch} (h : p ∈ eraseB w l) : p ∈ l := by
  induction l with
  | nil => simp [eraseB] at h
  | cons hd t ih =>
    obtain ⟨w', b'⟩ := hd
    simp only [eraseB] at h
    by_cases hw : w' = w
    · simp [hw] at h; exact List.mem_cons_of_mem _ h
    · simp [hw] at h
      rcases h with h | h
      · simp [h]
      · exact List.mem_cons_of_mem _ (ih h)

theorem eraseB_keys_sub {w : Nat} {l : List Batch} {k : Nat} (h : k ∈ (eraseB w l).map (·.1)) :
    k ∈ l.map (·.1) := by
  simp only [List.mem_map] at *
  obtain ⟨p, hp, hk⟩ := h
  exact ⟨p, mem_eraseB hp, hk⟩

theorem eraseB_nodup {w : Nat} {l : List Batch} (h : (l.map (·.1)).Nodup) :
    ((eraseB w l).map (·.1)).Nodup ∧ w ∉ (eraseB w l).map (·.1) := by
  induction l with
  | nil => simp [eraseB]
  | cons hd t ih =>
    obtain ⟨w', b'⟩ := hd
    simp only [List.map_cons, List.nodup_cons] at h
    simp only [eraseB]
    by_cases hw : w' = w
    · subst hw; simp only [if_true]; exact ⟨h.2, h.1⟩
    · simp only [hw, if_false, List.map_cons, List.nodup_cons, List.mem_cons]
      have := ih h.2
      refine ⟨⟨fun hm => h.1 (eraseB_keys_sub hm), this.1⟩, ?_⟩
      intro hx
      rcases hx with hx | hx
      · exact hw hx.symm
      · exact this.2 hx

theorem eraseB_length_some {w : Nat} {l : List Batch} {b : List Op} (h : lookupB w l = some b) :
    (eraseB w l).length + 1 = l.length := by
  induction l with
  | nil => simp [lookupB] at h
  | cons hd t ih =>
    obtain ⟨w', b'⟩ := hd
    simp only [lookupB] at h
    simp only [eraseB]
    by_cases hw : w' = w
    · simp [hw]
    · simp [hw] at h; simp [hw, ih h]

theorem lookupB_none_notin {w : Nat} {l : List Batch} (h : lookupB w l = none) : w ∉ l.map (·.1) := by
  induction l with
  | nil => simp
  | cons hd t ih =>
    obtain ⟨w', b'⟩ := hd
    simp only [lookupB] at h
    by_cases hw : w' = w
    · simp [hw] at h
    · simp [hw] at h
      simp only [List.map_cons, List.mem_cons, not_or]
      exact ⟨fun e => hw e.symm, ih h⟩

theorem isFull_succ_exact (c : Cfg) (w n : Nat) (h1 : isFull c w n = false) (h2 : isFull c w (n + 1) = true) :
    c.mb w > 0 ∧ n + 1 = c.mb w := by
  simp [isFull] at h1 h2
  omega

theorem not_isFull_le (c : Cfg) (w n : Nat) (h : isFull c w n = false) : c.mb w > 0 → n ≤ c.mb w := by
  simp [isFull] at h; omega

theorem isFull_zero (c : Cfg) (w : Nat) : isFull c w 0 = false := by
  simp [isFull]; omega

/-- `place` keeps the open batches well formed and raises only exactly-full batches. -/
theorem place_shape (c : Cfg) (a : Acc) (op : Op) (b : List Op) (slot : Bool)
    (hop : op.batchable = true) (hok : OpenOK c a.openB)
    (hb : (∀ o ∈ b, o.w = op.w ∧ o.batchable = true) ∧ isFull c op.w b.length = false)
    {a' : Acc} {out : Option Batch} {s : Bool} (h : place c a op b slot = .take a' out s) :
    OpenOK c a'.openB ∧ (∀ p, out = some p → MidRaisedOK c p ∧ p.1 = op.w) := by
  have hnd := eraseB_nodup (w := op.w) hok.2
  have hall : ∀ o ∈ b ++ [op], o.w = op.w ∧ o.batchable = true := by
    intro o ho
    simp only [List.mem_append, List.mem_singleton] at ho
    rcases ho with ho | ho
    · exact hb.1 o ho
    · subst ho; exact ⟨rfl, hop⟩
  unfold place at h
  split at h
  · rename_i hf
    injection h with h1 h2 h3
    subst h1 h2
    refine ⟨⟨fun p hp => hok.1 p (mem_eraseB hp), hnd.1⟩, ?_⟩
    intro p hp
    injection hp with hp
    subst hp
    have hex := isFull_succ_exact c op.w b.length hb.2 hf
    refine ⟨⟨⟨by simp, fun o ho => (hall o ho).1, Or.inr ⟨fun o ho => (hall o ho).2, ?_⟩⟩, Or.inr ⟨hex.1, ?_⟩⟩, rfl⟩
    · intro _; simp; omega
    · simp; omega
  · rename_i hf
    injection h with h1 h2 h3
    subst h1 h2
    refine ⟨⟨?_, ?_⟩, by intro p hp; cases hp⟩
    · intro p hp
      simp only [List.mem_cons] at hp
      rcases hp with hp | hp
      · subst hp
        exact ⟨by simp, hall, by simpa using hf⟩
      · exact hok.1 p (mem_eraseB hp)
    · simp only [List.map_cons, List.nodup_cons]
      exact ⟨hnd.2, hnd.1⟩

theorem stepOp_shape (c : Cfg) (a : Acc) (av : Bool) (op : Op) (hok : OpenOK c a.openB)
    {a' : Acc} {out : Option Batch} {s : Bool} (h : stepOp c a av op = .take a' out s) :
    OpenOK c a'.openB ∧ (∀ p, out = some p → MidRaisedOK c p ∧ p.1 = op.w) := by
  unfold stepOp at h
  split at h
  · cases h
  · split at h
    · rename_i hbat
      split at h
      · rename_i b hb
        have hm := hok.1 _ (lookupB_mem hb)
        exact place_shape c a op b false hbat hok ⟨hm.2.1, hm.2.2⟩ h
      · split at h
        · exact place_shape c a op [] true hbat hok ⟨by simp, isFull_zero c op.w⟩ h
        · cases h
    · rename_i hbat
      split at h
      · injection h with h1 h2 h3
        subst h1 h2
        refine ⟨hok, ?_⟩
        intro p hp
        injection hp with hp
        subst hp
        have hnb : op.batchable = false := by simpa using hbat
        exact ⟨⟨⟨by simp, by simp, Or.inl ⟨op, rfl, hnb⟩⟩, Or.inl ⟨op, rfl, hnb⟩⟩, rfl⟩
      · cases h

theorem scan_shape (c : Cfg) (buf : List Op) : ∀ (a : Acc) (free : Option Nat), OpenOK c a.openB →
    OpenOK c (scan c buf a free).acc.openB ∧ ∀ p ∈ (scan c buf a free).raised, MidRaisedOK c p := by
  induction buf with
  | nil => intro a free h; simp [scan, h]
  | cons op buf ih =>
    intro a free hok
    unfold scan
    split
    · simp [hok]
    · exact ih a free hok
    · rename_i a' out slot hs
      have h1 := stepOp_shape c a _ op hok hs
      have h2 := ih a' (if slot then takeSlot free else free) h1.1
      refine ⟨h2.1, ?_⟩
      intro p hp
      simp only [List.mem_append, Option.mem_toList] at hp
      rcases hp with hp | hp
      · exact (h1.2 p hp).1
      · exact h2.2 p hp

/-- open batches become well-formed raised batches at the end of the cycle -/
theorem OpenBatchOK.raised {c : Cfg} {p : Batch} (h : OpenBatchOK c p) : RaisedOK c p :=
  ⟨h.1, fun o ho => (h.2.1 o ho).1, Or.inr ⟨fun o ho => (h.2.1 o ho).2, not_isFull_le c p.1 _ h.2.2⟩⟩

/-! ### slots -/

def slotsTaken (free free' : Option Nat) : Nat :=
  match free, free' with
  | some n, some n' => n - n'
  | _, _ => 0

/-- In an uninterrupted cycle every reserved slot corresponds to exactly one new batch (raised or open),
and a slot is only taken while one is free. -/
theorem scan_slots (c : Cfg) (buf : List Op) : ∀ (a : Acc) (n : Nat),
    ∃ n', (scan c buf a (some n)).free = some n' ∧ n' ≤ n ∧
      (scan c buf a (some n)).raised.length + (scan c buf a (some n)).acc.openB.length
        = a.openB.length + (n - n') := by
  induction buf with
  | nil => intro a n; exact ⟨n, by simp [scan]⟩
  | cons op buf ih =>
    intro a n
    unfold scan
    split
    · exact ⟨n, by simp⟩
    · obtain ⟨n', h1, h2, h3⟩ := ih a n
      exact ⟨n', by simpa using h1, h2, by simpa using h3⟩
    · rename_i a' out slot hs
      have key : out.toList.length + a'.openB.length = a.openB.length + (if slot then 1 else 0) ∧
          (slot = true → n > 0) := by
        unfold stepOp at hs
        split at hs
        · cases hs
        · split at hs
          · split at hs
            · rename_i b hb
              have hl := eraseB_length_some hb
              unfold place at hs
              split at hs <;> (injection hs with h1 h2 h3; subst h1 h2 h3; simp; omega)
            · rename_i hb
              have hl := lookupB_none_erase _ _ hb
              split at hs
              · rename_i hav
                unfold place at hs
                have hn : n > 0 := by simpa [slotAvail] using hav
                split at hs <;> (injection hs with h1 h2 h3; subst h1 h2 h3; simp [hl]; omega)
              · cases hs
          · split at hs
            · rename_i hav
              have hn : n > 0 := by simpa [slotAvail] using hav
              injection hs with h1 h2 h3; subst h1 h2 h3; simp; omega
            · cases hs
      cases slot with
      | false =>
        obtain ⟨n', h1, h2, h3⟩ := ih a' n
        refine ⟨n', by simpa using h1, h2, ?_⟩
        simp only [Bool.false_eq_true, if_false, List.length_append] at *
        omega
      | true =>
        have hn := key.2 rfl
        obtain ⟨n', h1, h2, h3⟩ := ih a' (n - 1)
        refine ⟨n', by simpa [takeSlot] using h1, by omega, ?_⟩
        simp only [if_true, takeSlot, List.length_append] at *
        omega

end GoBatcher

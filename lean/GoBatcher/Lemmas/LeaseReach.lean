import GoBatcher.Lemmas.LeaseWF
/-! Frame lemmas and reachability for M-Lease. -/
namespace GoBatcher

/-- a step never changes the lease duration -/
theorem step_lease (n : Nat) (s s' : LSt) (l : LLabel) (h : lstep n s l = some s') : s'.lease = s.lease := by
  unfold lstep at h
  cases l <;> simp only [LLabel.inst?, lstepCore] at h <;> (repeat' split at h) <;> first | cases h; rfl | (cases h)

/-- a step of another instance (or of the clock) leaves instance `i` as it is -/
theorem step_frame (n : Nat) (s s' : LSt) (l : LLabel) (h : lstep n s l = some s') (i : Nat) (hl : l.inst? ≠ some i) :
    s'.inst i = s.inst i := by
  unfold lstep at h
  cases l <;> simp only [LLabel.inst?, ne_eq, Option.some.injEq, not_false_eq_true] at hl <;>
    simp only [LLabel.inst?, lstepCore] at h <;> (repeat' split at h) <;>
    first
      | (cases h; rfl)
      | (cases h; simp only []; exact updI_other _ _ _ _ (fun e => hl e.symm))
      | (cases h)

theorem step_now_le (n : Nat) (s s' : LSt) (l : LLabel) (h : lstep n s l = some s') : s.now ≤ s'.now := by
  unfold lstep at h
  cases l <;> simp only [LLabel.inst?, lstepCore] at h <;> (repeat' split at h) <;>
    first | (cases h; exact Nat.le_refl _) | (cases h; exact Nat.le_add_right _ _) | (cases h)

/-- configured instances: each is `LInst.init` of some generation / factor / reserved / shared -/
def Configured (inst : Nat → LInst) : Prop := ∀ i, ∃ g f r sh, inst i = LInst.init g f r sh

def initSt (lease : Nat) (inst : Nat → LInst) : LSt := { now := 0, lease := lease, store := fun _ => none, inst := inst }

theorem init_iwf (lease : Nat) (g : LGen) (f r sh : Nat) : IWF 0 lease (LInst.init g f r sh) := by
  refine ⟨?_, ?_, ?_, ?_, ?_, ?_, ?_, ?_, ?_, ?_⟩ <;> simp [LInst.init, maxPartitions]

theorem init_lwf (lease : Nat) (inst : Nat → LInst) (h : Configured inst) : LWF (initSt lease inst) := by
  intro i
  obtain ⟨g, f, r, sh, e⟩ := h i
  simp only [initSt, e]
  exact init_iwf lease g f r sh

theorem init_excl (lease : Nat) (inst : Nat → LInst) (h : Configured inst) (n : Nat) :
    Excl (initSt lease inst) ∧ Inert n (initSt lease inst) := by
  have hf : ∀ i, (inst i).held = [] ∧ (inst i).timers = [] ∧ (inst i).call = none := by
    intro i; obtain ⟨g, f, r, sh, e⟩ := h i; simp [e, LInst.init]
  refine ⟨⟨?_, ?_, ?_, ?_⟩, fun i _ => ⟨(hf i).2.1, (hf i).1, (hf i).2.2⟩⟩
  · intro i p hp; simp [initSt, (hf i).1] at hp
  · intro i cl u h1; simp [initSt, (hf i).2.2] at h1
  · intro i cl h1; simp [initSt, (hf i).2.2] at h1
  · intro i p c hm; simp [initSt, (hf i).2.1] at hm

theorem run_excl' (n : Nat) : ∀ (ls : List LLabel) (s s' : LSt), lrun n s ls = some s' → Excl s → Inert n s →
    Excl s' ∧ Inert n s' := by
  intro ls
  induction ls with
  | nil => intro s s' h he hi; simp [lrun] at h; subst h; exact ⟨he, hi⟩
  | cons l ls ih =>
    intro s s' h he hi
    simp only [lrun] at h
    cases hs : lstep n s l with
    | none => simp [hs] at h
    | some s1 =>
      simp [hs] at h
      have := step_excl n s s1 l hs hi he
      exact ih s1 s' h this.1 this.2

/-- the states the machine of `n` configured instances can reach -/
def LReach (n lease : Nat) (inst : Nat → LInst) (s : LSt) : Prop := ∃ ls, lrun n (initSt lease inst) ls = some s

theorem reach_lwf {n lease : Nat} {inst : Nat → LInst} (hc : Configured inst) {s : LSt} (h : LReach n lease inst s) : LWF s := by
  obtain ⟨ls, h⟩ := h
  exact run_lwf n ls _ s h (init_lwf lease inst hc)

theorem reach_excl {n lease : Nat} {inst : Nat → LInst} (hc : Configured inst) {s : LSt} (h : LReach n lease inst s) : Excl s := by
  obtain ⟨ls, h⟩ := h
  exact (run_excl' n ls _ s h (init_excl lease inst hc n).1 (init_excl lease inst hc n).2).1

theorem lrun_append (n : Nat) : ∀ (a b : List LLabel) (s : LSt), lrun n s (a ++ b) = (lrun n s a).bind (fun s' => lrun n s' b) := by
  intro a
  induction a with
  | nil => intro b s; simp [lrun]
  | cons l a ih =>
    intro b s
    simp only [List.cons_append, lrun]
    cases lstep n s l with
    | none => simp
    | some s1 => simp [ih]

theorem reach_step {n lease : Nat} {inst : Nat → LInst} {s s' : LSt} (h : LReach n lease inst s) (l : LLabel)
    (hs : lstep n s l = some s') : LReach n lease inst s' := by
  obtain ⟨ls, h⟩ := h
  refine ⟨ls ++ [l], ?_⟩
  rw [lrun_append, h]
  simp [lrun, hs]

theorem reach_run {n lease : Nat} {inst : Nat → LInst} {s s' : LSt} (h : LReach n lease inst s) (ls : List LLabel)
    (hs : lrun n s ls = some s') : LReach n lease inst s' := by
  obtain ⟨l0, h⟩ := h
  refine ⟨l0 ++ ls, ?_⟩
  rw [lrun_append, h]
  simpa using hs

end GoBatcher

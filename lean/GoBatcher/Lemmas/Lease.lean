import GoBatcher.Model.Lease
/-! Invariants of M-Lease. -/
namespace GoBatcher

@[simp] theorem updI_same (f : Nat → LInst) (i : Nat) (x : LInst) : updI f i x i = x := by simp [updI]
theorem updI_other (f : Nat → LInst) (i j : Nat) (x : LInst) (h : j ≠ i) : updI f i x j = f j := by simp [updI, h]
@[simp] theorem updS_same (f : Nat → Option (Nat × Nat)) (p : Nat) (x : Option (Nat × Nat)) : updS f p x p = x := by simp [updS]
theorem updS_other (f : Nat → Option (Nat × Nat)) (p q : Nat) (x : Option (Nat × Nat)) (h : q ≠ p) : updS f p x q = f q := by
  simp [updS, h]

/-- the mutual-exclusion invariant behind C04 -/
structure Excl (s : LSt) : Prop where
  /-- a counted partition is backed by one of the instance's expiry timers whose instant is due already, or lies
  within the lease the store holds for this instance -/
  hold : ∀ i p, p ∈ (s.inst i).held → ∃ c, (p, c) ∈ (s.inst i).timers ∧ (c ≤ s.now ∨ ∃ u, s.store p = some (i, u) ∧ c ≤ u)
  /-- a granted call knows a lease that covers `issuedAt + lease` and is either over or still the store's -/
  call : ∀ i cl u, (s.inst i).call = some cl → cl.result = some (some u) →
            cl.issuedAt + s.lease ≤ u ∧ (u ≤ s.now ∨ s.store cl.part = some (i, u))
  issued : ∀ i cl, (s.inst i).call = some cl → cl.issuedAt ≤ s.now
  /-- urgency: no expiry timer is overdue -/
  live : ∀ i p c, (p, c) ∈ (s.inst i).timers → s.now ≤ c

theorem excl_of_inst_eq {s s' : LSt} (hn : s'.now = s.now) (hs : s'.store = s.store)
    (hh : ∀ i, (s'.inst i).held = (s.inst i).held) (ht : ∀ i, (s'.inst i).timers = (s.inst i).timers)
    (hc : ∀ i, (s'.inst i).call = (s.inst i).call) (hl : s'.lease = s.lease) (h : Excl s) : Excl s' := by
  refine ⟨?_, ?_, ?_, ?_⟩
  · intro i p hp; rw [hh] at hp; rw [ht, hn, hs]; exact h.hold i p hp
  · intro i cl u h1 h2; rw [hc] at h1; rw [hl, hn, hs]; exact h.call i cl u h1 h2
  · intro i cl h1; rw [hc] at h1; rw [hn]; exact h.issued i cl h1
  · intro i p c h1; rw [ht] at h1; rw [hn]; exact h.live i p c h1

end GoBatcher

namespace GoBatcher

/-- updating instance `i` without touching what `Excl` reads (or only shrinking `held`) -/
theorem excl_updI_sub (s : LSt) (i : Nat) (x' : LInst) (h : Excl s)
    (hh : ∀ p, p ∈ x'.held → p ∈ (s.inst i).held) (ht : x'.timers = (s.inst i).timers)
    (hc : x'.call = (s.inst i).call ∨ x'.call = none ∨
          ∃ cl, x'.call = some cl ∧ (∀ u, cl.result ≠ some (some u)) ∧ cl.issuedAt ≤ s.now) :
    Excl { s with inst := updI s.inst i x' } := by
  refine ⟨?_, ?_, ?_, ?_⟩
  · intro j p hp
    by_cases hj : j = i
    · subst hj
      simp only [updI_same] at hp ⊢
      rw [ht]; exact h.hold j p (hh p hp)
    · simp only [updI_other _ _ _ _ hj] at hp ⊢
      exact h.hold j p hp
  · intro j cl u h1 h2
    by_cases hj : j = i
    · subst hj
      simp only [updI_same] at h1
      rcases hc with hc | hc | ⟨cl0, hc, hr, _⟩
      · rw [hc] at h1; exact h.call j cl u h1 h2
      · rw [hc] at h1; cases h1
      · rw [hc] at h1; cases h1; exact absurd h2 (hr u)
    · simp only [updI_other _ _ _ _ hj] at h1
      exact h.call j cl u h1 h2
  · intro j cl h1
    by_cases hj : j = i
    · subst hj
      simp only [updI_same] at h1
      rcases hc with hc | hc | ⟨cl0, hc, _, hi0⟩
      · rw [hc] at h1; exact h.issued j cl h1
      · rw [hc] at h1; cases h1
      · rw [hc] at h1; cases h1; exact hi0
    · simp only [updI_other _ _ _ _ hj] at h1
      exact h.issued j cl h1
  · intro j p c h1
    by_cases hj : j = i
    · subst hj
      simp only [updI_same] at h1
      rw [ht] at h1; exact h.live j p c h1
    · simp only [updI_other _ _ _ _ hj] at h1
      exact h.live j p c h1

theorem lCanAdvance_live (s : LSt) (n dt : Nat) (h : lCanAdvance s n dt = true) (i : Nat) (hi : i < n)
    (p c : Nat) (hm : (p, c) ∈ (s.inst i).timers) : s.now + dt ≤ c := by
  unfold lCanAdvance at h
  simp only [Bool.and_eq_true, List.all_eq_true, decide_eq_true_eq] at h
  have := h.2 i (List.mem_range.mpr hi) (p, c) hm
  exact this

/-- instances beyond `n` never get a timer -/
def Inert (n : Nat) (s : LSt) : Prop := ∀ i, n ≤ i → (s.inst i).timers = [] ∧ (s.inst i).held = [] ∧ (s.inst i).call = none

theorem step_excl (n : Nat) (s s' : LSt) (l : LLabel) (h : lstep n s l = some s') (hin : Inert n s) (he : Excl s) :
    Excl s' ∧ Inert n s' := by
  unfold lstep at h
  cases l with
  | advance dt =>
    simp only [LLabel.inst?, lstepCore] at h
    split at h <;> cases h
    rename_i hadv
    refine ⟨⟨?_, ?_, ?_, ?_⟩, hin⟩
    · intro i p hp
      obtain ⟨c, hc, hor⟩ := he.hold i p hp
      refine ⟨c, hc, ?_⟩
      rcases hor with h1 | h1
      · exact Or.inl (Nat.le_trans h1 (Nat.le_add_right _ _))
      · exact Or.inr h1
    · intro i cl u h1 h2
      obtain ⟨ha, hb⟩ := he.call i cl u h1 h2
      refine ⟨ha, ?_⟩
      rcases hb with hb | hb
      · exact Or.inl (Nat.le_trans hb (Nat.le_add_right _ _))
      · exact Or.inr hb
    · intro i cl h1
      exact Nat.le_trans (he.issued i cl h1) (Nat.le_add_right _ _)
    · intro i p c hm
      by_cases hi : i < n
      · exact lCanAdvance_live s n dt hadv i hi p c hm
      · have := (hin i (Nat.le_of_not_lt hi)).1
        simp only at hm
        rw [this] at hm; cases hm
  | start i ok =>
    simp only [LLabel.inst?] at h
    split at h
    · simp only [lstepCore] at h
      (repeat' split at h) <;> cases h
      · refine ⟨excl_updI_sub s i _ he (fun p hp => hp) rfl (Or.inl rfl), ?_⟩
        intro j hj
        have hne : j ≠ i := by omega
        simp only [updI_other _ _ _ _ hne]; exact hin j hj
      · exact ⟨he, hin⟩
    · cases h
  | giveMe i v =>
    simp only [LLabel.inst?] at h
    split at h
    · rename_i hlt
      simp only [lstepCore] at h; cases h
      exact ⟨excl_updI_sub s i _ he (fun p hp => hp) rfl (Or.inl rfl),
        fun j hj => by have hne : j ≠ i := by omega
                       simp only [updI_other _ _ _ _ hne]; exact hin j hj⟩
    · cases h
  | setReserved i v =>
    simp only [LLabel.inst?] at h
    split at h
    · rename_i hlt
      simp only [lstepCore] at h
      split at h <;> cases h
      exact ⟨excl_updI_sub s i _ he (fun p hp => hp) rfl (Or.inl rfl),
        fun j hj => by have hne : j ≠ i := by omega
                       simp only [updI_other _ _ _ _ hne]; exact hin j hj⟩
    · cases h
  | setShared i v =>
    simp only [LLabel.inst?] at h
    split at h
    · rename_i hlt
      simp only [lstepCore] at h
      split at h <;> cases h
      exact ⟨excl_updI_sub s i _ he (fun p hp => hp) rfl (Or.inl rfl),
        fun j hj => by have hne : j ≠ i := by omega
                       simp only [updI_other _ _ _ _ hne]; exact hin j hj⟩
    · cases h
  | provision i =>
    simp only [LLabel.inst?] at h
    split at h
    · rename_i hlt
      simp only [lstepCore] at h
      split at h <;> cases h
      exact ⟨excl_updI_sub s i _ he (fun p hp => (List.mem_filter.mp hp).1) rfl (Or.inl rfl),
        fun j hj => by have hne : j ≠ i := by omega
                       simp only [updI_other _ _ _ _ hne]; exact hin j hj⟩
    · cases h
  | issue i p =>
    simp only [LLabel.inst?] at h
    split at h
    · rename_i hlt
      simp only [lstepCore] at h
      split at h <;> cases h
      exact ⟨excl_updI_sub s i _ he (fun p hp => hp) rfl (Or.inr (Or.inr ⟨_, rfl, (fun u hu => by simp at hu), Nat.le_refl _⟩)),
        fun j hj => by have hne : j ≠ i := by omega
                       simp only [updI_other _ _ _ _ hne]; exact hin j hj⟩
    · cases h
  | stop i =>
    simp only [LLabel.inst?] at h
    split at h
    · rename_i hlt
      simp only [lstepCore] at h
      split at h <;> cases h
      exact ⟨excl_updI_sub s i _ he (fun p hp => hp) rfl (Or.inl rfl),
        fun j hj => by have hne : j ≠ i := by omega
                       simp only [updI_other _ _ _ _ hne]; exact hin j hj⟩
    · cases h
  | crash i =>
    simp only [LLabel.inst?] at h
    split at h
    · rename_i hlt
      simp only [lstepCore] at h; cases h
      exact ⟨excl_updI_sub s i _ he (fun p hp => hp) rfl (Or.inl rfl),
        fun j hj => by have hne : j ≠ i := by omega
                       simp only [updI_other _ _ _ _ hne]; exact hin j hj⟩
    · cases h
  | proc i grant =>
    simp only [LLabel.inst?] at h
    split at h
    · rename_i hlt
      have hinert : ∀ (x' : LInst), Inert n { s with inst := updI s.inst i x' } ∧ True := fun x' =>
        ⟨fun j hj => by have hne : j ≠ i := by omega
                        simp only [updI_other _ _ _ _ hne]; exact hin j hj, trivial⟩
      simp only [lstepCore] at h
      split at h
      · rename_i cl hcl
        split at h
        · cases h
        · rename_i hres
          have hnone : cl.result = none := by
            cases hr : cl.result with
            | none => rfl
            | some v => simp [hr] at hres
          split at h
          · -- granted
            rename_i hg
            cases h
            simp only [Bool.and_eq_true] at hg
            have hfree : ∀ o u, s.store cl.part = some (o, u) → u ≤ s.now := by
              intro o u hs
              have := hg.2
              simp only [storeFree, freeAt, hs, decide_eq_true_eq] at this
              exact this
            refine ⟨⟨?_, ?_, ?_, ?_⟩, ?_⟩
            · intro j p hp
              have hheld : (updI s.inst i { s.inst i with call := some { cl with result := some (some (s.now + s.lease)) } } j).held
                  = (s.inst j).held := by
                by_cases hj : j = i
                · subst hj; simp
                · simp [updI_other _ _ _ _ hj]
              have htim : (updI s.inst i { s.inst i with call := some { cl with result := some (some (s.now + s.lease)) } } j).timers
                  = (s.inst j).timers := by
                by_cases hj : j = i
                · subst hj; simp
                · simp [updI_other _ _ _ _ hj]
              simp only [hheld] at hp
              simp only [htim]
              obtain ⟨c, hc, hor⟩ := he.hold j p hp
              refine ⟨c, hc, ?_⟩
              rcases hor with h1 | ⟨u, hs, hcu⟩
              · exact Or.inl h1
              · by_cases hpp : p = cl.part
                · -- the store's old lease on this partition was over
                  subst hpp
                  exact Or.inl (Nat.le_trans hcu (hfree j u hs))
                · exact Or.inr ⟨u, by simp only [updS_other _ _ _ _ hpp]; exact hs, hcu⟩
            · intro j cl' u h1 h2
              by_cases hj : j = i
              · subst hj
                simp only [updI_same] at h1
                cases h1
                simp only at h2
                cases h2
                refine ⟨?_, Or.inr (by simp)⟩
                have := he.issued j cl hcl
                simp only; omega
              · simp only [updI_other _ _ _ _ hj] at h1
                obtain ⟨ha, hb⟩ := he.call j cl' u h1 h2
                refine ⟨ha, ?_⟩
                rcases hb with hb | hb
                · exact Or.inl hb
                · by_cases hpp : cl'.part = cl.part
                  · exact Or.inl (hfree j u (hpp ▸ hb))
                  · exact Or.inr (by simp only [updS_other _ _ _ _ hpp]; exact hb)
            · intro j cl' h1
              by_cases hj : j = i
              · subst hj
                simp only [updI_same] at h1
                cases h1
                exact he.issued j cl hcl
              · simp only [updI_other _ _ _ _ hj] at h1
                exact he.issued j cl' h1
            · intro j p c hm
              by_cases hj : j = i
              · subst hj
                simp only [updI_same] at hm
                exact he.live j p c hm
              · simp only [updI_other _ _ _ _ hj] at hm
                exact he.live j p c hm
            · exact (hinert _).1
          · -- refused / failed
            cases h
            exact ⟨excl_updI_sub s i _ he (fun p hp => hp) rfl
              (Or.inr (Or.inr ⟨_, rfl, (fun u hu => by simp at hu), he.issued i cl hcl⟩)), (hinert _).1⟩
      · cases h
    · cases h
  | ret i =>
    simp only [LLabel.inst?] at h
    split at h
    · rename_i hlt
      have hinert : ∀ (x' : LInst), x'.timers = [] ∨ True → Inert n { s with inst := updI s.inst i x' } := fun x' _ =>
        fun j hj => by have hne : j ≠ i := by omega
                       simp only [updI_other _ _ _ _ hne]; exact hin j hj
      simp only [lstepCore] at h
      split at h
      · rename_i cl hcl
        split at h
        · cases h
        · cases h
          exact ⟨excl_updI_sub s i _ he (fun p hp => hp) rfl (Or.inr (Or.inl rfl)), hinert _ (Or.inr trivial)⟩
        · rename_i u hres
          split at h
          · cases h
            exact ⟨excl_updI_sub s i _ he (fun p hp => hp) rfl (Or.inr (Or.inl rfl)), hinert _ (Or.inr trivial)⟩
          · rename_i hlate
            cases h
            obtain ⟨hcov, hst⟩ := he.call i cl u hcl hres
            refine ⟨⟨?_, ?_, ?_, ?_⟩, hinert _ (Or.inr trivial)⟩
            · intro j p hp
              by_cases hj : j = i
              · subst hj
                simp only [updI_same, afterGrant] at hp ⊢
                by_cases hpp : p = cl.part
                · subst hpp
                  refine ⟨cl.issuedAt + s.lease, by simp, ?_⟩
                  rcases hst with hst | hst
                  · exact Or.inl (Nat.le_trans hcov hst)
                  · exact Or.inr ⟨u, hst, hcov⟩
                · have hp' : p ∈ (s.inst j).held := by
                    split at hp
                    · exact hp
                    · simp only [List.mem_append, List.mem_singleton] at hp
                      rcases hp with hp | hp
                      · exact hp
                      · exact absurd hp hpp
                  obtain ⟨c, hc, hor⟩ := he.hold j p hp'
                  exact ⟨c, by simp [hc], hor⟩
              · simp only [updI_other _ _ _ _ hj] at hp ⊢
                exact he.hold j p hp
            · intro j cl' u' h1 h2
              by_cases hj : j = i
              · subst hj; simp only [updI_same, afterGrant] at h1; cases h1
              · simp only [updI_other _ _ _ _ hj] at h1
                exact he.call j cl' u' h1 h2
            · intro j cl' h1
              by_cases hj : j = i
              · subst hj; simp only [updI_same, afterGrant] at h1; cases h1
              · simp only [updI_other _ _ _ _ hj] at h1
                exact he.issued j cl' h1
            · intro j p c hm
              by_cases hj : j = i
              · subst hj
                simp only [updI_same, afterGrant, List.mem_append, List.mem_singleton] at hm
                rcases hm with hm | hm
                · exact he.live j p c hm
                · cases hm; simp only at hlate ⊢; omega
              · simp only [updI_other _ _ _ _ hj] at hm
                exact he.live j p c hm
      · cases h
    · cases h
  | expire i p c =>
    simp only [LLabel.inst?] at h
    split at h
    · rename_i hlt
      simp only [lstepCore] at h
      split at h <;> cases h
      refine ⟨⟨?_, ?_, ?_, ?_⟩, fun j hj => by
        have hne : j ≠ i := by omega
        simp only [updI_other _ _ _ _ hne]; exact hin j hj⟩
      · intro j q hq
        by_cases hj : j = i
        · subst hj
          simp only [updI_same] at hq ⊢
          have hq' := List.mem_filter.mp hq
          have hne : q ≠ p := by simpa using hq'.2
          obtain ⟨c', hc', hor⟩ := he.hold j q hq'.1
          refine ⟨c', ?_, hor⟩
          exact (List.mem_erase_of_ne (by intro e; cases e; exact hne rfl)).mpr hc'
        · simp only [updI_other _ _ _ _ hj] at hq ⊢
          exact he.hold j q hq
      · intro j cl u h1 h2
        by_cases hj : j = i
        · subst hj; simp only [updI_same] at h1; exact he.call j cl u h1 h2
        · simp only [updI_other _ _ _ _ hj] at h1; exact he.call j cl u h1 h2
      · intro j cl h1
        by_cases hj : j = i
        · subst hj; simp only [updI_same] at h1; exact he.issued j cl h1
        · simp only [updI_other _ _ _ _ hj] at h1; exact he.issued j cl h1
      · intro j q c' hm
        by_cases hj : j = i
        · subst hj
          simp only [updI_same] at hm
          exact he.live j q c' (List.mem_of_mem_erase hm)
        · simp only [updI_other _ _ _ _ hj] at hm
          exact he.live j q c' hm
    · cases h

end GoBatcher

import GoBatcher.Lemmas.BatcherLoop
/-! Lifting of the loop-level invariants to reachable states. -/
namespace GoBatcher

structure Inv2 (c : BCfg) (s : St) : Prop where
  base : Inv c s
  sleep : SleepOK s
  cyc : CycleCountOK s
  pause : PauseCountOK s
  shut : ShutdownOK s

theorem inv2_init (c : BCfg) : Inv2 c (St.init c) := by
  refine ⟨inv_init c, ?_, ?_, ?_, ?_⟩
  · simp [SleepOK, St.init]
  · simp [CycleCountOK, St.init, b2n]
  · simp [PauseCountOK, St.init, b2n]
  · simp [ShutdownOK, St.init, b2n]

theorem step_inv2 (c : BCfg) (s s' : St) (l : Label) (h : step c s l = some s') (hi : Inv2 c s) : Inv2 c s' :=
  ⟨step_inv c s s' l h hi.base, step_sleepOK c s s' l h hi.sleep, step_cycleCountOK c s s' l h hi.cyc,
   step_pauseCountOK c s s' l h hi.pause, step_shutdownOK c s s' l h hi.base.start hi.shut⟩

theorem run_inv2 (c : BCfg) : ∀ (ls : List Label) (s s' : St), run c s ls = some s' → Inv2 c s → Inv2 c s' := by
  intro ls
  induction ls with
  | nil => intro s s' h hi; simp [run] at h; subst h; exact hi
  | cons l ls ih =>
    intro s s' h hi
    simp only [run] at h
    cases hs : step c s l with
    | none => simp [hs] at h
    | some s1 => simp [hs] at h; exact ih s1 s' h (step_inv2 c s s1 l hs hi)

theorem reachable_inv2 (c : BCfg) (s : St) (h : Reachable c s) : Inv2 c s := by
  obtain ⟨ls, hr⟩ := h
  exact run_inv2 c ls _ s hr (inv2_init c)

end GoBatcher

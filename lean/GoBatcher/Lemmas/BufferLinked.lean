import GoBatcher.Model.BufferLinked
/-!
L0 ⊑ L1: the linked representation of the v2 buffer refines the list-with-cursor model.

`Rep b ns a`: the heap buffer `b` represents the abstract buffer `a`; `ns` lists the linked nodes in order as
(address, operation). The relation is stated pointwise so that index arithmetic (`omega`) does the work.
-/
namespace GoBatcher

def prevAt (ns : List (Nat × Op)) (i : Nat) : Option Nat := if i = 0 then none else (ns[i - 1]?).map (·.1)
def nextAt (ns : List (Nat × Op)) (i : Nat) : Option Nat := (ns[i + 1]?).map (·.1)

structure Rep (b : LBuf) (ns : List (Nat × Op)) (a : Buf) : Prop where
  node : ∀ (i : Nat) (x : Nat × Op), ns[i]? = some x → b.heap[x.1]? = some ⟨prevAt ns i, x.2, nextAt ns i⟩
  inj : ∀ (i j : Nat) (x y : Nat × Op), ns[i]? = some x → ns[j]? = some y → x.1 = y.1 → i = j
  items : a.items = ns.map (·.2)
  head : b.head = (ns[0]?).map (·.1)
  tail : b.tail = (ns[ns.length - 1]?).map (·.1)
  len : b.len = ns.length
  cur : b.cursor = a.cur.bind (fun i => (ns[i]?).map (·.1))
  curv : ∀ (i : Nat), a.cur = some i → i < ns.length
  cap : b.cap = a.cap
  shut : b.shut = a.shut

theorem rep_new (cap : Nat) : Rep (LBuf.new cap) [] (Buf.new cap) := by
  constructor <;> simp [LBuf.new, Buf.new]

theorem Rep.items_len {b : LBuf} {ns : List (Nat × Op)} {a : Buf} (h : Rep b ns a) : a.items.length = ns.length := by
  rw [h.items]; simp

theorem Rep.item_at {b : LBuf} {ns : List (Nat × Op)} {a : Buf} (h : Rep b ns a) (i : Nat) : a.items[i]? = (ns[i]?).map (·.2) := by
  rw [h.items]; simp

/-- the operation under the cursor, read through the heap, is the abstract cursor's -/
theorem Rep.curOp {b : LBuf} {ns : List (Nat × Op)} {a : Buf} (h : Rep b ns a) :
    b.curOp = some (a.cur.bind (fun i => a.items[i]?)) := by
  unfold LBuf.curOp
  rw [h.cur]
  cases hc : a.cur with
  | none => simp
  | some i =>
    have hi := h.curv i hc
    have hx : ns[i]? = some ns[i] := List.getElem?_eq_getElem hi
    simp only [Option.bind_some, hx, Option.map_some]
    rw [h.node i _ hx, h.item_at, hx]; simp

/-- changing only the cursor of both sides keeps the representation -/
theorem Rep.setCur {b : LBuf} {ns : List (Nat × Op)} {a : Buf} (h : Rep b ns a) (c : Option Nat)
    (hv : ∀ i, c = some i → i < ns.length) :
    Rep { b with cursor := c.bind (fun i => (ns[i]?).map (·.1)) } ns { a with cur := c } :=
  { node := h.node, inj := h.inj, items := h.items, head := h.head, tail := h.tail, len := h.len,
    cur := rfl, curv := hv, cap := h.cap, shut := h.shut }

theorem top_refines {b : LBuf} {ns : List (Nat × Op)} {a : Buf} (h : Rep b ns a) :
    ∃ b', b.top = some (b', a.top.2) ∧ Rep b' ns a.top.1 := by
  cases ns with
  | nil =>
    have hi : a.items = [] := by simpa using h.items
    have hh : b.head = none := by simpa using h.head
    have h' := h.setCur none (by simp)
    simp only [Option.bind_none] at h'
    refine ⟨{ b with cursor := b.head }, ?_, ?_⟩
    · simp [LBuf.top, LBuf.curOp, hh, Buf.top, hi]
    · rw [hh] at h' ⊢; simpa [Buf.top, hi] using h'
  | cons x rest =>
    have hi : a.items = x.2 :: rest.map (·.2) := by simpa using h.items
    have hh : b.head = some x.1 := by simpa using h.head
    have h' := h.setCur (some 0) (by intro i hi; cases hi; simp)
    simp only [Option.bind_some, List.getElem?_cons_zero, Option.map_some] at h'
    have hco := h'.curOp
    simp only [Option.bind_some] at hco
    refine ⟨{ b with cursor := b.head }, ?_, ?_⟩
    · rw [hh] at hco; simp only [LBuf.top, hh]; rw [hco]; simp [Buf.top, hi]
    · rw [hh] at h' ⊢; simpa [Buf.top, hi] using h'

theorem skip_refines {b : LBuf} {ns : List (Nat × Op)} {a : Buf} (h : Rep b ns a) :
    ∃ b', b.skip = some (b', a.skip.2) ∧ Rep b' ns a.skip.1 := by
  cases hc : a.cur with
  | none =>
    have hb : b.cursor = none := by rw [h.cur, hc]; rfl
    exact ⟨b, by simp [LBuf.skip, hb, Buf.skip, hc], by simpa [Buf.skip, hc] using h⟩
  | some i =>
    have hi := h.curv i hc
    have hx : ns[i]? = some ns[i] := List.getElem?_eq_getElem hi
    have hb : b.cursor = some (ns[i]).1 := by rw [h.cur, hc]; simp [hx]
    have hn := h.node i _ hx
    by_cases hlt : i + 1 < ns.length
    · have hy : ns[i + 1]? = some ns[i + 1] := List.getElem?_eq_getElem hlt
      have h' := h.setCur (some (i + 1)) (by intro j hj; cases hj; exact hlt)
      simp only [Option.bind_some, hy, Option.map_some] at h'
      have hco := h'.curOp
      simp only [Option.bind_some] at hco
      have hit : a.items[i + 1]? = some (ns[i + 1]).2 := by rw [h.item_at, hy]; rfl
      refine ⟨{ b with cursor := some (ns[i + 1]).1 }, ?_, ?_⟩
      · simp only [LBuf.skip, hb, hn, Option.bind_some, nextAt, hy, Option.map_some]
        rw [hco]; simp [Buf.skip, hc, hit]
      · simpa [Buf.skip, hc, hit] using h'
    · have hy : ns[i + 1]? = none := List.getElem?_eq_none (by omega)
      have h' := h.setCur none (by simp)
      simp only [Option.bind_none] at h'
      have hit : a.items[i + 1]? = none := by rw [h.item_at, hy]; rfl
      refine ⟨{ b with cursor := none }, ?_, ?_⟩
      · simp [LBuf.skip, hb, hn, nextAt, hy, LBuf.curOp, Buf.skip, hc, hit]
      · simpa [Buf.skip, hc, hit] using h'

theorem shutdown_refines {b : LBuf} {ns : List (Nat × Op)} {a : Buf} (h : Rep b ns a) :
    Rep b.shutdown [] a.shutdown := by
  constructor <;> simp [LBuf.shutdown, Buf.shutdown, h.cap]

theorem getElem?_snoc {α} (l : List α) (y : α) (j : Nat) :
    (l ++ [y])[j]? = if j < l.length then l[j]? else if j = l.length then some y else none := by
  by_cases h1 : j < l.length
  · simp [h1, List.getElem?_append_left h1]
  · by_cases h2 : j = l.length
    · subst h2; simp
    · simp [h1, h2]; omega

theorem Rep.addr_lt {b : LBuf} {ns : List (Nat × Op)} {a : Buf} (h : Rep b ns a) (i : Nat) (x : Nat × Op)
    (hx : ns[i]? = some x) : x.1 < b.heap.length := by
  have := h.node i x hx
  by_cases hlt : x.1 < b.heap.length
  · exact hlt
  · rw [List.getElem?_eq_none (by omega)] at this; cases this

theorem enqueue_refines {b : LBuf} {ns : List (Nat × Op)} {a : Buf} (h : Rep b ns a) (op : Op) (eof : Bool) :
    ∃ b' ns', b.enqueue op eof = some (b', (a.enqueue op eof).2) ∧ Rep b' ns' (a.enqueue op eof).1 := by
  have hlen : a.items.length = b.len := by rw [h.items_len, h.len]
  unfold LBuf.enqueue Buf.enqueue
  rw [h.shut, h.cap, ← hlen]
  by_cases hs : a.shut = true
  · exact ⟨b, ns, by simp [hs], by simpa [hs] using h⟩
  · by_cases hf : a.items.length ≥ a.cap
    · exact ⟨b, ns, by simp [hs, hf], by simpa [hs, hf] using h⟩
    · simp only [hs, hf, if_false, Bool.false_eq_true]
      cases hns : ns with
      | nil =>
        subst hns
        have hh : b.head = none := by simpa using h.head
        have hi : a.items = [] := by simpa using h.items
        have hcur : a.cur = none := by
          cases hc : a.cur with
          | none => rfl
          | some i => have := h.curv i hc; simp at this
        have hbc : b.cursor = none := by rw [h.cur, hcur]; rfl
        have hbl : b.len = 0 := by simpa using h.len
        refine ⟨_, [(b.heap.length, op)], by rw [hh], ?_⟩
        constructor
        · intro i x hx
          cases i with
          | zero => simp at hx; subst hx; simp [prevAt, nextAt]
          | succ k => simp at hx
        · intro i j x y hx hy _
          cases i <;> cases j <;> simp at hx hy <;> rfl
        · simp [hi]
        · simp
        · simp
        · simp [hi]
        · simp [hbc, hcur]
        · intro i hc; simp [hcur] at hc
        · rfl
        · rfl
      | cons x0 rest =>
        have hL : 0 < ns.length := by rw [hns]; simp
        have hx0 : ns[0]? = some ns[0] := List.getElem?_eq_getElem hL
        have hh : b.head = some (ns[0]).1 := by rw [h.head, hx0]; rfl
        have hlast : ns[ns.length - 1]? = some ns[ns.length - 1] := List.getElem?_eq_getElem (by omega)
        have ht : b.tail = some (ns[ns.length - 1]).1 := by rw [h.tail, hlast]; rfl
        have htn := h.node _ _ hlast
        have htlt := h.addr_lt _ _ hlast
        have hnl : nextAt ns (ns.length - 1) = none := by
          unfold nextAt; rw [List.getElem?_eq_none (by omega)]; rfl
        rw [hh]; simp only [ht]; rw [List.getElem?_append_left htlt, htn]; simp only [Option.map_some]
        refine ⟨_, ns ++ [(b.heap.length, op)], rfl, ?_⟩
        · constructor
          · intro j x hx
            rw [getElem?_snoc] at hx
            by_cases hj : j < ns.length
            · simp only [hj, if_true] at hx
              have hpa : prevAt (ns ++ [(b.heap.length, op)]) j = prevAt ns j := by
                unfold prevAt; split
                · rfl
                · rw [List.getElem?_append_left (by omega)]
              by_cases hjt : x.1 = (ns[ns.length - 1]).1
              · have hjl : j = ns.length - 1 := h.inj _ _ _ _ hx hlast hjt
                subst hjl
                have hxe : x = ns[ns.length - 1] := by rw [hlast] at hx; exact (Option.some.inj hx).symm
                subst hxe
                have hna : nextAt (ns ++ [(b.heap.length, op)]) (ns.length - 1) = some b.heap.length := by
                  unfold nextAt; rw [getElem?_snoc]
                  have : ¬ (ns.length - 1 + 1 < ns.length) := by omega
                  have h2 : ns.length - 1 + 1 = ns.length := by omega
                  simp [this, h2]
                rw [hpa, hna]
                show (List.set _ _ _)[_]? = _
                rw [List.getElem?_set_self (by simp; omega)]
              · rw [List.getElem?_set_ne (Ne.symm hjt), List.getElem?_append_left (h.addr_lt _ _ hx), h.node _ _ hx, hpa]
                have hna : nextAt (ns ++ [(b.heap.length, op)]) j = nextAt ns j := by
                  unfold nextAt
                  by_cases hj1 : j + 1 < ns.length
                  · rw [List.getElem?_append_left hj1]
                  · exfalso
                    have hjl : j = ns.length - 1 := by omega
                    subst hjl
                    rw [hlast] at hx
                    exact hjt (by rw [← Option.some.inj hx])
                rw [hna]
            · have hje : j = ns.length := by
                by_cases hje : j = ns.length
                · exact hje
                · simp [hj, hje] at hx
              subst hje
              simp only [Nat.lt_irrefl, if_false, if_true] at hx
              have hxe := (Option.some.inj hx).symm
              subst hxe
              have hne : b.heap.length ≠ (ns[ns.length - 1]).1 := by omega
              rw [List.getElem?_set_ne (Ne.symm hne)]
              have hpa : prevAt (ns ++ [(b.heap.length, op)]) ns.length = some (ns[ns.length - 1]).1 := by
                unfold prevAt
                have : ns.length ≠ 0 := by omega
                simp only [this, if_false]
                rw [List.getElem?_append_left (by omega), hlast]; rfl
              have hna : nextAt (ns ++ [(b.heap.length, op)]) ns.length = none := by
                unfold nextAt; rw [List.getElem?_eq_none (by simp)]; rfl
              rw [hpa, hna]; simp
          · intro i j x y hx hy hxy
            rw [getElem?_snoc] at hx hy
            by_cases hi : i < ns.length <;> by_cases hj : j < ns.length
            · simp only [hi, hj, if_true] at hx hy; exact h.inj _ _ _ _ hx hy hxy
            · simp only [hi, hj, if_true, if_false] at hx hy
              have := h.addr_lt _ _ hx
              split at hy
              · have := Option.some.inj hy; subst this; simp at hxy; omega
              · cases hy
            · simp only [hi, hj, if_true, if_false] at hx hy
              have := h.addr_lt _ _ hy
              split at hx
              · have := Option.some.inj hx; subst this; simp at hxy; omega
              · cases hx
            · simp only [hi, hj, if_false] at hx hy
              split at hx <;> split at hy <;> first | omega | (cases hy; done) | (cases hx; done)
          · simp [h.items]
          · show some (ns[0]).1 = _
            rw [List.getElem?_append_left (by omega), hx0]; rfl
          · show some b.heap.length = _
            simp
          · show a.items.length + 1 = _
            simp [h.items_len]
          · show b.cursor = _
            rw [h.cur]
            cases hc : a.cur with
            | none => rfl
            | some i =>
              have := h.curv i hc
              simp only [Option.bind_some]
              rw [List.getElem?_append_left this]
          · intro i hc
            have := h.curv i hc
            simp; omega
          · rfl
          · rfl

/-! ### remove -/

/-- `p.nxt = v` when `p` is a node -/
def setNxt (h : List Link) (p : Option Nat) (v : Option Nat) : List Link :=
  match p with
  | some p => (match h[p]? with | some pl => h.set p { pl with nxt := v } | none => h)
  | none => h

/-- `n.prv = v` when `n` is a node -/
def setPrv (h : List Link) (n : Option Nat) (v : Option Nat) : List Link :=
  match n with
  | some n => (match h[n]? with | some nl => h.set n { nl with prv := v } | none => h)
  | none => h

theorem setNxt_cell (h : List Link) (p v : Option Nat) (k : Nat) (l : Link) (hk : h[k]? = some l) :
    (setNxt h p v)[k]? = some (if p = some k then { l with nxt := v } else l) := by
  have hkl : k < h.length := (List.getElem?_eq_some_iff.1 hk).1
  unfold setNxt
  cases p with
  | none => simp [hk]
  | some q =>
    by_cases hq : q = k
    · subst hq; simp only [hk]; rw [List.getElem?_set_self hkl]; simp
    · have : ¬ (some q = some k) := fun h => hq (Option.some.inj h)
      simp only [this, if_false]
      cases hqq : h[q]? with
      | none => exact hk
      | some ql => simp only []; rw [List.getElem?_set_ne hq]; exact hk

theorem setPrv_cell (h : List Link) (n v : Option Nat) (k : Nat) (l : Link) (hk : h[k]? = some l) :
    (setPrv h n v)[k]? = some (if n = some k then { l with prv := v } else l) := by
  have hkl : k < h.length := (List.getElem?_eq_some_iff.1 hk).1
  unfold setPrv
  cases n with
  | none => simp [hk]
  | some q =>
    by_cases hq : q = k
    · subst hq; simp only [hk]; rw [List.getElem?_set_self hkl]; simp
    · have : ¬ (some q = some k) := fun h => hq (Option.some.inj h)
      simp only [this, if_false]
      cases hqq : h[q]? with
      | none => exact hk
      | some ql => simp only []; rw [List.getElem?_set_ne hq]; exact hk

/-- the heap after the cursor node (neighbours `pv`, `nx`) has been unlinked -/
def unlinkHeap (heap : List Link) (pv nx : Option Nat) : List Link := setPrv (setNxt heap pv nx) nx pv

theorem unlinkHeap_cell (heap : List Link) (pv nx : Option Nat) (k : Nat) (l : Link) (hk : heap[k]? = some l) :
    (unlinkHeap heap pv nx)[k]? =
      some { prv := if nx = some k then pv else l.prv, op := l.op, nxt := if pv = some k then nx else l.nxt } := by
  unfold unlinkHeap
  rw [setPrv_cell _ _ _ _ _ (setNxt_cell heap pv nx k l hk)]
  by_cases h1 : pv = some k <;> by_cases h2 : nx = some k <;> simp [h1, h2]

theorem nextAt_some {ns : List (Nat × Op)} {i n : Nat} (h : nextAt ns i = some n) :
    ∃ y, ns[i + 1]? = some y ∧ y.1 = n := by
  unfold nextAt at h
  cases hy : ns[i + 1]? with
  | none => rw [hy] at h; cases h
  | some y => rw [hy] at h; exact ⟨y, rfl, Option.some.inj h⟩

theorem prevAt_some {ns : List (Nat × Op)} {i p : Nat} (h : prevAt ns i = some p) :
    i ≠ 0 ∧ ∃ y, ns[i - 1]? = some y ∧ y.1 = p := by
  unfold prevAt at h
  by_cases hi : i = 0
  · simp [hi] at h
  · simp only [hi, if_false] at h
    cases hy : ns[i - 1]? with
    | none => rw [hy] at h; cases h
    | some y => rw [hy] at h; exact ⟨hi, y, rfl, Option.some.inj h⟩

theorem unlink_eq {b : LBuf} {ns : List (Nat × Op)} {a : Buf} (h : Rep b ns a) (i : Nat) (hi : i < ns.length) :
    b.unlink (ns[i]).1 = some { b with
      heap := unlinkHeap b.heap (prevAt ns i) (nextAt ns i),
      head := if prevAt ns i = none then nextAt ns i else b.head,
      tail := if nextAt ns i = none then prevAt ns i else b.tail,
      cursor := nextAt ns i } := by
  have hx : ns[i]? = some ns[i] := List.getElem?_eq_getElem hi
  have hn := h.node i _ hx
  unfold LBuf.unlink
  rw [hn]
  simp only [Option.bind_some]
  cases hpv : prevAt ns i with
  | none =>
    cases hnx : nextAt ns i with
    | none => simp [unlinkHeap, setNxt, setPrv]
    | some n =>
      obtain ⟨y, hy, hyn⟩ := nextAt_some hnx
      have hny := h.node _ _ hy
      rw [hyn] at hny
      have hcn : n ≠ (ns[i]).1 := by
        intro e; have := h.inj _ _ _ _ hy hx (by rw [hyn, e]); omega
      simp only [hny, Option.bind_some]
      rw [List.getElem?_set_ne hcn, hn]
      simp [unlinkHeap, setNxt, setPrv, hny, hnx]
  | some p =>
    obtain ⟨hi0, z, hz, hzp⟩ := prevAt_some hpv
    have hnz := h.node _ _ hz
    rw [hzp] at hnz
    have hcp : p ≠ (ns[i]).1 := by
      intro e; have := h.inj _ _ _ _ hz hx (by rw [hzp, e]); omega
    cases hnx : nextAt ns i with
    | none =>
      simp only [hnz, Option.bind_some]
      rw [List.getElem?_set_ne hcp, hn]
      simp [unlinkHeap, setNxt, setPrv, hnz, hpv]
    | some n =>
      obtain ⟨y, hy, hyn⟩ := nextAt_some hnx
      have hny := h.node _ _ hy
      rw [hyn] at hny
      have hcn : n ≠ (ns[i]).1 := by
        intro e; have := h.inj _ _ _ _ hy hx (by rw [hyn, e]); omega
      have hpn : p ≠ n := by
        intro e; have := h.inj _ _ _ _ hz hy (by rw [hzp, hyn, e]); omega
      simp only [hnz, Option.bind_some]
      rw [List.getElem?_set_ne hcp, hn]
      simp only [Option.bind_some, hnx]
      rw [List.getElem?_set_ne hpn, hny]
      simp only [Option.bind_some]
      rw [List.getElem?_set_ne hcn, List.getElem?_set_ne hcp, hn]
      simp [unlinkHeap, setNxt, setPrv, hnz, hny, hpv, hnx, List.getElem?_set_ne hpn]

/-- index in `ns` of the `j`-th element of `ns.eraseIdx i` -/
def unerase (i j : Nat) : Nat := if j < i then j else j + 1

theorem getElem?_eraseIdx' {α} (l : List α) (i j : Nat) : (l.eraseIdx i)[j]? = l[unerase i j]? := by
  rw [List.getElem?_eraseIdx]; unfold unerase; split <;> rfl

theorem prevAt_eraseIdx (ns : List (Nat × Op)) (i j : Nat) :
    prevAt (ns.eraseIdx i) j = if unerase i j = i + 1 then prevAt ns i else prevAt ns (unerase i j) := by
  unfold prevAt unerase
  simp only [List.getElem?_eraseIdx]
  by_cases h1 : j < i
  · have : ¬ (j = i + 1) := by omega
    simp only [h1, if_true, this, if_false]
    by_cases h0 : j = 0
    · simp [h0]
    · have : j - 1 < i := by omega
      simp [h0, this]
  · by_cases h2 : j = i
    · subst h2
      simp only [Nat.lt_irrefl, if_false, if_true]
      by_cases h0 : j = 0
      · simp [h0]
      · have : j - 1 < j := by omega
        simp [h0, this]
    · have h3 : ¬ (j + 1 = i + 1) := by omega
      have h4 : ¬ (j + 1 = 0) := by omega
      have h5 : ¬ (j = 0) := by omega
      have h6 : ¬ (j - 1 < i) := by omega
      have h7 : j - 1 + 1 = j := by omega
      simp [h1, h5, h6, h7]
      intro h; exact absurd h h2

theorem nextAt_eraseIdx (ns : List (Nat × Op)) (i j : Nat) :
    nextAt (ns.eraseIdx i) j = if unerase i j + 1 = i then nextAt ns i else nextAt ns (unerase i j) := by
  unfold nextAt unerase
  simp only [List.getElem?_eraseIdx]
  by_cases h1 : j + 1 < i
  · have h2 : j < i := by omega
    have h3 : ¬ (j + 1 = i) := by omega
    simp [h1, h2, h3]
  · by_cases h2 : j + 1 = i
    · have h3 : j < i := by omega
      simp [h1, h2, h3]
    · have h3 : ¬ (j < i) := by omega
      have h4 : ¬ (j + 1 + 1 = i) := by omega
      simp [h1, h3, h4]

theorem unerase_ne (i j : Nat) : unerase i j ≠ i := by unfold unerase; split <;> omega
theorem unerase_inj (i j k : Nat) (h : unerase i j = unerase i k) : j = k := by
  unfold unerase at h; split at h <;> split at h <;> omega

theorem nextAt_eq_some_iff {b : LBuf} {ns : List (Nat × Op)} {a : Buf} (h : Rep b ns a) (i k : Nat) (x : Nat × Op)
    (hk : ns[k]? = some x) : nextAt ns i = some x.1 ↔ k = i + 1 := by
  constructor
  · intro hn
    obtain ⟨y, hy, hyx⟩ := nextAt_some hn
    exact (h.inj _ _ _ _ hy hk hyx).symm
  · intro e; subst e; unfold nextAt; rw [hk]; rfl

theorem prevAt_eq_some_iff {b : LBuf} {ns : List (Nat × Op)} {a : Buf} (h : Rep b ns a) (i k : Nat) (x : Nat × Op)
    (hk : ns[k]? = some x) : prevAt ns i = some x.1 ↔ k + 1 = i := by
  constructor
  · intro hp
    obtain ⟨h0, y, hy, hyx⟩ := prevAt_some hp
    have := h.inj _ _ _ _ hy hk hyx
    omega
  · intro e; subst e; unfold prevAt; simp [hk]

/-- the representation after the cursor node has been unlinked (the `switch` of `remove()` and `b.len--`) -/
theorem rep_after_unlink {b : LBuf} {ns : List (Nat × Op)} {a : Buf} (h : Rep b ns a) (i : Nat) (hi : i < ns.length) :
    Rep { b with heap := unlinkHeap b.heap (prevAt ns i) (nextAt ns i),
                 head := if prevAt ns i = none then nextAt ns i else b.head,
                 tail := if nextAt ns i = none then prevAt ns i else b.tail,
                 cursor := nextAt ns i, len := b.len - 1 }
        (ns.eraseIdx i)
        { a with items := a.items.eraseIdx i, cur := if i + 1 < ns.length then some i else none } := by
  have hx : ns[i]? = some ns[i] := List.getElem?_eq_getElem hi
  constructor
  · intro j x hjx
    rw [getElem?_eraseIdx'] at hjx
    have hne := unerase_ne i j
    have hcell := unlinkHeap_cell b.heap (prevAt ns i) (nextAt ns i) x.1 _ (h.node _ _ hjx)
    show (unlinkHeap b.heap (prevAt ns i) (nextAt ns i))[x.1]? = _
    rw [hcell, prevAt_eraseIdx, nextAt_eraseIdx]
    have e1 := nextAt_eq_some_iff h i _ x hjx
    have e2 := prevAt_eq_some_iff h i _ x hjx
    have hA : (if nextAt ns i = some x.1 then prevAt ns i else prevAt ns (unerase i j)) =
        (if unerase i j = i + 1 then prevAt ns i else prevAt ns (unerase i j)) := by
      by_cases c1 : unerase i j = i + 1
      · rw [if_pos (e1.2 c1), if_pos c1]
      · rw [if_neg (mt e1.1 c1), if_neg c1]
    have hC : (if prevAt ns i = some x.1 then nextAt ns i else nextAt ns (unerase i j)) =
        (if unerase i j + 1 = i then nextAt ns i else nextAt ns (unerase i j)) := by
      by_cases c2 : unerase i j + 1 = i
      · rw [if_pos (e2.2 c2), if_pos c2]
      · rw [if_neg (mt e2.1 c2), if_neg c2]
    simp only [hA, hC]
  · intro j k x y hjx hky hxy
    rw [getElem?_eraseIdx'] at hjx hky
    exact unerase_inj i j k (h.inj _ _ _ _ hjx hky hxy)
  · show a.items.eraseIdx i = _
    rw [h.items]
    apply List.ext_getElem?
    intro k
    simp [List.getElem?_eraseIdx]
    split <;> rfl
  · show (if prevAt ns i = none then nextAt ns i else b.head) = _
    rw [getElem?_eraseIdx', h.head]
    unfold prevAt nextAt unerase
    by_cases h0 : i = 0
    · subst h0; simp
    · have hp : ns[i - 1]? = some ns[i - 1] := List.getElem?_eq_getElem (by omega)
      have : 0 < i := by omega
      simp [h0, hp, this]
  · show (if nextAt ns i = none then prevAt ns i else b.tail) = _
    rw [getElem?_eraseIdx', h.tail, List.length_eraseIdx]
    unfold prevAt nextAt unerase
    simp only [hi, if_true]
    by_cases hl : i + 1 < ns.length
    · have hn : ns[i + 1]? = some ns[i + 1] := List.getElem?_eq_getElem hl
      have h1 : ¬ (ns.length - 1 - 1 < i) := by omega
      have h2 : ns.length - 1 - 1 + 1 = ns.length - 1 := by omega
      simp [hn, h1, h2]
    · have hn : ns[i + 1]? = none := List.getElem?_eq_none (by omega)
      simp only [hn, Option.map_none, if_true]
      by_cases h0 : i = 0
      · have : ns.length = 1 := by omega
        simp [h0, this]
      · have h1 : ns.length - 1 - 1 < i := by omega
        have h2 : ns.length - 1 - 1 = i - 1 := by omega
        have h3 : i - 1 < i := by omega
        simp [h0, h2, h3]
  · show b.len - 1 = _
    rw [h.len, List.length_eraseIdx]; simp [hi]
  · show nextAt ns i = _
    unfold nextAt
    by_cases hl : i + 1 < ns.length
    · simp only [hl, if_true, Option.bind_some]
      rw [getElem?_eraseIdx']; unfold unerase; simp
    · simp only [hl, if_false, Option.bind_none]
      rw [List.getElem?_eq_none (by omega)]; rfl
  · intro k hk
    rw [List.length_eraseIdx]
    simp only [hi, if_true]
    by_cases hl : i + 1 < ns.length
    · simp only [hl, if_true] at hk; cases hk; omega
    · simp only [hl, if_false] at hk; cases hk
  · exact h.cap
  · exact h.shut

theorem remove_refines {b : LBuf} {ns : List (Nat × Op)} {a : Buf} (h : Rep b ns a) :
    ∃ b' ns', b.remove = some (b', a.remove.2) ∧ Rep b' ns' a.remove.1 := by
  cases hc : a.cur with
  | none =>
    have hb : b.cursor = none := by rw [h.cur, hc]; rfl
    exact ⟨b, ns, by simp [LBuf.remove, hb, Buf.remove, hc], by simpa [Buf.remove, hc] using h⟩
  | some i =>
    have hi := h.curv i hc
    have hx : ns[i]? = some ns[i] := List.getElem?_eq_getElem hi
    have hb : b.cursor = some (ns[i]).1 := by rw [h.cur, hc]; simp [hx]
    have hr := rep_after_unlink h i hi
    have hco := hr.curOp
    have hlen : ¬ (b.len = 0) := by rw [h.len]; omega
    have hil : (a.items.eraseIdx i).length = ns.length - 1 := by
      rw [List.length_eraseIdx, h.items_len]; simp [hi]
    refine ⟨{ b with heap := unlinkHeap b.heap (prevAt ns i) (nextAt ns i),
                     head := if prevAt ns i = none then nextAt ns i else b.head,
                     tail := if nextAt ns i = none then prevAt ns i else b.tail,
                     cursor := nextAt ns i, len := b.len - 1 }, ns.eraseIdx i, ?_, ?_⟩
    · simp only [LBuf.remove, hb, unlink_eq h i hi, Option.bind_some, hlen, if_false]
      rw [hco]
      simp only [Option.map_some, Buf.remove, hc]
      by_cases hl : i + 1 < ns.length
      · obtain ⟨o, ho⟩ : ∃ o, (a.items.eraseIdx i)[i]? = some o := ⟨_, List.getElem?_eq_getElem (by omega)⟩
        simp [hl, ho]
      · have ho : (a.items.eraseIdx i)[i]? = none := List.getElem?_eq_none (by omega)
        simp [hl, ho]
    · simp only [Buf.remove, hc]
      by_cases hl : i + 1 < ns.length
      · obtain ⟨o, ho⟩ : ∃ o, (a.items.eraseIdx i)[i]? = some o := ⟨_, List.getElem?_eq_getElem (by omega)⟩
        simpa [hl, ho] using hr
      · have ho : (a.items.eraseIdx i)[i]? = none := List.getElem?_eq_none (by omega)
        simpa [hl, ho] using hr

end GoBatcher

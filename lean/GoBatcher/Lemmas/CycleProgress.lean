import GoBatcher.Lemmas.CycleShape
/-! Progress lemmas for C08. -/
namespace GoBatcher

/-- what a cycle leaves behind is a sublist of the buffer (FIFO order of the backlog is kept) -/
theorem scan_buffer_sublist (c : Cfg) (buf : List Op) : ∀ (a : Acc) (free : Option Nat),
    ((scan c buf a free).kept ++ (scan c buf a free).rest).Sublist buf := by
  induction buf with
  | nil => intro a free; simp [scan]
  | cons op buf ih =>
    intro a free
    unfold scan
    split
    · simp
    · simpa using (ih a free).cons_cons op
    · simpa using (ih _ _).cons op

/-- the first step of a productive cycle releases the head -/
theorem scan_head_take (c : Cfg) (op : Op) (buf : List Op) (a : Acc) (free : Option Nat)
    (hc : cutoff c a.consumed = false) (hs : slotAvail free = true) :
    ∃ a' free', (scan c (op :: buf) a free).kept = (scan c buf a' free').kept ∧
                (scan c (op :: buf) a free).rest = (scan c buf a' free').rest := by
  have hplace : ∀ b slot, ∃ a' out s, place c a op b slot = .take a' out s := by
    intro b slot
    unfold place
    split <;> exact ⟨_, _, _, rfl⟩
  have htake : ∃ a' out s, stepOp c a (slotAvail free) op = .take a' out s := by
    unfold stepOp
    rw [hc, hs]
    simp only [Bool.false_eq_true, if_false, if_true]
    by_cases hb : op.batchable
    · simp only [hb, if_true]
      cases lookupB op.w a.openB with
      | some b => exact hplace b false
      | none => exact hplace [] true
    · simp only [hb, Bool.false_eq_true, if_false]
      exact ⟨_, _, _, rfl⟩
  obtain ⟨a', out, s, hstep⟩ := htake
  refine ⟨a', if s then takeSlot free else free, ?_, ?_⟩
  · conv => lhs; unfold scan
    simp [hstep]
  · conv => lhs; unfold scan
    simp [hstep]

theorem idxOf_cons_ne' {a x : Op} (l : List Op) (h : a ≠ x) : (a :: l).idxOf x = l.idxOf x + 1 := by
  rw [List.idxOf_cons]
  have : (a == x) = false := by simpa using h
  simp [this]

theorem idxOf_sublist_le {x : Op} {l' l : List Op} (h : l'.Sublist l) (hn : l.Nodup) (hx : x ∈ l') :
    l'.idxOf x ≤ l.idxOf x := by
  induction h with
  | slnil => simp at hx
  | cons a h ih =>
    rename_i l₁ l₂
    have hn' := (List.nodup_cons.mp hn)
    have hxl : x ∈ l₂ := h.subset hx
    have hne : a ≠ x := fun e => hn'.1 (e ▸ hxl)
    rw [idxOf_cons_ne' _ hne]
    have := ih hn'.2 hx
    omega
  | cons_cons a h ih =>
    rename_i l₁ l₂
    have hn' := (List.nodup_cons.mp hn)
    by_cases he : a = x
    · subst he; simp
    · rw [idxOf_cons_ne' _ he, idxOf_cons_ne' _ he]
      have hx' : x ∈ l₁ := by
        simp only [List.mem_cons] at hx
        rcases hx with hx | hx
        · exact absurd hx.symm he
        · exact hx
      have := ih hn'.2 hx'
      omega

end GoBatcher

import GoBatcher.Lemmas.BatcherInv
/-! The accounting invariant of M-Batcher (C03) and the slot invariant (C10). -/
namespace GoBatcher

/-- something has been discarded only by the shutdown of the loop -/
def QuietOK (s : St) : Prop := s.discarded = [] ∨ (s.loop = .exited ∧ s.phase = .stopped)

set_option linter.unusedSimpArgs false in
theorem step_quietOK (c : BCfg) (s s' : St) (l : Label) (h : step c s l = some s') (hi : QuietOK s) : QuietOK s' := by
  unfold QuietOK at *
  cases l <;> simp only [step] at h <;> (repeat' split at h) <;> (try cases h) <;>
    first
    | exact hi
    | (simp [shutdownV2]; done)
    | (rcases hi with hi | hi <;> simp_all [shutdownV1, enqOk, enqRefuse, enqBlock, unwake, doAudit, markCbDone, markFinished, doSetCost]; done)

end GoBatcher

namespace GoBatcher

/-- before Start there is no loop -/
def StartOK (s : St) : Prop := s.phase = .uninit → s.loop = .notStarted

set_option linter.unusedSimpArgs false in
theorem step_startOK (c : BCfg) (s s' : St) (l : Label) (h : step c s l = some s') (hi : StartOK s) : StartOK s' := by
  unfold StartOK at *
  cases l <;> simp only [step] at h <;> (repeat' split at h) <;> (try cases h) <;>
    first
    | exact hi
    | (simp_all [shutdownV1, shutdownV2, enqOk, enqRefuse, enqBlock, unwake, doAudit, markCbDone, markFinished, doSetCost]; done)

/-! ### C03: the accounting invariant -/

def Acct (s : St) : Prop := s.target = outstanding s

/-- what C03's theorem assumes of a step (each exclusion is a recorded finding or a stated restriction):
* `setCost`: costs are constant;
* v1 after `close(r.buffer)`: an Enqueue that panics has already counted its cost (finding F3);
* the audit fires while an Enqueue sits between counting and inserting (finding F9). -/
def cleanStep (c : BCfg) (s : St) : Label → Prop
  | .setCost _ _ => False
  | .enqInsert _ => ¬ (c.gen = .v1 ∧ s.closed = true)
  | .takeStop => c.gen = .v1 → s.bm.waiting = []
  | .takeAudit => auditCond c s = true → s.pend = []
  | _ => True

theorem costL_eraseIdx (l : List Op) (i : Nat) (op : Op) (h : l[i]? = some op) :
    costL (l.eraseIdx i) + op.cost = costL l := by
  induction l generalizing i with
  | nil => simp at h
  | cons x t ih =>
    cases i with
    | zero => simp at h; subst h; simp; omega
    | succ j =>
      simp at h
      have := ih j h
      simp [List.eraseIdx_cons_succ]; omega

theorem buf_remove_items (b : Buf) (i : Nat) (h : b.cur = some i) : b.remove.1.items = b.items.eraseIdx i := by
  simp only [Buf.remove, h]; split <;> rfl

theorem outstanding_congr {s s' : St} (hi : s'.bm.buf.items = s.bm.buf.items) (hp : s'.pend = s.pend)
    (hl : costOpen s' = costOpen s) (hb : s'.batches = s.batches) (hd : s'.discarded = s.discarded) :
    outstanding s' = outstanding s := by
  unfold outstanding; rw [hi, hp, hl, hb, hd]

theorem acct_congr (s s' : St) (ht : s'.target = s.target) (hi : s'.bm.buf.items = s.bm.buf.items) (hp : s'.pend = s.pend)
    (hl : costOpen s' = costOpen s) (hb : s'.batches = s.batches) (hd : s'.discarded = s.discarded)
    (h : Acct s) : Acct s' := by
  unfold Acct at *; rw [ht, outstanding_congr hi hp hl hb hd]; exact h

theorem costOpen_of_loop {s s' : St} (h : s'.loop = s.loop) : costOpen s' = costOpen s := by
  unfold costOpen; rw [h]

def markFin (b : Nat) (y : RBatch) : RBatch := if y.id == b then { y with finished := true } else y

theorem markFin_ne {b : Nat} {y : RBatch} (h : y.id ≠ b) : markFin b y = y := by
  unfold markFin; simp [h]

theorem markFin_eq {b : Nat} {y : RBatch} (h : y.id = b) : (markFin b y).finished = true := by
  unfold markFin; simp [h]

/-- the cost of an unfinished batch is part of what is outstanding -/
theorem costUnfinished_mark (l : List RBatch) (b : Nat) (x : RBatch) (hnd : (l.map (·.id)).Nodup)
    (hx : x ∈ l) (hid : x.id = b) (hf : x.finished = false) :
    costUnfinished (l.map (markFin b)) + batchCost x = costUnfinished l := by
  induction l with
  | nil => simp at hx
  | cons y t ih =>
    simp only [List.map_cons, List.nodup_cons] at hnd
    simp only [List.map_cons, costUnfinished_cons]
    simp only [List.mem_cons] at hx
    rcases hx with hx | hx
    · subst hx
      have hrest : t.map (markFin b) = t := by
        have : ∀ y ∈ t, markFin b y = id y := by
          intro y hy
          exact markFin_ne (fun e => hnd.1 (List.mem_map.mpr ⟨y, hy, by rw [e, hid]⟩))
        rw [List.map_congr_left this, List.map_id]
      rw [hrest, markFin_eq hid, hf]
      simp
      omega
    · have hne : y.id ≠ b := fun e => hnd.1 (List.mem_map.mpr ⟨x, hx, by rw [hid, e]⟩)
      have := ih hnd.2 hx
      rw [markFin_ne hne]
      omega

theorem costUnfinished_mapCb (l : List RBatch) (b : Nat) :
    costUnfinished (l.map (fun x => if x.id == b then { x with cbDone := true } else x)) = costUnfinished l := by
  induction l with
  | nil => rfl
  | cons y t ih =>
    simp only [List.map_cons, costUnfinished_cons, ih]
    split <;> rfl

theorem raise_outstanding (c : BCfg) (s : St) (p : Batch) :
    costUnfinished (raise c s p).batches = costUnfinished s.batches + costL p.2 := by
  unfold raise
  split
  · rename_i he
    have : p.2 = [] := by simpa using he
    simp [this]
  · simp [costUnfinished_cons, batchCost_eq]

theorem v1Handoff_acct (s : St) (hp : PendOK s) :
    costL (v1Handoff s).bm.buf.items + costPend (v1Handoff s).pend = costL s.bm.buf.items + costPend s.pend := by
  unfold v1Handoff
  split
  · rfl
  · rename_i k op rest hw
    have hm : (k, op) ∈ s.pend := hp.2.2 (k, op) (by simp [hw])
    have := costPend_remove k op s.pend hp.1 hm
    simp only [costL_append, costL_cons, costL_nil]
    omega

end GoBatcher

namespace GoBatcher

theorem costOpen_idle {s : St} (h : s.loop = .idle) : costOpen s = 0 := by unfold costOpen; rw [h]

/-- at an audit that fires (`auditCond`), nothing is outstanding — given healthy watchers and no call in flight -/
theorem audit_nothing_outstanding (c : BCfg) (s : St) (hw : ∀ w, effMot c w ≤ c.mot)
    (hloop : s.loop = .idle) (hcond : auditCond c s = true) (hpend : s.pend = [])
    (ht : TimeOK c s) (hq : QuietOK s) : outstanding s = 0 := by
  unfold auditCond at hcond
  simp only [Bool.and_eq_true, List.isEmpty_iff] at hcond
  have hunf : costUnfinished s.batches = 0 := by
    unfold costUnfinished
    have : s.batches.filter (fun b => !b.finished) = [] := by
      apply List.filter_eq_nil_iff.mpr
      intro b hb
      simp only [Bool.not_eq_true', Bool.not_eq_false]
      cases hf : b.finished with
      | true => rfl
      | false =>
        exfalso
        obtain ⟨t, hlt, hr, hd⟩ := ht.2.1 b hb
        have hlive := ht.1 b hb hf
        have h2 := hcond.2
        rw [hlt] at h2
        simp at h2
        have := hw b.w
        omega
    rw [this]; rfl
  have hdis : s.discarded = [] := by
    rcases hq with h | h
    · exact h
    · rw [hloop] at h; exact absurd h.1 (by simp)
  unfold outstanding
  rw [hcond.1, hpend, costOpen_idle hloop, hunf, hdis]
  rfl

theorem enqOk_acct (s : St) (k : Nat) (op : Op) (hp : PendOK s) (hm : (k, op) ∈ s.pend) (ha : Acct s) :
    Acct (enqOk s k op) := by
  have hrm := costPend_remove k op s.pend hp.1 hm
  have hco : costOpen (enqOk s k op) = costOpen s := rfl
  unfold Acct outstanding at *
  rw [hco]
  simp only [enqOk, costL_append, costL_cons, costL_nil]
  omega

theorem enqRefuse_acct (s : St) (k : Nat) (op : Op) (r : EnqRes) (hp : PendOK s) (hm : (k, op) ∈ s.pend) (ha : Acct s) :
    Acct (enqRefuse s k op r true) := by
  have hrm := costPend_remove k op s.pend hp.1 hm
  have hco : costOpen (enqRefuse s k op r true) = costOpen s := rfl
  unfold Acct outstanding at *
  rw [hco]
  simp only [enqRefuse, decTarget, if_true]
  omega

theorem enqBlock_acct (s : St) (k : Nat) (op : Op) (ha : Acct s) : Acct (enqBlock s k op) :=
  acct_congr s _ rfl rfl rfl rfl rfl rfl ha

theorem unwake_acct (s : St) (w : Nat × Op) (ha : Acct s) : Acct (unwake s w) :=
  acct_congr s _ rfl rfl rfl rfl rfl rfl ha

theorem shutdownV2_acct (c : BCfg) (s : St) (hl : s.loop = .idle) (ha : Acct s) : Acct (shutdownV2 c s) := by
  have h1 : costOpen s = 0 := costOpen_idle hl
  have h2 : costOpen (shutdownV2 c s) = 0 := by unfold costOpen shutdownV2; rfl
  unfold Acct outstanding at *
  rw [h2]; rw [h1] at ha
  unfold shutdownV2
  cases c.wos <;> simp [Buf.shutdown] <;> omega

theorem shutdownV1_acct (s : St) (hl : s.loop = .idle) (hw : s.bm.waiting = []) (ha : Acct s) : Acct (shutdownV1 s) := by
  have h1 : costOpen s = 0 := costOpen_idle hl
  have h2 : costOpen (shutdownV1 s) = 0 := by unfold costOpen shutdownV1; rfl
  unfold Acct outstanding at *
  rw [h2]; rw [h1] at ha
  unfold shutdownV1
  have hf : s.pend.filter (fun p => !(s.bm.waiting.any (·.1 == p.1))) = s.pend := by
    rw [hw]; simp
  simp only [hf]
  omega

theorem removeAt_items (b : Buf) (i : Nat) : (removeAt b i).items = b.items.eraseIdx i := rfl

theorem afterTake_acct (c : BCfg) (s : St) (a : Nat) (acc acc' : Acc) (sl : Bool) (i : Nat) (op : Op)
    (hloop : s.loop = .cycle a acc) (hop : s.bm.buf.items[i]? = some op)
    (hp : PendOK s) (extra : Nat) (hacc : costB acc'.openB + extra = costB acc.openB + op.cost)
    (ha : Acct s) :
    (afterTake c s i a acc' sl).target = costL (afterTake c s i a acc' sl).bm.buf.items + costPend (afterTake c s i a acc' sl).pend
      + costB acc'.openB + extra + costUnfinished s.batches + costL s.discarded := by
  have hrem := costL_eraseIdx s.bm.buf.items i op hop
  rw [← removeAt_items s.bm.buf i] at hrem
  have hopen : costOpen s = costB acc.openB := by unfold costOpen; rw [hloop]
  unfold Acct outstanding at ha
  rw [hopen] at ha
  have key : costL (afterTake c s i a acc' sl).bm.buf.items + costPend (afterTake c s i a acc' sl).pend
      = costL (removeAt s.bm.buf i).items + costPend s.pend := by
    unfold afterTake
    cases c.gen with
    | v2 => simp [afterTakeV2]
    | v1 =>
      simp only [afterTakeV1]
      have hp0 : PendOK ({ s with bm := { s.bm with buf := removeAt s.bm.buf i }, slots := slotsAfter c s sl, loop := .cycle a acc' } : St) :=
        pendOK_congr rfl rfl rfl hp
      exact v1Handoff_acct _ hp0
  rw [afterTake_target]; omega

theorem step_acct (c : BCfg) (s s' : St) (l : Label) (h : step c s l = some s')
    (hroll : c.rollback = true) (hw : ∀ w, effMot c w ≤ c.mot) (hclean : cleanStep c s l)
    (hp : PendOK s) (hid : IdsOK s) (ht : TimeOK c s) (hq : QuietOK s) (hst : StartOK s) (ha : Acct s) : Acct s' := by
  cases l with
  | setCost obj cost => exact absurd hclean (by simp [cleanStep])
  | enqCount k op =>
    simp only [step] at h
    split at h
    · cases h
    · cases h
      have hco : costOpen ({ s with target := s.target + op.cost, pend := s.pend ++ [(k, op)] } : St) = costOpen s := rfl
      unfold Acct outstanding at *
      rw [hco]
      simp only [costPend_append, costPend_cons, costPend_nil]
      omega
  | enqInsert k =>
    simp only [step] at h
    split at h
    · cases h
    · rename_i op hf
      have hm := findPend_mem hf
      split at h
      · cases h
      · simp only [cleanStep] at hclean
        (repeat' split at h) <;> cases h <;>
          first
          | exact enqOk_acct s k op hp hm ha
          | (rw [hroll]; exact enqRefuse_acct s k op _ hp hm ha)
          | exact enqBlock_acct s k op ha
          | (rename_i hg hc; exact absurd ⟨hg, hc⟩ hclean)
  | enqAdmit k =>
    simp only [step] at h
    split at h
    · cases h
    · rename_i w hf
      have hwm : w ∈ s.bm.woken := List.mem_of_find?_eq_some hf
      have hk : w.1 = k := by have := List.find?_some hf; simpa using this
      obtain ⟨hu, hmem, _⟩ := unwake_pendOK s w hp hwm
      have hmem' : (k, w.2) ∈ (unwake s w).pend := by rw [← hk]; exact hmem
      have hau := unwake_acct s w ha
      (repeat' split at h) <;> cases h <;>
        first
        | exact enqOk_acct _ k w.2 hu hmem' hau
        | (rw [hroll]; exact enqRefuse_acct _ k w.2 _ hu hmem' hau)
        | exact enqBlock_acct _ k w.2 hau
  | takeStop =>
    simp only [step] at h
    split at h
    · rename_i hg
      simp only [Bool.and_eq_true, beq_iff_eq] at hg
      simp only [cleanStep] at hclean
      split at h <;> cases h
      · rename_i hgen; exact shutdownV1_acct s hg.1 (hclean hgen) ha
      · exact shutdownV2_acct c s hg.1 ha
    · cases h
  | takeAudit =>
    simp only [step] at h
    split at h
    · rename_i hg
      simp only [Bool.and_eq_true, beq_iff_eq] at hg
      cases h
      simp only [cleanStep] at hclean
      by_cases hc : auditCond c s = true
      · have h0 := audit_nothing_outstanding c s hw hg.1 hc (hclean hc) ht hq
        have hco : costOpen (doAudit c s) = costOpen s := rfl
        unfold Acct outstanding
        have hco' : costOpen s = 0 := costOpen_idle hg.1
        show (doAudit c s).target = costL (doAudit c s).bm.buf.items + costPend (doAudit c s).pend + costOpen (doAudit c s)
          + costUnfinished (doAudit c s).batches + costL (doAudit c s).discarded
        rw [hco]
        simp only [doAudit, hc, if_true]
        unfold outstanding at h0
        omega
      · have hc' : auditCond c s = false := by simpa using hc
        exact acct_congr s _ (by simp [doAudit, hc']) rfl rfl rfl rfl rfl ha
    · cases h
  | cycleBegin allow =>
    simp only [step] at h
    split at h
    · rename_i hg
      simp only [Bool.and_eq_true, beq_iff_eq] at hg
      cases h
      have h1 : costOpen s = 0 := costOpen_idle hg.1
      unfold Acct outstanding at *
      have hitems : (s.bm.buf.top.1).items = s.bm.buf.items := by simp only [Buf.top]; split <;> rfl
      simp only [costOpen, hitems, costB_nil]
      rw [h1] at ha; omega
    · cases h
  | cycleStep =>
    simp only [step] at h
    split at h
    · rename_i allow acc hloop
      split at h
      · cases h
      · rename_i i hcur
        split at h
        · cases h
        · rename_i op hop
          split at h
          · cases h
          · -- skip
            cases h
            have hitems : (s.bm.buf.skip.1).items = s.bm.buf.items := by
              simp only [Buf.skip]; split
              · rfl
              · split <;> rfl
            exact acct_congr s _ rfl hitems rfl rfl rfl rfl ha
          · -- take, nothing raised
            rename_i acc' slot hstep
            cases h
            have hc := (stepOp_cost (cycleCfg c allow) acc (slotFree c s) op hstep).2
            simp only [optCost] at hc
            have := afterTake_acct c s allow acc acc' slot i op hloop hop hp 0 (by omega) ha
            unfold Acct outstanding
            simp only [afterTake_batches, afterTake_discarded, costOpen, afterTake_loop]
            omega
          · -- take and raise
            rename_i acc' p slot hstep
            cases h
            have hc := (stepOp_cost (cycleCfg c allow) acc (slotFree c s) op hstep).2
            obtain ⟨w, b⟩ := p
            simp only [optCost] at hc
            have := afterTake_acct c s allow acc acc' slot i op hloop hop hp (costL b) hc ha
            unfold Acct outstanding
            have hr := raise_outstanding c (afterTake c s i allow acc' slot) (w, b)
            simp only [raise_target, raise_bm, raise_pend, raise_discarded, costOpen, raise_loop, afterTake_loop,
              afterTake_discarded, hr, afterTake_batches]
            omega
    · cases h
  | scanEnd =>
    simp only [step] at h
    split at h
    · rename_i allow acc hloop
      split at h <;> cases h
      have : costOpen ({ s with loop := .sweep acc } : St) = costOpen s := by unfold costOpen; rw [hloop]
      exact acct_congr s _ rfl rfl rfl this rfl rfl ha
    · cases h
  | sweepOne w =>
    simp only [step] at h
    split at h
    · rename_i acc hloop
      split at h
      · cases h
      · rename_i b hb
        cases h
        have hopen : costOpen s = costB acc.openB := by unfold costOpen; rw [hloop]
        have he := costB_erase_lookup w acc.openB
        rw [hb] at he
        simp only at he
        have hr := raise_outstanding c s (w, b)
        unfold Acct outstanding at *
        simp only [raise_target, raise_bm, raise_pend, raise_discarded, costOpen, hr]
        rw [hopen] at ha
        omega
    · cases h
  | cycleEnd =>
    simp only [step] at h
    split at h
    · rename_i acc hloop
      split at h <;> cases h
      rename_i he
      have hopen : costOpen s = 0 := by
        unfold costOpen; rw [hloop]
        have : acc.openB = [] := by simpa using he
        simp [this]
      have : costOpen ({ s with loop := .idle } : St) = costOpen s := by rw [hopen]; rfl
      exact acct_congr s _ rfl rfl rfl this rfl rfl ha
    · cases h
  | cbReturn b =>
    simp only [step] at h
    split at h <;> cases h
    have hco : costOpen (markCbDone s b) = costOpen s := rfl
    unfold Acct outstanding at *
    rw [hco]
    simp only [markCbDone, costUnfinished_mapCb]
    exact ha
  | finish b =>
    simp only [step] at h
    split at h
    · cases h
    · rename_i x hf
      split at h <;> cases h
      rename_i hg
      simp only [Bool.and_eq_true, Bool.not_eq_true'] at hg
      have hx : x ∈ s.batches := List.mem_of_find?_eq_some hf
      have hxid : x.id = b := by have := List.find?_some hf; simpa using this
      have hmark := costUnfinished_mark s.batches b x hid.2 hx hxid hg.1
      have hco : costOpen (markFinished c s b x) = costOpen s := rfl
      unfold Acct outstanding at *
      rw [hco]
      simp only [markFinished, decTarget]
      have : s.batches.map (fun y => if y.id == b then { y with finished := true } else y) = s.batches.map (markFin b) := rfl
      rw [this]
      omega
  | enqReject k e => simp only [step] at h; cases h; exact ha
  | pauseCall => simp only [step] at h; split at h <;> cases h <;> first | exact ha | exact acct_congr s _ rfl rfl rfl rfl rfl rfl ha
  | flushCall => simp only [step] at h; cases h; exact acct_congr s _ rfl rfl rfl rfl rfl rfl ha
  | startCall =>
    simp only [step] at h
    split at h <;> cases h
    rename_i hg
    have hl := hst (by simpa using hg)
    have : costOpen ({ s with phase := .started, loop := .idle, nextF := s.now + c.flushInt, nextC := s.now + c.capInt,
                              nextA := s.now + c.auditInt } : St) = costOpen s := by
      unfold costOpen; rw [hl]
    exact acct_congr s _ rfl rfl rfl this rfl rfl ha
  | startAgain => simp only [step] at h; split at h <;> cases h; exact ha
  | stopCall =>
    simp only [step] at h
    (repeat' split at h) <;> cases h <;> first | exact ha | exact acct_congr s _ rfl rfl rfl rfl rfl rfl ha
  | takePause =>
    simp only [step] at h
    split at h <;> cases h
    rename_i hg
    simp only [Bool.and_eq_true, beq_iff_eq] at hg
    have : costOpen ({ s with pauseReq := false, loop := .sleeping (s.now + c.pause), pauses := s.pauses + 1 } : St) = costOpen s := by
      unfold costOpen; rw [hg.1]
    exact acct_congr s _ rfl rfl rfl this rfl rfl ha
  | wake =>
    simp only [step] at h
    split at h
    · rename_i u hl
      split at h <;> cases h
      have : costOpen ({ s with loop := .idle, phase := if s.phase == .paused then .started else s.phase } : St) = costOpen s := by
        unfold costOpen; rw [hl]
      exact acct_congr s _ rfl rfl rfl this rfl rfl ha
    · cases h
  | takeCap =>
    simp only [step] at h
    split at h <;> cases h
    exact acct_congr s _ rfl rfl rfl rfl rfl rfl ha
  | takeFlushTick =>
    simp only [step] at h
    split at h <;> cases h
    exact acct_congr s _ rfl rfl rfl rfl rfl rfl ha
  | fireF => simp only [step] at h; split at h <;> cases h; exact acct_congr s _ rfl rfl rfl rfl rfl rfl ha
  | fireC => simp only [step] at h; split at h <;> cases h; exact acct_congr s _ rfl rfl rfl rfl rfl rfl ha
  | fireA => simp only [step] at h; split at h <;> cases h; exact acct_congr s _ rfl rfl rfl rfl rfl rfl ha
  | advance dt => simp only [step] at h; split at h <;> cases h; exact acct_congr s _ rfl rfl rfl rfl rfl rfl ha

end GoBatcher

import GoBatcher.Lemmas.CycleShape
/-! Order preservation inside a cycle (helper lemmas for C05). -/
namespace GoBatcher

/-- where a batch touched by one step comes from -/
def FromStep (a : Acc) (op : Op) (p : Batch) : Prop :=
  ∃ b, p = (op.w, b ++ [op]) ∧ (b = [] ∨ (op.w, b) ∈ a.openB)

theorem place_entries (c : Cfg) (a : Acc) (op : Op) (b : List Op) (slot : Bool)
    (hb : b = [] ∨ (op.w, b) ∈ a.openB)
    {a' : Acc} {out : Option Batch} {s : Bool} (h : place c a op b slot = .take a' out s) :
    (∀ p ∈ a'.openB, p ∈ a.openB ∨ FromStep a op p) ∧ (∀ p, out = some p → FromStep a op p) := by
  unfold place at h
  split at h
  · injection h with h1 h2 h3
    subst h1 h2
    refine ⟨fun p hp => Or.inl (mem_eraseB hp), ?_⟩
    intro p hp; injection hp with hp; subst hp
    exact ⟨b, rfl, hb⟩
  · injection h with h1 h2 h3
    subst h1 h2
    refine ⟨?_, by intro p hp; cases hp⟩
    intro p hp
    simp only [List.mem_cons] at hp
    rcases hp with hp | hp
    · subst hp; exact Or.inr ⟨b, rfl, hb⟩
    · exact Or.inl (mem_eraseB hp)

theorem stepOp_entries (c : Cfg) (a : Acc) (av : Bool) (op : Op)
    {a' : Acc} {out : Option Batch} {s : Bool} (h : stepOp c a av op = .take a' out s) :
    (∀ p ∈ a'.openB, p ∈ a.openB ∨ FromStep a op p) ∧ (∀ p, out = some p → FromStep a op p) := by
  unfold stepOp at h
  split at h
  · cases h
  · split at h
    · split at h
      · rename_i b hb
        exact place_entries c a op b false (Or.inr (lookupB_mem hb)) h
      · split at h
        · exact place_entries c a op [] true (Or.inl rfl) h
        · cases h
    · split at h
      · injection h with h1 h2 h3
        subst h1 h2
        refine ⟨fun p hp => Or.inl hp, ?_⟩
        intro p hp; injection hp with hp; subst hp
        exact ⟨[], rfl, Or.inl rfl⟩
      · cases h

/-- a batch seen at the end of a scan = (possibly) a batch that was already open ++ a sublist of the buffer -/
def Extends (a : Acc) (buf : List Op) (p : Batch) : Prop :=
  ∃ pre l, p.2 = pre ++ l ∧ l.Sublist buf ∧ (pre = [] ∨ (p.1, pre) ∈ a.openB)

theorem Extends.step {a a' : Acc} {op : Op} {buf : List Op} {p : Batch}
    (hent : ∀ q ∈ a'.openB, q ∈ a.openB ∨ FromStep a op q) (h : Extends a' buf p) :
    Extends a (op :: buf) p := by
  obtain ⟨pre, l, he, hs, hp⟩ := h
  rcases hp with hp | hp
  · exact ⟨pre, l, he, hs.cons _, Or.inl hp⟩
  · rcases hent _ hp with h1 | ⟨b, hb, hbo⟩
    · exact ⟨pre, l, he, hs.cons _, Or.inr h1⟩
    · injection hb with hw hpre
      refine ⟨b, op :: l, ?_, hs.cons_cons _, ?_⟩
      · rw [he, hpre]; simp
      · rw [hw]; exact hbo

theorem scan_extends (c : Cfg) (buf : List Op) : ∀ (a : Acc) (free : Option Nat),
    (∀ p ∈ (scan c buf a free).raised, Extends a buf p) ∧
    (∀ p ∈ (scan c buf a free).acc.openB, Extends a buf p) := by
  induction buf with
  | nil =>
    intro a free
    refine ⟨by simp [scan], ?_⟩
    intro p hp
    exact ⟨p.2, [], by simp, List.Sublist.refl _, Or.inr (by simpa [scan] using hp)⟩
  | cons op buf ih =>
    intro a free
    unfold scan
    split
    · refine ⟨by simp, ?_⟩
      intro p hp
      exact ⟨p.2, [], by simp, List.nil_sublist _, Or.inr (by simpa using hp)⟩
    · have := ih a free
      have hent : ∀ q ∈ a.openB, q ∈ a.openB ∨ FromStep a op q := fun q hq => Or.inl hq
      exact ⟨fun p hp => (this.1 p hp).step hent, fun p hp => (this.2 p hp).step hent⟩
    · rename_i a' out slot hs
      have hent := stepOp_entries c a _ op hs
      have := ih a' (if slot then takeSlot free else free)
      refine ⟨?_, fun p hp => (this.2 p hp).step hent.1⟩
      intro p hp
      simp only [List.mem_append, Option.mem_toList] at hp
      rcases hp with hp | hp
      · obtain ⟨b, hb, hbo⟩ := hent.2 p hp
        refine ⟨b, [op], by rw [hb], ?_, by rw [hb]; exact hbo⟩
        exact (List.nil_sublist buf).cons_cons op
      · exact (this.1 p hp).step hent.1

/-! ### FIFO per class when no slot limit applies -/

def opsOf : List Batch → List Op
  | [] => []
  | (_, b) :: r => b ++ opsOf r

@[simp] theorem opsOf_nil : opsOf [] = [] := rfl
@[simp] theorem opsOf_cons (w : Nat) (b : List Op) (r : List Batch) : opsOf ((w, b) :: r) = b ++ opsOf r := rfl
@[simp] theorem opsOf_append (l₁ l₂ : List Batch) : opsOf (l₁ ++ l₂) = opsOf l₁ ++ opsOf l₂ := by
  induction l₁ with
  | nil => simp
  | cons h t ih => obtain ⟨w, b⟩ := h; simp [ih]

/-- batchable operations of watcher `w` -/
def selW (w : Nat) (o : Op) : Bool := decide (o.w = w) && o.batchable
/-- non-batchable operations -/
def selS (o : Op) : Bool := !o.batchable

def openOf (w : Nat) (l : List Batch) : List Op := (lookupB w l).getD []

theorem lookupB_eraseB_ne {w w' : Nat} (l : List Batch) (h : w' ≠ w) : lookupB w' (eraseB w l) = lookupB w' l := by
  induction l with
  | nil => rfl
  | cons hd t ih =>
    obtain ⟨k, b⟩ := hd
    simp only [eraseB]
    by_cases hk : k = w
    · subst hk
      simp only [if_true, lookupB]
      simp [Ne.symm h]
    · simp only [hk, if_false, lookupB, ih]

theorem lookupB_eraseB_self {w : Nat} (l : List Batch) (h : (l.map (·.1)).Nodup) : lookupB w (eraseB w l) = none := by
  have := (eraseB_nodup (w := w) h).2
  cases hl : lookupB w (eraseB w l) with
  | none => rfl
  | some b =>
    have hm := lookupB_mem hl
    exact absurd (List.mem_map.mpr ⟨(w, b), hm, rfl⟩) this

theorem filter_all_true {p : Op → Bool} {l : List Op} (h : ∀ o ∈ l, p o = true) : l.filter p = l :=
  List.filter_eq_self.mpr h

theorem filter_all_false {p : Op → Bool} {l : List Op} (h : ∀ o ∈ l, p o = false) : l.filter p = [] := by
  apply List.filter_eq_nil_iff.mpr
  intro o ho; simp [h o ho]

/-- one step, seen through watcher `w`'s batchable class -/
theorem stepOp_fifoW (c : Cfg) (a : Acc) (av : Bool) (op : Op) (w : Nat) (hok : OpenOK c a.openB)
    {a' : Acc} {out : Option Batch} {s : Bool} (h : stepOp c a av op = .take a' out s) :
    (opsOf out.toList).filter (selW w) ++ openOf w a'.openB = openOf w a.openB ++ [op].filter (selW w) := by
  unfold stepOp at h
  split at h
  · cases h
  · split at h
    · rename_i hbat
      -- batchable
      have hplace : ∀ (b : List Op) (slot : Bool), openOf op.w a.openB = b →
          (∀ o ∈ b, o.w = op.w ∧ o.batchable = true) →
          place c a op b slot = .take a' out s →
          (opsOf out.toList).filter (selW w) ++ openOf w a'.openB = openOf w a.openB ++ [op].filter (selW w) := by
        intro b slot hbo hball hp
        have hall : ∀ o ∈ b ++ [op], selW op.w o = true := by
          intro o ho
          simp only [List.mem_append, List.mem_singleton] at ho
          rcases ho with ho | ho
          · simp [selW, hball o ho]
          · subst ho; simp [selW, hbat]
        unfold place at hp
        by_cases hw : w = op.w
        · subst hw
          split at hp
          · injection hp with h1 h2 h3; subst h1 h2
            simp only [Option.toList_some, opsOf_cons, opsOf_nil, List.append_nil, openOf,
              lookupB_eraseB_self _ hok.2, Option.getD_none]
            rw [filter_all_true hall]
            have : [op].filter (selW op.w) = [op] := filter_all_true (fun o ho => hall o (by simp at ho; simp [ho]))
            rw [this]; simp [openOf] at hbo; simp [hbo]
          · injection hp with h1 h2 h3; subst h1 h2
            have : [op].filter (selW op.w) = [op] := filter_all_true (fun o ho => hall o (by simp at ho; simp [ho]))
            rw [this]
            simp [openOf, lookupB] at *; simp [hbo]
        · have hne : ∀ o ∈ b ++ [op], selW w o = false := by
            intro o ho
            have := hall o ho
            simp only [selW, Bool.and_eq_true, decide_eq_true_eq] at this
            simp [selW, this.1, Ne.symm hw]
          have hopf : [op].filter (selW w) = [] := filter_all_false (fun o ho => hne o (by simp at ho; simp [ho]))
          split at hp
          · injection hp with h1 h2 h3; subst h1 h2
            simp only [Option.toList_some, opsOf_cons, opsOf_nil, List.append_nil, openOf,
              lookupB_eraseB_ne _ hw]
            rw [filter_all_false hne, hopf]; simp
          · injection hp with h1 h2 h3; subst h1 h2
            simp only [Option.toList_none, opsOf_nil, List.filter_nil, List.nil_append, openOf, lookupB,
              if_neg (Ne.symm hw), lookupB_eraseB_ne _ hw]
            rw [hopf]; simp
      split at h
      · rename_i b hb
        exact hplace b false (by simp [openOf, hb]) (hok.1 _ (lookupB_mem hb)).2.1 h
      · rename_i hb
        split at h
        · exact hplace [] true (by simp [openOf, hb]) (by simp) h
        · cases h
    · rename_i hbat
      split at h
      · injection h with h1 h2 h3; subst h1 h2
        have : selW w op = false := by simp [selW]; intro _; simpa using hbat
        simp [this]
      · cases h

/-- one step, seen through the non-batchable class -/
theorem stepOp_fifoS (c : Cfg) (a : Acc) (av : Bool) (op : Op) (hok : OpenOK c a.openB)
    {a' : Acc} {out : Option Batch} {s : Bool} (h : stepOp c a av op = .take a' out s) :
    (opsOf out.toList).filter selS = [op].filter selS := by
  unfold stepOp at h
  split at h
  · cases h
  · split at h
    · rename_i hbat
      have hopf : [op].filter selS = [] := filter_all_false (by intro o ho; simp at ho; simp [selS, ho, hbat])
      rw [hopf]
      have hplace : ∀ (b : List Op) (slot : Bool), (∀ o ∈ b, o.batchable = true) →
          place c a op b slot = .take a' out s → (opsOf out.toList).filter selS = [] := by
        intro b slot hball hp
        unfold place at hp
        split at hp
        · injection hp with h1 h2 h3; subst h1 h2
          simp only [Option.toList_some, opsOf_cons, opsOf_nil, List.append_nil]
          apply filter_all_false
          intro o ho
          simp only [List.mem_append, List.mem_singleton] at ho
          rcases ho with ho | ho
          · simp [selS, hball o ho]
          · subst ho; simp [selS, hbat]
        · injection hp with h1 h2 h3; subst h1 h2
          simp
      split at h
      · rename_i b hb
        exact hplace b false (fun o ho => ((hok.1 _ (lookupB_mem hb)).2.1 o ho).2) h
      · split at h
        · exact hplace [] true (by simp) h
        · cases h
    · rename_i hbat
      split at h
      · injection h with h1 h2 h3; subst h1 h2
        simp
      · cases h

/-- FIFO per class for a whole uninterrupted cycle without a slot limit: what watcher `w` received in
batchable batches (raise order, then its open batch) is exactly the `w`-batchable subsequence of the
scanned prefix; the singles are exactly its non-batchable subsequence. -/
theorem scan_fifo (c : Cfg) (w : Nat) (buf : List Op) : ∀ (a : Acc), OpenOK c a.openB →
    ∃ pre, buf = pre ++ (scan c buf a none).rest ∧
      (opsOf (scan c buf a none).raised).filter (selW w) ++ openOf w (scan c buf a none).acc.openB
        = openOf w a.openB ++ pre.filter (selW w) ∧
      (opsOf (scan c buf a none).raised).filter selS = pre.filter selS := by
  induction buf with
  | nil => intro a _; exact ⟨[], by simp [scan]⟩
  | cons op buf ih =>
    intro a hok
    unfold scan
    split
    · exact ⟨[], by simp⟩
    · rename_i hs
      have := (stepOp_skip_not_cutoff c a _ op hs).2
      simp [slotAvail] at this
    · rename_i a' out slot hs
      have hok' := (stepOp_shape c a _ op hok hs).1
      have hfree : (if slot then takeSlot none else (none : Option Nat)) = none := by cases slot <;> rfl
      rw [hfree]
      obtain ⟨pre, h1, h2, h3⟩ := ih a' hok'
      have hW := stepOp_fifoW c a _ op w hok hs
      have hS := stepOp_fifoS c a _ op hok hs
      refine ⟨op :: pre, by simp; exact h1, ?_, ?_⟩
      · simp only [opsOf_append, List.filter_append, List.append_assoc]
        rw [h2, ← List.append_assoc, hW]
        simp [List.filter_cons]
        split <;> simp
      · simp only [opsOf_append, List.filter_append]
        rw [h3, hS]
        simp [List.filter_cons]
        split <;> simp

end GoBatcher

import GoBatcher.Lemmas.Lease
/-! Per-instance well-formedness of M-Lease: index safety, lifecycle, "never renewed", partition counts. -/
namespace GoBatcher

structure IWF (now lease : Nat) (x : LInst) : Prop where
  nodup : x.held.Nodup
  inRange : ∀ p, p ∈ x.held → p < x.parts
  callOK : ∀ cl, x.call = some cl → cl.part < x.parts ∧ cl.part ∉ x.held ∧ cl.issuedAt ≤ now
  partsMax : x.parts ≤ maxPartitions
  partsCfg : x.needProvision = false → x.parts = 0 ∨ x.parts = partitionCount x.gen x.shared x.factor
  /-- never renewed: every pending expiry is at most one lease duration away -/
  timerFresh : ∀ p c, (p, c) ∈ x.timers → c ≤ now + lease
  loopPhase : x.loopOn = true → x.phase = .started ∧ x.shutdowns = 0 ∧ x.alive = true ∧
      (x.gen = .v1 → ceilDivN x.shared x.factor ≤ maxPartitions)
  shut : x.shutdowns ≤ 1
  stopped : x.phase = .stopped → x.loopOn = false ∧ x.shutdowns = 1
  uninit : x.phase = .uninit → x.loopOn = false ∧ x.shutdowns = 0 ∧ x.held = [] ∧ x.call = none ∧ x.parts = 0

def LWF (s : LSt) : Prop := ∀ i, IWF s.now s.lease (s.inst i)

theorem lwf_updI (s : LSt) (st : Nat → Option (Nat × Nat)) (i : Nat) (x' : LInst) (h : LWF s) (hx : IWF s.now s.lease x') :
    LWF { now := s.now, lease := s.lease, store := st, inst := updI s.inst i x' } := by
  intro j
  by_cases hj : j = i
  · subst hj; simpa using hx
  · simpa [updI_other _ _ _ _ hj] using h j

theorem partitionCount_le (g : LGen) (sh f : Nat) (h : g = .v1 → ceilDivN sh f ≤ maxPartitions) :
    partitionCount g sh f ≤ maxPartitions := by
  unfold partitionCount
  cases g with
  | v1 => simpa using h rfl
  | v2 => simp only; split <;> omega

theorem step_lwf (n : Nat) (s s' : LSt) (l : LLabel) (h : lstep n s l = some s') (hw : LWF s) : LWF s' := by
  unfold lstep at h
  cases l with
  | advance dt =>
    simp only [LLabel.inst?, lstepCore] at h
    split at h <;> cases h
    intro i
    have w := hw i
    exact { w with
      callOK := fun cl hc => by
        obtain ⟨a, b, c⟩ := w.callOK cl hc
        exact ⟨a, b, Nat.le_trans c (Nat.le_add_right _ _)⟩
      timerFresh := fun p c hm => by
        have := w.timerFresh p c hm
        simp only; omega }
  | start i ok =>
    simp only [LLabel.inst?] at h
    split at h
    · simp only [lstepCore] at h
      split at h
      · rename_i hg
        simp only [Bool.and_eq_true, beq_iff_eq] at hg
        split at h
        · rename_i hok
          cases h
          have w := hw i
          obtain ⟨u1, u2, u3, u4, u5⟩ := w.uninit hg.1
          apply lwf_updI s s.store i _ hw
          refine ⟨w.nodup, w.inRange, ?_, w.partsMax, ?_, w.timerFresh, ?_, w.shut, ?_, ?_⟩
          · intro cl hc; simp only at hc; rw [u4] at hc; cases hc
          · intro hc; simp at hc
          · intro _
            refine ⟨rfl, u2, hg.2, ?_⟩
            intro hv1
            simp only [Bool.and_eq_true, Bool.not_eq_true', Bool.and_eq_false_iff, beq_eq_false_iff_ne, decide_eq_false_iff_not] at hok
            rcases hok.2 with h1 | h1
            · exact absurd hv1 h1
            · simp only at h1 ⊢; omega
          · intro hc; simp at hc
          · intro hc; simp at hc
        · cases h; exact hw
      · cases h
    · cases h
  | giveMe i v =>
    simp only [LLabel.inst?] at h
    split at h
    · simp only [lstepCore] at h
      cases h
      have w := hw i
      apply lwf_updI s s.store i _ hw
      exact ⟨w.nodup, w.inRange, w.callOK, w.partsMax, w.partsCfg, w.timerFresh, w.loopPhase, w.shut, w.stopped, w.uninit⟩
    · cases h
  | setReserved i v =>
    simp only [LLabel.inst?] at h
    split at h
    · simp only [lstepCore] at h
      split at h <;> cases h
      have w := hw i
      apply lwf_updI s s.store i _ hw
      exact ⟨w.nodup, w.inRange, w.callOK, w.partsMax, w.partsCfg, w.timerFresh, w.loopPhase, w.shut, w.stopped, w.uninit⟩
    · cases h
  | setShared i v =>
    simp only [LLabel.inst?] at h
    split at h
    · simp only [lstepCore] at h
      split at h <;> cases h
      rename_i hg
      simp only [beq_iff_eq] at hg
      have w := hw i
      apply lwf_updI s s.store i _ hw
      refine ⟨w.nodup, w.inRange, w.callOK, w.partsMax, ?_, w.timerFresh, ?_, w.shut, w.stopped, w.uninit⟩
      · intro hc; simp at hc
      · intro hl
        obtain ⟨a, b, c, _⟩ := w.loopPhase hl
        refine ⟨a, b, c, ?_⟩
        intro hv; simp only at hv; rw [hg] at hv; cases hv
    · cases h
  | provision i =>
    simp only [LLabel.inst?] at h
    split at h
    · simp only [lstepCore] at h
      split at h <;> cases h
      rename_i hg
      simp only [Bool.and_eq_true, Option.isNone_iff_eq_none] at hg
      have w := hw i
      obtain ⟨a, b, c, d⟩ := w.loopPhase hg.1.1
      apply lwf_updI s s.store i _ hw
      refine ⟨?_, ?_, ?_, ?_, ?_, w.timerFresh, ?_, w.shut, ?_, ?_⟩
      · exact w.nodup.filter _
      · intro p hp
        simp only [List.mem_filter, decide_eq_true_eq] at hp
        exact hp.2
      · intro cl hc; simp only at hc; rw [hg.2] at hc; cases hc
      · exact partitionCount_le _ _ _ d
      · intro _; exact Or.inr rfl
      · intro _; exact ⟨a, b, c, d⟩
      · intro hc; simp only at hc; rw [a] at hc; cases hc
      · intro hc; simp only at hc; rw [a] at hc; cases hc
    · cases h
  | issue i p =>
    simp only [LLabel.inst?] at h
    split at h
    · simp only [lstepCore] at h
      split at h <;> cases h
      rename_i hg
      simp only [Bool.and_eq_true, Option.isNone_iff_eq_none, decide_eq_true_eq, Bool.not_eq_true', List.contains_eq_mem,
        decide_eq_false_iff_not] at hg
      have w := hw i
      apply lwf_updI s s.store i _ hw
      refine ⟨w.nodup, w.inRange, ?_, w.partsMax, w.partsCfg, w.timerFresh, w.loopPhase, w.shut, w.stopped, ?_⟩
      · intro cl hc
        simp only [Option.some.injEq] at hc
        subst hc
        exact ⟨hg.1.2, hg.2, Nat.le_refl _⟩
      · intro hc
        have := (w.uninit hc).1
        rw [hg.1.1.1.1.1] at this; cases this
    · cases h
  | proc i grant =>
    simp only [LLabel.inst?] at h
    split at h
    · simp only [lstepCore] at h
      have w := hw i
      split at h
      · rename_i cl hcl
        split at h
        · cases h
        · split at h <;> cases h
          all_goals
            apply lwf_updI s _ i _ hw
            refine ⟨w.nodup, w.inRange, ?_, w.partsMax, w.partsCfg, w.timerFresh, w.loopPhase, w.shut, w.stopped, ?_⟩
            · intro cl' hc
              simp only [Option.some.injEq] at hc
              subst hc
              exact w.callOK cl hcl
            · intro hc
              have := (w.uninit hc).2.2.2.1
              rw [hcl] at this; cases this
      · cases h
    · cases h
  | ret i =>
    simp only [LLabel.inst?] at h
    split at h
    · simp only [lstepCore] at h
      have w := hw i
      split at h
      · rename_i cl hcl
        obtain ⟨c1, c2, c3⟩ := w.callOK cl hcl
        have hcn : ∀ (x' : LInst), x'.call = none → x'.held = (s.inst i).held → x'.parts = (s.inst i).parts →
            x'.needProvision = (s.inst i).needProvision → x'.gen = (s.inst i).gen → x'.shared = (s.inst i).shared →
            x'.factor = (s.inst i).factor → x'.timers = (s.inst i).timers → x'.loopOn = (s.inst i).loopOn →
            x'.phase = (s.inst i).phase → x'.shutdowns = (s.inst i).shutdowns → x'.alive = (s.inst i).alive →
            IWF s.now s.lease x' := by
          intro x' e1 e2 e3 e4 e5 e6 e7 e8 e9 e10 e11 e12
          refine ⟨(by rw [e2]; exact w.nodup), (by rw [e2, e3]; exact w.inRange), (by intro cl' hc; rw [e1] at hc; cases hc),
            (by rw [e3]; exact w.partsMax), (by rw [e4, e3, e5, e6, e7]; exact w.partsCfg), (by rw [e8]; exact w.timerFresh),
            (by rw [e9, e10, e11, e12, e5, e6, e7]; exact w.loopPhase), (by rw [e11]; exact w.shut),
            (by rw [e10, e9, e11]; exact w.stopped), ?_⟩
          intro hc; rw [e10] at hc
          have := (w.uninit hc).2.2.2.1
          rw [hcl] at this; cases this
        split at h
        · cases h
        · cases h
          exact lwf_updI s s.store i _ hw (hcn _ rfl rfl rfl rfl rfl rfl rfl rfl rfl rfl rfl rfl)
        · split at h <;> cases h
          · exact lwf_updI s s.store i _ hw (hcn _ rfl rfl rfl rfl rfl rfl rfl rfl rfl rfl rfl rfl)
          · rename_i hlate
            apply lwf_updI s s.store i _ hw
            have hnc : (s.inst i).held.contains cl.part = false := by
              simp only [List.contains_eq_mem, decide_eq_false_iff_not]; exact c2
            refine ⟨?_, ?_, ?_, w.partsMax, w.partsCfg, ?_, w.loopPhase, w.shut, w.stopped, ?_⟩
            · simp only [afterGrant, hnc, Bool.false_eq_true, if_false]
              rw [List.nodup_append]
              refine ⟨w.nodup, by simp, ?_⟩
              intro a ha b hb
              simp only [List.mem_singleton] at hb
              subst hb
              intro e; subst e; exact c2 ha
            · intro p hp
              simp only [afterGrant, hnc, Bool.false_eq_true, if_false, List.mem_append, List.mem_singleton] at hp
              rcases hp with hp | hp
              · exact w.inRange p hp
              · subst hp; exact c1
            · intro cl' hc; simp [afterGrant] at hc
            · intro p c hm
              simp only [afterGrant, List.mem_append, List.mem_singleton, Prod.mk.injEq] at hm
              rcases hm with hm | ⟨_, hm⟩
              · exact w.timerFresh p c hm
              · subst hm; omega
            · intro hc
              have := (w.uninit hc).2.2.2.1
              rw [hcl] at this; cases this
      · cases h
    · cases h
  | expire i p c =>
    simp only [LLabel.inst?] at h
    split at h
    · simp only [lstepCore] at h
      split at h <;> cases h
      have w := hw i
      apply lwf_updI s s.store i _ hw
      refine ⟨w.nodup.filter _, ?_, ?_, w.partsMax, w.partsCfg, ?_, w.loopPhase, w.shut, w.stopped, ?_⟩
      · intro q hq
        exact w.inRange q (List.mem_filter.mp hq).1
      · intro cl hc
        obtain ⟨a, b, c'⟩ := w.callOK cl hc
        exact ⟨a, fun hm => b (List.mem_filter.mp hm).1, c'⟩
      · intro q c' hm
        exact w.timerFresh q c' (List.mem_of_mem_erase hm)
      · intro hc
        obtain ⟨a, b, c', d, e⟩ := w.uninit hc
        refine ⟨a, b, ?_, d, e⟩
        simp only; rw [c']; rfl
    · cases h
  | stop i =>
    simp only [LLabel.inst?] at h
    split at h
    · simp only [lstepCore] at h
      split at h <;> cases h
      rename_i hg
      simp only [Bool.and_eq_true, Option.isNone_iff_eq_none] at hg
      have w := hw i
      obtain ⟨a, b, c, d⟩ := w.loopPhase hg.1
      apply lwf_updI s s.store i _ hw
      refine ⟨w.nodup, w.inRange, ?_, w.partsMax, w.partsCfg, w.timerFresh, ?_, ?_, ?_, ?_⟩
      · intro cl hc; simp only at hc; rw [hg.2] at hc; cases hc
      · intro hc; simp at hc
      · simp only; omega
      · intro _; simp only; exact ⟨trivial, by omega⟩
      · intro hc; simp at hc
    · cases h
  | crash i =>
    simp only [LLabel.inst?] at h
    split at h
    · simp only [lstepCore] at h
      cases h
      have w := hw i
      apply lwf_updI s s.store i _ hw
      refine ⟨w.nodup, w.inRange, w.callOK, w.partsMax, w.partsCfg, w.timerFresh, ?_, w.shut, ?_, ?_⟩
      · intro hc; simp at hc
      · intro hc
        have := w.stopped hc
        exact ⟨rfl, this.2⟩
      · intro hc
        obtain ⟨a, b, c', d, e⟩ := w.uninit hc
        exact ⟨rfl, b, c', d, e⟩
    · cases h

theorem run_lwf (n : Nat) : ∀ (ls : List LLabel) (s s' : LSt), lrun n s ls = some s' → LWF s → LWF s' := by
  intro ls
  induction ls with
  | nil => intro s s' h hw; simp [lrun] at h; subst h; exact hw
  | cons l ls ih =>
    intro s s' h hw
    simp only [lrun] at h
    cases hs : lstep n s l with
    | none => simp [hs] at h
    | some s1 =>
      simp [hs] at h
      exact ih s1 s' h (step_lwf n s s1 l hs hw)

end GoBatcher

import GoBatcher.Lemmas.BatcherAcct
/-! Lifting the one-step invariants of M-Batcher to every reachable state. -/
namespace GoBatcher

/-- the structural invariants, bundled only for the induction over runs -/
structure Inv (c : BCfg) (s : St) : Prop where
  ids : IdsOK s
  pend : PendOK s
  time : TimeOK c s
  quiet : QuietOK s
  start : StartOK s

theorem inv_init (c : BCfg) : Inv c (St.init c) := by
  refine ⟨?_, ?_, ?_, ?_, ?_⟩
  · simp [IdsOK, St.init]
  · simp [PendOK, St.init, BufM.new]
  · simp [TimeOK, St.init]
  · simp [QuietOK, St.init]
  · simp [StartOK, St.init]

theorem step_inv (c : BCfg) (s s' : St) (l : Label) (h : step c s l = some s') (hi : Inv c s) : Inv c s' :=
  ⟨step_idsOK c s s' l h hi.ids, step_pendOK c s s' l h hi.pend, step_timeOK c s s' l h hi.time,
   step_quietOK c s s' l h hi.quiet, step_startOK c s s' l h hi.start⟩

theorem run_inv (c : BCfg) : ∀ (ls : List Label) (s s' : St), run c s ls = some s' → Inv c s → Inv c s' := by
  intro ls
  induction ls with
  | nil => intro s s' h hi; simp [run] at h; subst h; exact hi
  | cons l ls ih =>
    intro s s' h hi
    simp only [run] at h
    cases hs : step c s l with
    | none => simp [hs] at h
    | some s1 => simp [hs] at h; exact ih s1 s' h (step_inv c s s1 l hs hi)

theorem reachable_inv (c : BCfg) (s : St) (h : Reachable c s) : Inv c s := by
  obtain ⟨ls, hr⟩ := h
  exact run_inv c ls _ s hr (inv_init c)

/-- every step of the run satisfies `P` in the state it is taken from -/
def AllSteps (c : BCfg) (P : St → Label → Prop) : St → List Label → Prop
  | _, [] => True
  | s, l :: ls => P s l ∧ ∀ s', step c s l = some s' → AllSteps c P s' ls

theorem run_acct (c : BCfg) (hroll : c.rollback = true) (hw : ∀ w, effMot c w ≤ c.mot) :
    ∀ (ls : List Label) (s s' : St), run c s ls = some s' → AllSteps c (cleanStep c) s ls →
      Inv c s → Acct s → Acct s' := by
  intro ls
  induction ls with
  | nil => intro s s' h _ _ ha; simp [run] at h; subst h; exact ha
  | cons l ls ih =>
    intro s s' h hc hi ha
    simp only [run] at h
    cases hs : step c s l with
    | none => simp [hs] at h
    | some s1 =>
      simp [hs] at h
      exact ih s1 s' h (hc.2 s1 hs) (step_inv c s s1 l hs hi)
        (step_acct c s s1 l hs hroll hw hc.1 hi.pend hi.ids hi.time hi.quiet hi.start ha)

theorem acct_init (c : BCfg) : Acct (St.init c) := by
  simp [Acct, outstanding, St.init, BufM.new, Buf.new, costOpen, costL]

end GoBatcher

import GoBatcher.Model.Cycle
/-! Helper lemmas about M-Cycle. Property theorems live in `GoBatcher/Props`. -/
namespace GoBatcher

/-- occurrences of `x` in a list of batches -/
def cntB (x : Op) : List Batch → Nat
  | [] => 0
  | (_, b) :: r => b.count x + cntB x r

def costL (l : List Op) : Nat := (l.map (·.cost)).sum
def costB : List Batch → Nat
  | [] => 0
  | (_, b) :: r => costL b + costB r

@[simp] theorem cntB_nil (x : Op) : cntB x [] = 0 := rfl
@[simp] theorem cntB_cons (x : Op) (w : Nat) (b : List Op) (r : List Batch) :
    cntB x ((w, b) :: r) = b.count x + cntB x r := rfl
@[simp] theorem cntB_append (x : Op) (l₁ l₂ : List Batch) : cntB x (l₁ ++ l₂) = cntB x l₁ + cntB x l₂ := by
  induction l₁ with
  | nil => simp
  | cons h t ih => obtain ⟨w, b⟩ := h; simp [ih]; omega

@[simp] theorem costL_nil : costL [] = 0 := rfl
@[simp] theorem costL_cons (o : Op) (l : List Op) : costL (o :: l) = o.cost + costL l := by simp [costL]
@[simp] theorem costL_append (l₁ l₂ : List Op) : costL (l₁ ++ l₂) = costL l₁ + costL l₂ := by
  simp [costL]
@[simp] theorem costB_nil : costB [] = 0 := rfl
@[simp] theorem costB_cons (w : Nat) (b : List Op) (r : List Batch) : costB ((w, b) :: r) = costL b + costB r := rfl
@[simp] theorem costB_append (l₁ l₂ : List Batch) : costB (l₁ ++ l₂) = costB l₁ + costB l₂ := by
  induction l₁ with
  | nil => simp
  | cons h t ih => obtain ⟨w, b⟩ := h; simp [ih]; omega

theorem cntB_erase_lookup (x : Op) (w : Nat) (l : List Batch) :
    cntB x (eraseB w l) + (match lookupB w l with | some b => b.count x | none => 0) = cntB x l := by
  induction l with
  | nil => simp [eraseB, lookupB]
  | cons h t ih =>
    obtain ⟨w', b⟩ := h
    simp only [eraseB, lookupB]
    by_cases hw : w' = w
    · simp [hw]; omega
    · simp [hw]; omega

theorem costB_erase_lookup (w : Nat) (l : List Batch) :
    costB (eraseB w l) + (match lookupB w l with | some b => costL b | none => 0) = costB l := by
  induction l with
  | nil => simp [eraseB, lookupB]
  | cons h t ih =>
    obtain ⟨w', b⟩ := h
    simp only [eraseB, lookupB]
    by_cases hw : w' = w
    · simp [hw]; omega
    · simp [hw]; omega

theorem lookupB_none_erase (w : Nat) (l : List Batch) (h : lookupB w l = none) : eraseB w l = l := by
  induction l with
  | nil => rfl
  | cons hd t ih =>
    obtain ⟨w', b⟩ := hd
    simp only [lookupB] at h
    by_cases hw : w' = w
    · simp [hw] at h
    · simp [hw] at h; simp [eraseB, hw, ih h]

def optCnt (x : Op) : Option Batch → Nat
  | none => 0
  | some (_, b) => b.count x

def optCost : Option Batch → Nat
  | none => 0
  | some (_, b) => costL b

@[simp] theorem cntB_toList (x : Op) (o : Option Batch) : cntB x o.toList = optCnt x o := by
  cases o with
  | none => rfl
  | some p => obtain ⟨w, b⟩ := p; simp [optCnt]
@[simp] theorem costB_toList (o : Option Batch) : costB o.toList = optCost o := by
  cases o with
  | none => rfl
  | some p => obtain ⟨w, b⟩ := p; simp [optCost]

theorem count_cons_ite (op x : Op) (l : List Op) :
    List.count x (op :: l) = l.count x + (if op = x then 1 else 0) := by
  rw [List.count_cons]
  by_cases h : op = x
  · simp [h]
  · have : (op == x) = false := by simpa using h
    simp [h, this]

theorem count_singleton_ite (op x : Op) : List.count x [op] = if op = x then 1 else 0 := by
  rw [count_cons_ite]; simp

/-- `place` conserves occurrences, given what `lookupB` said about `b`. -/
theorem place_conserve (c : Cfg) (a : Acc) (op : Op) (b : List Op) (slot : Bool) (x : Op)
    (hb : (match lookupB op.w a.openB with | some b' => b'.count x | none => 0) = b.count x)
    {a' : Acc} {out : Option Batch} {s : Bool} (h : place c a op b slot = .take a' out s) :
    cntB x a'.openB + optCnt x out = cntB x a.openB + (if op = x then 1 else 0) := by
  have e := cntB_erase_lookup x op.w a.openB
  rw [hb] at e
  unfold place at h
  split at h
  · injection h with h1 h2 h3
    subst h1 h2
    simp [optCnt, List.count_append, count_singleton_ite]; omega
  · injection h with h1 h2 h3
    subst h1 h2
    simp [optCnt, List.count_append, count_singleton_ite]; omega

theorem stepOp_conserve (c : Cfg) (a : Acc) (av : Bool) (op x : Op)
    {a' : Acc} {out : Option Batch} {s : Bool} (h : stepOp c a av op = .take a' out s) :
    cntB x a'.openB + optCnt x out = cntB x a.openB + (if op = x then 1 else 0) := by
  unfold stepOp at h
  split at h
  · cases h
  · split at h
    · split at h
      · rename_i b hb
        exact place_conserve c a op b false x (by rw [hb]) h
      · rename_i hb
        split at h
        · exact place_conserve c a op [] true x (by rw [hb]; simp) h
        · cases h
    · split at h
      · injection h with h1 h2 h3
        subst h1 h2
        simp [optCnt, count_singleton_ite]
      · cases h

theorem scan_conserve (c : Cfg) (x : Op) (buf : List Op) : ∀ (a : Acc) (free : Option Nat),
    cntB x (scan c buf a free).acc.openB + cntB x (scan c buf a free).raised
      + (scan c buf a free).kept.count x + (scan c buf a free).rest.count x
    = cntB x a.openB + buf.count x := by
  induction buf with
  | nil => intro a free; simp [scan]
  | cons op buf ih =>
    intro a free
    unfold scan
    split
    · simp
    · have := ih a free
      simp only [count_cons_ite] at *
      omega
    · rename_i a' out slot hs
      have h1 := stepOp_conserve c a (slotAvail free) op x hs
      have := ih a' (if slot then takeSlot free else free)
      simp only [cntB_append, cntB_toList, count_cons_ite] at *
      omega

end GoBatcher

namespace GoBatcher

/-! ### cost accounting inside a cycle -/

theorem place_cost (c : Cfg) (a : Acc) (op : Op) (b : List Op) (slot : Bool)
    (hb : (match lookupB op.w a.openB with | some b' => costL b' | none => 0) = costL b)
    {a' : Acc} {out : Option Batch} {s : Bool} (h : place c a op b slot = .take a' out s) :
    a'.consumed = a.consumed + op.cost ∧ costB a'.openB + optCost out = costB a.openB + op.cost := by
  have e := costB_erase_lookup op.w a.openB
  rw [hb] at e
  unfold place at h
  split at h
  · injection h with h1 h2 h3
    subst h1 h2
    simp [optCost]; omega
  · injection h with h1 h2 h3
    subst h1 h2
    simp [optCost]; omega

theorem stepOp_cost (c : Cfg) (a : Acc) (av : Bool) (op : Op)
    {a' : Acc} {out : Option Batch} {s : Bool} (h : stepOp c a av op = .take a' out s) :
    a'.consumed = a.consumed + op.cost ∧ costB a'.openB + optCost out = costB a.openB + op.cost := by
  unfold stepOp at h
  split at h
  · cases h
  · split at h
    · split at h
      · rename_i b hb
        exact place_cost c a op b false (by rw [hb]) h
      · rename_i hb
        split at h
        · exact place_cost c a op [] true (by rw [hb]; simp) h
        · cases h
    · split at h
      · injection h with h1 h2 h3
        subst h1 h2
        simp [optCost]
      · cases h

theorem stepOp_not_cutoff (c : Cfg) (a : Acc) (av : Bool) (op : Op)
    {a' : Acc} {out : Option Batch} {s : Bool} (h : stepOp c a av op = .take a' out s) :
    cutoff c a.consumed = false := by
  unfold stepOp at h
  split at h
  · cases h
  · rename_i hc; simpa using hc

theorem stepOp_skip_not_cutoff (c : Cfg) (a : Acc) (av : Bool) (op : Op)
    (h : stepOp c a av op = .skip) : cutoff c a.consumed = false ∧ av = false := by
  unfold stepOp at h
  split at h
  · cases h
  · rename_i hc
    refine ⟨by simpa using hc, ?_⟩
    split at h
    · split at h
      · unfold place at h; split at h <;> cases h
      · split at h
        · unfold place at h; split at h <;> cases h
        · rename_i hav; simpa using hav
    · split at h
      · cases h
      · rename_i hav; simpa using hav

theorem stepOp_stop_cutoff (c : Cfg) (a : Acc) (av : Bool) (op : Op)
    (h : stepOp c a av op = .stop) : cutoff c a.consumed = true := by
  unfold stepOp at h
  split at h
  · assumption
  · split at h
    · split at h
      · unfold place at h; split at h <;> cases h
      · split at h
        · unfold place at h; split at h <;> cases h
        · cases h
    · split at h <;> cases h

theorem stepOp_slot_avail (c : Cfg) (a : Acc) (av : Bool) (op : Op)
    {a' : Acc} {out : Option Batch} (h : stepOp c a av op = .take a' out true) : av = true := by
  unfold stepOp at h
  split at h
  · cases h
  · split at h
    · split at h
      · unfold place at h; split at h <;> (injection h with _ _ h3; cases h3)
      · split at h
        · assumption
        · cases h
    · split at h
      · assumption
      · cases h

theorem scan_cost (c : Cfg) (buf : List Op) : ∀ (a : Acc) (free : Option Nat),
    (scan c buf a free).acc.consumed + costB a.openB
      = a.consumed + costB (scan c buf a free).raised + costB (scan c buf a free).acc.openB := by
  induction buf with
  | nil => intro a free; simp [scan]
  | cons op buf ih =>
    intro a free
    unfold scan
    split
    · simp
    · have := ih a free; simpa using this
    · rename_i a' out slot hs
      have h1 := stepOp_cost c a (slotAvail free) op hs
      have := ih a' (if slot then takeSlot free else free)
      simp only [costB_append, costB_toList] at *
      omega

/-- consumed only grows -/
theorem scan_consumed_mono (c : Cfg) (buf : List Op) : ∀ (a : Acc) (free : Option Nat),
    a.consumed ≤ (scan c buf a free).acc.consumed := by
  induction buf with
  | nil => intro a free; simp [scan]
  | cons op buf ih =>
    intro a free
    unfold scan
    split
    · simp
    · exact ih a free
    · rename_i a' out slot hs
      have h1 := (stepOp_cost c a (slotAvail free) op hs).1
      have := ih a' (if slot then takeSlot free else free)
      simp only at *
      omega

/-- Either nothing was released, or the last released operation was taken while the cut-off did not hold. -/
theorem scan_last (c : Cfg) (buf : List Op) : ∀ (a : Acc) (free : Option Nat),
    (scan c buf a free).acc.consumed = a.consumed ∨
    ∃ op ∈ buf, ∃ k, cutoff c k = false ∧ (scan c buf a free).acc.consumed = k + op.cost := by
  induction buf with
  | nil => intro a free; simp [scan]
  | cons op buf ih =>
    intro a free
    unfold scan
    split
    · simp
    · rcases ih a free with h | ⟨o, ho, k, hk, he⟩
      · exact Or.inl h
      · exact Or.inr ⟨o, List.mem_cons_of_mem _ ho, k, hk, he⟩
    · rename_i a' out slot hs
      have h1 := (stepOp_cost c a (slotAvail free) op hs).1
      have h2 := stepOp_not_cutoff c a (slotAvail free) op hs
      rcases ih a' (if slot then takeSlot free else free) with h | ⟨o, ho, k, hk, he⟩
      · exact Or.inr ⟨op, List.mem_cons_self, a.consumed, h2, by simp only; omega⟩
      · exact Or.inr ⟨o, List.mem_cons_of_mem _ ho, k, hk, he⟩

/-- Work conservation: the cycle stops looking only at the end of the buffer or at the cut-off. -/
theorem scan_rest (c : Cfg) (buf : List Op) : ∀ (a : Acc) (free : Option Nat),
    (scan c buf a free).rest = [] ∨ cutoff c (scan c buf a free).acc.consumed = true := by
  induction buf with
  | nil => intro a free; simp [scan]
  | cons op buf ih =>
    intro a free
    unfold scan
    split
    · rename_i hs; exact Or.inr (stepOp_stop_cutoff c a _ op hs)
    · exact ih a free
    · exact ih _ _

theorem takeSlot_avail_mono (free : Option Nat) : slotAvail (takeSlot free) = true → slotAvail free = true := by
  cases free with
  | none => simp [slotAvail]
  | some n => simp [takeSlot, slotAvail]; omega

/-- free slots never increase during an uninterrupted cycle -/
theorem scan_free_mono (c : Cfg) (buf : List Op) : ∀ (a : Acc) (free : Option Nat),
    slotAvail (scan c buf a free).free = true → slotAvail free = true := by
  induction buf with
  | nil => intro a free; simp [scan]
  | cons op buf ih =>
    intro a free
    unfold scan
    split
    · simp
    · exact ih a free
    · rename_i a' out slot hs
      intro h
      have := ih a' _ h
      cases slot with
      | true => exact takeSlot_avail_mono free (by simpa using this)
      | false => simpa using this

/-- Operations are left in place (skipped) only for lack of a batch slot. -/
theorem scan_kept (c : Cfg) (buf : List Op) : ∀ (a : Acc) (free : Option Nat),
    (scan c buf a free).kept ≠ [] → slotAvail (scan c buf a free).free = false := by
  induction buf with
  | nil => intro a free; simp [scan]
  | cons op buf ih =>
    intro a free
    unfold scan
    split
    · simp
    · rename_i hs
      intro _
      have hav := (stepOp_skip_not_cutoff c a _ op hs).2
      cases h : slotAvail (scan c buf a free).free with
      | false => rfl
      | true => have := scan_free_mono c buf a free h; simp [hav] at this
    · exact ih _ _

theorem scan_unlimited_kept (c : Cfg) (buf : List Op) (a : Acc) : (scan c buf a none).kept = [] := by
  cases h : (scan c buf a none).kept with
  | nil => rfl
  | cons x l =>
    have := scan_kept c buf a none (by simp [h])
    have h2 : (scan c buf a none).free = none := by
      clear this h
      induction buf generalizing a with
      | nil => simp [scan]
      | cons op buf ih =>
        unfold scan
        split
        · simp
        · exact ih a
        · rename_i a' out slot hs
          cases slot <;> simpa [takeSlot] using ih a'
    simp [h2, slotAvail] at this

end GoBatcher

import GoBatcher.Lemmas.Batcher
/-! Structural invariants of M-Batcher, one theorem per invariant (`step_*`), lifted to every reachable state
in `Lemmas/BatcherReach.lean`. -/
namespace GoBatcher

/-! ### batch ids -/

def IdsOK (s : St) : Prop := (∀ b ∈ s.batches, b.id < s.nextBatch) ∧ (s.batches.map (·.id)).Nodup

theorem raise_idsOK (c : BCfg) (s : St) (p : Batch) (h : IdsOK s) : IdsOK (raise c s p) := by
  unfold raise
  split
  · exact h
  · obtain ⟨h1, h2⟩ := h
    constructor
    · intro b hb
      simp only [List.mem_append, List.mem_singleton] at hb
      rcases hb with hb | hb
      · have := h1 b hb; simp; omega
      · subst hb; simp
    · simp only [List.map_append, List.map_cons, List.map_nil]
      apply List.nodup_append.mpr
      refine ⟨h2, by simp, ?_⟩
      intro a ha b hb
      simp at hb; subst hb
      obtain ⟨x, hx, rfl⟩ := List.mem_map.mp ha
      have := h1 x hx; omega

@[simp] theorem v1Handoff_batches (s : St) : (v1Handoff s).batches = s.batches := by
  unfold v1Handoff; split <;> rfl
@[simp] theorem v1Handoff_nextBatch (s : St) : (v1Handoff s).nextBatch = s.nextBatch := by
  unfold v1Handoff; split <;> rfl
@[simp] theorem v1Handoff_now (s : St) : (v1Handoff s).now = s.now := by
  unfold v1Handoff; split <;> rfl
@[simp] theorem v1Handoff_lastFlush (s : St) : (v1Handoff s).lastFlush = s.lastFlush := by
  unfold v1Handoff; split <;> rfl
@[simp] theorem v1Handoff_target (s : St) : (v1Handoff s).target = s.target := by
  unfold v1Handoff; split <;> rfl
@[simp] theorem v1Handoff_loop (s : St) : (v1Handoff s).loop = s.loop := by
  unfold v1Handoff; split <;> rfl
@[simp] theorem v1Handoff_slots (s : St) : (v1Handoff s).slots = s.slots := by
  unfold v1Handoff; split <;> rfl
@[simp] theorem v1Handoff_discarded (s : St) : (v1Handoff s).discarded = s.discarded := by
  unfold v1Handoff; split <;> rfl
@[simp] theorem v1Handoff_closed (s : St) : (v1Handoff s).closed = s.closed := by
  unfold v1Handoff; split <;> rfl
@[simp] theorem v1Handoff_phase (s : St) : (v1Handoff s).phase = s.phase := by
  unfold v1Handoff; split <;> rfl
@[simp] theorem v1Handoff_shut (s : St) : (v1Handoff s).bm.buf.shut = s.bm.buf.shut := by
  unfold v1Handoff; split <;> rfl

@[simp] theorem afterTake_batches (c : BCfg) (s : St) (i a : Nat) (acc : Acc) (sl : Bool) :
    (afterTake c s i a acc sl).batches = s.batches := by
  unfold afterTake afterTakeV1 afterTakeV2; cases c.gen <;> simp
@[simp] theorem afterTake_nextBatch (c : BCfg) (s : St) (i a : Nat) (acc : Acc) (sl : Bool) :
    (afterTake c s i a acc sl).nextBatch = s.nextBatch := by
  unfold afterTake afterTakeV1 afterTakeV2; cases c.gen <;> simp
@[simp] theorem afterTake_now (c : BCfg) (s : St) (i a : Nat) (acc : Acc) (sl : Bool) :
    (afterTake c s i a acc sl).now = s.now := by
  unfold afterTake afterTakeV1 afterTakeV2; cases c.gen <;> simp
@[simp] theorem afterTake_lastFlush (c : BCfg) (s : St) (i a : Nat) (acc : Acc) (sl : Bool) :
    (afterTake c s i a acc sl).lastFlush = s.lastFlush := by
  unfold afterTake afterTakeV1 afterTakeV2; cases c.gen <;> simp
@[simp] theorem afterTake_target (c : BCfg) (s : St) (i a : Nat) (acc : Acc) (sl : Bool) :
    (afterTake c s i a acc sl).target = s.target := by
  unfold afterTake afterTakeV1 afterTakeV2; cases c.gen <;> simp
@[simp] theorem afterTake_loop (c : BCfg) (s : St) (i a : Nat) (acc : Acc) (sl : Bool) :
    (afterTake c s i a acc sl).loop = .cycle a acc := by
  unfold afterTake afterTakeV1 afterTakeV2; cases c.gen <;> simp
@[simp] theorem afterTake_slots (c : BCfg) (s : St) (i a : Nat) (acc : Acc) (sl : Bool) :
    (afterTake c s i a acc sl).slots = slotsAfter c s sl := by
  unfold afterTake afterTakeV1 afterTakeV2; cases c.gen <;> simp
@[simp] theorem afterTake_discarded (c : BCfg) (s : St) (i a : Nat) (acc : Acc) (sl : Bool) :
    (afterTake c s i a acc sl).discarded = s.discarded := by
  unfold afterTake afterTakeV1 afterTakeV2; cases c.gen <;> simp
@[simp] theorem afterTake_closed (c : BCfg) (s : St) (i a : Nat) (acc : Acc) (sl : Bool) :
    (afterTake c s i a acc sl).closed = s.closed := by
  unfold afterTake afterTakeV1 afterTakeV2; cases c.gen <;> simp
@[simp] theorem afterTake_phase (c : BCfg) (s : St) (i a : Nat) (acc : Acc) (sl : Bool) :
    (afterTake c s i a acc sl).phase = s.phase := by
  unfold afterTake afterTakeV1 afterTakeV2; cases c.gen <;> simp

@[simp] theorem v1Handoff_flags (s : St) :
    (v1Handoff s).flushReq = s.flushReq ∧ (v1Handoff s).pauseReq = s.pauseReq ∧ (v1Handoff s).stopReq = s.stopReq ∧
    (v1Handoff s).tickF = s.tickF ∧ (v1Handoff s).tickC = s.tickC ∧ (v1Handoff s).tickA = s.tickA ∧
    (v1Handoff s).nextF = s.nextF ∧ (v1Handoff s).nextC = s.nextC ∧ (v1Handoff s).nextA = s.nextA := by
  unfold v1Handoff; split <;> simp
@[simp] theorem v1Handoff_counters (s : St) :
    (v1Handoff s).cycles = s.cycles ∧ (v1Handoff s).flushTicksTaken = s.flushTicksTaken ∧
    (v1Handoff s).flushCalls = s.flushCalls ∧ (v1Handoff s).pauses = s.pauses ∧
    (v1Handoff s).effPauseCalls = s.effPauseCalls ∧ (v1Handoff s).audits = s.audits ∧
    (v1Handoff s).shutdowns = s.shutdowns ∧ (v1Handoff s).giveMes = s.giveMes := by
  unfold v1Handoff; split <;> simp
@[simp] theorem afterTake_flags (c : BCfg) (s : St) (i a : Nat) (acc : Acc) (sl : Bool) :
    (afterTake c s i a acc sl).flushReq = s.flushReq ∧ (afterTake c s i a acc sl).pauseReq = s.pauseReq ∧
    (afterTake c s i a acc sl).stopReq = s.stopReq ∧ (afterTake c s i a acc sl).tickF = s.tickF ∧
    (afterTake c s i a acc sl).tickC = s.tickC ∧ (afterTake c s i a acc sl).tickA = s.tickA ∧
    (afterTake c s i a acc sl).nextF = s.nextF ∧ (afterTake c s i a acc sl).nextC = s.nextC ∧
    (afterTake c s i a acc sl).nextA = s.nextA := by
  unfold afterTake afterTakeV1 afterTakeV2; cases c.gen <;> simp
@[simp] theorem afterTake_counters (c : BCfg) (s : St) (i a : Nat) (acc : Acc) (sl : Bool) :
    (afterTake c s i a acc sl).cycles = s.cycles ∧ (afterTake c s i a acc sl).flushTicksTaken = s.flushTicksTaken ∧
    (afterTake c s i a acc sl).flushCalls = s.flushCalls ∧ (afterTake c s i a acc sl).pauses = s.pauses ∧
    (afterTake c s i a acc sl).effPauseCalls = s.effPauseCalls ∧ (afterTake c s i a acc sl).audits = s.audits ∧
    (afterTake c s i a acc sl).shutdowns = s.shutdowns ∧ (afterTake c s i a acc sl).giveMes = s.giveMes := by
  unfold afterTake afterTakeV1 afterTakeV2; cases c.gen <;> simp

theorem idsOK_congr {s s' : St} (hb : s'.batches = s.batches) (hn : s'.nextBatch = s.nextBatch) (h : IdsOK s) : IdsOK s' := by
  unfold IdsOK at *; rw [hb, hn]; exact h

theorem idsOK_map {s s' : St} (f : RBatch → RBatch) (hf : ∀ x, (f x).id = x.id)
    (hb : s'.batches = s.batches.map f) (hn : s'.nextBatch = s.nextBatch) (h : IdsOK s) : IdsOK s' := by
  unfold IdsOK at *
  rw [hb, hn]
  constructor
  · intro b hb'
    obtain ⟨x, hx, rfl⟩ := List.mem_map.mp hb'
    rw [hf]; exact h.1 x hx
  · rw [List.map_map]
    have : ((fun x => x.id) ∘ f) = (fun x => x.id) := by funext x; simp [hf]
    rw [this]; exact h.2

theorem step_idsOK (c : BCfg) (s s' : St) (l : Label) (h : step c s l = some s') (hi : IdsOK s) : IdsOK s' := by
  cases l <;> simp only [step] at h <;> (repeat' split at h) <;> (try cases h) <;>
    first
    | exact hi
    | exact idsOK_congr rfl rfl hi
    | (apply raise_idsOK; exact idsOK_congr (by simp) (by simp) hi)
    | exact idsOK_congr (by simp) (by simp) hi
    | exact idsOK_congr (by simp [shutdownV1, shutdownV2, enqOk, enqRefuse, enqBlock, unwake, doAudit]) (by simp [shutdownV1, shutdownV2, enqOk, enqRefuse, enqBlock, unwake, doAudit]) hi
    | exact idsOK_map (s := s) (fun x => if x.id == _ then { x with cbDone := true } else x) (by intro x; split <;> rfl) rfl rfl hi
    | exact idsOK_map (s := s) (fun y => if y.id == _ then { y with finished := true } else y) (by intro x; split <;> rfl) rfl rfl hi
    | exact idsOK_map (s := s) (fun b => { b with ops := b.ops.map (reCost _ _) }) (by intro x; rfl) rfl rfl hi

/-! ### time -/

/-- urgency and provenance of deadlines -/
def TimeOK (c : BCfg) (s : St) : Prop :=
  (∀ b ∈ s.batches, b.finished = false → s.now ≤ b.deadline) ∧
  (∀ b ∈ s.batches, ∃ t, s.lastFlush = some t ∧ b.raisedAt ≤ t ∧ b.deadline = b.raisedAt + effMot c b.w) ∧
  (∀ t, s.lastFlush = some t → t ≤ s.now)

theorem timeOK_congr {c : BCfg} {s s' : St} (hb : s'.batches = s.batches) (hn : s'.now = s.now)
    (hl : s'.lastFlush = s.lastFlush) (h : TimeOK c s) : TimeOK c s' := by
  unfold TimeOK at *; rw [hb, hn, hl]; exact h

theorem raise_timeOK (c : BCfg) (s : St) (p : Batch) (h : TimeOK c s) : TimeOK c (raise c s p) := by
  unfold raise
  split
  · exact h
  · obtain ⟨h1, h2, h3⟩ := h
    refine ⟨?_, ?_, ?_⟩
    · intro b hb hf
      simp only [List.mem_append, List.mem_singleton] at hb
      rcases hb with hb | hb
      · exact h1 b hb hf
      · subst hb; simp
    · intro b hb
      simp only [List.mem_append, List.mem_singleton] at hb
      rcases hb with hb | hb
      · obtain ⟨t, ht, hr, hd⟩ := h2 b hb
        exact ⟨s.now, rfl, Nat.le_trans hr (h3 t ht), hd⟩
      · subst hb; exact ⟨s.now, rfl, Nat.le_refl _, rfl⟩
    · intro t ht; simp at ht ⊢; omega

theorem timeOK_map {c : BCfg} {s s' : St} (f : RBatch → RBatch)
    (hf : ∀ x, (f x).raisedAt = x.raisedAt ∧ (f x).deadline = x.deadline ∧ (f x).w = x.w ∧ ((f x).finished = false → x.finished = false))
    (hb : s'.batches = s.batches.map f) (hn : s'.now = s.now) (hl : s'.lastFlush = s.lastFlush)
    (h : TimeOK c s) : TimeOK c s' := by
  unfold TimeOK at *
  rw [hb, hn, hl]
  obtain ⟨h1, h2, h3⟩ := h
  refine ⟨?_, ?_, h3⟩
  · intro b hb' hfin
    obtain ⟨x, hx, rfl⟩ := List.mem_map.mp hb'
    rw [(hf x).2.1]; exact h1 x hx ((hf x).2.2.2 hfin)
  · intro b hb'
    obtain ⟨x, hx, rfl⟩ := List.mem_map.mp hb'
    obtain ⟨t, ht, hr, hd⟩ := h2 x hx
    exact ⟨t, ht, by rw [(hf x).1]; exact hr, by rw [(hf x).2.1, (hf x).1, (hf x).2.2.1]; exact hd⟩

theorem canAdvance_live (s : St) (dt : Nat) (h : canAdvance s dt = true) :
    ∀ b ∈ s.batches, b.finished = false → s.now + dt ≤ b.deadline := by
  intro b hb hf
  unfold canAdvance at h
  simp only [Bool.and_eq_true, List.all_eq_true] at h
  have := h.1.2 b (by simp [unfinished, List.mem_filter, hb, hf])
  simp at this
  exact this.2

theorem step_timeOK (c : BCfg) (s s' : St) (l : Label) (h : step c s l = some s') (hi : TimeOK c s) : TimeOK c s' := by
  cases l <;> simp only [step] at h <;> (repeat' split at h) <;> (try cases h) <;>
    first
    | exact hi
    | (rename_i hadv
       obtain ⟨h1, h2, h3⟩ := hi
       exact ⟨fun b hb hf => canAdvance_live s _ hadv b hb hf, h2, fun t ht => Nat.le_trans (h3 t ht) (Nat.le_add_right _ _)⟩)
    | exact timeOK_congr rfl rfl rfl hi
    | (apply raise_timeOK; exact timeOK_congr (by simp) (by simp) (by simp) hi)
    | exact timeOK_congr (by simp) (by simp) (by simp) hi
    | exact timeOK_congr (by simp [shutdownV1, shutdownV2, enqOk, enqRefuse, enqBlock, unwake, doAudit]) (by simp [shutdownV1, shutdownV2, enqOk, enqRefuse, enqBlock, unwake, doAudit]) (by simp [shutdownV1, shutdownV2, enqOk, enqRefuse, enqBlock, unwake, doAudit]) hi
    | exact timeOK_map (s := s) (fun x => if x.id == _ then { x with cbDone := true } else x) (by intro x; split <;> simp) rfl rfl rfl hi
    | exact timeOK_map (s := s) (fun y => if y.id == _ then { y with finished := true } else y) (by intro x; split <;> simp) rfl rfl rfl hi
    | exact timeOK_map (s := s) (fun b => { b with ops := b.ops.map (reCost _ _) }) (by intro x; simp) rfl rfl rfl hi

end GoBatcher

namespace GoBatcher

/-! ### pending calls -/

/-- calls inside Enqueue: distinct, and every blocked / woken caller is one of them -/
def PendOK (s : St) : Prop :=
  (s.pend.map (·.1)).Nodup ∧ ((s.bm.waiting ++ s.bm.woken).map (·.1)).Nodup ∧
  (∀ p ∈ s.bm.waiting ++ s.bm.woken, p ∈ s.pend)

theorem pendOK_congr {s s' : St} (hp : s'.pend = s.pend) (hw : s'.bm.waiting = s.bm.waiting)
    (hk : s'.bm.woken = s.bm.woken) (h : PendOK s) : PendOK s' := by
  unfold PendOK at *; rw [hp, hw, hk]; exact h

theorem mem_keys_of_mem {p : Nat × Op} {l : List (Nat × Op)} (h : p ∈ l) : p.1 ∈ l.map (·.1) :=
  List.mem_map.mpr ⟨p, h, rfl⟩

theorem any_key_false {k : Nat} {l : List (Nat × Op)} (h : l.any (·.1 == k) = false) : k ∉ l.map (·.1) := by
  intro hm
  obtain ⟨p, hp, hk⟩ := List.mem_map.mp hm
  have : l.any (·.1 == k) = true := List.any_eq_true.mpr ⟨p, hp, by simp [hk]⟩
  simp [this] at h

/-- a call that is neither blocked nor woken leaves Enqueue (ok or refused) -/
theorem pendOK_leave (s : St) (k : Nat) (h : PendOK s)
    (hnw : k ∉ (s.bm.waiting ++ s.bm.woken).map (·.1)) {s' : St}
    (hp : s'.pend = removePend k s.pend) (hw : s'.bm.waiting = s.bm.waiting) (hk : s'.bm.woken = s.bm.woken) :
    PendOK s' := by
  unfold PendOK at *
  rw [hp, hw, hk]
  refine ⟨removePend_nodup k _ h.1, h.2.1, ?_⟩
  intro p hp'
  have hin := h.2.2 p hp'
  simp only [removePend, List.mem_filter]
  refine ⟨hin, ?_⟩
  have : p.1 ≠ k := fun e => hnw (e ▸ mem_keys_of_mem hp')
  simpa using this

/-- a call that is in Enqueue and neither blocked nor woken blocks -/
theorem pendOK_block (s : St) (k : Nat) (op : Op) (h : PendOK s) (hm : (k, op) ∈ s.pend)
    (hnw : k ∉ (s.bm.waiting ++ s.bm.woken).map (·.1)) {s' : St}
    (hp : s'.pend = s.pend) (hw : s'.bm.waiting = s.bm.waiting ++ [(k, op)]) (hk : s'.bm.woken = s.bm.woken) :
    PendOK s' := by
  unfold PendOK at *
  rw [hp, hw, hk]
  refine ⟨h.1, ?_, ?_⟩
  · have hperm : (s.bm.waiting ++ [(k, op)] ++ s.bm.woken).Perm ((k, op) :: (s.bm.waiting ++ s.bm.woken)) := by
      rw [List.append_assoc]
      exact List.perm_middle
    apply (hperm.map (·.1)).nodup_iff.mpr
    simp only [List.map_cons, List.nodup_cons]
    exact ⟨hnw, h.2.1⟩
  · intro p hp'
    simp only [List.mem_append, List.mem_singleton] at hp'
    rcases hp' with (hp' | hp') | hp'
    · exact h.2.2 p (List.mem_append_left _ hp')
    · subst hp'; exact hm
    · exact h.2.2 p (List.mem_append_right _ hp')

theorem erase_key_notin (l : List (Nat × Op)) (q : Nat × Op) (hnd : (l.map (·.1)).Nodup) (hq : q ∈ l) :
    q.1 ∉ (l.erase q).map (·.1) := by
  induction l with
  | nil => simp at hq
  | cons x t ih =>
    simp only [List.map_cons, List.nodup_cons] at hnd
    by_cases hx : x = q
    · subst hx; simp only [List.erase_cons_head]; exact hnd.1
    · have hqt : q ∈ t := by
        simp only [List.mem_cons] at hq
        rcases hq with hq | hq
        · exact absurd hq.symm hx
        · exact hq
      have hbeq : (x == q) = false := by simpa using hx
      rw [List.erase_cons_tail (by simpa using hx)]
      simp only [List.map_cons, List.mem_cons, not_or]
      refine ⟨fun e => hnd.1 (e ▸ mem_keys_of_mem hqt), ih hnd.2 hqt⟩

theorem unwake_pendOK (s : St) (w : Nat × Op) (h : PendOK s) (hw : w ∈ s.bm.woken) :
    PendOK (unwake s w) ∧ w ∈ (unwake s w).pend ∧ w.1 ∉ ((unwake s w).bm.waiting ++ (unwake s w).bm.woken).map (·.1) := by
  unfold PendOK unwake at *
  obtain ⟨h1, h2, h3⟩ := h
  have hsub : (s.bm.waiting ++ s.bm.woken.erase w).Sublist (s.bm.waiting ++ s.bm.woken) :=
    (List.Sublist.refl _).append List.erase_sublist
  refine ⟨⟨h1, (hsub.map _).nodup h2, fun p hp => h3 p (hsub.subset hp)⟩, h3 w (List.mem_append_right _ hw), ?_⟩
  simp only
  -- w is not among the waiting (its key would occur twice), so erasing it from the whole list is erasing it from `woken`
  have hnw : w ∉ s.bm.waiting := by
    intro hin
    rw [List.map_append] at h2
    exact (List.nodup_append.mp h2).2.2 w.1 (mem_keys_of_mem hin) w.1 (mem_keys_of_mem hw) rfl
  have he : (s.bm.waiting ++ s.bm.woken).erase w = s.bm.waiting ++ s.bm.woken.erase w :=
    List.erase_append_right _ hnw
  rw [← he]
  exact erase_key_notin _ w h2 (List.mem_append_right _ hw)

end GoBatcher

namespace GoBatcher

theorem v1Handoff_pendOK (s : St) (h : PendOK s) : PendOK (v1Handoff s) := by
  unfold v1Handoff
  split
  · exact h
  · rename_i k op rest hw
    unfold PendOK at *
    obtain ⟨h1, h2, h3⟩ := h
    simp only [hw, List.cons_append, List.map_cons, List.nodup_cons] at h2
    refine ⟨removePend_nodup k _ h1, h2.2, ?_⟩
    intro p hp
    have hin := h3 p (by simp only [hw, List.cons_append]; exact List.mem_cons_of_mem _ hp)
    simp only [removePend, List.mem_filter]
    refine ⟨hin, ?_⟩
    have : p.1 ≠ k := fun e => h2.1 (e ▸ mem_keys_of_mem hp)
    simpa using this

theorem pendOK_bufOnly {s s' : St} (hp : s'.pend = s.pend) (hw : s'.bm.waiting = s.bm.waiting)
    (hk : s'.bm.woken = s.bm.woken) (h : PendOK s) : PendOK s' := pendOK_congr hp hw hk h

theorem signalOne_pendOK {s s' : St} (m : BufM) (hm : m.waiting = s.bm.waiting ∧ m.woken = s.bm.woken)
    (hp : s'.pend = s.pend) (hb : s'.bm = signalOne m) (h : PendOK s) : PendOK s' := by
  unfold PendOK at *
  rw [hp, hb]
  obtain ⟨h1, h2, h3⟩ := h
  have hperm : ((signalOne m).waiting ++ (signalOne m).woken).Perm (m.waiting ++ m.woken) := by
    unfold signalOne
    split
    · exact List.Perm.refl _
    · rename_i w rest hw
      simp only [hw, List.cons_append]
      rw [← List.append_assoc]
      exact (List.perm_middle (l₁ := rest ++ m.woken) (l₂ := []) (a := w)).trans (by simp [List.append_assoc])
  rw [hm.1, hm.2] at hperm
  refine ⟨h1, (hperm.map _).nodup_iff.mpr h2, fun p hp' => h3 p (hperm.subset hp')⟩

theorem afterTake_pendOK (c : BCfg) (s : St) (i a : Nat) (acc : Acc) (sl : Bool) (h : PendOK s) :
    PendOK (afterTake c s i a acc sl) := by
  unfold afterTake
  cases c.gen with
  | v2 =>
    simp only [afterTakeV2]
    exact signalOne_pendOK (s := s) { s.bm with buf := removeAt s.bm.buf i } ⟨rfl, rfl⟩ rfl rfl h
  | v1 =>
    simp only [afterTakeV1]
    have h0 : PendOK ({ s with bm := { s.bm with buf := removeAt s.bm.buf i }, slots := slotsAfter c s sl, loop := .cycle a acc } : St) :=
      pendOK_congr rfl rfl rfl h
    exact pendOK_congr rfl rfl rfl (v1Handoff_pendOK _ h0)

theorem doSetCost_pendOK (s : St) (obj cost : Nat) (h : PendOK s) : PendOK (doSetCost s obj cost) := by
  unfold PendOK doSetCost at *
  obtain ⟨h1, h2, h3⟩ := h
  simp only
  refine ⟨?_, ?_, ?_⟩
  · simpa [List.map_map, Function.comp_def] using h1
  · rw [← List.map_append]; simpa [List.map_map, Function.comp_def] using h2
  · intro p hp
    rw [← List.map_append] at hp
    obtain ⟨q, hq, rfl⟩ := List.mem_map.mp hp
    exact List.mem_map.mpr ⟨q, h3 q hq, rfl⟩

theorem shutdownV1_pendOK (s : St) (h : PendOK s) : PendOK (shutdownV1 s) := by
  unfold PendOK shutdownV1 at *
  obtain ⟨h1, h2, h3⟩ := h
  simp only [List.nil_append]
  rw [List.map_append] at h2
  have hna := List.nodup_append.mp h2
  refine ⟨(List.filter_sublist.map _).nodup h1, hna.2.1, ?_⟩
  intro p hp
  simp only [List.mem_filter]
  refine ⟨h3 p (List.mem_append_right _ hp), ?_⟩
  simp only [Bool.not_eq_true', List.any_eq_false, beq_iff_eq]
  intro q hq e
  exact hna.2.2 q.1 (mem_keys_of_mem hq) p.1 (mem_keys_of_mem hp) e

theorem shutdownV2_pendOK (c : BCfg) (s : St) (h : PendOK s) : PendOK (shutdownV2 c s) := by
  unfold PendOK shutdownV2 at *
  obtain ⟨h1, h2, h3⟩ := h
  cases c.wos with
  | false => simp only [Bool.false_eq_true, if_false]; exact ⟨h1, h2, h3⟩
  | true =>
    simp only [if_true, List.nil_append]
    have hperm : (s.bm.woken ++ s.bm.waiting).Perm (s.bm.waiting ++ s.bm.woken) := List.perm_append_comm
    exact ⟨h1, (hperm.map _).nodup_iff.mpr h2, fun p hp => h3 p (hperm.subset hp)⟩

theorem raise_pendOK (c : BCfg) (s : St) (p : Batch) (h : PendOK s) : PendOK (raise c s p) :=
  pendOK_congr (by simp) (by simp) (by simp) h

theorem step_pendOK (c : BCfg) (s s' : St) (l : Label) (h : step c s l = some s') (hi : PendOK s) : PendOK s' := by
  cases l with
  | enqCount k op =>
    simp only [step] at h
    split at h
    · cases h
    · rename_i hk
      cases h
      unfold PendOK at *
      refine ⟨?_, hi.2.1, fun p hp => List.mem_append_left _ (hi.2.2 p hp)⟩
      rw [List.map_append]
      apply List.nodup_append.mpr
      refine ⟨hi.1, by simp, ?_⟩
      intro a ha b hb
      simp at hb; subst hb
      exact fun e => (any_key_false ((Bool.not_eq_true _).mp hk)) (e ▸ ha)
  | enqInsert k =>
    simp only [step] at h
    split at h
    · cases h
    · rename_i op hf
      have hm := findPend_mem hf
      split at h
      · cases h
      · rename_i hg
        simp only [Bool.or_eq_true, not_or, Bool.not_eq_true] at hg
        have hnw : k ∉ (s.bm.waiting ++ s.bm.woken).map (·.1) := by
          rw [List.map_append, List.mem_append, not_or]
          exact ⟨any_key_false hg.1, any_key_false hg.2⟩
        (repeat' split at h) <;> cases h <;>
          first
          | exact pendOK_leave s k hi hnw rfl rfl rfl
          | exact pendOK_block s k op hi hm hnw rfl rfl rfl
  | enqAdmit k =>
    simp only [step] at h
    split at h
    · cases h
    · rename_i w hf
      have hw : w ∈ s.bm.woken := List.mem_of_find?_eq_some hf
      have hk : w.1 = k := by have := List.find?_some hf; simpa using this
      obtain ⟨hu, hmem, hnot⟩ := unwake_pendOK s w hi hw
      (repeat' split at h) <;> cases h <;>
        first
        | exact pendOK_leave (unwake s w) k hu (hk ▸ hnot) rfl rfl rfl
        | exact pendOK_block (unwake s w) k w.2 hu (by rw [← hk]; exact hmem) (hk ▸ hnot) rfl rfl rfl
  | takeStop =>
    simp only [step] at h
    (repeat' split at h) <;> cases h <;> first | exact shutdownV1_pendOK s hi | exact shutdownV2_pendOK c s hi
  | cycleStep =>
    simp only [step] at h
    (repeat' split at h) <;> (try cases h) <;>
      first
      | exact pendOK_congr rfl rfl rfl hi
      | exact afterTake_pendOK c s _ _ _ _ hi
      | exact raise_pendOK c _ _ (afterTake_pendOK c s _ _ _ _ hi)
  | setCost obj cost => simp only [step] at h; cases h; exact doSetCost_pendOK s obj cost hi
  | sweepOne w =>
    simp only [step] at h
    (repeat' split at h) <;> (try cases h) <;> exact pendOK_congr (by simp) (by simp) (by simp) hi
  | _ =>
    simp only [step] at h <;> (repeat' split at h) <;> (try cases h) <;>
      first
      | exact hi
      | exact pendOK_congr rfl rfl rfl hi
      | exact pendOK_congr (by simp [markCbDone, markFinished, doAudit]) (by simp [markCbDone, markFinished, doAudit]) (by simp [markCbDone, markFinished, doAudit]) hi

end GoBatcher

namespace GoBatcher

theorem ids_unique (l : List RBatch) (hnd : (l.map (·.id)).Nodup) (x z : RBatch) (hx : x ∈ l) (hz : z ∈ l)
    (he : x.id = z.id) : x = z := by
  induction l with
  | nil => simp at hx
  | cons y t ih =>
    simp only [List.map_cons, List.nodup_cons] at hnd
    simp only [List.mem_cons] at hx hz
    rcases hx with hx | hx <;> rcases hz with hz | hz
    · rw [hx, hz]
    · exact absurd (List.mem_map.mpr ⟨z, hz, by rw [← he, hx]⟩) hnd.1
    · exact absurd (List.mem_map.mpr ⟨x, hx, by rw [he, hz]⟩) hnd.1
    · exact ih hnd.2 hx hz

end GoBatcher

import GoBatcher.Model.Batcher
import GoBatcher.Lemmas.Cycle
/-! Helper lemmas about M-Batcher: how the auxiliary functions act on each field, and the structural
invariants (batch ids, pending calls, time) that the property theorems build on. -/
namespace GoBatcher

/-! ### field projections of the helpers -/

@[simp] theorem raise_now (c : BCfg) (s : St) (p : Batch) : (raise c s p).now = s.now := by
  unfold raise; split <;> rfl
@[simp] theorem raise_target (c : BCfg) (s : St) (p : Batch) : (raise c s p).target = s.target := by
  unfold raise; split <;> rfl
@[simp] theorem raise_pend (c : BCfg) (s : St) (p : Batch) : (raise c s p).pend = s.pend := by
  unfold raise; split <;> rfl
@[simp] theorem raise_bm (c : BCfg) (s : St) (p : Batch) : (raise c s p).bm = s.bm := by
  unfold raise; split <;> rfl
@[simp] theorem raise_slots (c : BCfg) (s : St) (p : Batch) : (raise c s p).slots = s.slots := by
  unfold raise; split <;> rfl
@[simp] theorem raise_loop (c : BCfg) (s : St) (p : Batch) : (raise c s p).loop = s.loop := by
  unfold raise; split <;> rfl
@[simp] theorem raise_phase (c : BCfg) (s : St) (p : Batch) : (raise c s p).phase = s.phase := by
  unfold raise; split <;> rfl
@[simp] theorem raise_discarded (c : BCfg) (s : St) (p : Batch) : (raise c s p).discarded = s.discarded := by
  unfold raise; split <;> rfl
@[simp] theorem raise_inserted (c : BCfg) (s : St) (p : Batch) : (raise c s p).inserted = s.inserted := by
  unfold raise; split <;> rfl
@[simp] theorem raise_closed (c : BCfg) (s : St) (p : Batch) : (raise c s p).closed = s.closed := by
  unfold raise; split <;> rfl
@[simp] theorem raise_shutdowns (c : BCfg) (s : St) (p : Batch) : (raise c s p).shutdowns = s.shutdowns := by
  unfold raise; split <;> rfl
@[simp] theorem raise_giveMes (c : BCfg) (s : St) (p : Batch) : (raise c s p).giveMes = s.giveMes := by
  unfold raise; split <;> rfl
@[simp] theorem raise_flags (c : BCfg) (s : St) (p : Batch) :
    (raise c s p).flushReq = s.flushReq ∧ (raise c s p).pauseReq = s.pauseReq ∧ (raise c s p).stopReq = s.stopReq ∧
    (raise c s p).tickF = s.tickF ∧ (raise c s p).tickC = s.tickC ∧ (raise c s p).tickA = s.tickA ∧
    (raise c s p).nextF = s.nextF ∧ (raise c s p).nextC = s.nextC ∧ (raise c s p).nextA = s.nextA := by
  unfold raise; split <;> simp
@[simp] theorem raise_counters (c : BCfg) (s : St) (p : Batch) :
    (raise c s p).cycles = s.cycles ∧ (raise c s p).flushTicksTaken = s.flushTicksTaken ∧
    (raise c s p).flushCalls = s.flushCalls ∧ (raise c s p).pauses = s.pauses ∧
    (raise c s p).effPauseCalls = s.effPauseCalls ∧ (raise c s p).audits = s.audits := by
  unfold raise; split <;> simp

@[simp] theorem signalOne_buf' (m : BufM) : (signalOne m).buf = m.buf := by
  unfold signalOne; split <;> rfl
@[simp] theorem signalOne_returned (m : BufM) : (signalOne m).returned = m.returned := by
  unfold signalOne; split <;> rfl

theorem signalOne_perm (m : BufM) (p : Nat × Op) :
    p ∈ (signalOne m).waiting ++ (signalOne m).woken ↔ p ∈ m.waiting ++ m.woken := by
  unfold signalOne
  split
  · rfl
  · rename_i w rest hw
    simp only [hw, List.mem_append, List.mem_cons, List.mem_singleton, List.mem_nil_iff, or_false]
    constructor
    · rintro (h | h | h)
      · exact Or.inl (Or.inr h)
      · exact Or.inr h
      · exact Or.inl (Or.inl h)
    · rintro ((h | h) | h)
      · exact Or.inr (Or.inr h)
      · exact Or.inl h
      · exact Or.inr (Or.inl h)

/-! ### cost bookkeeping -/

def costPend (l : List (Nat × Op)) : Nat := (l.map (fun p => p.2.cost)).sum
def costOpen (s : St) : Nat :=
  match s.loop with
  | .cycle _ acc => costB acc.openB
  | .sweep acc => costB acc.openB
  | _ => 0
def costUnfinished (l : List RBatch) : Nat := ((l.filter (fun b => !b.finished)).map batchCost).sum

/-- the cost of everything outstanding (C03), plus what a shutdown discarded -/
def outstanding (s : St) : Nat :=
  costL s.bm.buf.items + costPend s.pend + costOpen s + costUnfinished s.batches + costL s.discarded

@[simp] theorem costPend_nil : costPend [] = 0 := rfl
@[simp] theorem costPend_cons (p : Nat × Op) (l : List (Nat × Op)) : costPend (p :: l) = p.2.cost + costPend l := by
  simp [costPend]
@[simp] theorem costPend_append (l₁ l₂ : List (Nat × Op)) : costPend (l₁ ++ l₂) = costPend l₁ + costPend l₂ := by
  simp [costPend]

theorem batchCost_eq (b : RBatch) : batchCost b = costL b.ops := rfl

@[simp] theorem costUnfinished_nil : costUnfinished [] = 0 := rfl
theorem costUnfinished_cons (b : RBatch) (l : List RBatch) :
    costUnfinished (b :: l) = (if b.finished then 0 else batchCost b) + costUnfinished l := by
  unfold costUnfinished
  cases hb : b.finished <;> simp [List.filter_cons, hb]
@[simp] theorem costUnfinished_append (l₁ l₂ : List RBatch) :
    costUnfinished (l₁ ++ l₂) = costUnfinished l₁ + costUnfinished l₂ := by
  simp [costUnfinished, List.filter_append]

/-- removing the (unique) pending entry of call `k` takes exactly its cost off -/
theorem costPend_remove (k : Nat) (op : Op) (l : List (Nat × Op)) (hnd : (l.map (·.1)).Nodup)
    (hm : (k, op) ∈ l) : costPend (removePend k l) + op.cost = costPend l := by
  induction l with
  | nil => simp at hm
  | cons p t ih =>
    simp only [List.map_cons, List.nodup_cons] at hnd
    simp only [removePend, List.filter_cons]
    simp only [List.mem_cons] at hm
    rcases hm with hm | hm
    · subst hm
      have hnot : ∀ q ∈ t, (q.1 != k) = true := by
        intro q hq
        have : q.1 ≠ k := fun e => hnd.1 (List.mem_map.mpr ⟨q, hq, e⟩)
        simpa using this
      have : t.filter (fun x => x.1 != k) = t := List.filter_eq_self.mpr hnot
      simp [this]; omega
    · have hne : p.1 ≠ k := fun e => hnd.1 (List.mem_map.mpr ⟨(k, op), hm, e.symm⟩)
      have hb : (p.1 != k) = true := by simpa using hne
      have := ih hnd.2 hm
      simp only [removePend] at this
      simp [hb]; omega

theorem removePend_keys_sub (k : Nat) (l : List (Nat × Op)) : ∀ q ∈ removePend k l, q ∈ l ∧ q.1 ≠ k := by
  intro q hq
  simp only [removePend, List.mem_filter] at hq
  exact ⟨hq.1, by simpa using hq.2⟩

theorem removePend_nodup (k : Nat) (l : List (Nat × Op)) (h : (l.map (·.1)).Nodup) :
    ((removePend k l).map (·.1)).Nodup := by
  unfold removePend
  exact (List.filter_sublist.map _).nodup h

theorem findPend_mem {k : Nat} {l : List (Nat × Op)} {op : Op} (h : findPend k l = some op) : (k, op) ∈ l := by
  unfold findPend at h
  cases hf : l.find? (·.1 == k) with
  | none => simp [hf] at h
  | some p =>
    simp [hf] at h
    have hm := List.mem_of_find?_eq_some hf
    have hk := List.find?_some hf
    obtain ⟨k', op'⟩ := p
    simp at hk h
    subst hk h
    exact hm

end GoBatcher

import GoBatcher.Generated.TransCycle
/-!
ONE iteration of v2's flush-cycle loop, TRANSLATED from `/repo/v2/batcher.go` on every run
(`Generated/TransCycle.lean`, by /verif/extract/transcycle.go), is the model's `stepOp` (Model/Cycle.lean) - the
function every theorem about a cycle (C01 C02 C05 C08 C10) is about: same decision (cut-off / skip for lack of a slot
/ take), same cost released, same slot reservation, same batch raised, same open batch kept, and the buffer call
(`skip()` leaves the operation, `remove()` takes it out) that goes with it.
-/
namespace GoBatcher.ExpectTransCycle
open GoBatcher GoBatcher.GoSem GoBatcher.CySem GoBatcher.TransCycle

/-- what the loop body reads, in terms of the model's cycle state: the open batch of the operation's watcher is the
map entry `batches[watcher]` (absent or set to nil after a full batch = no open batch) -/
def cyIn (c : Cfg) (a : Acc) (avail : Bool) (op : Op) : CyIn :=
  { enforce := c.limited, capacity := c.allow, consumed := a.consumed, batchable := op.batchable, cost := op.cost,
    maxB := c.mb op.w, bnil := (lookupB op.w a.openB).isNone, ok := (lookupB op.w a.openB).isSome,
    blen := ((lookupB op.w a.openB).getD []).length, avail := avail }

theorem trans_C01_C02_C05_C08_C10_cycleBody_is_stepOp (c : Cfg) (a : Acc) (avail : Bool) (op : Op)
    (hge : c.ge = true) (hw : a.consumed + op.cost < 4294967296) :
    match stepOp c a avail op with
    | .stop => (cycleBody (cyIn c a avail op)).action = 1 ∧ (cycleBody (cyIn c a avail op)).bufCall = 0
    | .skip =>
      (cycleBody (cyIn c a avail op)).bufCall = 1 ∧ (cycleBody (cyIn c a avail op)).consumed = a.consumed ∧
      (cycleBody (cyIn c a avail op)).reserved = false ∧ (cycleBody (cyIn c a avail op)).raisedLen = 0 ∧
      (cycleBody (cyIn c a avail op)).stored = false
    | .take a' out slot =>
      (cycleBody (cyIn c a avail op)).bufCall = 2 ∧ (cycleBody (cyIn c a avail op)).action = 0 ∧
      (cycleBody (cyIn c a avail op)).consumed = a'.consumed ∧ (cycleBody (cyIn c a avail op)).reserved = slot ∧
      (cycleBody (cyIn c a avail op)).raisedLen = ((out.map (·.2.length)).getD 0 : Nat) ∧
      (cycleBody (cyIn c a avail op)).stored = op.batchable ∧
      (op.batchable = true → (cycleBody (cyIn c a avail op)).storeLen =
        (match out with | some _ => 0 | none => (((lookupB op.w a.openB).getD []).length + 1 : Nat))) := by
  have hu : u32 ((a.consumed : Int) + (op.cost : Int)) = (a.consumed : Int) + (op.cost : Int) := by
    simp only [u32]; omega
  have eC : ((c.allow : Int) ≤ (a.consumed : Int)) ↔ c.allow ≤ a.consumed := by omega
  have eM : ((0 : Int) < (c.mb op.w : Int)) ↔ 0 < c.mb op.w := by omega
  cases hl : lookupB op.w a.openB with
  | none =>
    have eF : ((c.mb op.w : Int) ≤ 1) ↔ c.mb op.w ≤ 1 := by omega
    cases hb : op.batchable <;> cases hav : avail <;> cases hlim : c.limited <;>
      by_cases hc : c.allow ≤ a.consumed <;> by_cases hm : 0 < c.mb op.w <;> by_cases hf : c.mb op.w ≤ 1 <;>
      simp [stepOp, place, cutoff, isFull, cycleBody, cyIn, hge, hl, hb, hav, hlim, hc, hm, hf, hu, eC, eM, eF]
  | some b =>
    have eF : ((c.mb op.w : Int) ≤ (b.length : Int) + 1) ↔ c.mb op.w ≤ b.length + 1 := by omega
    cases hb : op.batchable <;> cases hav : avail <;> cases hlim : c.limited <;>
      by_cases hc : c.allow ≤ a.consumed <;> by_cases hm : 0 < c.mb op.w <;> by_cases hf : c.mb op.w ≤ b.length + 1 <;>
      simp [stepOp, place, cutoff, isFull, cycleBody, cyIn, hge, hl, hb, hav, hlim, hc, hm, hf, hu, eC, eM, eF]

/-- after a full batch the map entry of the watcher is `nil` but PRESENT (`batch == nil`, `ok == true`), which the model
does not tell apart from an absent entry: the body does not either - with a nil batch `ok` is not even looked at -/
theorem trans_C05_C10_cycleBody_nil_entry (i : CyIn) (h : i.bnil = true) (x : Bool) :
    cycleBody { i with ok := x } = cycleBody i := by
  simp [cycleBody, h]

/-- v1: the same for the loop `Fill:` of /repo/batcher.go - the cut-off is `consumed > capacity` (the model's `ge = false`),
there are no slots (`avail = true`; the model's slot flag has no meaning in v1), and the operation has already left
the channel when the body runs (buffer call 2 on every path that is not the cut-off) -/
theorem trans_C01_C02_C05_C08_cycleBody_is_stepOp_v1 (c : Cfg) (a : Acc) (op : Op)
    (hge : c.ge = false) (hw : a.consumed + op.cost < 4294967296) :
    match stepOp c a true op with
    | .stop => (cycleBodyV1 (cyIn c a true op)).action = 1 ∧ (cycleBodyV1 (cyIn c a true op)).bufCall = 0
    | .skip => False
    | .take a' out _ =>
      (cycleBodyV1 (cyIn c a true op)).bufCall = 2 ∧ (cycleBodyV1 (cyIn c a true op)).action = 0 ∧
      (cycleBodyV1 (cyIn c a true op)).consumed = a'.consumed ∧
      (cycleBodyV1 (cyIn c a true op)).raisedLen = ((out.map (·.2.length)).getD 0 : Nat) ∧
      (cycleBodyV1 (cyIn c a true op)).stored = op.batchable ∧
      (op.batchable = true → (cycleBodyV1 (cyIn c a true op)).storeLen =
        (match out with | some _ => 0 | none => (((lookupB op.w a.openB).getD []).length + 1 : Nat))) := by
  have hu : u32 ((a.consumed : Int) + (op.cost : Int)) = (a.consumed : Int) + (op.cost : Int) := by
    simp only [u32]; omega
  have eC : ((c.allow : Int) < (a.consumed : Int)) ↔ c.allow < a.consumed := by omega
  have eM : ((0 : Int) < (c.mb op.w : Int)) ↔ 0 < c.mb op.w := by omega
  cases hl : lookupB op.w a.openB with
  | none =>
    have eF : ((c.mb op.w : Int) ≤ 1) ↔ c.mb op.w ≤ 1 := by omega
    cases hb : op.batchable <;> cases hlim : c.limited <;>
      by_cases hc : c.allow < a.consumed <;> by_cases hm : 0 < c.mb op.w <;> by_cases hf : c.mb op.w ≤ 1 <;>
      simp [stepOp, place, cutoff, isFull, cycleBodyV1, cyIn, hge, hl, hb, hlim, hc, hm, hf, hu, eC, eM, eF]
  | some b =>
    have eF : ((c.mb op.w : Int) ≤ (b.length : Int) + 1) ↔ c.mb op.w ≤ b.length + 1 := by omega
    cases hb : op.batchable <;> cases hlim : c.limited <;>
      by_cases hc : c.allow < a.consumed <;> by_cases hm : 0 < c.mb op.w <;> by_cases hf : c.mb op.w ≤ b.length + 1 <;>
      simp [stepOp, place, cutoff, isFull, cycleBodyV1, cyIn, hge, hl, hb, hlim, hc, hm, hf, hu, eC, eM, eF]

/-- non-vacuity: a batchable operation that fills its watcher's batch of 2 -/
example :
    let op : Op := { id := 1, obj := 1, w := 0, cost := 3, batchable := true }
    let c : Cfg := { ge := true, limited := true, allow := 10, mb := fun _ => 2 }
    let a : Acc := { consumed := 4, openB := [(0, [{ id := 0, obj := 0, w := 0, cost := 4, batchable := true }])] }
    (cycleBody (cyIn c a true op)).raisedLen = 2 ∧ (cycleBody (cyIn c a true op)).consumed = 7 ∧
    (cycleBody (cyIn c a true op)).bufCall = 2 ∧ (cycleBody (cyIn c a true op)).reserved = false := by decide

end GoBatcher.ExpectTransCycle

import GoBatcher.Generated.TransBuf
import GoBatcher.Props.C15b
/-!
The methods of `/repo/v2/buffer.go`, TRANSLATED from the source on every run (`Generated/TransBuf.lean`, by
/verif/extract/transbuf.go), equal the hand-written L0 operations of `Model/BufferLinked.lean` on EVERY heap (well
formed or not, including heaps in which a nil dereference or one of the two `panic`s is reached). Hence the
refinement theorems of `Props/C15b.lean` are theorems about what the source says.
-/
namespace GoBatcher.ExpectTransBuf
open GoBatcher GoBatcher.HeapSem

theorem rd_some (b : LBuf) (c : Nat) : rd b (some c) = b.heap[c]? := rfl
theorem rd_none (b : LBuf) : rd b none = none := rfl

theorem trans_C15_top (b : LBuf) : TransBuf.top b = b.top := by
  simp only [TransBuf.top, LBuf.top, LBuf.curOp]
  cases hh : b.head with
  | none => simp
  | some h => simp [rd_some]; cases b.heap[h]? <;> simp

theorem trans_C15_skip (b : LBuf) : TransBuf.skip b = b.skip := by
  simp only [TransBuf.skip, LBuf.skip, LBuf.curOp]
  cases hc : b.cursor with
  | none => simp
  | some c =>
    simp [rd_some]
    cases hl : b.heap[c]? with
    | none => simp
    | some l =>
      simp
      cases hn : l.nxt with
      | none => simp
      | some n => simp [rd_some]; cases b.heap[n]? <;> simp

theorem trans_C15_shutdown (b : LBuf) : TransBuf.shutdown b = some b.shutdown := rfl

theorem trans_C15_size (b : LBuf) : TransBuf.size b = b.size := rfl

theorem trans_C15_enqueue (b : LBuf) (op : Op) (eof : Bool) : TransBuf.enqueue b op eof = b.enqueue op eof := by
  simp only [TransBuf.enqueue, LBuf.enqueue]
  cases hs : b.shut <;> simp
  by_cases hf : b.len ≥ b.cap
  · simp [hf]; cases eof <;> simp
  · simp [hf]
    cases hh : b.head with
    | none => simp
    | some h =>
      simp
      cases ht : b.tail with
      | none => simp
      | some t =>
        cases hl : (b.heap ++ [({ prv := some t, op := op, nxt := none } : Link)])[t]? <;> simp [storeNxt, hl]
theorem trans_C15_remove (b : LBuf) : TransBuf.remove b = b.remove := by
  simp only [TransBuf.remove, LBuf.remove]
  cases hc : b.cursor with
  | none => simp
  | some c =>
    simp only [rd_some, LBuf.unlink]
    cases hl : b.heap[c]? with
    | none => simp
    | some l =>
      cases hp : l.prv with
      | none =>
        cases hn : l.nxt with
        | none => simp [hp, hn, LBuf.curOp]
        | some n =>
          simp [hp, hn, LBuf.curOp, storePrv]
          cases hnl : b.heap[n]? with
          | none => simp
          | some nl =>
            simp [hc, rd_some]
            generalize b.heap.set n _ = h1
            cases hl1 : h1[c]? with
            | none => simp
            | some l1 =>
              simp
              by_cases hz : b.len = 0
              · simp [hz]
              · simp [hz]
                cases hn1 : l1.nxt with
                | none => simp
                | some n1 => simp [rd_some]; cases h1[n1]? <;> simp
      | some p =>
        cases hn : l.nxt with
        | none =>
          simp [hp, hn, LBuf.curOp, storeNxt]
          cases hpl : b.heap[p]? with
          | none => simp
          | some pl =>
            simp [hc, rd_some]
            generalize b.heap.set p _ = h1
            cases hl1 : h1[c]? with
            | none => simp
            | some l1 =>
              simp
              try (by_cases hz : b.len = 0 <;> simp [hz])
        | some n =>
          simp [hp, hn, LBuf.curOp, storeNxt, storePrv]
          cases hpl : b.heap[p]? with
          | none => simp
          | some pl =>
            simp [hc, rd_some]
            generalize b.heap.set p _ = h1
            cases hl1 : h1[c]? with
            | none => simp
            | some l1 =>
              simp
              cases hn1 : l1.nxt with
              | none => simp
              | some n1 =>
                simp
                cases hnl : h1[n1]? with
                | none => simp
                | some nl =>
                  simp [hc, rd_some]
                  generalize h1.set n1 _ = h2
                  cases hl2 : h2[c]? with
                  | none => simp
                  | some l2 =>
                    simp
                    by_cases hz : b.len = 0
                    · simp [hz]
                    · simp [hz]
                      cases hn2 : l2.nxt with
                      | none => simp
                      | some n2 => simp [rd_some]; cases h2[n2]? <;> simp

/-! ### the refinement theorems, restated over the TRANSLATED methods -/

/-- one public buffer operation, executed by the translated source -/
def applySrc (b : LBuf) : BOp → Option (LBuf × BOut)
  | .top => (TransBuf.top b).map (fun r => (r.1, .op r.2))
  | .skip => (TransBuf.skip b).map (fun r => (r.1, .op r.2))
  | .remove => (TransBuf.remove b).map (fun r => (r.1, .op r.2))
  | .enqueue op eof => (TransBuf.enqueue b op eof).map (fun r => (r.1, .enq r.2))
  | .shutdown => (TransBuf.shutdown b).map (fun r => (r, .unit))
  | .size => some (b, .size (TransBuf.size b))

def runSrc : LBuf → List BOp → Option (LBuf × List BOut)
  | b, [] => some (b, [])
  | b, o :: os => (applySrc b o).bind fun r => (runSrc r.1 os).map fun rest => (rest.1, r.2 :: rest.2)

theorem trans_C15_applySrc_eq (b : LBuf) (o : BOp) : applySrc b o = b.apply o := by
  cases o <;> simp [applySrc, LBuf.apply, trans_C15_top, trans_C15_skip, trans_C15_remove, trans_C15_enqueue,
    trans_C15_shutdown, trans_C15_size]

theorem trans_C15_runSrc_eq : ∀ (os : List BOp) (b : LBuf), runSrc b os = LBuf.runOps b os
  | [], _ => rfl
  | o :: os, b => by
    simp only [runSrc, LBuf.runOps, trans_C15_applySrc_eq]
    cases b.apply o with
    | none => rfl
    | some r => simp [trans_C15_runSrc_eq os r.1]

/-- C15 over the source: from `newBuffer(cap)`, every sequence of buffer operations executed by the TRANSLATED
`buffer.go` returns exactly what the list-with-cursor model L1 returns ... -/
theorem trans_C15_source_refines_L1 (cap : Nat) (os : List BOp) :
    (runSrc (LBuf.new cap) os).map (·.2) = some (Buf.runOps (Buf.new cap) os).2 := by
  rw [trans_C15_runSrc_eq]; exact C15_L0_refines_L1 cap os

/-- ... never reaches a `panic` or a nil dereference ... -/
theorem trans_C15_source_never_panics (cap : Nat) (os : List BOp) : (runSrc (LBuf.new cap) os).isSome = true := by
  rw [trans_C15_runSrc_eq]; exact C15_L0_never_panics cap os

/-- ... and its `len` counter is the number of buffered operations, at most `cap` -/
theorem trans_C15_source_len_bounded (cap : Nat) (os : List BOp) :
    ∃ b, runSrc (LBuf.new cap) os = some (b, (Buf.runOps (Buf.new cap) os).2) ∧ b.len ≤ cap ∧ b.cap = cap ∧
      b.len = (Buf.runOps (Buf.new cap) os).1.items.length := by
  rw [trans_C15_runSrc_eq]; exact C15_L0_len_bounded cap os

/-- non-vacuity: the translated methods on a concrete run (fill to capacity, refuse, walk, remove in the middle) -/
example :
    let o (k : Nat) : Op := { id := k, obj := k, w := 0, cost := 1, batchable := true }
    (runSrc (LBuf.new 2) [.enqueue (o 1) true, .enqueue (o 2) true, .enqueue (o 3) true, .top, .skip, .remove, .size]).map (·.2)
      = some [.enq .ok, .enq .ok, .enq .full, .op (some (o 1)), .op (some (o 2)), .op none, .size 1] := by decide

end GoBatcher.ExpectTransBuf

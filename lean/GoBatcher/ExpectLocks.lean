import GoBatcher.Generated.Facts
import GoBatcher.Model.Locks
/-!
C20 (data-race discipline): the access tables regenerated from /repo's sources respect the guard declared for
every field (finite tables; `decide` over the whole table, kernel-evaluated). Removing a `Lock()`, moving an
access outside its critical section, replacing an atomic access by a plain one, writing a configuration field
after start-up, or touching the loop-confined field from another function changes the regenerated table and
these theorems stop checking.
-/
namespace GoBatcher.ExpectLocks
open GoBatcher

theorem facts_C20_lock_discipline_v2 : tableOk guardV2 (Facts.v2_accesses.map Access.ofTuple) = true := by decide +kernel

theorem facts_C20_lock_discipline_v1 : tableOk guardV1 (Facts.v1_accesses.map Access.ofTuple) = true := by decide +kernel

/-- hence no two post-initialisation accesses to one field conflict without a common mutex / atomics / confinement -/
theorem facts_C20_conflict_free_v2 (a b : Access) (ha : a ∈ Facts.v2_accesses.map Access.ofTuple)
    (hb : b ∈ Facts.v2_accesses.map Access.ofTuple) (hs : a.strct = b.strct) (hf : a.field = b.field)
    (hc : concurrentCandidates a b = true) : pairOk (guardV2 a.strct a.field) a b = true :=
  conflict_free guardV2 _ facts_C20_lock_discipline_v2 a b ha hb hs hf hc

theorem facts_C20_conflict_free_v1 (a b : Access) (ha : a ∈ Facts.v1_accesses.map Access.ofTuple)
    (hb : b ∈ Facts.v1_accesses.map Access.ofTuple) (hs : a.strct = b.strct) (hf : a.field = b.field)
    (hc : concurrentCandidates a b = true) : pairOk (guardV1 a.strct a.field) a b = true :=
  conflict_free guardV1 _ facts_C20_lock_discipline_v1 a b ha hb hs hf hc

/-- the tables are not empty and contain the accesses the discipline is about (non-vacuity) -/
theorem facts_C20_tables_nontrivial :
    Facts.v2_accesses.length ≥ 150 ∧ Facts.v1_accesses.length ≥ 100 ∧
    Facts.v2_accesses.contains ("batcher", "incTarget", "target", true, false, ["targetMutex:X"]) = true ∧
    Facts.v2_accesses.contains ("sharedResource", "clearPartitionId", "partitions", true, false, ["partlock:X"]) = true ∧
    Facts.v2_accesses.contains ("EventerBase", "Emit", "listeners", false, false, ["listenerMutex:S"]) = true ∧
    Facts.v1_accesses.contains ("Batcher", "incTarget", "target", true, false, ["targetMutex:X"]) = true := by decide +kernel

end GoBatcher.ExpectLocks

import GoBatcher.Generated.Trans
import GoBatcher.Model.Batcher
import GoBatcher.Model.Lease
/-!
Theorems about the definitions that /verif/extract/trans.go TRANSLATES from /repo's Go sources on every run
(`Generated/Trans.lean`): they compute, for all inputs, what the hand-written machines assume of them.
This is the regenerated tie of DESIGN.md (translator): an edit that changes what `incTarget`, `calc`, `GiveMe`,
`Capacity`, `MaxCapacity`, the partition count or `clearPartitionId` compute changes the definition these
theorems are about, and the theorem stops checking. The names carry the ids of the properties whose models
rely on them; `bin/check` counts them among those properties' proof obligations.
-/
namespace GoBatcher.ExpectTrans
open GoBatcher GoBatcher.GoSem GoBatcher.Trans

/-! ### Batcher: the demand counter -/

/-- Enqueue's `incTarget(cost)`: plain addition while the total stays below 2^32 (C03's guard) -/
theorem trans_C03_C14_incTarget_add_v1 (t c : Nat) (h : t + c < 4294967296) :
    v1_incTarget ⟨t⟩ c = ⟨((t + c : Nat) : Int)⟩ := by
  simp [v1_incTarget, u32]
  repeat' split
  all_goals (try simp only [T_v1_Batcher.mk.injEq])
  all_goals omega

theorem trans_C03_C14_incTarget_add_v2 (t c : Nat) (h : t + c < 4294967296) :
    v2_incTarget ⟨t⟩ c = ⟨((t + c : Nat) : Int)⟩ := by
  simp [v2_incTarget, u32]
  repeat' split
  all_goals (try simp only [T_v2_batcher.mk.injEq])
  all_goals omega

/-- the batch goroutine's `incTarget(-total)`: truncated subtraction (`decTarget`), never below zero -/
theorem trans_C03_C11_incTarget_sub_v1 (t c : Nat) (ht : t < 4294967296) (hc : c < 4294967296) :
    v1_incTarget ⟨t⟩ (-(c : Int)) = ⟨((decTarget t c : Nat) : Int)⟩ := by
  simp [v1_incTarget, u32, decTarget]
  repeat' split
  all_goals (try simp only [T_v1_Batcher.mk.injEq])
  all_goals omega

theorem trans_C03_C11_incTarget_sub_v2 (t c : Nat) (ht : t < 4294967296) (hc : c < 4294967296) :
    v2_incTarget ⟨t⟩ (-(c : Int)) = ⟨((decTarget t c : Nat) : Int)⟩ := by
  simp [v2_incTarget, u32, decTarget]
  repeat' split
  all_goals (try simp only [T_v2_batcher.mk.injEq])
  all_goals omega

/-- the audit's reset: reports "was not zero" exactly when the figure was positive, and leaves it at zero -/
theorem trans_C19_trySetTargetToZero_v1 (t : Nat) :
    v1_trySetTargetToZero ⟨t⟩ = (⟨0⟩, decide (t > 0)) := by
  simp [v1_trySetTargetToZero, u32]
  split <;> simp_all <;> omega

theorem trans_C19_confirmTargetIsZero_v2 (t : Nat) :
    v2_confirmTargetIsZero ⟨t⟩ = (⟨0⟩, decide (t = 0)) := by
  simp [v2_confirmTargetIsZero, u32]
  split <;> simp_all <;> omega

end GoBatcher.ExpectTrans

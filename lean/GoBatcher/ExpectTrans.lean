import GoBatcher.Generated.Trans
import GoBatcher.Model.Batcher
import GoBatcher.Model.Lease
/-!
Theorems about the definitions that /verif/extract/trans.go TRANSLATES from /repo's Go sources on every run
(`Generated/Trans.lean`): they compute, for all inputs, what the hand-written machines assume of them.
This is the regenerated tie of DESIGN.md (translator): an edit that changes what `incTarget`, `calc`, `GiveMe`,
`Capacity`, `MaxCapacity`, the partition count or `clearPartitionId` compute changes the definition these
theorems are about, and the theorem stops checking. The names carry the ids of the properties whose models
rely on them; `bin/check` counts them among those properties' proof obligations.
-/
namespace GoBatcher.ExpectTrans
open GoBatcher GoBatcher.GoSem GoBatcher.Trans

/-! ### Batcher: the demand counter -/

/-- Enqueue's `incTarget(cost)`: plain addition while the total stays below 2^32 (C03's guard) -/
theorem trans_C03_C14_incTarget_add_v1 (t c : Nat) (h : t + c < 4294967296) :
    v1_incTarget ⟨t⟩ c = ⟨((t + c : Nat) : Int)⟩ := by
  simp [v1_incTarget, u32]
  repeat' split
  all_goals (try simp only [T_v1_Batcher.mk.injEq])
  all_goals omega

theorem trans_C03_C14_incTarget_add_v2 (t c : Nat) (h : t + c < 4294967296) :
    v2_incTarget ⟨t⟩ c = ⟨((t + c : Nat) : Int)⟩ := by
  simp [v2_incTarget, u32]
  repeat' split
  all_goals (try simp only [T_v2_batcher.mk.injEq])
  all_goals omega

/-- the batch goroutine's `incTarget(-total)`: truncated subtraction (`decTarget`), never below zero -/
theorem trans_C03_C11_incTarget_sub_v1 (t c : Nat) (ht : t < 4294967296) (hc : c < 4294967296) :
    v1_incTarget ⟨t⟩ (-(c : Int)) = ⟨((decTarget t c : Nat) : Int)⟩ := by
  simp [v1_incTarget, u32, decTarget]
  repeat' split
  all_goals (try simp only [T_v1_Batcher.mk.injEq])
  all_goals omega

theorem trans_C03_C11_incTarget_sub_v2 (t c : Nat) (ht : t < 4294967296) (hc : c < 4294967296) :
    v2_incTarget ⟨t⟩ (-(c : Int)) = ⟨((decTarget t c : Nat) : Int)⟩ := by
  simp [v2_incTarget, u32, decTarget]
  repeat' split
  all_goals (try simp only [T_v2_batcher.mk.injEq])
  all_goals omega

/-- the audit's reset: reports "was not zero" exactly when the figure was positive, and leaves it at zero -/
theorem trans_C19_trySetTargetToZero_v1 (t : Nat) :
    v1_trySetTargetToZero ⟨t⟩ = (⟨0⟩, decide (t > 0)) := by
  simp [v1_trySetTargetToZero, u32]
  split <;> simp_all <;> omega

theorem trans_C19_confirmTargetIsZero_v2 (t : Nat) :
    v2_confirmTargetIsZero ⟨t⟩ = (⟨0⟩, decide (t = 0)) := by
  simp [v2_confirmTargetIsZero, u32]
  split <;> simp_all <;> omega

/-! ### SharedResource: capacity figures -/

/-- number of non-nil slots of a partition list (the partitions the instance counts) -/
def heldCount (l : List Bool) : Nat := l.count true

theorem foldl_count (l : List Bool) (n : Nat) (hn : n ≤ l.length) (hl : l.length < 4294967296) :
    (List.range n).foldl (fun (total : Int) (i : Nat) =>
      if l.getD i false = true then (total + 1) % 4294967296 else total) 0 = (((l.take n).count true : Nat) : Int) := by
  induction n with
  | zero => simp
  | succ k ih =>
    have hk : k < l.length := by omega
    rw [List.range_succ, List.foldl_append, ih (by omega)]
    have hc : (l.take k).count true ≤ k := by
      have := List.count_le_length (a := true) (l := l.take k)
      simp at this; omega
    rw [List.take_succ_eq_append_getElem hk, List.count_append]
    simp only [List.foldl_cons, List.foldl_nil, List.getD_eq_getElem?_getD, List.getElem?_eq_getElem hk, Option.getD_some]
    cases hb : l[k] <;> simp <;> omega

/-- `calc()` publishes factor x (number of non-nil partitions) and touches nothing else (no uint32 overflow) -/
theorem trans_C04_C06_calc_v2 (r : T_v2_sharedResource) (hf : 0 ≤ r.factor) (hl : r.partitions.length < 4294967296)
    (h : r.factor * heldCount r.partitions < 4294967296) :
    v2_sr_calc r = { r with capacity := r.factor * heldCount r.partitions } := by
  have hfold := foldl_count r.partitions r.partitions.length (Nat.le_refl _) hl
  rw [List.take_length] at hfold
  simp only [v2_sr_calc, u32, heldCount] at *
  simp only [Int.toNat_natCast, Int.natCast_pos] at *
  rw [hfold]
  have hnn : (0 : Int) ≤ ↑(List.count true r.partitions) * r.factor := Int.mul_nonneg (by omega) hf
  rw [Int.emod_eq_of_lt hnn (by rw [Int.mul_comm]; exact h), Int.mul_comm]

theorem trans_C04_C06_calc_v1 (r : T_v1_AzureSharedResource) (hf : 0 ≤ r.factor) (hl : r.partitions.length < 4294967296)
    (h : r.factor * heldCount r.partitions < 4294967296) :
    v1_sr_calc r = ({ r with capacity := r.factor * heldCount r.partitions }, r.factor * heldCount r.partitions) := by
  have hfold := foldl_count r.partitions r.partitions.length (Nat.le_refl _) hl
  rw [List.take_length] at hfold
  simp only [v1_sr_calc, u32, heldCount] at *
  simp only [Int.toNat_natCast, Int.natCast_pos] at *
  rw [hfold]
  have hnn : (0 : Int) ≤ ↑(List.count true r.partitions) * r.factor := Int.mul_nonneg (by omega) hf
  rw [Int.emod_eq_of_lt hnn (by rw [Int.mul_comm]; exact h), Int.mul_comm]

/-- `Capacity()` = published partition capacity + reserved capacity -/
theorem trans_C06_Capacity_v2 (r : T_v2_sharedResource) (h0 : 0 ≤ r.capacity) (h1 : 0 ≤ r.reservedCapacity)
    (h : r.capacity + r.reservedCapacity < 4294967296) : v2_sr_Capacity r = r.capacity + r.reservedCapacity := by
  simp only [v2_sr_Capacity, u32]; omega

theorem trans_C06_Capacity_v1 (r : T_v1_AzureSharedResource) (h0 : 0 ≤ r.capacity) (h1 : 0 ≤ r.reservedCapacity)
    (h : r.capacity + r.reservedCapacity < 4294967296) : v1_sr_Capacity r = r.capacity + r.reservedCapacity := by
  simp only [v1_sr_Capacity, u32]; omega

/-- so after `calc()`: `Capacity() = reserved + factor x counted partitions` — the model's `LInst.capacity` -/
theorem trans_C06_Capacity_after_calc_v2 (r : T_v2_sharedResource) (hf : 0 ≤ r.factor) (h1 : 0 ≤ r.reservedCapacity)
    (hl : r.partitions.length < 4294967296)
    (h : r.reservedCapacity + r.factor * heldCount r.partitions < 4294967296) :
    v2_sr_Capacity (v2_sr_calc r) = r.reservedCapacity + r.factor * heldCount r.partitions := by
  have hnn : (0 : Int) ≤ r.factor * ↑(heldCount r.partitions) := Int.mul_nonneg hf (by omega)
  rw [trans_C04_C06_calc_v2 r hf hl (by omega), trans_C06_Capacity_v2] <;> simp only <;> omega

/-- `MaxCapacity()`: v1 shared + reserved; v2 caps the shared part at 500 x factor -/
theorem trans_C06_MaxCapacity_v1 (r : T_v1_AzureSharedResource) (h0 : 0 ≤ r.sharedCapacity) (h1 : 0 ≤ r.reservedCapacity)
    (h : r.sharedCapacity + r.reservedCapacity < 4294967296) :
    v1_sr_MaxCapacity r = r.reservedCapacity + r.sharedCapacity := by
  simp only [v1_sr_MaxCapacity, u32]; omega

theorem trans_C06_MaxCapacity_v2 (r : T_v2_sharedResource) (h0 : 0 ≤ r.sharedCapacity) (h1 : 0 ≤ r.reservedCapacity)
    (hf : 0 ≤ r.factor) (hf2 : r.factor * 500 < 4294967296) (h : r.sharedCapacity + r.reservedCapacity < 4294967296) :
    v2_sr_MaxCapacity r =
      r.reservedCapacity + (if r.sharedCapacity > r.factor * 500 then r.factor * 500 else r.sharedCapacity) := by
  simp [v2_sr_MaxCapacity, u32]
  repeat' split
  all_goals omega

/-- the same figure as the model's `LInst.maxCapacity` -/
theorem trans_C06_MaxCapacity_model_v2 (r : T_v2_sharedResource) (x : LInst) (hg : x.gen = .v2)
    (h1 : r.factor = x.factor) (h2 : r.sharedCapacity = x.shared) (h3 : r.reservedCapacity = x.reserved)
    (hf2 : x.factor * 500 < 4294967296) (h : x.shared + x.reserved < 4294967296) :
    v2_sr_MaxCapacity r = (x.maxCapacity : Int) := by
  have hm : x.maxCapacity = x.reserved + (if x.shared > x.factor * 500 then x.factor * 500 else x.shared) := by
    unfold LInst.maxCapacity maxPartitions; rw [hg]
  rw [hm, trans_C06_MaxCapacity_v2 r (by omega) (by omega) (by omega) (by omega) (by omega), h1, h2, h3]
  by_cases hc : x.shared > x.factor * 500
  · have hc' : (x.shared : Int) > x.factor * 500 := by omega
    rw [if_pos hc, if_pos hc']; omega
  · have hc' : ¬ (x.shared : Int) > x.factor * 500 := by omega
    rw [if_neg hc, if_neg hc']; omega

/-! ### SharedResource: the demand (`GiveMe`) and the partition count -/

theorem ceilDivN_cast (a f : Nat) (hf : 0 < f) : ((ceilDivN a f : Nat) : Int) = ((a : Int) + f - 1) / f := by
  unfold ceilDivN
  rw [Int.natCast_ediv, Int.natCast_sub (by omega : 1 ≤ a + f)]; push_cast; rfl

theorem ceilDivN_le (a f : Nat) (hf : 0 < f) : ceilDivN a f ≤ a := by
  unfold ceilDivN
  have h1 : a ≤ a * f := Nat.le_mul_of_pos_right a hf
  have h2 : (a + 1) * f = a * f + f := Nat.succ_mul a f
  have : (a + f - 1) / f < a + 1 := (Nat.div_lt_iff_lt_mul hf).2 (by omega)
  omega

theorem goCeilDiv_cast (a f : Nat) (hf : 0 < f) : goCeilDiv (a : Int) (f : Int) = ((ceilDivN a f : Nat) : Int) := by
  unfold goCeilDiv
  rw [if_neg (by omega), ceilDivN_cast a f hf]

/-- `GiveMe(v)`: the target becomes ceil((v - reserved)+ / factor) — the model's `neededPartitions` — where an unset
factor (0: the default has not been applied yet because the resource is not provisioned) counts as 1, as in the
model, which applies the default when the instance is created (`LInst.init`). Before the fix `59bb98c` of finding F11
an unset factor made this a division by zero in floating point. -/
theorem trans_C07_C09_GiveMe_v2 (r : T_v2_sharedResource) (v res f : Nat) (hr : r.reservedCapacity = res) (hfac : r.factor = f)
    (hv : v < 4294967296) :
    v2_sr_GiveMe r v = { r with target := ((ceilDivN (v - res) (if f = 0 then 1 else f) : Nat) : Int) } := by
  have hpos : 0 < (if f = 0 then 1 else f) := by split <;> omega
  have hle := ceilDivN_le (v - res) _ hpos
  have ht : (if decide ((v : Int) ≥ r.reservedCapacity) = true then u32 ((v : Int) - r.reservedCapacity) else u32 0)
      = (((v - res : Nat)) : Int) := by
    rw [hr]; unfold u32; split <;> simp at * <;> omega
  have hf' : (if decide (r.factor = 0) = true then u32 1 else r.factor) = (((if f = 0 then 1 else f : Nat)) : Int) := by
    rw [hfac]; unfold u32
    by_cases h0 : f = 0
    · subst h0; simp
    · have : ¬ ((f : Int) = 0) := by omega
      simp [h0, this]
  simp only [v2_sr_GiveMe]
  rw [ht, hf', goCeilDiv_cast _ _ hpos]
  congr 1
  unfold u32; omega

theorem trans_C07_C09_GiveMe_v1 (r : T_v1_AzureSharedResource) (v res f : Nat) (hr : r.reservedCapacity = res) (hfac : r.factor = f)
    (hv : v < 4294967296) :
    v1_sr_GiveMe r v = { r with target := ((ceilDivN (v - res) (if f = 0 then 1 else f) : Nat) : Int) } := by
  have hpos : 0 < (if f = 0 then 1 else f) := by split <;> omega
  have hle := ceilDivN_le (v - res) _ hpos
  have ht : (if decide ((v : Int) ≥ r.reservedCapacity) = true then u32 ((v : Int) - r.reservedCapacity) else u32 0)
      = (((v - res : Nat)) : Int) := by
    rw [hr]; unfold u32; split <;> simp at * <;> omega
  have hf' : (if decide (r.factor = 0) = true then u32 1 else r.factor) = (((if f = 0 then 1 else f : Nat)) : Int) := by
    rw [hfac]; unfold u32
    by_cases h0 : f = 0
    · subst h0; simp
    · have : ¬ ((f : Int) = 0) := by omega
      simp [h0, this]
  simp only [v1_sr_GiveMe]
  rw [ht, hf', goCeilDiv_cast _ _ hpos]
  congr 1
  unfold u32; omega

/-- the number of partitions provisioned: ceil(shared / factor); v2 caps it at 500 — the model's `partitionCount` -/
theorem trans_C06_C17_partitionCount_v2 (r : T_v2_sharedResource) (sh f : Nat) (hs : r.sharedCapacity = sh) (hfac : r.factor = f)
    (hf : 0 < f) : v2_sr_partitionCount r = ((partitionCount .v2 sh f : Nat) : Int) := by
  simp only [v2_sr_partitionCount, hs, hfac, goCeilDiv_cast _ _ hf, partitionCount, maxPartitions]
  by_cases hc : ceilDivN sh f > 500
  · have hc' : ((ceilDivN sh f : Nat) : Int) > 500 := by omega
    simp [hc, hc']
  · have hc' : ¬ ((ceilDivN sh f : Nat) : Int) > 500 := by omega
    simp [hc, hc']

/-- v1 refuses (an error, nothing provisioned) exactly when ceil(shared / factor) exceeds 500 -/
theorem trans_C06_C17_partitionCount_v1 (r : T_v1_AzureSharedResource) (sh f : Nat) (hs : r.sharedCapacity = sh) (hfac : r.factor = f)
    (hf : 0 < f) :
    v1_sr_partitionCount r = (((ceilDivN sh f : Nat) : Int), if ceilDivN sh f > maxPartitions then "PartitionsOutOfRangeError" else "") := by
  simp only [v1_sr_partitionCount, hs, hfac, goCeilDiv_cast _ _ hf, maxPartitions]
  by_cases hc : ceilDivN sh f > 500
  · have hc' : ((ceilDivN sh f : Nat) : Int) > 500 := by omega
    simp [hc, hc']
  · have hc' : ¬ ((ceilDivN sh f : Nat) : Int) > 500 := by omega
    simp [hc, hc']

/-! ### SharedResource: live reconfiguration (C17) -/

/-- v2 `clearPartitionId` is bounds-checked: an index at or beyond the (possibly truncated) list changes nothing -/
theorem trans_C17_clearPartitionId_out_of_range_v2 (r : T_v2_sharedResource) (i : Nat) (h : r.partitions.length ≤ i) :
    v2_sr_clearPartitionId r i = r := by
  simp only [v2_sr_clearPartitionId]
  split
  · rename_i hc; simp at hc; omega
  · rfl

/-- inside the range it clears exactly that slot -/
theorem trans_C17_clearPartitionId_in_range_v2 (r : T_v2_sharedResource) (i : Nat) (h : i < r.partitions.length) :
    v2_sr_clearPartitionId r i = { r with partitions := r.partitions.set i false } := by
  simp only [v2_sr_clearPartitionId]
  split
  · simp
  · rename_i hc; simp at hc; omega

/-- `SetReservedCapacity(v)` is visible in `Capacity()` at once -/
theorem trans_C17_SetReservedCapacity_v2 (r : T_v2_sharedResource) (v : Nat) (hf : 0 ≤ r.factor)
    (hl : r.partitions.length < 4294967296) (h : (v : Int) + r.factor * heldCount r.partitions < 4294967296) :
    v2_sr_Capacity (v2_sr_SetReservedCapacity r v) = (v : Int) + r.factor * heldCount r.partitions := by
  simp only [v2_sr_SetReservedCapacity]
  rw [trans_C06_Capacity_after_calc_v2] <;> simp only <;> (try omega)

/-- v1 `ProvisionedResource`: one configured value is both `Capacity()` and `MaxCapacity()` -/
theorem trans_C06_ProvisionedResource (r : T_v1_ProvisionedResource) :
    v1_pr_Capacity r = r.maxCapacity ∧ v1_pr_MaxCapacity r = r.maxCapacity := ⟨rfl, rfl⟩

/-! ### SharedResource: which partition the loop asks for

`getAllocatedAndRandomUnallocatedPartition` translated with the random draw (`rand.Intn(len)`) as an input. -/

def pickStep (l : List Bool) (acc : Int × List Int) (i : Nat) : Int × List Int :=
  if (!(l.getD i false)) = true then (acc.1, acc.2 ++ [((i : Int)) % 4294967296]) else ((acc.1 + 1) % 4294967296, acc.2)

/-- indexes below `n` whose slot is nil (free partitions), ascending -/
def freeIdx (l : List Bool) (n : Nat) : List Nat := (List.range n).filter (fun i => !(l.getD i false))

theorem foldl_pick (l : List Bool) (n : Nat) (hn : n ≤ l.length) (hl : l.length < 4294967296) :
    (List.range n).foldl (pickStep l) (0, []) =
      ((((l.take n).count true : Nat) : Int), (freeIdx l n).map (fun (i : Nat) => (i : Int))) := by
  induction n with
  | zero => simp [freeIdx]
  | succ k ih =>
    have hk : k < l.length := by omega
    rw [List.range_succ, List.foldl_append, ih (by omega)]
    have hc : (l.take k).count true ≤ k := by
      have := List.count_le_length (a := true) (l := l.take k)
      simp at this; omega
    have htake : l.take (k + 1) = l.take k ++ [l[k]] := by
      rw [List.take_add_one]; simp [List.getElem?_eq_getElem hk]
    simp only [List.foldl_cons, List.foldl_nil, pickStep, freeIdx, List.range_succ, List.filter_append, htake,
      List.count_append, List.getD_eq_getElem?_getD, List.getElem?_eq_getElem hk, Option.getD_some]
    have hg : l[k]?.getD false = l[k] := by simp [List.getElem?_eq_getElem hk]
    cases hv : l[k] <;> simp [hg, hv, List.filter_cons] <;> omega

/-- the pick: the held count is the number of non-nil slots; with no free slot it reports an error (the loop then asks
for nothing); otherwise the index is the `k`-th free slot for the draw `k` -/
theorem trans_C07_C09_pick_v2 (r : T_v2_sharedResource) (k : Nat) (hl : r.partitions.length < 4294967296) :
    v2_sr_pick r k =
      if (freeIdx r.partitions r.partitions.length).length < 1 then ((heldCount r.partitions : Int), 0, "error")
      else ((heldCount r.partitions : Int), (((freeIdx r.partitions r.partitions.length).getD k 0 : Nat) : Int), "") := by
  have hf : (fun (x : Int × List Int) (i_n : Nat) =>
      ((if (!r.partitions.getD i_n false) = true then (x.fst, x.snd ++ [(↑i_n : Int) % 4294967296])
          else ((x.fst + 1) % 4294967296, x.snd)).fst,
        (if (!r.partitions.getD i_n false) = true then (x.fst, x.snd ++ [(↑i_n : Int) % 4294967296])
          else ((x.fst + 1) % 4294967296, x.snd)).snd)) = pickStep r.partitions := by
    funext x i; simp [pickStep]
  have hfold := foldl_pick r.partitions r.partitions.length (Nat.le_refl _) hl
  rw [List.take_length] at hfold
  simp only [v2_sr_pick, u32, Int.toNat_natCast, hf, hfold, heldCount, List.length_map]
  have hg : ∀ (l : List Nat), (l.map (fun (i : Nat) => (i : Int))).getD k 0 = ((l.getD k 0 : Nat) : Int) := by
    intro l; simp only [List.getD_eq_getElem?_getD, List.getElem?_map]; cases l[k]? <;> simp
  rw [hg]
  by_cases h : (freeIdx r.partitions r.partitions.length).length < 1
  · have h' : ((freeIdx r.partitions r.partitions.length).length : Int) < 1 := by omega
    simp [h, h']
  · have h' : ¬ ((freeIdx r.partitions r.partitions.length).length : Int) < 1 := by omega
    simp [h, h']

theorem trans_C07_C09_pick_v1 (r : T_v1_AzureSharedResource) (k : Nat) (hl : r.partitions.length < 4294967296) :
    v1_sr_pick r k =
      if (freeIdx r.partitions r.partitions.length).length < 1 then ((heldCount r.partitions : Int), 0, "error")
      else ((heldCount r.partitions : Int), (((freeIdx r.partitions r.partitions.length).getD k 0 : Nat) : Int), "") := by
  have hf : (fun (x : Int × List Int) (i_n : Nat) =>
      ((if (!r.partitions.getD i_n false) = true then (x.fst, x.snd ++ [(↑i_n : Int) % 4294967296])
          else ((x.fst + 1) % 4294967296, x.snd)).fst,
        (if (!r.partitions.getD i_n false) = true then (x.fst, x.snd ++ [(↑i_n : Int) % 4294967296])
          else ((x.fst + 1) % 4294967296, x.snd)).snd)) = pickStep r.partitions := by
    funext x i; simp [pickStep]
  have hfold := foldl_pick r.partitions r.partitions.length (Nat.le_refl _) hl
  rw [List.take_length] at hfold
  simp only [v1_sr_pick, u32, Int.toNat_natCast, hf, hfold, heldCount, List.length_map]
  have hg : ∀ (l : List Nat), (l.map (fun (i : Nat) => (i : Int))).getD k 0 = ((l.getD k 0 : Nat) : Int) := by
    intro l; simp only [List.getD_eq_getElem?_getD, List.getElem?_map]; cases l[k]? <;> simp
  rw [hg]
  by_cases h : (freeIdx r.partitions r.partitions.length).length < 1
  · have h' : ((freeIdx r.partitions r.partitions.length).length : Int) < 1 := by omega
    simp [h, h']
  · have h' : ¬ ((freeIdx r.partitions r.partitions.length).length : Int) < 1 := by omega
    simp [h, h']

/-- what the pick returns is a FREE partition inside the list, whatever the random draw below the number of free ones -/
theorem freeIdx_getD_free (l : List Bool) (k : Nat) (hk : k < (freeIdx l l.length).length) :
    (freeIdx l l.length).getD k 0 < l.length ∧ l.getD ((freeIdx l l.length).getD k 0) true = false := by
  have hm : (freeIdx l l.length).getD k 0 ∈ freeIdx l l.length := by
    rw [List.getD_eq_getElem?_getD, List.getElem?_eq_getElem hk]; simp
  generalize (freeIdx l l.length).getD k 0 = i at hm
  simp only [freeIdx, List.mem_filter, List.mem_range] at hm
  refine ⟨hm.1, ?_⟩
  have h2 := hm.2
  simp only [List.getD_eq_getElem?_getD, List.getElem?_eq_getElem hm.1, Option.getD_some] at h2 ⊢
  simpa using h2

/-- free + held = all -/
theorem freeIdx_length (l : List Bool) : (freeIdx l l.length).length + heldCount l = l.length := by
  have key : ∀ n, n ≤ l.length → (freeIdx l n).length + (l.take n).count true = n := by
    intro n
    induction n with
    | zero => intro _; simp [freeIdx]
    | succ k ih =>
      intro hn
      have hk : k < l.length := by omega
      have htake : l.take (k + 1) = l.take k ++ [l[k]] := by
        rw [List.take_add_one]; simp [List.getElem?_eq_getElem hk]
      have := ih (by omega)
      have hg : l[k]?.getD false = l[k] := by simp [List.getElem?_eq_getElem hk]
      simp only [freeIdx, List.range_succ, List.filter_append, List.length_append, htake, List.count_append,
        List.getD_eq_getElem?_getD] at this ⊢
      cases hv : l[k] <;> simp [hg, hv] <;> omega
  have := key l.length (Nat.le_refl _)
  rw [List.take_length] at this
  exact this

/-- C07 / C09 / C04: the loop only ever asks the store for a partition it does NOT hold, inside the current list, and
compares the target with exactly the number it holds - for every partition list and every draw `rand.Intn` can return -/
theorem trans_C04_C07_C09_pick_is_free_v2 (r : T_v2_sharedResource) (k : Nat) (hl : r.partitions.length < 4294967296)
    (hk : k < (freeIdx r.partitions r.partitions.length).length) :
    ∃ i : Nat, v2_sr_pick r k = ((heldCount r.partitions : Int), (i : Int), "") ∧ i < r.partitions.length ∧
      r.partitions.getD i true = false := by
  refine ⟨(freeIdx r.partitions r.partitions.length).getD k 0, ?_, freeIdx_getD_free _ _ hk⟩
  rw [trans_C07_C09_pick_v2 r k hl, if_neg (by omega)]

theorem trans_C04_C07_C09_pick_is_free_v1 (r : T_v1_AzureSharedResource) (k : Nat) (hl : r.partitions.length < 4294967296)
    (hk : k < (freeIdx r.partitions r.partitions.length).length) :
    ∃ i : Nat, v1_sr_pick r k = ((heldCount r.partitions : Int), (i : Int), "") ∧ i < r.partitions.length ∧
      r.partitions.getD i true = false := by
  refine ⟨(freeIdx r.partitions r.partitions.length).getD k 0, ?_, freeIdx_getD_free _ _ hk⟩
  rw [trans_C07_C09_pick_v1 r k hl, if_neg (by omega)]

/-- all partitions held ⇒ the error value (and the loop's `err == nil && count < target` guard fails: no request) -/
theorem trans_C07_pick_none_when_all_held_v2 (r : T_v2_sharedResource) (k : Nat) (hl : r.partitions.length < 4294967296)
    (h : heldCount r.partitions = r.partitions.length) : (v2_sr_pick r k).2.2 = "error" := by
  have := freeIdx_length r.partitions
  rw [trans_C07_C09_pick_v2 r k hl, if_pos (by omega)]

/-- the partitions an instance counts, as the M-Lease machine keeps them: the indexes of the non-nil slots -/
def heldIdx (l : List Bool) : List Nat := (List.range l.length).filter (fun i => l.getD i false)

theorem mem_heldIdx (l : List Bool) (i : Nat) : i ∈ heldIdx l ↔ i < l.length ∧ l.getD i false = true := by
  simp [heldIdx, List.mem_filter]

theorem mem_freeIdx (l : List Bool) (i : Nat) : i ∈ freeIdx l l.length ↔ i < l.length ∧ l.getD i false = false := by
  simp [freeIdx, List.mem_filter]

theorem heldIdx_length (l : List Bool) : (heldIdx l).length = heldCount l := by
  have key : ∀ n, n ≤ l.length → ((List.range n).filter (fun i => l.getD i false)).length = (l.take n).count true := by
    intro n
    induction n with
    | zero => intro _; simp
    | succ k ih =>
      intro hn
      have hk : k < l.length := by omega
      have htake : l.take (k + 1) = l.take k ++ [l[k]] := by
        rw [List.take_add_one]; simp [List.getElem?_eq_getElem hk]
      have := ih (by omega)
      have hg : l[k]?.getD false = l[k] := by simp [List.getElem?_eq_getElem hk]
      simp only [List.range_succ, List.filter_append, List.length_append, htake, List.count_append,
        List.getD_eq_getElem?_getD] at this ⊢
      cases hv : l[k] <;> simp [hg, hv] <;> omega
  have := key l.length (Nat.le_refl _)
  rw [List.take_length] at this
  exact this

/-- the guard of the M-Lease machine's `issue i p` label (Model/Lease.lean), on the abstraction of the partition list -/
def issueGuard (held : List Nat) (target parts p : Nat) : Prop := held.length < target ∧ p < parts ∧ p ∉ held

/-- the loop body `count, index, err := pick(); if err == nil && count < target { lease(index) }` asks the store for
`index` exactly when the machine's `issue` label is enabled for it; and when the code asks for nothing, `issue` is
enabled for no partition at all -/
theorem trans_C04_C07_C09_issue_guard_v2 (r : T_v2_sharedResource) (k target : Nat) (hl : r.partitions.length < 4294967296)
    (hk : k < (freeIdx r.partitions r.partitions.length).length ∨ (freeIdx r.partitions r.partitions.length).length = 0) :
    (((v2_sr_pick r k).2.2 = "" ∧ (v2_sr_pick r k).1 < (target : Int)) →
        issueGuard (heldIdx r.partitions) target r.partitions.length (v2_sr_pick r k).2.1.toNat) ∧
    (¬ ((v2_sr_pick r k).2.2 = "" ∧ (v2_sr_pick r k).1 < (target : Int)) →
        ∀ p, ¬ issueGuard (heldIdx r.partitions) target r.partitions.length p) := by
  have hlen := freeIdx_length r.partitions
  rw [trans_C07_C09_pick_v2 r k hl]
  by_cases h0 : (freeIdx r.partitions r.partitions.length).length < 1
  · rw [if_pos h0]
    refine ⟨fun h => by simp at h, fun _ p hp => ?_⟩
    obtain ⟨_, hp2, hp3⟩ := hp
    have : p ∈ freeIdx r.partitions r.partitions.length := by
      rw [mem_freeIdx]; refine ⟨hp2, ?_⟩
      cases hv : r.partitions.getD p false
      · rfl
      · exact absurd ((mem_heldIdx _ _).2 ⟨hp2, hv⟩) hp3
    have := List.length_pos_of_mem this
    omega
  · rw [if_neg h0]
    have hk' : k < (freeIdx r.partitions r.partitions.length).length := by omega
    obtain ⟨hf1, hf2⟩ := freeIdx_getD_free r.partitions k hk'
    refine ⟨fun h => ?_, fun h p hp => ?_⟩
    · simp only [Int.toNat_natCast] at h ⊢
      refine ⟨by rw [heldIdx_length]; omega, hf1, fun hm => ?_⟩
      have := ((mem_heldIdx _ _).1 hm).2
      rw [List.getD_eq_getElem?_getD, List.getElem?_eq_getElem hf1] at this hf2
      simp_all
    · apply h
      refine ⟨rfl, ?_⟩
      have := hp.1; rw [heldIdx_length] at this
      simp only; omega

theorem trans_C04_C07_C09_issue_guard_v1 (r : T_v1_AzureSharedResource) (k target : Nat) (hl : r.partitions.length < 4294967296)
    (hk : k < (freeIdx r.partitions r.partitions.length).length ∨ (freeIdx r.partitions r.partitions.length).length = 0) :
    (((v1_sr_pick r k).2.2 = "" ∧ (v1_sr_pick r k).1 < (target : Int)) →
        issueGuard (heldIdx r.partitions) target r.partitions.length (v1_sr_pick r k).2.1.toNat) ∧
    (¬ ((v1_sr_pick r k).2.2 = "" ∧ (v1_sr_pick r k).1 < (target : Int)) →
        ∀ p, ¬ issueGuard (heldIdx r.partitions) target r.partitions.length p) := by
  have hlen := freeIdx_length r.partitions
  rw [trans_C07_C09_pick_v1 r k hl]
  by_cases h0 : (freeIdx r.partitions r.partitions.length).length < 1
  · rw [if_pos h0]
    refine ⟨fun h => by simp at h, fun _ p hp => ?_⟩
    obtain ⟨_, hp2, hp3⟩ := hp
    have : p ∈ freeIdx r.partitions r.partitions.length := by
      rw [mem_freeIdx]; refine ⟨hp2, ?_⟩
      cases hv : r.partitions.getD p false
      · rfl
      · exact absurd ((mem_heldIdx _ _).2 ⟨hp2, hv⟩) hp3
    have := List.length_pos_of_mem this
    omega
  · rw [if_neg h0]
    have hk' : k < (freeIdx r.partitions r.partitions.length).length := by omega
    obtain ⟨hf1, hf2⟩ := freeIdx_getD_free r.partitions k hk'
    refine ⟨fun h => ?_, fun h p hp => ?_⟩
    · simp only [Int.toNat_natCast] at h ⊢
      refine ⟨by rw [heldIdx_length]; omega, hf1, fun hm => ?_⟩
      have := ((mem_heldIdx _ _).1 hm).2
      rw [List.getD_eq_getElem?_getD, List.getElem?_eq_getElem hf1] at this hf2
      simp_all
    · apply h
      refine ⟨rfl, ?_⟩
      have := hp.1; rw [heldIdx_length] at this
      simp only; omega

/-- ... and `issueGuard` IS the enabling condition of `issue` in the machine the C04 / C07 / C09 theorems are about -/
theorem trans_C04_C07_C09_issue_enabled_iff (n : Nat) (s : LSt) (i p : Nat)
    (h1 : (s.inst i).loopOn = true) (h2 : (s.inst i).alive = true) (h3 : (s.inst i).call = none) :
    (lstepCore n s (.issue i p)).isSome ↔ issueGuard (s.inst i).held (s.inst i).target (s.inst i).parts p := by
  simp only [lstepCore, issueGuard, h1, h2, h3]
  by_cases a : (s.inst i).held.length < (s.inst i).target <;> by_cases b : p < (s.inst i).parts <;>
    by_cases c : p ∈ (s.inst i).held <;> simp [a, b, c]

/-! ### SharedResource: the requirement checks in front of provisioning (v1 `Provision`, v2 `Start`) -/

/-- v2 `Start`: refused with `ImproperOrderError` unless the resource is uninitialised (C17: starts exactly once - the
phase is set to started at the end of a successful Start); otherwise an unset factor becomes 1 and an unset
MaxInterval 500 ms, so the loop's `rand.Intn(int(r.maxInterval))` never panics on a non-positive argument and the
divisions by the factor never see 0 (C09, C06) -/
theorem trans_C06_C09_C17_requirements_v2 (r : T_v2_sharedResource_req) (hf : 0 ≤ r.factor) (hm : 0 ≤ r.maxInterval)
    (hf2 : r.factor < 4294967296) (hm2 : r.maxInterval < 4294967296) :
    (r.phase ≠ 0 → v2_sr_requirements r = (r, "ImproperOrderError")) ∧
    (r.phase = 0 → (v2_sr_requirements r).2 = "" ∧
       (v2_sr_requirements r).1.factor = (if r.factor = 0 then 1 else r.factor) ∧
       (v2_sr_requirements r).1.maxInterval = (if r.maxInterval = 0 then 500 else r.maxInterval) ∧
       0 < (v2_sr_requirements r).1.factor ∧ 0 < (v2_sr_requirements r).1.maxInterval ∧
       (v2_sr_requirements r).1.phase = 0) := by
  obtain ⟨f, m, ph⟩ := r
  simp only at hf hm hf2 hm2
  by_cases h0 : ph = 0 <;> by_cases h1 : f = 0 <;> by_cases h2 : m = 0 <;>
    simp [v2_sr_requirements, u32, h0, h1, h2] <;> omega

/-- v1 `Provision`: the order of the refusals (wrong phase, no lease manager, no shared capacity) and the same two
defaults; a refusal changes nothing but the defaulted factor -/
theorem trans_C06_C09_C17_requirements_v1 (r : T_v1_AzureSharedResource_req) (hf : 0 ≤ r.factor) (hm : 0 ≤ r.maxInterval)
    (hs : 0 ≤ r.sharedCapacity) :
    (v1_sr_requirements r).2 =
      (if r.phase ≠ 0 then "RateLimiterImproperOrderError"
       else if r.leaseManager = false then "UndefinedLeaseManagerError"
       else if r.sharedCapacity = 0 then "UndefinedSharedCapacityError" else "") ∧
    ((v1_sr_requirements r).2 = "" →
       (v1_sr_requirements r).1.factor = (if r.factor = 0 then 1 else r.factor) ∧
       (v1_sr_requirements r).1.maxInterval = (if r.maxInterval = 0 then 500 else r.maxInterval) ∧
       (v1_sr_requirements r).1.sharedCapacity = r.sharedCapacity) := by
  obtain ⟨f, m, sh, lm, ph⟩ := r
  simp only at hf hm hs
  have e2 : m = 0 ↔ m < 1 := by omega
  have e3 : sh = 0 ↔ sh < 1 := by omega
  by_cases h0 : ph = 0 <;> cases lm <;> by_cases h1 : f = 0 <;> by_cases h2 : m < 1 <;> by_cases h3 : sh < 1 <;>
    simp [v1_sr_requirements, u32, h0, h1, h2, h3, e2, e3]

/-- the end of v2 `Start` (after the requirement checks): if provisioning the container fails the error goes to the
caller and NOTHING changes - the phase stays uninitialised, no re-provisioning is requested (C17: a provisioning failure
reported to the caller leaves the resource not started); otherwise the phase becomes started and, with a lease
manager, one provisioning request is left for the loop -/
theorem trans_C17_startTail_v2 (sh : Int) (lm : Bool) (ph pv : Nat) (e : String) (hp : pv ≤ 1) :
    v2_sr_startTail { sharedCapacity := sh, leaseManager := lm, phase := ph, provision := pv } e =
      (if lm = true ∧ e ≠ "" then ({ sharedCapacity := sh, leaseManager := lm, phase := ph, provision := pv }, e)
       else ({ sharedCapacity := sh, leaseManager := lm, phase := 1, provision := if lm then 1 else (pv : Int) }, "")) := by
  have : pv = 0 ∨ pv = 1 := by omega
  cases lm <;> by_cases he : e = "" <;> rcases this with h | h <;>
    simp [v2_sr_startTail, v2_sr_scheduleProvision, he, h]

/-- v1: `Start` goes on only from the provisioned phase (1): only in the order Provision, Start, Stop; a stopped
resource (3) never starts again; a second `Stop` closes nothing -/
theorem trans_C17_startHead_v1 (ph : Nat) :
    v1_sr_startHead ⟨ph⟩ = (if ph = 1 then "" else "RateLimiterImproperOrderError") := by
  by_cases h : ph = 1
  · simp [v1_sr_startHead, h]
  · have h' : ¬ (ph : Int) = 1 := by omega
    simp [v1_sr_startHead, h, h']

theorem trans_C17_Stop_v1 (ph : Nat) (hasStop : Bool) :
    v1_sr_Stop ⟨ph⟩ hasStop = (if ph = 3 then (⟨3⟩, false, false) else (⟨3⟩, hasStop, true)) := by
  by_cases h : ph = 3
  · simp [v1_sr_Stop, h]
  · have h' : ¬ (ph : Int) = 3 := by omega
    cases hasStop <;> simp [v1_sr_Stop, h, h']

theorem trans_C17_no_start_after_stop_v1 (ph : Nat) (hasStop : Bool) :
    v1_sr_startHead (v1_sr_Stop ⟨ph⟩ hasStop).1 = "RateLimiterImproperOrderError" := by
  rw [trans_C17_Stop_v1]
  by_cases h : ph = 3 <;> simp [h] <;> exact trans_C17_startHead_v1 3

/-! ### Batcher: the admission checks at the head of `Enqueue`, and `applyDefaults`

`v?_enqueueAdmit` is the translation of everything `Enqueue` does BEFORE its first `r.incTarget(...)`; the calls
`op.Watcher()`, `op.Cost()`, `op.Attempt()`, `watcher.MaxAttempts()`, `r.ratelimiter.MaxCapacity()` are its inputs
(user getters are taken to be pure). It returns the name of the error value returned, "" when control reaches
the counting step. -/

def errTag : Option Err → String
  | none => ""
  | some .noOperation => "NoOperationError"
  | some .noWatcher => "NoWatcherError"
  | some .tooExpensive => "TooExpensiveError"
  | some .tooManyAttempts => "TooManyAttemptsError"

/-- the real `Enqueue` prefix IS the model's `validate` (C14's theorems are about `validate`), for every input -/
theorem trans_C14_enqueueAdmit_v1 (r : T_v1_Batcher_cfg) (op w : Bool) (cost maxCap maxAtt att : Nat) :
    v1_enqueueAdmit r op w cost maxCap maxAtt att =
      errTag (validate { hasOp := op, hasWatcher := w, limited := r.ratelimiter, maxCap := maxCap, cost := cost,
                         maxAttempts := maxAtt, attempt := att }) := by
  cases op <;> cases w <;> cases hr : r.ratelimiter <;>
    simp [v1_enqueueAdmit, validate, errTag, hr] <;> repeat' split
  all_goals (first | rfl | omega | simp_all [errTag] | (exfalso; simp_all; omega))

theorem trans_C14_enqueueAdmit_v2 (r : T_v2_batcher_cfg) (op w : Bool) (cost maxCap maxAtt att : Nat) :
    v2_enqueueAdmit r op w cost maxCap maxAtt att =
      errTag (validate { hasOp := op, hasWatcher := w, limited := r.ratelimiter, maxCap := maxCap, cost := cost,
                         maxAttempts := maxAtt, attempt := att }) := by
  cases op <;> cases w <;> cases hr : r.ratelimiter <;>
    simp [v2_enqueueAdmit, validate, errTag, hr] <;> repeat' split
  all_goals (first | rfl | omega | simp_all [errTag] | (exfalso; simp_all; omega))

/-- nothing is counted for a rejected operation: the prefix ends before the first `incTarget` by construction
(the translator cuts there), and it returns an error exactly when `validate` does -/
theorem trans_C14_admit_passes_iff_v2 (r : T_v2_batcher_cfg) (op w : Bool) (cost maxCap maxAtt att : Nat) :
    v2_enqueueAdmit r op w cost maxCap maxAtt att = "" ↔
      validate { hasOp := op, hasWatcher := w, limited := r.ratelimiter, maxCap := maxCap, cost := cost,
                 maxAttempts := maxAtt, attempt := att } = none := by
  rw [trans_C14_enqueueAdmit_v2]
  cases validate _ with
  | none => simp [errTag]
  | some e => cases e <;> simp [errTag]

/-- `applyDefaults` as the machines assume it (`applyDefault`): a non-positive interval becomes the documented
default, a positive one is kept; nothing else in the record changes -/
theorem trans_C02_C11_C12_C13_C19_applyDefaults_v1 (r : T_v1_Batcher_cfg) :
    v1_applyDefaults r =
      { r with flushInterval := applyDefault r.flushInterval defFlush,
               capacityInterval := applyDefault r.capacityInterval defCap,
               auditInterval := applyDefault r.auditInterval defAudit,
               maxOperationTime := applyDefault r.maxOperationTime defMot,
               pauseTime := applyDefault r.pauseTime defPause } := by
  obtain ⟨rl, a, b, c, d, e⟩ := r
  by_cases h1 : a ≤ 0 <;> by_cases h2 : b ≤ 0 <;> by_cases h3 : c ≤ 0 <;> by_cases h4 : d ≤ 0 <;> by_cases h5 : e ≤ 0 <;>
    simp [v1_applyDefaults, applyDefault, defFlush, defCap, defAudit, defMot, defPause, h1, h2, h3, h4, h5] <;>
    (try (refine ⟨?_, ?_, ?_, ?_, ?_⟩)) <;> omega

theorem trans_C02_C11_C12_C13_C19_applyDefaults_v2 (r : T_v2_batcher_cfg) :
    v2_applyDefaults r =
      { r with flushInterval := applyDefault r.flushInterval defFlush,
               capacityInterval := applyDefault r.capacityInterval defCap,
               auditInterval := applyDefault r.auditInterval defAudit,
               maxOperationTime := applyDefault r.maxOperationTime defMot,
               pauseTime := applyDefault r.pauseTime defPause } := by
  obtain ⟨rl, a, b, c, d, e⟩ := r
  by_cases h1 : a ≤ 0 <;> by_cases h2 : b ≤ 0 <;> by_cases h3 : c ≤ 0 <;> by_cases h4 : d ≤ 0 <;> by_cases h5 : e ≤ 0 <;>
    simp [v2_applyDefaults, applyDefault, defFlush, defCap, defAudit, defMot, defPause, h1, h2, h3, h4, h5] <;>
    (try (refine ⟨?_, ?_, ?_, ?_, ?_⟩)) <;> omega

/-- after `applyDefaults` every interval the loop hands to `time.NewTicker` / `time.Sleep` is positive
(`NewTicker` panics on a non-positive one) -/
theorem trans_C02_C12_C13_C19_intervals_positive_v2 (r : T_v2_batcher_cfg) :
    0 < (v2_applyDefaults r).flushInterval ∧ 0 < (v2_applyDefaults r).capacityInterval ∧
    0 < (v2_applyDefaults r).auditInterval ∧ 0 < (v2_applyDefaults r).maxOperationTime ∧
    0 < (v2_applyDefaults r).pauseTime := by
  rw [trans_C02_C11_C12_C13_C19_applyDefaults_v2]
  simp only [applyDefault, defFlush, defCap, defAudit, defMot, defPause]
  refine ⟨?_, ?_, ?_, ?_, ?_⟩ <;> split <;> omega

theorem trans_C02_C12_C13_C19_intervals_positive_v1 (r : T_v1_Batcher_cfg) :
    0 < (v1_applyDefaults r).flushInterval ∧ 0 < (v1_applyDefaults r).capacityInterval ∧
    0 < (v1_applyDefaults r).auditInterval ∧ 0 < (v1_applyDefaults r).maxOperationTime ∧
    0 < (v1_applyDefaults r).pauseTime := by
  rw [trans_C02_C11_C12_C13_C19_applyDefaults_v1]
  simp only [applyDefault, defFlush, defCap, defAudit, defMot, defPause]
  refine ⟨?_, ?_, ?_, ?_, ?_⟩ <;> split <;> omega

/-! ### the library's own Operation: what the admission prefix reads, and what a delivery does to it -/

/-- `MakeAttempt()` adds exactly one to what `Attempt()` reports (below 2^32) and changes neither the cost nor the
batchable flag: the getters the admission prefix reads are pure, and an attempt is counted per delivery (C14's
`only_delivery_counts` is about that counter) -/
theorem trans_C14_MakeAttempt_v2 (o : T_v2_operation) (h0 : 0 ≤ o.attempt) (h : o.attempt + 1 < 4294967296) :
    v2_op_Attempt (v2_op_MakeAttempt o) = v2_op_Attempt o + 1 ∧
    v2_op_Cost (v2_op_MakeAttempt o) = v2_op_Cost o ∧ v2_op_IsBatchable (v2_op_MakeAttempt o) = v2_op_IsBatchable o := by
  simp only [v2_op_Attempt, v2_op_MakeAttempt, v2_op_Cost, v2_op_IsBatchable, u32]
  refine ⟨?_, by trivial, by trivial⟩
  omega

theorem trans_C14_MakeAttempt_v1 (o : T_v1_Operation) (h0 : 0 ≤ o.attempt) (h : o.attempt + 1 < 4294967296) :
    v1_op_Attempt (v1_op_MakeAttempt o) = v1_op_Attempt o + 1 ∧
    v1_op_Cost (v1_op_MakeAttempt o) = v1_op_Cost o ∧ v1_op_IsBatchable (v1_op_MakeAttempt o) = v1_op_IsBatchable o := by
  simp only [v1_op_Attempt, v1_op_MakeAttempt, v1_op_Cost, v1_op_IsBatchable, u32]
  refine ⟨?_, by trivial, by trivial⟩
  omega

/-- with the library's Operation, `MaxAttempts` deliveries make the next `Enqueue` fail: after `n` calls of
`MakeAttempt` on a fresh operation `Attempt() = n`, and the admission prefix refuses it iff `n ≥ MaxAttempts > 0` -/
theorem trans_C14_attempts_after_deliveries_v2 (o : T_v2_operation) (n : Nat) (h0 : o.attempt = 0) (hn : n < 4294967296) :
    v2_op_Attempt (Nat.repeat v2_op_MakeAttempt n o) = n := by
  induction n with
  | zero => simpa [Nat.repeat, v2_op_Attempt] using h0
  | succ k ih =>
    have := ih (by omega)
    simp only [Nat.repeat, v2_op_Attempt, v2_op_MakeAttempt, u32] at this ⊢
    rw [this]; omega

/-! ### Batcher: the audit arm of the loop and the choice of a batch's MaxOperationTime

Translated from deep inside `Start` / `processBatch` (a `select` arm, a goroutine closure). Inputs: the buffer size
read by the arm, the time since the last flush with records, the Batcher's MaxOperationTime, v2's drain of the slot
channel (`confirmInflightIsZero`, a channel operation) and the watcher's MaxOperationTime. The event raised is
returned as "<event constant>|<message constant>". -/

/-- the name of the event (and message) each audit outcome of the model stands for -/
def auditEv : AuditOutcome → String
  | .pass => "AuditPassEvent|"
  | .skip => "AuditSkipEvent|"
  | .failTarget => "AuditFailEvent|AuditMsgFailureOnTarget"
  | .failInflight => "AuditFailEvent|AuditMsgFailureOnInflight"
  | .failBoth => "AuditFailEvent|AuditMsgFailureOnTargetAndInflight"

/-- the model's audit, as a function of what the arm reads (cf. `auditCond`, `auditOutcome`, `doAudit`) -/
def auditSpecV2 (target bufSize sinceLast mot : Nat) (slotsHeld : Bool) : Nat × AuditOutcome :=
  if bufSize = 0 ∧ sinceLast > mot then
    (0, if target > 0 ∧ slotsHeld then .failBoth else if target > 0 then .failTarget else if slotsHeld then .failInflight else .pass)
  else (target, .skip)

/-- v2: the audit arm zeroes the demand and names the failure exactly as the machine's `doAudit` / `auditOutcome`
do, for every demand, buffer size, idle time, MaxOperationTime and slot state -/
theorem trans_C03_C10_C19_auditArm_v2 (target bufSize sinceLast mot : Nat) (inflightIsZero : Bool) :
    v2_auditArm ⟨target⟩ bufSize sinceLast mot inflightIsZero =
      (⟨((auditSpecV2 target bufSize sinceLast mot (!inflightIsZero)).1 : Nat)⟩,
       auditEv (auditSpecV2 target bufSize sinceLast mot (!inflightIsZero)).2) := by
  by_cases h1 : bufSize = 0 <;> by_cases h2 : sinceLast > mot <;> by_cases h3 : 0 < target <;> cases inflightIsZero <;>
    simp [v2_auditArm, v2_confirmTargetIsZero, auditSpecV2, auditEv, u32, h1, h2, h3] <;> omega

/-- v1: the same with `trySetTargetToZero` and one kind of failure -/
theorem trans_C03_C19_auditArm_v1 (target bufLen sinceLast mot : Nat) :
    v1_auditArm ⟨target⟩ bufLen sinceLast mot =
      (if bufLen = 0 ∧ sinceLast > mot then (⟨0⟩, if target > 0 then "AuditFailEvent|text" else "AuditPassEvent|")
       else (⟨(target : Int)⟩, "AuditSkipEvent|")) := by
  have e1 : bufLen = 0 ↔ (bufLen : Int) < 1 := by omega
  by_cases h1 : (bufLen : Int) < 1 <;> by_cases h2 : sinceLast > mot <;> by_cases h3 : 0 < target <;>
    simp [v1_auditArm, v1_trySetTargetToZero, u32, e1, h1, h2, h3] <;> omega

/-- the spec above IS the machine's audit: condition, outcome and what `doAudit` leaves in the demand -/
theorem trans_C03_C10_C19_auditSpec_is_doAudit (c : BCfg) (s : St) (hg : c.gen = .v2) :
    let sinceLast := match s.lastFlush with | none => c.mot + 1 | some t => s.now - t
    auditSpecV2 s.target s.bm.buf.items.length sinceLast c.mot (decide (s.slots > 0)) =
      ((doAudit c s).target, auditOutcome c s) := by
  cases hl : s.lastFlush <;> cases hi : s.bm.buf.items <;>
    by_cases ht : 0 < s.target <;> by_cases hs : 0 < s.slots <;>
    simp [auditSpecV2, doAudit, auditOutcome, auditCond, hg, hl, hi, ht, hs] <;> (try omega)
  all_goals (split <;> rfl)

/-- a batch's time limit: the watcher's MaxOperationTime if it is set, else the Batcher's (`effMot`, C11) -/
theorem trans_C11_effMot_v2 (r : T_v2_batcher) (mot wMot : Nat) :
    v2_effMot r mot wMot = (if wMot > 0 then wMot else mot : Nat) := by
  by_cases h : wMot > 0 <;> simp [v2_effMot, h]

theorem trans_C11_effMot_v1 (r : T_v1_Batcher) (mot wMot : Nat) :
    v1_effMot r mot wMot = (if wMot > 0 then wMot else mot : Nat) := by
  by_cases h : wMot > 0 <;> simp [v1_effMot, h]

theorem trans_C11_effMot_is_model (c : BCfg) (w : Nat) (r : T_v2_batcher) :
    v2_effMot r c.mot (c.wMot w) = (effMot c w : Nat) := by
  rw [trans_C11_effMot_v2]; simp [effMot]

/-! ### Batcher: the capacity arm of the loop -/

/-- every CapacityInterval tick with a rate limiter attached calls `GiveMe` with the demand as it is at that moment
(`NeedsCapacity()`), and without a limiter calls nothing -/
theorem trans_C12_capacityArm_v2 (target : Nat) (limited emitRequest : Bool) :
    v2_capacityArm ⟨target⟩ limited emitRequest = (limited, if limited then (target : Int) else 0) := by
  cases limited <;> simp [v2_capacityArm, v2_NeedsCapacity]

theorem trans_C12_capacityArm_v1 (target : Nat) (limited : Bool) :
    v1_capacityArm ⟨target⟩ limited = (limited, if limited then (target : Int) else 0) := by
  cases limited <;> simp [v1_capacityArm, v1_NeedsCapacity, v1_getTarget]

/-- ... which is the machine's `takeCap` label: the request it records is the one the translated arm makes -/
theorem trans_C12_capacityArm_is_takeCap (c : BCfg) (s s' : St) (e : Bool) (h : step c s .takeCap = some s') :
    s'.giveMes = s.giveMes ++
      (if (v2_capacityArm ⟨s.target⟩ c.limited e).1 then [(s.now, (v2_capacityArm ⟨s.target⟩ c.limited e).2.toNat)] else []) := by
  rw [trans_C12_capacityArm_v2]
  simp only [step] at h
  split at h
  · cases h; cases c.limited <;> simp
  · cases h

/-! ### Batcher: the pause arm of the loop -/

/-- taking a pause request: the loop sleeps EXACTLY PauseTime (one `time.Sleep(r.pauseTime)`, nothing else that takes
time), then `resume()` puts the phase back to started only if it is still paused - a Stop() that arrived during the
pause (phase stopped = 3) is not undone (C16) -/
theorem trans_C13_C16_pauseArm_v2 (ph pauseTime : Int) :
    v2_pauseArm ⟨ph⟩ pauseTime = (⟨if ph = 2 then 1 else ph⟩, true, pauseTime) := by
  by_cases h : ph = 2 <;> simp [v2_pauseArm, v2_resume, h]

theorem trans_C13_C16_pauseArm_v1 (ph pauseTime : Int) :
    v1_pauseArm ⟨ph⟩ pauseTime = (⟨if ph = 2 then 1 else ph⟩, true, pauseTime) := by
  by_cases h : ph = 2 <;> simp [v1_pauseArm, v1_resume, h]

/-! ### Batcher: the tail of `Enqueue` (count, insert, roll back) -/

/-- v2 `Enqueue` after the admission checks, with the buffer's answer as an input: an operation the buffer refuses
(full in error mode, shut down) leaves `NeedsCapacity()` exactly as it was and its error is returned; an accepted one
adds exactly its cost (no wrap while the total stays below 2^32) - the repaired findings F1 / F2, now for every
demand, cost and error value -/
theorem trans_C03_C15_C19_enqueueTail_v2 (t c : Nat) (e : String) (h : t + c < 4294967296) :
    v2_enqueueTail ⟨t⟩ c e = (if e = "" then (⟨((t + c : Nat) : Int)⟩, "") else (⟨(t : Int)⟩, e)) := by
  have hadd := trans_C03_C14_incTarget_add_v2 t c h
  have hsub := trans_C03_C11_incTarget_sub_v2 (t + c) c (by omega) (by omega)
  simp only [v2_enqueueTail]
  rw [hadd]
  by_cases he : e = ""
  · simp [he]
  · simp only [he, bne_iff_ne, ne_eq, not_false_eq_true, if_true, if_false]
    rw [show (-(c : Int)) = -((c : Nat) : Int) from rfl, hsub]
    simp [decTarget]

/-! ### Batcher v2: the concurrency slots

`r.inflight` is a `chan struct{}` of capacity MaxConcurrentBatches; the translator reads it as the number of tokens in
it (a non-blocking send succeeds iff it is below its capacity, a receive takes one token, the audit's drain loop
empties it). -/

/-- `tryReserveBatchSlot()` is the machine's `slotFree` / `slotsAfter`: always true without a limit; with a limit it
takes a slot iff fewer than the limit are taken -/
theorem trans_C10_tryReserveBatchSlot_is_model (c : BCfg) (s : St) :
    v2_tryReserveBatchSlot ⟨c.mcb, s.slots⟩ = (⟨c.mcb, (slotsAfter c s (slotFree c s) : Nat)⟩, slotFree c s) := by
  by_cases h0 : c.mcb = 0
  · simp [v2_tryReserveBatchSlot, slotFree, slotsAfter, h0]
  · by_cases h1 : s.slots < c.mcb
    · simp [v2_tryReserveBatchSlot, slotFree, slotsAfter, h0, h1]
    · simp [v2_tryReserveBatchSlot, slotFree, slotsAfter, h0, h1]

/-- never more tokens than the limit: reserving keeps `inflight ≤ MaxConcurrentBatches` -/
theorem trans_C10_reserve_keeps_bound (mcb slots : Nat) (h : slots ≤ mcb) :
    (v2_tryReserveBatchSlot ⟨mcb, slots⟩).1.inflight ≤ mcb := by
  by_cases h0 : mcb = 0 <;> by_cases h1 : slots < mcb <;> simp [v2_tryReserveBatchSlot, h0, h1] <;> omega

/-- `releaseBatchSlot()` (at the write-off of a batch, C11) gives back exactly one slot when a limit is set -/
theorem trans_C10_C11_releaseBatchSlot_v2 (mcb slots : Nat) (h : 0 < slots) :
    v2_releaseBatchSlot ⟨mcb, slots⟩ = ⟨mcb, ((if mcb ≠ 0 then slots - 1 else slots : Nat) : Int)⟩ := by
  by_cases h0 : mcb = 0
  · simp [v2_releaseBatchSlot, h0]
  · have h0' : 0 < mcb := by omega
    have hs : (0 : Int) < (slots : Int) := by omega
    simp [v2_releaseBatchSlot, h0, h0', hs]
    omega

/-- the audit's drain: afterwards no slot is taken, and it reports whether one was (the machine's `doAudit`:
`slots := 0`, outcome `failInflight` / `failBoth` iff `slots > 0`) -/
theorem trans_C10_C19_confirmInflightIsZero_v2 (mcb slots : Nat) :
    v2_confirmInflightIsZero ⟨mcb, slots⟩ = (⟨mcb, 0⟩, decide (slots = 0)) := by
  by_cases h : slots = 0
  · simp [v2_confirmInflightIsZero, h]
  · have hs : 0 < slots := by omega
    simp [v2_confirmInflightIsZero, h, hs]

/-- `Inflight()` reports the number of slots taken -/
theorem trans_C10_Inflight_v2 (mcb slots : Nat) (h : slots < 4294967296) : v2_Inflight ⟨mcb, slots⟩ = slots := by
  simp [v2_Inflight, u32]; omega

/-! ### Batcher: `Pause()` -/

/-- `Pause()` has an effect exactly when the Batcher is started (phase 1): it leaves one pause request for the loop
(never more than one: the channel holds a single token) and the phase paused, so that a second `Pause()` - made before
the loop has even taken the request, or during the pause - changes nothing; before Start, while paused and after
shutdown it is ignored (the machine's `pauseCall`) -/
theorem trans_C13_Pause_v2 (ph tok : Nat) (h : tok ≤ 1) :
    v2_Pause { phase := ph, pause := tok } = (if ph = 1 then { phase := 2, pause := 1 } else { phase := ph, pause := tok }) := by
  by_cases h1 : ph = 1
  · have : tok = 0 ∨ tok = 1 := by omega
    rcases this with h0 | h0 <;> simp [v2_Pause, h1, h0]
  · have h1' : ¬ (ph : Int) = 1 := by omega
    simp [v2_Pause, h1, h1']

theorem trans_C13_Pause_v1 (ph tok : Nat) (h : tok ≤ 1) :
    v1_Pause { phase := ph, pause := tok } = (if ph = 1 then { phase := 2, pause := 1 } else { phase := ph, pause := tok }) := by
  by_cases h1 : ph = 1
  · have : tok = 0 ∨ tok = 1 := by omega
    rcases this with h0 | h0 <;> simp [v1_Pause, h1, h0]
  · have h1' : ¬ (ph : Int) = 1 := by omega
    simp [v1_Pause, h1, h1']

/-- two `Pause()` calls in a row are one -/
theorem trans_C13_Pause_idempotent_v2 (ph tok : Nat) (h : tok ≤ 1) :
    v2_Pause (v2_Pause { phase := ph, pause := tok }) = v2_Pause { phase := ph, pause := tok } := by
  rw [trans_C13_Pause_v2 ph tok h]
  by_cases h1 : ph = 1
  · simp only [h1, if_true]; exact trans_C13_Pause_v2 2 1 (by omega)
  · simp only [h1, if_false]; rw [trans_C13_Pause_v2 ph tok h]; simp [h1]

/-! ### Batcher lifecycle: the head of `Start`, v1's `Stop` -/

/-- `Start` goes on to create its tickers and its loop only from the uninitialised phase (v1: and with a buffer); any
later call is refused with the improper-order error and changes nothing (C16: starts exactly once); on the way the
defaults are applied -/
theorem trans_C16_startHead_v2 (r : T_v2_batcher_cfg) (phase : Nat) :
    v2_startHead r phase = (if phase = 0 then (v2_applyDefaults r, "") else (r, "ImproperOrderError")) := by
  by_cases h : phase = 0
  · simp [v2_startHead, h]
  · have h' : ¬ (phase : Int) = 0 := by omega
    simp [v2_startHead, h, h']

theorem trans_C16_startHead_v1 (r : T_v1_Batcher_cfg) (phase : Nat) (noBuffer : Bool) :
    v1_startHead r phase noBuffer =
      (if phase ≠ 0 then (r, "BatcherImproperOrderError") else if noBuffer then (r, "BufferNotAllocated")
       else (v1_applyDefaults r, "")) := by
  by_cases h : phase = 0
  · cases noBuffer <;> simp [v1_startHead, h]
  · have h' : ¬ (phase : Int) = 0 := by omega
    simp [v1_startHead, h, h']

/-- v1 `Stop()`: on a stopped Batcher it does nothing at all - in particular it does not close the stop channel a
second time (a close of a closed channel panics); otherwise it closes it once, marks the Batcher stopped and waits for
the loop -/
theorem trans_C16_C20_Stop_v1 (phase : Nat) (hasStop : Bool) :
    v1_Stop ⟨phase⟩ hasStop = (if phase = 3 then (⟨3⟩, false, false) else (⟨3⟩, hasStop, true)) := by
  by_cases h : phase = 3
  · simp [v1_Stop, h]
  · have h' : ¬ (phase : Int) = 3 := by omega
    cases hasStop <;> simp [v1_Stop, h, h']

/-- Stop after Stop changes nothing and closes nothing -/
theorem trans_C16_C20_Stop_twice_v1 (phase : Nat) (hasStop : Bool) :
    v1_Stop (v1_Stop ⟨phase⟩ hasStop).1 hasStop = (⟨3⟩, false, false) := by
  rw [trans_C16_C20_Stop_v1]
  by_cases h : phase = 3 <;> simp [h] <;> exact trans_C16_C20_Stop_v1 3 hasStop

/-! ### SharedResource v2: live reconfiguration -/

/-- `SetSharedCapacity(v)`: an error (and no change at all) without a lease manager; otherwise the new value is
stored and ONE re-provisioning request is left for the loop - a request already pending is not doubled, and the
value the loop will read is the latest one (it re-reads `sharedCapacity`, the request carries no value) -/
theorem trans_C17_SetSharedCapacity_v2 (sh : Int) (lm : Bool) (pending v : Nat) (hp : pending ≤ 1) :
    v2_sr_SetSharedCapacity { sharedCapacity := sh, leaseManager := lm, provision := pending } v =
      (if lm then ({ sharedCapacity := v, leaseManager := true, provision := 1 }, "")
       else ({ sharedCapacity := sh, leaseManager := false, provision := pending }, "SharedCapacityNotProvisioned")) := by
  have : pending = 0 ∨ pending = 1 := by omega
  cases lm <;> rcases this with h | h <;> simp [v2_sr_SetSharedCapacity, v2_sr_scheduleProvision, h]

/-- two calls in a row: the second value wins, one request is pending -/
theorem trans_C09_C17_SetSharedCapacity_twice_v2 (sh : Int) (pending v w : Nat) (hp : pending ≤ 1) :
    (v2_sr_SetSharedCapacity (v2_sr_SetSharedCapacity { sharedCapacity := sh, leaseManager := true, provision := pending } v).1 w).1
      = { sharedCapacity := w, leaseManager := true, provision := 1 } := by
  rw [trans_C17_SetSharedCapacity_v2 sh true pending v hp]
  simp only [if_true]
  have := trans_C17_SetSharedCapacity_v2 v true 1 w (by omega)
  simp only [if_true] at this
  exact congrArg Prod.fst this

/-- re-provisioning swaps in a list of exactly the new partition count that agrees with the old one wherever both
have a slot: held partitions that still exist stay counted, dropped ones are gone, new ones start free -/
theorem trans_C07_C17_reprovision_v2 (r : T_v2_sharedResource) :
    (v2_sr_reprovision r).2 = v2_sr_partitionCount r ∧
    (v2_sr_reprovision r).1.partitions.length = (v2_sr_partitionCount r).toNat ∧
    (∀ i, i < (v2_sr_partitionCount r).toNat →
        (v2_sr_reprovision r).1.partitions.getD i false = r.partitions.getD i false) ∧
    (v2_sr_reprovision r).1.factor = r.factor ∧ (v2_sr_reprovision r).1.sharedCapacity = r.sharedCapacity ∧
    (v2_sr_reprovision r).1.target = r.target := by
  simp only [v2_sr_reprovision, v2_sr_partitionCount]
  generalize hc : (if decide (goCeilDiv r.sharedCapacity r.factor > 500) = true then (500 : Int)
      else goCeilDiv r.sharedCapacity r.factor) = cnt
  refine ⟨by trivial, ?_, ?_, by trivial, by trivial, by trivial⟩
  · simp only [List.length_append, List.length_take, List.length_drop, List.length_replicate]; omega
  · intro i hi
    simp only [List.getD_eq_getElem?_getD, List.length_replicate]
    by_cases h : i < r.partitions.length
    · rw [List.getElem?_append_left (by simp [List.length_take]; omega)]
      simp [List.getElem?_take, hi]
    · have hlen : (List.take cnt.toNat r.partitions).length = r.partitions.length := by
        simp [List.length_take]; omega
      rw [List.getElem?_append_right (by omega), hlen]
      have : r.partitions[i]? = none := by simp [List.getElem?_eq_none]; omega
      rw [this]
      simp [List.getElem?_drop, List.getElem?_replicate]
      split <;> rfl

/-! ### the translated functions as steps of the Batcher machine

The phase constants of the source (`iota`: uninitialised 0, started 1, paused 2, stopped 3) against the machine's
`Phase`; the one-token pause channel against `pauseReq`. -/

def phaseNum : Phase → Nat
  | .uninit => 0 | .started => 1 | .paused => 2 | .stopped => 3

/-- the translated `Pause()` IS the machine's `pauseCall` label -/
theorem trans_C13_Pause_is_pauseCall (c : BCfg) (s s' : St) (h : step c s .pauseCall = some s') :
    v2_Pause { phase := phaseNum s.phase, pause := if s.pauseReq then 1 else 0 } =
      { phase := phaseNum s'.phase, pause := if s'.pauseReq then 1 else 0 } := by
  simp only [step] at h
  cases hp : s.phase <;> cases hr : s.pauseReq <;> simp [hp] at h <;> subst h <;>
    simp [v2_Pause, phaseNum, hp, hr]

/-- the translated `resume()` (end of the pause arm) IS what the machine's `wake` label does to the phase -/
theorem trans_C13_C16_resume_is_wake (c : BCfg) (s s' : St) (h : step c s .wake = some s') :
    v2_resume ⟨phaseNum s.phase⟩ = ⟨phaseNum s'.phase⟩ := by
  simp only [step] at h
  split at h
  · split at h
    · cases h
      cases hp : s.phase <;> simp [v2_resume, phaseNum, hp]
    · cases h
  · cases h

/-- the machine's `startCall` is enabled exactly when the translated head of `Start` goes on (returns no error) -/
theorem trans_C16_startHead_is_startCall (c : BCfg) (s : St) (r : T_v2_batcher_cfg) :
    (step c s .startCall).isSome ↔ (v2_startHead r (phaseNum s.phase)).2 = "" := by
  rw [trans_C16_startHead_v2]
  cases hp : s.phase <;> simp [step, phaseNum, hp]

/-- v1 `Enqueue` after the admission checks: in error mode a full buffer (the channel holds `bufCap` operations)
refuses the operation with `BufferFullError`, leaves `NeedsCapacity()` exactly as it was and puts nothing into the
buffer; otherwise the operation is in the buffer and the demand has grown by exactly its cost (the repaired finding
F1). In blocking mode the send is a plain channel send (it blocks while the buffer is full). -/
theorem trans_C03_C15_C19_enqueueTail_v1 (t c held bufCap : Nat) (eof : Bool) (h : t + c < 4294967296) :
    v1_enqueueTail { buffer := held, target := t } c eof bufCap =
      (if eof = true ∧ ¬ held < bufCap then ({ buffer := held, target := t }, "BufferFullError")
       else ({ buffer := (held + 1 : Nat), target := ((t + c : Nat) : Int) }, "")) := by
  have hadd := trans_C03_C14_incTarget_add_v1 t c h
  have hsub := trans_C03_C11_incTarget_sub_v1 (t + c) c (by omega) (by omega)
  have eB : ((held : Int) < (bufCap : Int)) ↔ held < bufCap := by omega
  have hsub' : v1_incTarget { target := (t : Int) + (c : Int) } (-(c : Int)) = { target := (t : Int) } := by
    have := hsub
    simp only [decTarget] at this
    have e : (t + c - c : Nat) = t := by omega
    have e2 : ((t + c : Nat) : Int) = (t : Int) + (c : Int) := by omega
    rw [e2] at this
    rw [this, e]
  cases eof <;> by_cases hb : held < bufCap <;>
    simp [v1_enqueueTail, hadd, hsub', hb, eB]

/-! ### Batcher v2: what finishing a batch does (the tail of `processBatch`'s goroutine) -/

theorem foldl_add_eq_sum (l : List Nat) (z : Int) :
    (l.map (fun (n : Nat) => (n : Int))).foldl (fun total (x : Int) => total + x) z = z + ((l.sum : Nat) : Int) := by
  induction l generalizing z with
  | nil => simp
  | cons a rest ih => simp only [List.map_cons, List.foldl_cons, List.sum_cons]; rw [ih]; omega

/-- when a batch is done - its callback returned or its time limit passed - the demand drops by exactly the cost of
its operations (never below zero) and exactly one slot is given back when a limit is set: the machine's `finish`
label (`decTarget`, `slots - 1`), for every batch, demand and slot state -/
theorem trans_C03_C10_C11_finishTail_v2 (t mcb slots : Nat) (costs : List Nat) (ht : t < 4294967296)
    (hc : costs.sum < 4294967296) (hs : 0 < slots) :
    v2_finishTail { maxConcurrentBatches := mcb, inflight := slots, target := t } (costs.map (fun (n : Nat) => (n : Int))) =
      ({ maxConcurrentBatches := mcb, inflight := ((if mcb ≠ 0 then slots - 1 else slots : Nat) : Int),
         target := ((decTarget t costs.sum : Nat) : Int) }, (costs.sum : Int)) := by
  have hsum := foldl_add_eq_sum costs 0
  have hsub := trans_C03_C11_incTarget_sub_v2 t costs.sum ht hc
  have hrel := trans_C10_C11_releaseBatchSlot_v2 mcb slots hs
  simp only [v2_finishTail, hsum, Int.zero_add]
  rw [hsub, hrel]

/-- v1: the same without slots -/
theorem trans_C03_C11_finishTail_v1 (t : Nat) (costs : List Nat) (ht : t < 4294967296) (hc : costs.sum < 4294967296) :
    v1_finishTail ⟨t⟩ (costs.map (fun (n : Nat) => (n : Int))) = (⟨((decTarget t costs.sum : Nat) : Int)⟩, (costs.sum : Int)) := by
  have hsum := foldl_add_eq_sum costs 0
  have hsub := trans_C03_C11_incTarget_sub_v1 t costs.sum ht hc
  simp only [v1_finishTail, hsum, Int.zero_add]
  rw [hsub]

/-! ### SharedResource: what the loop does with the answer of a lease call (the repaired finding F7) -/

/-- the loop counts a partition only for a lease the store granted (`granted > 0` ns) and that has not run out while
the answer travelled (`elapsed < granted`); the goroutine that stops counting it sleeps `granted - elapsed`, i.e. the
partition is counted until exactly `granted` after the REQUEST was issued - never longer than the store's lease,
whatever the latency of the call; a late answer is dropped (nothing marked, nothing spawned) -/
theorem trans_C04_C09_grant_v2 (r : T_v2_sharedResource_grant) (now granted elapsed : Nat) :
    (v2_sr_grant r now granted elapsed).2 =
      (if granted = 0 ∨ granted ≤ elapsed then (false, 0, false) else (true, ((granted - elapsed : Nat) : Int), true)) := by
  by_cases h0 : granted = 0
  · simp [v2_sr_grant, h0]
  · by_cases h1 : granted ≤ elapsed
    · have h1' : (granted : Int) - (elapsed : Int) ≤ 0 := by omega
      have h0' : ¬ (granted : Int) = 0 := by omega
      simp [v2_sr_grant, h0, h1, h1', h0']
    · have h1' : ¬ (granted : Int) - (elapsed : Int) ≤ 0 := by omega
      have h0' : ¬ (granted : Int) = 0 := by omega
      simp [v2_sr_grant, h0, h1, h1', h0']
      omega

theorem trans_C04_C09_grant_v1 (r : T_v1_AzureSharedResource_grant) (now granted elapsed : Nat) :
    v1_sr_grant r now granted elapsed =
      (if granted = 0 ∨ granted ≤ elapsed then (false, 0, false) else (true, ((granted - elapsed : Nat) : Int), true)) := by
  by_cases h0 : granted = 0
  · simp [v1_sr_grant, h0]
  · by_cases h1 : granted ≤ elapsed
    · have h1' : (granted : Int) - (elapsed : Int) ≤ 0 := by omega
      have h0' : ¬ (granted : Int) = 0 := by omega
      simp [v1_sr_grant, h0, h1, h1', h0']
    · have h1' : ¬ (granted : Int) - (elapsed : Int) ≤ 0 := by omega
      have h0' : ¬ (granted : Int) = 0 := by omega
      simp [v1_sr_grant, h0, h1, h1', h0']
      omega

/-- the instant the partition stops being counted: request time + elapsed + sleep = request time + lease -/
theorem trans_C04_counted_until_issue_plus_lease_v2 (r : T_v2_sharedResource_grant) (now granted elapsed : Nat)
    (h : (v2_sr_grant r now granted elapsed).2.2.2 = true) :
    (now : Int) + elapsed + (v2_sr_grant r now granted elapsed).2.2.1 = now + granted := by
  rw [trans_C04_C09_grant_v2] at h ⊢
  by_cases hc : granted = 0 ∨ granted ≤ elapsed
  · simp [hc] at h
  · simp only [hc, if_false]
    omega

/-- ... which is the machine's `ret` label for a granted call: dropped iff the lease has already run out when the answer
arrives, else counted with a timer at issue time + lease (`afterGrant`) -/
theorem trans_C04_grant_is_ret (r : T_v2_sharedResource_grant) (s : LSt) (cl : LCall) (hl : 0 < s.lease)
    (hi : cl.issuedAt ≤ s.now) (e : Nat) (he : e = s.now - cl.issuedAt) :
    ((v2_sr_grant r cl.issuedAt s.lease e).2.2.2 = true ↔ ¬ (cl.issuedAt + s.lease ≤ s.now)) ∧
    ((v2_sr_grant r cl.issuedAt s.lease e).2.2.2 = true →
      (s.now : Int) + (v2_sr_grant r cl.issuedAt s.lease e).2.2.1 = ((cl.issuedAt + s.lease : Nat) : Int)) := by
  rw [trans_C04_C09_grant_v2]
  by_cases hc : s.lease = 0 ∨ s.lease ≤ e
  · simp only [hc, if_true]
    refine ⟨⟨fun h => by simp at h, fun h => ?_⟩, fun h => by simp at h⟩
    rcases hc with h0 | h1
    · omega
    · exfalso; apply h; omega
  · simp only [hc, if_false]
    refine ⟨⟨fun _ => by omega, fun _ => trivial⟩, fun _ => by omega⟩

/-! ### Batcher: `Flush()` -/

/-- `Flush()` (also what every FlushInterval tick calls) leaves exactly one cycle request for the loop: requests
made while one is pending - during a cycle, a pause, before Start - coalesce (the machine's `flushReq := true`) -/
theorem trans_C02_C08_Flush_v2 (tok : Nat) (h : tok ≤ 1) : v2_Flush ⟨tok⟩ = ⟨1⟩ := by
  have : tok = 0 ∨ tok = 1 := by omega
  rcases this with h0 | h0 <;> simp [v2_Flush, h0]

theorem trans_C02_C08_Flush_v1 (tok : Nat) (h : tok ≤ 1) : v1_Flush ⟨tok⟩ = ⟨1⟩ := by
  have : tok = 0 ∨ tok = 1 := by omega
  rcases this with h0 | h0 <;> simp [v1_Flush, h0]

theorem trans_C02_C08_Flush_is_flushCall (c : BCfg) (s s' : St) (h : step c s .flushCall = some s') :
    v2_Flush ⟨if s.flushReq then 1 else 0⟩ = ⟨if s'.flushReq then 1 else 0⟩ := by
  simp only [step] at h
  cases h
  cases s.flushReq <;> simp [v2_Flush]

/-! ### the listener registry (v2 `EventerBase`; the sequential meaning of what runs under its RWMutex)

The map `listeners` is an association list (id, listener); `uuid.New()` is an input. -/

/-- `AddListener` registers the listener under the fresh id and returns that id; every other registration stays -/
theorem trans_C20_AddListener_v2 (ls : List (Int × Int)) (newId fn : Int) (hfresh : ∀ kv ∈ ls, kv.1 ≠ newId) :
    v2_ev_AddListener ⟨ls⟩ newId fn = (⟨(newId, fn) :: ls⟩, newId) := by
  have hf : ls.filter (fun kv => kv.1 != newId) = ls := by
    apply List.filter_eq_self.2
    intro kv hkv
    simpa using hfresh kv hkv
  cases ls with
  | nil => simp [v2_ev_AddListener]
  | cons a rest => simp [v2_ev_AddListener] at hf ⊢; exact hf

/-- after `RemoveListener(id)` has returned no registration under `id` is left, and every other one is -/
theorem trans_C20_RemoveListener_v2 (ls : List (Int × Int)) (id : Int) :
    (∀ kv ∈ (v2_ev_RemoveListener ⟨ls⟩ id).listeners, kv.1 ≠ id) ∧
    (∀ kv ∈ ls, kv.1 ≠ id → kv ∈ (v2_ev_RemoveListener ⟨ls⟩ id).listeners) := by
  simp only [v2_ev_RemoveListener, List.mem_filter]
  exact ⟨fun kv h => by simpa using h.2, fun kv h hne => ⟨h, by simpa using hne⟩⟩

/-- `Emit` calls exactly the registered listeners, each once per registration (the machine's snapshot at `emitBegin`) -/
theorem trans_C20_Emit_v2 (ls : List (Int × Int)) (val : Int) : v2_ev_Emit ⟨ls⟩ val = ls.map (·.2) := by
  simp [v2_ev_Emit]

/-- so a listener removed before an emit begins is not called by it, and one added before is -/
theorem trans_C20_no_call_after_remove_v2 (ls : List (Int × Int)) (id fn val : Int)
    (huniq : ∀ kv ∈ ls, kv.2 = fn → kv.1 = id) :
    fn ∉ v2_ev_Emit (v2_ev_RemoveListener ⟨ls⟩ id) val := by
  rw [trans_C20_Emit_v2]
  intro h
  obtain ⟨kv, hkv, hfn⟩ := List.mem_map.1 h
  have := (trans_C20_RemoveListener_v2 ls id).1 kv hkv
  simp only [v2_ev_RemoveListener, List.mem_filter] at hkv
  exact this (huniq kv hkv.1 hfn)

/-- v1's registry (`eventer`) is the same three functions -/
theorem trans_C20_eventer_v1 (ls : List (Int × Int)) (newId fn id val : Int) (hfresh : ∀ kv ∈ ls, kv.1 ≠ newId) :
    v1_ev_AddListener ⟨ls⟩ newId fn = (⟨(newId, fn) :: ls⟩, newId) ∧
    (∀ kv ∈ (v1_ev_RemoveListener ⟨ls⟩ id).listeners, kv.1 ≠ id) ∧
    (∀ kv ∈ ls, kv.1 ≠ id → kv ∈ (v1_ev_RemoveListener ⟨ls⟩ id).listeners) ∧
    v1_ev_emit ⟨ls⟩ val = ls.map (·.2) := by
  have hf : ls.filter (fun kv => kv.1 != newId) = ls := by
    apply List.filter_eq_self.2
    intro kv hkv
    simpa using hfresh kv hkv
  refine ⟨?_, ?_, ?_, by simp [v1_ev_emit]⟩
  · cases ls with
    | nil => simp [v1_ev_AddListener]
    | cons a rest => simp [v1_ev_AddListener] at hf ⊢; exact hf
  · simp only [v1_ev_RemoveListener, List.mem_filter]; exact fun kv h => by simpa using h.2
  · simp only [v1_ev_RemoveListener, List.mem_filter]; exact fun kv h hne => ⟨h, by simpa using hne⟩

/-! ### Batcher v2: the configuration setters C16 names -/

/-- after `Start` (any phase but uninitialised: started, paused, stopped) every one of the seven setters panics and
changes nothing - it never silently takes effect -/
theorem trans_C16_setters_panic_after_start_v2 (r : T_v2_batcher_set) (h : r.phase ≠ 0) (rl : Bool) (v : Int) :
    v2_WithRateLimiter r rl = (r, false, true) ∧ v2_WithFlushInterval r v = (r, false, true) ∧
    v2_WithCapacityInterval r v = (r, false, true) ∧ v2_WithAuditInterval r v = (r, false, true) ∧
    v2_WithMaxOperationTime r v = (r, false, true) ∧ v2_WithPauseTime r v = (r, false, true) ∧
    v2_WithErrorOnFullBuffer r = (r, false, true) := by
  simp [v2_WithRateLimiter, v2_WithFlushInterval, v2_WithCapacityInterval, v2_WithAuditInterval,
    v2_WithMaxOperationTime, v2_WithPauseTime, v2_WithErrorOnFullBuffer, h]

/-- before `Start` they set their value and nothing else, without a panic -/
theorem trans_C16_setters_before_start_v2 (r : T_v2_batcher_set) (h : r.phase = 0) (rl : Bool) (v : Int) :
    v2_WithRateLimiter r rl = ({ r with ratelimiter := rl }, true, false) ∧
    v2_WithFlushInterval r v = ({ r with flushInterval := v }, true, false) ∧
    v2_WithCapacityInterval r v = ({ r with capacityInterval := v }, true, false) ∧
    v2_WithAuditInterval r v = ({ r with auditInterval := v }, true, false) ∧
    v2_WithMaxOperationTime r v = ({ r with maxOperationTime := v }, true, false) ∧
    v2_WithPauseTime r v = ({ r with pauseTime := v }, true, false) ∧
    v2_WithErrorOnFullBuffer r = ({ r with errorOnFullBuffer := true }, true, false) := by
  simp [v2_WithRateLimiter, v2_WithFlushInterval, v2_WithCapacityInterval, v2_WithAuditInterval,
    v2_WithMaxOperationTime, v2_WithPauseTime, v2_WithErrorOnFullBuffer, h]

/-! ### shutting down; marking a partition -/

/-- v2 `shutdown()` (run by the loop when the context is cancelled): the buffer is shut down (its waiters are released:
`trans_C15_shutdown`, `BufM`), the phase becomes stopped, one shutdown event is raised - whatever the phase was -/
theorem trans_C15_C16_shutdown_v2 (ph : Int) : v2_shutdown ⟨ph⟩ = (⟨3⟩, true, "ShutdownEvent|") := rfl

theorem trans_C17_shutdown_v2 (ph : Int) : v2_sr_shutdown ⟨ph⟩ = (⟨3⟩, "ShutdownEvent|") := rfl

/-- `setPartitionId(i, id)` (after a grant) marks exactly partition `i` as held and touches no other; with the pick's
guarantee that `i` was free, the loop then holds one partition more -/
theorem trans_C04_C07_setPartitionId_v2 (r : T_v2_sharedResource) (i : Nat) (hi : i < r.partitions.length) :
    (v2_sr_setPartitionId r i).partitions.length = r.partitions.length ∧
    (v2_sr_setPartitionId r i).partitions.getD i false = true ∧
    (∀ j, j ≠ i → (v2_sr_setPartitionId r i).partitions.getD j false = r.partitions.getD j false) := by
  simp only [v2_sr_setPartitionId, Int.toNat_natCast, List.length_set, List.getD_eq_getElem?_getD, List.getElem?_set]
  refine ⟨trivial, by simp [hi], fun j hj => ?_⟩
  have : ¬ i = j := fun h => hj h.symm
  simp [this]

/-- the end of v1 `Provision`: `count` free partitions, and the phase becomes provisioned WHATEVER creating the
partition blobs answered - its error is handed to the caller, but a following `Start` is accepted (the lease scenarios
with `partErr` exercise exactly this) -/
theorem trans_C17_provisionTail_v1 (ph : Int) (ps : List Bool) (count : Nat) (e : String) :
    v1_sr_provisionTail { phase := ph, partitions := ps } count e =
      ({ phase := 1, partitions := List.replicate count false }, e) ∧
    v1_sr_startHead ⟨(v1_sr_provisionTail { phase := ph, partitions := ps } count e).1.phase⟩ = "" := by
  simp [v1_sr_provisionTail, v1_sr_startHead]

/-! ### the whole of v2 `Enqueue` -/

/-- v2 `Enqueue`, translated from its first to its last statement (the interface getters and the buffer's answer are
inputs): a rejected operation - by one of the four admission checks, in the model's order - changes nothing and gets
exactly that error; an admitted one the buffer refuses changes nothing either and gets the buffer's error; an
accepted one adds exactly its cost to the demand (C03, C14, C15, for every operation, limiter and demand) -/
theorem trans_C03_C14_C15_Enqueue_v2 (rl op w : Bool) (t cost maxCap maxAtt att : Nat) (e : String)
    (h : t + cost < 4294967296) :
    v2_Enqueue { ratelimiter := rl, target := t } op w cost maxCap maxAtt att e =
      (match validate { hasOp := op, hasWatcher := w, limited := rl, maxCap := maxCap, cost := cost,
                        maxAttempts := maxAtt, attempt := att } with
       | some err => ({ ratelimiter := rl, target := t }, errTag (some err))
       | none => if e = "" then ({ ratelimiter := rl, target := ((t + cost : Nat) : Int) }, "")
                 else ({ ratelimiter := rl, target := t }, e)) := by
  have hadd := trans_C03_C14_incTarget_add_v2 t cost h
  have hsub : v2_incTarget { target := (t : Int) + (cost : Int) } (-(cost : Int)) = { target := (t : Int) } := by
    have := trans_C03_C11_incTarget_sub_v2 (t + cost) cost (by omega) (by omega)
    simp only [decTarget] at this
    have e1 : (t + cost - cost : Nat) = t := by omega
    have e2 : ((t + cost : Nat) : Int) = (t : Int) + (cost : Int) := by omega
    rw [e2] at this
    rw [this, e1]
  have hadd' : v2_incTarget { target := (t : Int) } (cost : Int) = { target := (t : Int) + (cost : Int) } := by
    have e2 : ((t + cost : Nat) : Int) = (t : Int) + (cost : Int) := by omega
    rw [hadd, e2]
  by_cases he : e = ""
  · cases op <;> cases w <;> cases rl <;>
      simp [v2_Enqueue, validate, errTag, hadd', hsub, he] <;> repeat' split
    all_goals (first | rfl | omega | simp_all [errTag] | (exfalso; simp_all; omega))
  · cases op <;> cases w <;> cases rl <;>
      simp [v2_Enqueue, validate, errTag, hadd', hsub, he] <;> repeat' split
    all_goals (first | rfl | omega | simp_all [errTag] | (exfalso; simp_all; omega))

/-- v1 `Enqueue`, whole: the same, with the buffer a channel of `bufCap` places (`held` taken): in error mode a full
buffer refuses with `BufferFullError` and changes nothing; in blocking mode the send is taken to succeed (it blocks
while the buffer is full) -/
theorem trans_C03_C14_C15_Enqueue_v1 (rl op w eof : Bool) (t held bufCap cost maxCap maxAtt att : Nat)
    (h : t + cost < 4294967296) :
    v1_Enqueue { ratelimiter := rl, buffer := held, target := t } op w cost maxCap maxAtt att eof bufCap =
      (match validate { hasOp := op, hasWatcher := w, limited := rl, maxCap := maxCap, cost := cost,
                        maxAttempts := maxAtt, attempt := att } with
       | some err => ({ ratelimiter := rl, buffer := held, target := t }, errTag (some err))
       | none => if eof = true ∧ ¬ held < bufCap then ({ ratelimiter := rl, buffer := held, target := t }, "BufferFullError")
                 else ({ ratelimiter := rl, buffer := (held + 1 : Nat), target := ((t + cost : Nat) : Int) }, "")) := by
  have hadd := trans_C03_C14_incTarget_add_v1 t cost h
  have e2 : ((t + cost : Nat) : Int) = (t : Int) + (cost : Int) := by omega
  have hsub : v1_incTarget { target := (t : Int) + (cost : Int) } (-(cost : Int)) = { target := (t : Int) } := by
    have := trans_C03_C11_incTarget_sub_v1 (t + cost) cost (by omega) (by omega)
    simp only [decTarget] at this
    have e1 : (t + cost - cost : Nat) = t := by omega
    rw [e2] at this
    rw [this, e1]
  have hadd' : v1_incTarget { target := (t : Int) } (cost : Int) = { target := (t : Int) + (cost : Int) } := by
    rw [hadd, e2]
  have eB : ((held : Int) < (bufCap : Int)) ↔ held < bufCap := by omega
  by_cases hb : held < bufCap <;> cases eof <;> cases op <;> cases w <;> cases rl <;>
    simp [v1_Enqueue, validate, errTag, hadd', hsub, hb, eB] <;> repeat' split
  all_goals (first | rfl | omega | simp_all [errTag] | (exfalso; simp_all; omega))

/-! ### non-vacuity: the translated functions on concrete values (also a readable trace of what they compute) -/

example : v2_incTarget ⟨7⟩ 5 = ⟨12⟩ ∧ v2_incTarget ⟨7⟩ (-5) = ⟨2⟩ ∧ v2_incTarget ⟨7⟩ (-9) = ⟨0⟩ ∧ v2_incTarget ⟨7⟩ 0 = ⟨7⟩ := by decide
example : v1_incTarget ⟨4294967295⟩ 1 = ⟨0⟩ := by decide     -- the wrap-around the `total < 2^32` guard excludes
example : v1_trySetTargetToZero ⟨3⟩ = (⟨0⟩, true) ∧ v2_confirmTargetIsZero ⟨0⟩ = (⟨0⟩, true) := by decide
example : v2_sr_Capacity (v2_sr_calc ⟨10, 25, 7, 0, 0, [true, false, true]⟩) = 27 := by decide
example : v2_sr_MaxCapacity ⟨2, 5000, 7, 0, 0, []⟩ = 1007 := by decide
example : (v2_sr_GiveMe ⟨10, 100, 7, 0, 0, []⟩ 28).target = 3 := by decide
example : v2_sr_partitionCount ⟨10, 5001, 0, 0, 0, []⟩ = 500 := by decide
example : v1_sr_partitionCount ⟨1000, 500001, 0, 0, 0, []⟩ = (501, "PartitionsOutOfRangeError") := by decide
example : (v2_sr_clearPartitionId ⟨1, 2, 0, 0, 0, [true, true]⟩ 2).partitions = [true, true] := by decide
example : v2_enqueueAdmit ⟨true, 0, 0, 0, 0, 0⟩ true true 11 10 3 0 = "TooExpensiveError" ∧
          v2_enqueueAdmit ⟨false, 0, 0, 0, 0, 0⟩ true true 11 10 3 0 = "" ∧
          v1_enqueueAdmit ⟨true, 0, 0, 0, 0, 0⟩ true true 10 10 3 3 = "TooManyAttemptsError" ∧
          v1_enqueueAdmit ⟨true, 0, 0, 0, 0, 0⟩ true false 10 10 3 3 = "NoWatcherError" := by decide
example : v2_applyDefaults ⟨false, 0, -5, 7, 0, 1⟩ = ⟨false, 100000000, 100000000, 7, 60000000000, 1⟩ := by decide
example : v2_sr_pick ⟨1, 4, 0, 0, 0, [true, false, true, false]⟩ 1 = (2, 3, "") ∧
          v2_sr_pick ⟨1, 4, 0, 0, 0, [true, false, true, false]⟩ 0 = (2, 1, "") ∧
          v1_sr_pick ⟨1, 2, 0, 0, 0, [true, true]⟩ 0 = (2, 0, "error") := by decide
example : issueGuard (heldIdx [true, false, true, false]) 3 4 (v2_sr_pick ⟨1, 4, 0, 0, 0, [true, false, true, false]⟩ 1).2.1.toNat := by
  unfold issueGuard; decide
example : v2_op_Attempt (v2_op_MakeAttempt ⟨5, 4294967295, true⟩) = 0 := by decide   -- the wrap the guard excludes
example : v2_sr_requirements ⟨0, 0, 0⟩ = (⟨1, 500, 0⟩, "") ∧ v2_sr_requirements ⟨0, 0, 1⟩ = (⟨0, 0, 1⟩, "ImproperOrderError") := by decide
example : (v1_sr_requirements ⟨0, 0, 10, true, 0⟩) = (⟨1, 500, 10, true, 0⟩, "") := by decide
example : v2_auditArm ⟨7⟩ 0 11 10 false = (⟨0⟩, "AuditFailEvent|AuditMsgFailureOnTargetAndInflight") ∧
          v2_auditArm ⟨7⟩ 1 11 10 false = (⟨7⟩, "AuditSkipEvent|") ∧ v2_auditArm ⟨0⟩ 0 11 10 true = (⟨0⟩, "AuditPassEvent|") := by decide

end GoBatcher.ExpectTrans

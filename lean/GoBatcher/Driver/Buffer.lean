import GoBatcher.Model.Buffer
import GoBatcher.Generated.Facts
import GoBatcher.Driver.Parse
namespace GoBatcher.Driver
open GoBatcher

def resStr : EnqRes → String
  | .ok => "ok" | .full => "BufferFull" | .shutdown => "Shutdown" | .wouldBlock => "blocked"

def mkOp (k : Nat) : Op := { id := k, obj := k, w := 0, cost := 1, batchable := true }

def opStr : Option Op → String
  | none => "nil" | some o => toString o.id

/-- a candidate model state together with the length of `returned` at the last settled observation -/
abbrev Cand := BufM × Nat

def insertRet (x : Nat × EnqRes) : List (Nat × EnqRes) → List (Nat × EnqRes)
  | [] => [x]
  | y :: ys => if x.1 ≤ y.1 then x :: y :: ys else y :: insertRet x ys

/-- the order in which calls returned since the last settled observation is not observable: sort it -/
def normRet (m : BufM) (mark : Nat) : BufM :=
  { m with returned := m.returned.take mark ++ (m.returned.drop mark).foldr insertRet [] }

def dedup (l : List Cand) : List Cand := l.eraseDups

/-- all states reachable by letting woken callers re-check, in any order and number (trace ACCEPTANCE: the
harness cannot see when a woken goroutine actually runs) -/
def retryClosure (wos : Bool) (fuel : Nat) (seen : List Cand) (frontier : List Cand) : List Cand :=
  match fuel with
  | 0 => seen
  | fuel + 1 =>
    let next := frontier.flatMap fun (m, mark) =>
      -- after a waking shutdown the re-checks are independent (each just returns the error): one order suffices
      let ks := if wos && m.buf.shut then (m.woken.map (·.1)).take 1 else (m.woken.map (·.1)).eraseDups
      ks.filterMap fun k => (m.step wos (.retry k)).map (fun m' => (normRet m' mark, mark))
    let fresh := (dedup next).filter (fun c => !seen.contains c)
    if fresh.isEmpty then seen else retryClosure wos fuel (seen ++ fresh) fresh

def freshStr (m : BufM) (mark : Nat) : String :=
  let fresh := m.returned.drop mark
  if fresh.isEmpty then "-" else
    "+".intercalate (((fresh.map (·.1)).toArray.qsort (· < ·)).toList.map fun kk =>
      s!"{kk}:{resStr (((fresh.find? (·.1 == kk)).map (·.2)).getD .ok)}")

def checkBuffer (inp obs : KV) : Option String × List (String × String) :=
  if obs.has "panic" then (some ("fields=panic " ++ obs.get "panic"), [("C15", "panic:" ++ obs.get "panic")]) else
  let wos := Facts.v2_shutdownWakesWaiters.getD false
  let cap := inp.nat "cap"
  let acts := if inp.get "acts" == "-" || inp.get "acts" == "" then [] else (inp.get "acts").splitOn ","
  let obsL := if obs.get "obs" == "-" || obs.get "obs" == "" then [] else (obs.get "obs").splitOn ";"
  -- acceptance: the set of model states consistent with everything observed so far
  let init : List Cand × Option String := ([(BufM.new cap, 0)], none)
  let (_, failure) := ((acts.zip obsL).zipIdx).foldl (init := init) fun (cands, fail) ((a0, o), idx) =>
    if fail.isSome then (cands, fail) else
    let settled := !a0.endsWith "*"
    let a := if settled then a0 else (a0.dropEnd 1).toString
    let kind := (a.take 1).toString
    let k := ((a.drop 1).toNat?).getD 0
    let stepped : List (Cand × String) := cands.map fun (m, mark) =>
      if kind == "E" then (((m.step wos (.enq k (mkOp k) false)).getD m, mark), ".")
      else if kind == "F" then (((m.step wos (.enq k (mkOp k) true)).getD m, mark), ".")
      else if kind == "T" then (((m.step wos .top).getD m, mark), opStr m.buf.top.2)
      else if kind == "S" then (((m.step wos .skip).getD m, mark), opStr m.buf.skip.2)
      else if kind == "R" then (((m.step wos .remove).getD m, mark), opStr m.buf.remove.2)
      else (((m.step wos .shutdown).getD m, mark), ".")
    let parts := o.splitOn "/"
    let oret := parts.getD 0 "?"
    let keepRet := (stepped.filter (fun (_, r) => r == oret)).map (·.1)
    let closed := retryClosure wos 64 (dedup keepRet) (dedup keepRet)
    let result : List Cand :=
      if settled then
        (closed.filter fun (m, mark) =>
          m.woken.isEmpty && toString m.buf.items.length == parts.getD 1 "?" && freshStr m mark == parts.getD 2 "?").map
          fun (m, _) => (m, m.returned.length)
      else closed
    if result.isEmpty then
      let exp := match stepped.head? with
        | some ((m, mark), r) => let ms := retryClosure wos 64 [(m, mark)] [(m, mark)]
                                 let fin := (ms.filter (fun (c : Cand) => c.1.woken.isEmpty)).head?.getD (m, mark)
                                 s!"{r}/{fin.1.buf.items.length}/{freshStr fin.1 fin.2}"
        | none => "?"
      (result, some s!"fields=obs expected obs[{idx}]({a0})={exp} observed obs[{idx}]={o}")
    else (dedup result, none)
  let failure := if failure.isNone && acts.length != obsL.length then some "fields=obs expected as many observations as actions" else failure
  -- monitor on the observation alone
  let parsed := obsL.map fun e => match e.splitOn "/" with
    | [r, z, f] => (r, z, if f == "-" || f == "~" then [] else (f.splitOn "+").map fun (x : String) => match x.splitOn ":" with
        | [kk, res] => ((String.toNat? kk).getD 0, res) | _ => (0, "?"))
    | _ => ("?", "~", [])
  let (_, _, viols) := (acts.zip parsed).foldl (init := (([] : List Nat), false, ([] : List (String × String))))
    fun (outst, shut, vs) (a0, (_, zs, fresh)) =>
      let a := if a0.endsWith "*" then (a0.dropEnd 1).toString else a0
      let kind := (a.take 1).toString
      let k := ((a.drop 1).toNat?).getD 0
      let outst := if kind == "E" || kind == "F" then outst ++ [k] else outst
      let shut' := shut || kind == "X"
      if zs == "~" then (outst, shut', vs) else
      let z := (zs.toNat?).getD 0
      let outst := outst.filter fun x => !(fresh.any (·.1 == x))
      let vs := vs ++ (if z > cap then [("C15", "size-exceeds-capacity")] else [])
        ++ (if kind == "F" && !(fresh.any (·.1 == k)) then [("C15", "error-mode-enqueue-did-not-return-at-once")] else [])
        ++ (if fresh.any (fun (_, r) => r == "panic") then [("C15", "enqueue-panicked")] else [])
        ++ (if shut' && !outst.isEmpty then [("C15", "blocked-enqueue-at-shutdown-never-returns"), ("C20", "enqueue-blocks-for-ever-at-shutdown")] else [])
        ++ (if shut' && fresh.any (fun (_, r) => r == "ok") then [("C15", "enqueue-succeeds-at-or-after-shutdown")] else [])
        ++ (if !shut' && !outst.isEmpty && z < cap then [("C15", "blocked-enqueue-with-free-place"), ("C20", "enqueue-blocks-for-ever-with-free-place")] else [])
      (outst, shut', vs)
  (failure, viols.eraseDups)

end GoBatcher.Driver

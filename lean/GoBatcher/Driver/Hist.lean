import Std.Data.HashSet
import GoBatcher.Model.Batcher
import GoBatcher.Generated.Facts
import GoBatcher.Driver.Parse
import GoBatcher.Driver.Cycle
/-!
Replay of `hist` traces (timed API histories of the real Batcher) through the Batcher machine.

Acceptance, not output equality: Go's `select` picks randomly among ready arms and goroutines interleave, so the
driver keeps the SET of machine states consistent with everything observed so far. Every trace entry is mapped
to a visible label (or to bookkeeping); labels that leave no entry in the trace (`hidden`) may fire in any order
in between. A trace is rejected when the set becomes empty; the entry at which that happens is reported.
-/
namespace GoBatcher.Driver
open GoBatcher

structure HOp where
  w : Nat
  cost : Nat
  batchable : Bool
deriving Repr

structure HScn where
  c : BCfg
  flushMs : Nat
  pauseMs : Nat
  maxcap : Nat
  ops : Array HOp
  wMaxAtt : Nat → Nat
  cbDur : Nat → Int
  emitBatch : Bool := true     -- WithEmitBatch(): without it the trace has no `ev:batch` entries (monitors only)

structure HCand where
  st : St
  calls : List (Nat × Nat)       -- (k, obj): validated, cost not yet counted
  hooked : List Nat              -- parked at the hook
  reported : List Nat            -- calls whose `ret` entry has been consumed
  cap : Nat                      -- current Capacity() of the fake limiter
  maxc : Nat := 0                -- current MaxCapacity() of the fake limiter
  costs : List (Nat × Nat)       -- obj ↦ cost override
  pendingPause : Nat             -- Pause() calls announced in the trace whose effect has not been placed yet
  cbMap : List (Nat × Nat)       -- harness callback number ↦ model batch id
  cbStarted : List Nat           -- model batch ids whose callback start was seen
  stopWaiters : List Nat         -- v1 Stop() calls that wait for the loop to exit
  /-- entries the processing loop has already earned (its action has been placed) but not yet logged: a log
  line is written AFTER the action it reports, so other goroutines' lines can slip in between -/
  owed : List String
  /-- the cycle has been announced (`flush-start` raised, the limiter's `Capacity()` read) but the loop has not yet looked
  at the buffer (`top()`): those lines are written BEFORE the action, so another goroutine's Enqueue can still land
  in front of the walk. `some allowance` until the `cycleBegin` label is placed. -/
  pendingBegin : Option Nat := none
  /-- v2 raises a batch from inside the cycle (`processBatch`, which emits the batch event) BEFORE it advances the
  buffer cursor (`remove()`): the event line is written in the middle of the model's atomic `cycleStep`, so an
  Enqueue logged after it can still land in front of the cursor. The line is therefore owed first and the step
  placed after it. -/
  pendingStep : Bool := false
deriving DecidableEq, Hashable

def costOf (sc : HScn) (cd : HCand) (obj : Nat) : Nat :=
  match cd.costs.lookup obj with
  | some v => v
  | none => (sc.ops[obj]?.map (·.cost)).getD 0

/-- The trace identifies operations by object, not by call, so occurrences of one object are interchangeable:
giving them one `id` merges candidate states that differ only in which of two identical occurrences went where. -/
def mkOpFor (sc : HScn) (cd : HCand) (_k obj : Nat) : Op :=
  let o := sc.ops[obj]?.getD ⟨0, 0, true⟩
  { id := obj, obj := obj, w := o.w, cost := costOf sc cd obj, batchable := o.batchable }

def insK {α : Type} (x : Nat × α) : List (Nat × α) → List (Nat × α)
  | [] => [x]
  | y :: ys => if x.1 ≤ y.1 then x :: y :: ys else y :: insK x ys

/-- quotient by differences no observation can ever reveal: the order in which concurrent calls were counted
or returned (the model keeps them as lists) -/
def normSt (s : St) : St :=
  { s with pend := s.pend.foldr insK [], bm := { s.bm with returned := s.bm.returned.foldr insK [] } }

def stepC (sc : HScn) (cd : HCand) (l : Label) : Option HCand := (step sc.c cd.st l).map (fun s => { cd with st := normSt s })

/-- deliveries of object `obj` so far = MakeAttempt calls -/
def attemptsOf (s : St) (obj : Nat) : Nat :=
  (s.batches.map (fun b => (b.ops.filter (·.obj == obj)).length)).sum

/-! ### hidden labels -/

def objsStr (l : List Nat) : String := if l.isEmpty then "-" else "+".intercalate (l.map toString)

def auditStr (o : AuditOutcome) : String :=
  match o with
  | .pass => "ev:audit-pass:0" | .skip => "ev:audit-skip:0" | .failTarget => "ev:audit-fail:target"
  | .failInflight => "ev:audit-fail:inflight" | .failBoth => "ev:audit-fail:both"

/-- loop labels that leave entries in the trace, with the entries they owe -/
def loopVisible (sc : HScn) (cd : HCand) : List HCand :=
  let s := cd.st
  let fire (l : Label) (entries : St → List String) : List HCand :=
    match step sc.c s l with
    | some s' => [{ cd with st := normSt s', owed := entries s' }]
    | none => []
  let v2 := sc.c.gen == .v2
  let allow := allowance cd.cap sc.flushMs
  (if sc.c.limited then fire .takeCap (fun _ => [s!"ev:request:{s.target}", s!"giveme:{s.target}"]) else []) ++
  fire .takeAudit (fun s' => [(s'.audits.getLast?.map (fun x => auditStr x.2)).getD "?"]) ++
  fire .takeStop (fun _ => ["ev:shutdown:0"]) ++
  fire .takePause (fun _ => [s!"ev:pause:{sc.pauseMs}"]) ++
  fire .wake (fun _ => ["ev:resume:0"]) ++
  (if v2 || sc.c.limited then
     let a := if sc.c.limited then allow else 0
     match step sc.c s (.cycleBegin a) with
     | some _ => [{ cd with owed := (if v2 then ["ev:flush-start:0"] else []) ++ (if sc.c.limited then [s!"limcap:{cd.cap}"] else []),
                            pendingBegin := some a }]
     | none => []
   else []) ++
  (match step sc.c s .cycleStep with
   | some s' => if s'.nextBatch == s.nextBatch + 1 then
       let line := s!"ev:batch:{objsStr ((s'.batches.getLast?.map (fun b => b.ops.map (·.obj))).getD [])}"
       if v2 then [{ cd with owed := [line], pendingStep := true }]
       else [{ cd with st := normSt s', owed := [line] }] else []
   | none => []) ++
  (match s.loop with
   | .sweep acc => acc.openB.flatMap fun p => fire (.sweepOne p.1) (fun _ => [s!"ev:batch:{objsStr (p.2.map (·.obj))}"])
   | _ => []) ++
  (if v2 then fire .cycleEnd (fun _ => ["ev:flush-done:0"]) else [])

def hiddenSucc (sc : HScn) (cd : HCand) : List HCand :=
  let s := cd.st
  -- H1: a validated call counts its cost
  let h1 := cd.calls.filterMap fun (k, obj) =>
    (step sc.c s (.enqCount k (mkOpFor sc cd k obj))).map fun s' => { cd with st := normSt s', calls := cd.calls.filter (·.1 != k) }
  -- H2: a counted call reaches the buffer (unless parked at the hook)
  let h2 := (s.pend.filter (fun p => !cd.hooked.contains p.1)).filterMap fun p => stepC sc cd (.enqInsert p.1)
  -- H3: a woken caller re-checks
  -- (after a waking shutdown the re-checks are independent - each just returns the error: one order suffices)
  let wk := if sc.c.wos && s.bm.buf.shut then (s.bm.woken.map (·.1)).take 1 else (s.bm.woken.map (·.1)).eraseDups
  let h3 := wk.filterMap fun k => stepC sc cd (.enqAdmit k)
  -- a Pause() announced by `act:P` takes effect
  let hp := if cd.pendingPause > 0 then ((stepC sc cd .pauseCall).map fun cd' => { cd' with pendingPause := cd.pendingPause - 1 }).toList else []
  -- finishes commute and differ only in the cost they take off: among enabled ones of equal cost take the oldest
  let enabledFin := (unfinished s).filter fun b => b.cbDone || decide (b.deadline ≤ s.now)
  let reps := enabledFin.filter fun b => !(enabledFin.any fun b' => b'.id < b.id && batchCost b' == batchCost b)
  let h11 := (reps.map (·.id)).filterMap fun b => stepC sc cd (.finish b)
  -- the processing loop: one action at a time; while it still owes log lines it does nothing else
  let loopSteps :=
    if !cd.owed.isEmpty then [] else
    if cd.pendingStep then ((stepC sc cd .cycleStep).map fun c => { c with pendingStep := false }).toList else
    match cd.pendingBegin with
    | some a => ((stepC sc cd (.cycleBegin a)).map fun c => { c with pendingBegin := none }).toList
    | none =>
      let h4 := (stepC sc cd .takeFlushTick).toList
      let h5 := if sc.c.limited then [] else (stepC sc cd .takeCap).toList
      let h6 := if sc.c.gen == .v1 && !sc.c.limited then (stepC sc cd (.cycleBegin 0)).toList else []
      let h7 := match step sc.c s .cycleStep with
        | some s' => if s'.nextBatch == s.nextBatch then [{ cd with st := normSt s' }] else []
        | none => []
      let h8 := (stepC sc cd .scanEnd).toList
      let h9 := if sc.c.gen == .v1 then (stepC sc cd .cycleEnd).toList else []
      h4 ++ h5 ++ h6 ++ h7 ++ h8 ++ h9 ++ loopVisible sc cd
  h1 ++ h2 ++ h3 ++ hp ++ h11 ++ loopSteps

def closureFuel : Nat := 400
def candCap : Nat := 4000

/-- all candidates reachable by hidden labels (including the starting ones); `none` when the bound is hit -/
def hiddenClosureN (sc : HScn) (start : List HCand) : Option (List HCand) × Nat := Id.run do
  let mut work := 0
  let mut seen : Std.HashSet HCand := {}
  let mut order : Array HCand := #[]
  let mut frontier : List HCand := []
  for cd in start do
    if !seen.contains cd then
      seen := seen.insert cd; order := order.push cd; frontier := cd :: frontier
  let mut fuel := closureFuel
  while !frontier.isEmpty && fuel > 0 do
    fuel := fuel - 1
    let mut next : List HCand := []
    for cd in frontier do
      work := work + 1
      for cd' in hiddenSucc sc cd do
        if !seen.contains cd' then
          seen := seen.insert cd'; order := order.push cd'; next := cd' :: next
    frontier := next
    if order.size > candCap then return (none, work)
  if !frontier.isEmpty then return (none, work)
  return (some order.toList, work)

def hiddenClosure (sc : HScn) (start : List HCand) : Option (List HCand) := (hiddenClosureN sc start).1

/-- nothing is runnable: every goroutine is durably blocked (what `synctest.Wait()` waits for) -/
def quiescent (sc : HScn) (cd : HCand) : Bool :=
  let s := cd.st
  cd.calls.isEmpty &&
  (s.pend.all fun p => cd.hooked.contains p.1 || s.bm.waiting.any (·.1 == p.1)) &&
  s.bm.woken.isEmpty &&
  (match s.loop with
   | .cycle _ _ => false
   | .sweep _ => false
   | .idle => !armReady s
   | .sleeping u => decide (s.now < u)
   | _ => true) &&
  (!tickersRunning s || (decide (s.now < s.nextF) && decide (s.now < s.nextC) && decide (s.now < s.nextA))) &&
  (unfinished s).all (fun b => !b.cbDone && decide (s.now < b.deadline)) &&
  cd.pendingPause == 0 && cd.owed.isEmpty && cd.pendingBegin.isNone && !cd.pendingStep

def nextDeadline (s : St) : Option Nat :=
  let ds := (if tickersRunning s then [s.nextF, s.nextC, s.nextA] else []) ++
    (match s.loop with | .sleeping u => [u] | _ => []) ++ (unfinished s).map (·.deadline)
  ds.foldl (fun acc d => match acc with | none => some d | some a => some (min a d)) none

/-- fire every ticker that is due now (they commute) -/
def fireDue (sc : HScn) (cd : HCand) : HCand :=
  let cd := (stepC sc cd .fireF).getD cd
  let cd := (stepC sc cd .fireC).getD cd
  (stepC sc cd .fireA).getD cd

/-- let virtual time pass up to `t`; silent instants in between must not need any visible label.
`budget` bounds the closure work; `none` = bound hit (inconclusive) -/
partial def advanceTo (sc : HScn) (cands : List HCand) (t : Nat) (budget : Nat) : Option (List HCand × Nat) :=
  let (clo, w) := hiddenClosureN sc cands
  let spent := w + cands.length + 1
  if spent > budget then none else
  match clo with
  | none => none
  | some cl =>
    let (atT, before) := cl.partition (fun cd => cd.st.now ≥ t)
    let q := before.filter (quiescent sc)
    if q.isEmpty then some (atT, budget - spent) else
    let moved := q.filterMap fun cd =>
      let target := match nextDeadline cd.st with
        | some d => if d < t then d else t
        | none => t
      if target ≤ cd.st.now then none else
      (stepC sc cd (.advance (target - cd.st.now))).map (fireDue sc)
    match advanceTo sc moved t (budget - spent) with
    | none => none
    | some (r, left) => some (atT ++ r, left)

/-! ### visible entries -/

def resOfStr (gen : Gen) (s : String) : Option EnqRes :=
  if s == "ok" then some .ok else if s == "BufferFull" then some .full
  else if s == "Shutdown" then some .shutdown
  else if s == "panic" && gen == .v1 then some .shutdown   -- v1: send on closed channel
  else none

def errOfStr (s : String) : Option Err :=
  if s == "NoOperation" then some .noOperation else if s == "NoWatcher" then some .noWatcher
  else if s == "TooExpensive" then some .tooExpensive else if s == "TooManyAttempts" then some .tooManyAttempts else none

def objsOf (s : String) : List Nat := if s == "-" then [] else (s.splitOn "+").filterMap String.toNat?

/-- apply one trace entry to one (post-closure) candidate -/
def applyEntry (sc : HScn) (cd : HCand) (f : List String) : List HCand :=
  let s := cd.st
  let kind := f.getD 1 ""
  let a2 := f.getD 2 ""
  let a3 := f.getD 3 ""
  let n2 := (a2.toNat?).getD 0
  let n3 := (a3.toNat?).getD 0
  if kind == "call" then
    -- validation happens at once; a rejected call is checked at its `ret`
    let obj := n3
    let o := sc.ops[obj]?.getD ⟨0, 0, true⟩
    -- MakeAttempt runs in the batch goroutine: increments of batches raised at this very instant may or may not
    -- have happened yet when this call reads Attempt()
    let hi := attemptsOf s obj
    let lo := ((s.batches.filter (·.raisedAt < s.now)).map (fun b => (b.ops.filter (·.obj == obj)).length)).sum
    let outcome (att : Nat) : Option Err :=
      validate (EnqInput.mk true true sc.c.limited cd.maxc (costOf sc cd obj) (sc.wMaxAtt o.w) att)
    let accept : HCand := { cd with calls := cd.calls ++ [(n2, obj)] }
    match outcome lo, outcome hi with
    | none, none => [accept]
    | some _, some _ => [cd]
    | _, _ => [accept, cd]
  else if kind == "ret" then
    match errOfStr a3 with
    | some _ => if cd.calls.any (·.1 == n2) || s.pend.any (·.1 == n2) then [] else [cd]   -- rejected: never counted
    | none =>
      match resOfStr sc.c.gen a3 with
      | none => []
      | some r =>
        if cd.reported.contains n2 then [] else
        if s.bm.returned.contains (n2, r) then [{ cd with reported := n2 :: cd.reported }] else []
  else if kind == "hook" then
    if s.pend.any (·.1 == n2) && !s.bm.returned.any (·.1 == n2) && !s.bm.waiting.any (·.1 == n2) && !cd.hooked.contains n2
    then [{ cd with hooked := n2 :: cd.hooked }] else []
  else if kind == "unhook" then [{ cd with hooked := cd.hooked.filter (· != n2) }]
  else if kind == "act" then
    if a2 == "P" then [{ cd with pendingPause := cd.pendingPause + 1 }]
    else if a2 == "F" then (stepC sc cd .flushCall).toList
    else if a2 == "S" then (if a3 == "ok" then (stepC sc cd .startCall).toList else (stepC sc cd .startAgain).toList)
    else if a2 == "X" then
      -- v1: a Stop() that finds the phase already stopped returns at once; the others wait for the loop
      let waits := sc.c.gen == .v1 && s.phase != .stopped
      ((stepC sc cd .stopCall).map fun cd' => if waits then { cd' with stopWaiters := n3 :: cd'.stopWaiters } else cd').toList
    else if a2 == "c" then [{ cd with cap := n3 }]
    else if a2 == "m" then [{ cd with maxc := n3 }]
    else if a2 == "k" then
      let cost := ((f.getD 4 "").toNat?).getD 0
      ((stepC sc cd (.setCost n3 cost)).map fun cd' => { cd' with costs := (n3, cost) :: cd'.costs.filter (·.1 != n3) }).toList
    else []
  else if kind == "ev" || kind == "giveme" || kind == "limcap" then
    -- a line written by the processing loop: its action has been placed already (possibly a little earlier)
    let canon := ":".intercalate (f.drop 1)
    if cd.owed.head? == some canon then [{ cd with owed := cd.owed.drop 1 }] else []
  else if kind == "cbstart" then
    -- f = [t, cbstart, b, w, objs, atts]
    let objs := objsOf (f.getD 4 "")
    let atts := objsOf (f.getD 5 "")
    let cands := s.batches.filter fun b => b.w == n3 && b.ops.map (·.obj) == objs && !cd.cbStarted.contains b.id
    match cands.head? with
    | none => []
    | some b =>
      -- each delivery increments Attempt() once: the value seen lies between the deliveries up to this batch and all so far
      -- batch goroutines race on MakeAttempt: certain are this batch's own increments and those of batches raised
      -- at earlier instants; possible are all deliveries raised so far
      let lower (obj : Nat) : Nat := ((s.batches.filter (fun x => x.id == b.id || x.raisedAt < b.raisedAt)).map
        (fun x => (x.ops.filter (·.obj == obj)).length)).sum
      let ok := (objs.zip atts).all fun (obj, a) => lower obj ≤ a && a ≤ attemptsOf s obj
      if ok then [{ cd with cbMap := (n2, b.id) :: cd.cbMap, cbStarted := b.id :: cd.cbStarted }] else []
  else if kind == "cbret" then
    match cd.cbMap.lookup n2 with
    | some id => (stepC sc cd (.cbReturn id)).toList
    | none => []
  else if kind == "stopret" then
    if !cd.stopWaiters.contains n2 || s.loop == .exited || s.loop == .notStarted then [cd] else []
  else if kind == "sample" then
    -- f = [t, sample, needs, inbuf, infl]
    let infl : Int := ((f.getD 4 "").toInt?).getD 0
    let expInfl : Int := if sc.c.gen == .v1 then -1 else s.slots
    if quiescent sc cd && s.target == n2 && s.bm.buf.items.length == n3 && infl == expInfl then [cd] else []
  else if kind == "end" then [cd]
  else []

def describe (cd : HCand) : String :=
  let s := cd.st
  let loop := match s.loop with
    | .notStarted => "notStarted" | .idle => "idle" | .sleeping u => s!"sleeping({u})"
    | .cycle a acc => s!"cycle(allow={a},consumed={acc.consumed},open={acc.openB.length})"
    | .sweep acc => s!"sweep(open={acc.openB.length})" | .exited => "exited"
  s!"now={s.now} target={s.target} inbuf={s.bm.buf.items.length} slots={s.slots} loop={loop} pend={s.pend.map (·.1)} waiting={s.bm.waiting.map (·.1)} woken={s.bm.woken.map (·.1)} unfinished={(unfinished s).map (·.id)} flushReq={s.flushReq} ticks={s.tickF},{s.tickC},{s.tickA} next={s.nextF},{s.nextC},{s.nextA} calls={cd.calls.map (·.1)} returned={s.bm.returned.map (·.1)} reported={cd.reported} batches={s.batches.map (fun b => (b.id, b.ops.map (·.obj), b.cbDone, b.finished))} cbMap={cd.cbMap} inserted={s.inserted.map (·.id)} items={s.bm.buf.items.map (·.id)}"

def parseHScn (inp : KV) : HScn :=
  let gen : Gen := if inp.nat "gen" == 1 then .v1 else .v2
  let ws := (if inp.get "w" == "-" then [] else (inp.get "w").splitOn ";").map fun w => w.splitOn ":"
  let wField (i : Nat) (w : Nat) : Int := (((ws.getD w []).getD i "0").toInt?).getD 0
  let ops := ((if inp.get "ops" == "-" then [] else (inp.get "ops").splitOn ";").map fun o =>
    match o.splitOn ":" with
    | [w, c, b] => (⟨(w.toNat?).getD 0, (c.toNat?).getD 0, b == "1"⟩ : HOp)
    | _ => ⟨0, 0, true⟩).toArray
  let flush := applyDefault (inp.int "flush") defFlush
  let c : BCfg := {
    gen := gen, bufCap := inp.nat "buf", limited := inp.bool "lim",
    flushInt := flush, capInt := applyDefault (inp.int "capi") defCap, auditInt := applyDefault (inp.int "audit") defAudit,
    mot := applyDefault (inp.int "mot") defMot, pause := applyDefault (inp.int "pause") defPause,
    errorOnFull := inp.bool "eof", mcb := if gen == .v1 then 0 else inp.nat "mcb",
    wMaxBatch := fun w => (wField 0 w).toNat, wMot := fun w => (wField 2 w).toNat,
    rollback := (if gen == .v1 then Facts.v1_rollbackOnInsertError else Facts.v2_rollbackOnInsertError), wos := Facts.v2_shutdownWakesWaiters.getD false }
  {
    c := c, flushMs := flush / 1000000, pauseMs := c.pause / 1000000, maxcap := inp.nat "maxcap", ops := ops,
    wMaxAtt := fun w => (wField 1 w).toNat, cbDur := fun w => wField 3 w, emitBatch := inp.get "emb" != "0" }

/-- returns (mismatch description, inconclusive?) -/
def acceptHist (sc : HScn) (cap0 : Nat) (entries : List String) : Option String × Bool := Id.run do
  let mut maxC := 0
  let mut work := 0
  let init : HCand := {
    st := St.init sc.c, calls := [], hooked := [], reported := [], cap := cap0, maxc := sc.maxcap, costs := [],
    pendingPause := 0, cbMap := [], cbStarted := [], stopWaiters := [], owed := [] }
  let mut cands : List HCand := [init]
  let mut idx := 0
  for e in entries do
    let f := e.splitOn ":"
    let t := ((f.getD 0 "").toNat?).getD 0
    -- 1. time
    if cands.any (fun cd => cd.st.now < t) then
      match advanceTo sc cands t (400000 - work) with
      | none => return (some s!"at entry[{idx}]={e} while advancing time, candidates={cands.length}", true)
      | some (r, left) =>
        work := 400000 - left
        if r.isEmpty then
          let d := (cands.head?.map describe).getD ""
          return (some s!"fields=time entry[{idx}]={e} cannot-let-time-pass-silently model: {d}", false)
        cands := r
    -- 2. hidden steps, then the entry itself
    let (clo, w) := hiddenClosureN sc cands
    work := work + w + cands.length
    if work > 400000 then return (some s!"at entry[{idx}]={e} work budget exhausted", true)
    match clo with
    | none => return (some s!"at entry[{idx}]={e} in hidden closure, candidates={cands.length} e.g. {" || ".intercalate ((cands.take 4).map describe)} REPR {" @@ ".intercalate ((cands.take 4).map fun cd => (toString (repr cd.st)).replace "\n" " " ++ s!" HOOK{cd.hooked} CBS{cd.cbStarted} COSTS{cd.costs} SW{cd.stopWaiters} OW{cd.owed} CAP{cd.cap}")}", true)
    | some cl =>
      maxC := max maxC cl.length
      let next := cl.flatMap fun cd => applyEntry sc cd f
      if next.isEmpty then
        let d := " || ".intercalate ((cl.take 6).map describe)
        return (some s!"fields={f.getD 1 "?"} entry[{idx}]={e} not-accepted candidates={cl.length} model: {d}", false)
      -- dedupe
      let mut seen : Std.HashSet HCand := {}
      let mut out : List HCand := []
      for cd in next do
        if !seen.contains cd then
          seen := seen.insert cd; out := cd :: out
      cands := out
      if cands.length > candCap then return (some s!"at entry[{idx}]={e} candidates={cands.length}", true)
    idx := idx + 1
  return (none, false)

end GoBatcher.Driver

import GoBatcher.Model.BufferLinked
import GoBatcher.Driver.Buffer
namespace GoBatcher.Driver
open GoBatcher

def idsStr (l : List Op) : String := if l.isEmpty then "e" else ".".intercalate (l.map (fun o => toString o.id))

/-- what the seam `Dump` would report for the L0 model state -/
def dumpStr (b : LBuf) : String :=
  let fwd := b.walkFwd (b.len + 4) b.head
  let bwd := b.walkBwd (b.len + 4) b.tail
  let cur : Int := match b.cursor with
    | none => -1
    | some c => match fwd.idxOf? c with | some i => i | none => -2
  s!"{idsStr (b.opsAt fwd)}/{idsStr (b.opsAt bwd)}/{b.len}/{cur}/{if b.shut then 1 else 0}"

/-- buflinked: the L0 model (linked list as the code has it) against the real buffer, action by action:
return value, size(), and the linked structure itself -/
def checkBufLinked (inp obs : KV) : Option String × List (String × String) :=
  let cap := inp.nat "cap"
  let acts := if inp.get "acts" == "-" || inp.get "acts" == "" then [] else (inp.get "acts").splitOn ","
  let obsL := if obs.get "obs" == "-" || obs.get "obs" == "" then [] else (obs.get "obs").splitOn ";"
  let init : Option LBuf × Option String × List (String × String) := (some (LBuf.new cap), none, [])
  let (_, failure, viols) := ((acts.zip obsL).zipIdx).foldl (init := init) fun (st, fail, vs) ((a, o), idx) =>
    match st with
    | none => (none, fail, vs)
    | some b =>
      if fail.isSome then (st, fail, vs) else
      let kind := (a.take 1).toString
      let k := ((a.drop 1).toNat?).getD 0
      let parts := o.splitOn "/"
      let oret := parts.getD 0 "?"
      let size := ((parts.getD 1 "0").toNat?).getD 0
      -- monitors on the observation alone
      let fwd := parts.getD 2 "?"
      let bwd := parts.getD 3 "?"
      let revd := if bwd == "e" then "e" else ".".intercalate (bwd.splitOn ".").reverse
      let nfwd := if fwd == "e" then 0 else (fwd.splitOn ".").length
      let vs := vs ++ (if oret == "panic" then [("C15", "buffer-operation-panicked")] else [])
        ++ (if size > cap then [("C15", "size-exceeds-capacity")] else [])
        ++ (if oret != "panic" && fwd != revd then [("C15", "linked-list-forward-and-backward-walks-differ")] else [])
        ++ (if oret != "panic" && nfwd != size then [("C15", "size-differs-from-linked-operations")] else [])
      let step : Option (LBuf × String) :=
        if kind == "F" then (b.enqueue (mkOp k) true).map (fun r => (r.1, resStr r.2))
        else if kind == "T" then b.top.map (fun r => (r.1, opStr r.2))
        else if kind == "S" then b.skip.map (fun r => (r.1, opStr r.2))
        else if kind == "R" then b.remove.map (fun r => (r.1, opStr r.2))
        else some (b.shutdown, ".")
      match step with
      | none =>
        if oret == "panic" then (none, fail, vs)
        else (none, some s!"fields=obs model panics at obs[{idx}]({a}) observed {o}", vs)
      | some (b', r) =>
        let exp := s!"{r}/{b'.len}/{dumpStr b'}"
        if exp == o then (some b', fail, vs)
        else (some b', some s!"fields=obs expected obs[{idx}]({a})={exp} observed obs[{idx}]={o}", vs)
  let failure := if failure.isNone && acts.length != obsL.length && !(obsL.getLast?.getD "").startsWith "panic" then
    some "fields=obs expected as many observations as actions" else failure
  (failure, viols.eraseDups)

end GoBatcher.Driver

import GoBatcher.Generated.Facts
import GoBatcher.Driver.Parse
namespace GoBatcher.Driver

/-- the setters C16 names: rate limiter, intervals / times, full-buffer mode -/
def namedSetters : List String :=
  ["WithRateLimiter", "WithFlushInterval", "WithCapacityInterval", "WithAuditInterval", "WithMaxOperationTime",
   "WithPauseTime", "WithErrorOnFullBuffer"]

def checkSetters (inp obs : KV) : Option String × List (String × String) :=
  let name := inp.get "setter"
  let after := inp.get "when" != "before"
  let guarded := Facts.v2_guardedSetters.contains name
  let exp := if after && guarded then "panic:InitializationOnly" else "ok"
  let got := obs.get "res"
  let viol := if after && namedSetters.contains name && got != "panic:InitializationOnly"
    then [("C16", "setter-takes-effect-after-start:" ++ name)] else []
  (diffFields [("res", exp)] [("res", got)], viol)

end GoBatcher.Driver

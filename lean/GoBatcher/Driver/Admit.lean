import GoBatcher.Model.Validate
import GoBatcher.Driver.Parse
namespace GoBatcher.Driver
open GoBatcher

def errStr : Option Err → String
  | none => "ok"
  | some .noOperation => "NoOperation"
  | some .noWatcher => "NoWatcher"
  | some .tooExpensive => "TooExpensive"
  | some .tooManyAttempts => "TooManyAttempts"

/-- returns (mismatch?, violations) -/
def checkAdmit (inp obs : KV) : Option String × List (String × String) :=
  let i : EnqInput := EnqInput.mk (inp.bool "hasop") (inp.bool "hasw") (inp.bool "lim")
    (inp.nat "maxcap") (inp.nat "cost") (inp.nat "maxatt") (inp.nat "att")
  let e := validate i
  -- model: a rejected Enqueue changes nothing; an accepted one adds the cost and one buffer place
  let expDNeeds : Int := if e.isNone then i.cost else 0
  let expDBuf : Int := if e.isNone then 1 else 0
  let exp := [("err", errStr e), ("dneeds", toString expDNeeds), ("dbuf", toString expDBuf)]
  let got := [("err", obs.get "err"), ("dneeds", toString (obs.int "dneeds")), ("dbuf", toString (obs.int "dbuf"))]
  -- property monitor P_C14 on the implementation's observation alone
  let viol :=
    (if obs.get "err" != "ok" && (obs.int "dneeds" != 0 || obs.int "dbuf" != 0)
      then [("C14", "rejected-enqueue-has-side-effect:" ++ obs.get "err")] else []) ++
    (if obs.get "err" != errStr e then [("C14", "wrong-admission-result:" ++ obs.get "err" ++ "-expected-" ++ errStr e)] else [])
  (diffFields exp got, viol)

end GoBatcher.Driver

import GoBatcher.Model.Cycle
import GoBatcher.Driver.Parse
namespace GoBatcher.Driver
open GoBatcher

/-- Go: `uint32(float64(capacity) / 1000.0 * float64(flushInterval.Milliseconds()))` -/
def allowance (cap ms : Nat) : Nat :=
  (Float.ofNat cap / 1000.0 * Float.ofNat ms).toUInt32.toNat

def parseOps (s : String) : List Op :=
  if s == "-" || s == "" then [] else
    ((s.splitOn ",").zipIdx).filterMap fun (tok, i) =>
      match tok.splitOn ":" with
      | [w, c, b] => some { id := i, obj := i, w := w.toNat!, cost := c.toNat!, batchable := b == "1" }
      | _ => none

def mbFun (l : List Nat) : Nat → Nat := fun w => l.getD w 0

def idsOf (bs : List Batch) : List (List Nat) := bs.map (fun p => p.2.map (·.id))

def sumCost (l : List Op) : Nat := (l.map (·.cost)).sum

structure CycleExp where
  mid : List (List Nat)       -- raised before the sweep, exact order
  left : List (List Nat)      -- sweep, any order (sorted)
  inbuf : Nat
  remaining : List Op
  slotsUsed : Nat

def expectCycle (c : Cfg) (buf : List Op) (free : Option Nat) : CycleExp :=
  let r := scan c buf { consumed := 0, openB := [] } free
  { mid := idsOf r.raised, left := sortBatches (idsOf r.acc.openB), inbuf := (r.kept ++ r.rest).length,
    remaining := r.kept ++ r.rest, slotsUsed := r.raised.length + r.acc.openB.length }

def splitAtLen (n : Nat) (l : List (List Nat)) : List (List Nat) × List (List Nat) := (l.take n, l.drop n)

/-- decidable monitors on the OBSERVED batches of one cycle (P_C05, P_C02, P_C01 at cycle level) -/
def monitorCycle (c : Cfg) (buf : List Op) (obsBatches : List (List Nat)) (obsInbuf : Nat) :
    List (String × String) :=
  let find (id : Nat) : Option Op := buf.find? (·.id == id)
  let all := obsBatches.flatten
  let dup := all.any (fun id => all.count id > 1)
  let unknown := all.any (fun id => (find id).isNone)
  let v01 := (if dup then [("C01", "operation-in-two-batches")] else []) ++
             (if unknown then [("C01", "delivered-unknown-operation")] else []) ++
             (if all.length + obsInbuf != buf.length then [("C01", "operation-neither-buffered-nor-delivered")] else [])
  let bad05 := obsBatches.filterMap fun b =>
    let ops := b.filterMap find
    match ops with
    | [] => some "empty-batch"
    | o :: _ =>
      if ops.any (fun x => x.w != o.w) then some "mixed-watchers"
      else if ops.length > 1 && ops.any (fun x => !x.batchable) then some "non-batchable-not-alone"
      else if c.mb o.w > 0 && ops.length > c.mb o.w then some "over-max-batch-size"
      else if !(b.zip (b.drop 1)).all (fun (x, y) => x < y) then some "order-not-kept"
      else none
  -- second batch only after a full one: per watcher, all but the last batchable batch are exactly full
  let watchers := (buf.map (·.w)).eraseDups
  let bad05b := watchers.filterMap fun w =>
    let bs := obsBatches.filter fun b => match b.filterMap find with
      | o :: _ => o.w == w && o.batchable
      | [] => false
    if (bs.dropLast).any (fun b => !(c.mb w > 0 && b.length == c.mb w)) then some "second-batch-before-full" else none
  let released := sumCost (all.filterMap find)
  -- P_C02: released < allow + cost of some released op (v2), ≤ (v1); nothing when allow = 0 in v2
  let v02 :=
    if c.limited && released > 0 then
      let maxc := ((all.filterMap find).map (·.cost)).foldl max 0
      if c.ge && c.allow == 0 then [("C02", "released-with-zero-allowance")]
      else if c.ge && released ≥ c.allow + maxc then [("C02", "cycle-released-allowance-plus-last-or-more")]
      else if !c.ge && released > c.allow + maxc then [("C02", "cycle-released-more-than-allowance-plus-last")]
      else []
    else []
  v01 ++ (bad05 ++ bad05b).map (fun r => ("C05", r)) ++ v02

def checkCycle (inp obs : KV) : Option String × List (String × String) :=
  if obs.has "panic" then (some ("panic " ++ obs.get "panic"), [("C20", "panic:" ++ obs.get "panic")]) else
  let gen := inp.nat "gen"
  let ms := inp.nat "ms"
  let mb := mbFun (natList (inp.get "mb"))
  let buf := parseOps (inp.get "ops")
  let slots : Option Nat := if inp.int "slots" < 0 then none else slotLimit (inp.int "slots").toNat
  let c : Cfg := { ge := gen == 2, limited := inp.bool "lim", allow := allowance (inp.nat "cap") ms, mb := mb }
  let e1 := expectCycle c buf slots
  let total := sumCost buf
  let o1 := batchList (obs.get "b1")
  let (o1mid, o1left) := splitAtLen e1.mid.length o1
  let c2 : Cfg := { c with allow := allowance 1000000000 ms }
  let e2 := expectCycle c2 e1.remaining slots
  let o2 := batchList (obs.get "b2")
  let (o2mid, o2left) := splitAtLen e2.mid.length o2
  let expInfl : Int := if gen == 1 then -1 else if slots.isSome then e1.slotsUsed else 0
  let exp : List (String × String) := [
    ("b1", s!"{showBatches e1.mid}+{showBatches e1.left}"), ("inbuf1", toString e1.inbuf), ("needs1", toString total),
    ("infl1", toString expInfl), ("needsmid", toString (sumCost e1.remaining)),
    ("b2", s!"{showBatches e2.mid}+{showBatches e2.left}"), ("inbuf2", toString e2.inbuf),
    ("needs2", toString (sumCost e1.remaining)), ("needs3", toString (sumCost e2.remaining)),
    ("infl3", toString (if gen == 1 then (-1 : Int) else 0))]
  let got : List (String × String) := [
    ("b1", s!"{showBatches o1mid}+{showBatches (sortBatches o1left)}"), ("inbuf1", toString (obs.nat "inbuf1")),
    ("needs1", toString (obs.nat "needs1")), ("infl1", toString (obs.int "infl1")), ("needsmid", toString (obs.nat "needsmid")),
    ("b2", s!"{showBatches o2mid}+{showBatches (sortBatches o2left)}"), ("inbuf2", toString (obs.nat "inbuf2")),
    ("needs2", toString (obs.nat "needs2")), ("needs3", toString (obs.nat "needs3")), ("infl3", toString (obs.int "infl3"))]
  -- the monitors judge the observation alone: what the second cycle may deliver is what the FIRST OBSERVED cycle left
  let rem1 := buf.filter (fun o => !(o1.flatten).contains o.id)
  -- what the watchers find in the batches they were handed, read after the cycle is over: "w>[ids]" (sorted by the harness)
  let seenOf (v : String) : List (Nat × List Nat) :=
    if v == "-" || v == "" then [] else (v.splitOn ";").map fun e => match e.splitOn ">" with
      | [w, b] => ((w.toNat?).getD 0, natList ((b.replace "[" "").replace "]" ""))
      | _ => (0, [])
  let seenViol (seen : List (Nat × List Nat)) (raised : List (List Nat)) : List (String × String) :=
    if !(obs.has "seen1") then [] else
    let a := sortBatches (seen.map (·.2))
    let b := sortBatches raised
    (if a != b then [("C01", "watcher-finds-other-operations-than-were-raised-for-it"), ("C05", "batch-changed-after-it-was-handed-to-the-watcher")] else []) ++
    (if seen.any (fun (w, ids) => ids.any fun id => match buf.find? (·.id == id) with | some o => o.w != w | none => true)
      then [("C05", "watcher-handed-another-watchers-operation"), ("C01", "delivered-to-another-watcher")] else [])
  let viol := monitorCycle c buf o1 (obs.nat "inbuf1") ++ monitorCycle c2 rem1 o2 (obs.nat "inbuf2")
    ++ seenViol (seenOf (obs.get "seen1")) o1 ++ seenViol (seenOf (obs.get "seen2")) o2
    ++ (if obs.nat "cb1" != o1.length then [("C01", "batches-raised-differ-from-callbacks-started")] else [])
    ++ (if obs.nat "needs1" != total then [("C03", "demand-differs-from-outstanding-cost-after-cycle")] else [])
    ++ (match slots with
        | some n => if obs.int "infl1" > n then [("C10", "inflight-above-limit")] else
                    if obs.int "infl1" != o1.length then [("C10", "inflight-differs-from-batches-in-progress")] else []
        | none => [])
    -- C05 release order across both cycles (no slot limit): per watcher the batchable ids, and all single ids, increase
    ++ (if slots.isNone then
          let find (id : Nat) : Option Op := buf.find? (·.id == id)
          let rel := ((o1 ++ o2).flatten).filterMap find
          let incr (l : List Nat) : Bool := (l.zip (l.drop 1)).all (fun (x, y) => x < y)
          let ws := (buf.map (·.w)).eraseDups
          (if ws.any (fun w => !incr ((rel.filter (fun o => o.w == w && o.batchable)).map (·.id)))
            then [("C05", "batchable-released-out-of-enqueue-order")] else []) ++
          (if !incr ((rel.filter (fun o => !o.batchable)).map (·.id))
            then [("C05", "non-batchable-released-out-of-enqueue-order")] else [])
        else [])
    -- C08 work conservation on the observation: something is left although neither cut-off nor slots explain it
    ++ (let released := sumCost ((o1.flatten).filterMap (fun id => buf.find? (·.id == id)))
        let slotsLeft := match slots with | some n => decide (o1.length < n) | none => true
        (if obs.nat "inbuf1" > 0 && !(cutoff c released) && slotsLeft then [("C08", "cycle-stopped-early")] else []) ++
        -- positive capacity, free slots, a backlog - and the cycle (hence, capacity being constant, every cycle) releases nothing
        (if c.limited && inp.nat "cap" > 0 && !buf.isEmpty && o1.isEmpty && slotsLeft then
          [("C08", if c.ge && c.allow == 0 then "positive-capacity-zero-allowance-releases-nothing" else "positive-capacity-releases-nothing")]
         else []))
  (diffFields exp got, viol)

end GoBatcher.Driver

import GoBatcher.Driver.Hist
/-!
Property monitors `P_Cxx` evaluated on a `hist` trace of the IMPLEMENTATION alone (no model state): they
restate the given properties as decidable predicates over what was observed, so that a violation is reported
with a concrete failing history even when the model and the code agree with each other.
-/
namespace GoBatcher.Driver
open GoBatcher

structure MCall where
  k : Nat
  obj : Nat
  cost : Nat
  t : Nat
  res : Option String := none     -- none = no `ret` yet
  hooked : Bool := false
  freeAt : Nat := 0               -- instant from which the call runs freely: its start, or the instant it was let go at the hook
  delivered : Option Nat := none  -- index of the batch it went into

structure MBatch where
  idx : Nat
  objs : List Nat
  raisedAt : Nat
  w : Option Nat := none
  cycle : Nat := 0               -- v2: number of `flush-start` events seen when it was raised
  cbRet : Option Nat := none
  harnessB : Option Nat := none

structure Mon where
  calls : Array MCall := #[]
  batches : Array MBatch := #[]
  viols : List (String × String) := []
  costs : List (Nat × Nat) := []
  started : Option Nat := none
  shutdownAt : Option Nat := none
  shutdowns : Nat := 0
  pauseAt : Option Nat := none
  pauseCalls : Nat := 0
  cycleNo : Nat := 0
  flushCallAt : Option Nat := none   -- instant of the latest Flush() call
  effCalls : Nat := 0         -- Pause() calls made while the Batcher was certainly started and not paused, or possibly so
  pauseEvents : Nat := 0
  stale : Bool := false            -- a cost changed / an audit reset happened: demand monitors stop
  auditFail : Bool := false
  auditFailHealthy : Bool := false   -- an audit-fail in a run the audit had no reason to touch: the figure is checked on
  lastGiveMe : Option Nat := none
  lastAudit : Option Nat := none
  startOk : Nat := 0
  lastNeeds : Option Nat := none
  auditInFlight : Bool := false
  paused : Bool := false            -- between a pause event and its resume event
  expectPause : Bool := false       -- an effective Pause() call has been made; its pause event is due
  flushHeld : Bool := false         -- a Flush() call was made while the loop could not serve it (paused, or not started yet)
  expectCycleAt : Option Nat := none  -- … so a cycle is owed at this instant (resume / start): with work buffered and nothing to hold it back a batch must appear
  maxcap : Option Nat := none       -- the fake limiter's MaxCapacity() after the last change (none = as configured)
  maxcapAt : Nat := 0
  stopAsked : Bool := false   -- an audit reset happened while an Enqueue was inside the library (finding F9)

def Mon.add (m : Mon) (p r : String) : Mon :=
  if m.viols.contains (p, r) then m else { m with viols := m.viols ++ [(p, r)] }

def isValidationErr (r : String) : Bool :=
  r == "NoOperation" || r == "NoWatcher" || r == "TooExpensive" || r == "TooManyAttempts"

/-- is batch `b` finished at time `t`: callback returned or MaxOperationTime elapsed, whichever comes first -/
def batchFinished (sc : HScn) (b : MBatch) (t : Nat) : Bool :=
  let w := b.w.getD ((b.objs.head?.bind fun o => sc.ops[o]?.map (·.w)).getD 0)
  (match b.cbRet with | some r => decide (r ≤ t) | none => false) || decide (b.raisedAt + effMot sc.c w ≤ t)

def monitorHist (sc : HScn) (entries : List String) : List (String × String) := Id.run do
  let mut m : Mon := {}
  let healthy := (List.range 8).all fun w => sc.c.wMot w ≤ sc.c.mot
  for e in entries do
    let f := e.splitOn ":"
    let t := ((f.getD 0 "").toNat?).getD 0
    let kind := f.getD 1 ""
    let a2 := f.getD 2 ""
    let a3 := f.getD 3 ""
    let n2 := (a2.toNat?).getD 0
    let n3 := (a3.toNat?).getD 0
    -- C08: a Flush() made during a pause (or before Start) is served as soon as the loop is free
    let owedPast : Bool := match m.expectCycleAt with | some t0 => decide (t > t0) | none => false
    let owedMissed : Bool := match m.expectCycleAt with
      | some t0 => decide (t > t0) && !(m.batches.any fun b => b.raisedAt == t0) && m.shutdownAt.isNone && !m.stopAsked
      | none => false
    if owedMissed == true then
      m := m.add "C08" "flush-call-made-while-paused-or-before-start-not-served-when-the-loop-became-free"
    if owedPast == true then m := { m with expectCycleAt := none }
    if kind == "call" then
      let cost := match m.costs.lookup n3 with | some v => v | none => (sc.ops[n3]?.map (·.cost)).getD 0
      m := { m with calls := m.calls.push { k := n2, obj := n3, cost := cost, t := t, freeAt := t } }
    else if kind == "hook" then
      m := { m with calls := m.calls.map fun c => if c.k == n2 then { c with hooked := true } else c }
    else if kind == "unhook" then
      m := { m with calls := m.calls.map fun c => if c.k == n2 then { c with hooked := false, freeAt := t } else c }
    else if kind == "ret" then
      -- C15: with ErrorOnFullBuffer an Enqueue never waits: it returns at the instant it started (or was let go at the hook)
      let waited : Bool := match m.calls.find? (·.k == n2) with
        | some cl => sc.c.errorOnFull && decide (t > cl.freeAt) && a3 != "panic"
        | none => false
      if waited == true then m := m.add "C15" "error-mode-enqueue-waited"
      m := { m with calls := m.calls.map fun c => if c.k == n2 then { c with res := some a3 } else c }
      -- C14: the cost limit is the limiter's MaxCapacity() at the time of the call
      let tooDear : Option Bool := match m.calls.find? (·.k == n2) with
        | some cl => if cl.t > m.maxcapAt || m.maxcap.isNone then some (sc.c.limited && decide (cl.cost > m.maxcap.getD sc.maxcap)) else none
        | none => none
      if a3 == "TooExpensive" && tooDear == some false then m := m.add "C14" "refused-as-too-expensive-although-within-MaxCapacity"
      if a3 == "ok" && tooDear == some true then m := m.add "C14" "accepted-although-dearer-than-MaxCapacity"
      if a3 == "TooManyAttempts" then
        match m.calls.find? (·.k == n2) with
        | some cl =>
          let w := (sc.ops[cl.obj]?.map (·.w)).getD 0
          let delivered := (m.batches.toList.map (fun b => (b.objs.filter (· == cl.obj)).length)).sum
          if sc.wMaxAtt w == 0 || delivered < sc.wMaxAtt w then m := m.add "C14" "refused-before-max-attempts"
        | none => pure ()
      if a3 == "panic" then
        -- (v1 closes the buffer channel before it raises the shutdown event: a caller blocked on the full buffer panics
        -- at the close, possibly before the event is logged - the same thing as a panic after the event)
        m := m.add "C16" (if m.shutdownAt.isSome || m.stopAsked then "enqueue-after-shutdown-panics" else "enqueue-panics")
        m := m.add "C15" "enqueue-panics-at-shutdown"
      if m.shutdownAt.isSome && a3 == "ok" then
        -- accepted although the Batcher has shut down (only a call that began before the shutdown may still succeed)
        let began := (m.calls.find? (·.k == n2)).map (·.t)
        if (began.getD 0) > (m.shutdownAt.getD 0) then m := m.add "C16" "enqueue-after-shutdown-succeeds"
    else if kind == "act" then
      if a2 == "P" then
        -- effective iff the Batcher is running and not paused (and nobody is stopping it concurrently)
        let eff := m.started.isSome && !m.paused && m.shutdownAt.isNone && !m.stopAsked && !m.expectPause
        -- possibly effective: while a Stop() is in progress, or at the very instant of the resume (the phase is set back
        -- to started just before the resume event is raised)
        let atResume := m.paused && (m.pauseAt.map fun p => decide (t == p + sc.c.pause)) == some true
        let maybe := m.started.isSome && m.shutdownAt.isNone && !m.expectPause && ((m.stopAsked && !m.paused) || atResume)
        m := { m with pauseCalls := m.pauseCalls + 1, expectPause := m.expectPause || eff,
                      effCalls := m.effCalls + (if eff || maybe then 1 else 0) }
      else if a2 == "m" then m := { m with maxcap := some n3, maxcapAt := t }
      else if a2 == "F" then
        m := { m with flushCallAt := some t }
        if (m.paused || m.started.isNone) && m.shutdownAt.isNone then m := { m with flushHeld := true }
      else if a2 == "X" then m := { m with stopAsked := true }
      else if a2 == "k" then m := { m with stale := true, costs := (n3, ((f.getD 4 "").toNat?).getD 0) :: m.costs }
      else if a2 == "S" then
        if a3 == "ok" then
          if m.startOk > 0 then m := m.add "C16" "start-succeeds-twice"
          if (!sc.c.limited && sc.c.mcb == 0 && sc.emitBatch && m.flushHeld &&
          (m.calls.any fun c => c.res == some "ok" && c.delivered.isNone)) then m := { m with expectCycleAt := some t }
          m := { m with startOk := m.startOk + 1, started := some t, flushHeld := false }
        else if m.startOk == 0 then
          m := m.add "C16" "first-start-fails"
          -- C13: a Pause() before Start has no effect - in particular it does not keep the Batcher from starting
          if m.pauseCalls > 0 then m := m.add "C13" "pause-before-start-has-an-effect"
    else if kind == "giveme" then
      if !sc.c.limited then m := m.add "C12" "request-without-limiter"
      if m.shutdownAt.isSome then m := m.add "C12" "request-after-shutdown" |>.add "C16" "request-after-shutdown"
      match m.pauseAt with
      | some p => if t > p && t < p + sc.c.pause then m := m.add "C12" "request-during-pause" |>.add "C13" "request-during-pause"
      | none => pure ()
      -- on the tick grid: every CapacityInterval since Start (a tick that fell into a pause is answered at the resume)
      match m.started with
      | some s0 =>
        let onGrid := (t - s0) % sc.c.capInt == 0
        let atResume := match m.pauseAt with | some p => t == p + sc.c.pause | none => false
        if !onGrid && !atResume then m := m.add "C12" "request-off-the-capacity-interval-grid"
      | none => m := m.add "C12" "request-before-start"
      match m.lastGiveMe with
      | some l => if t == l then m := m.add "C12" "two-requests-at-one-tick"
      | none => pure ()
      -- C12: the request carries the current demand. Judged only at instants at which the demand is unambiguous: no
      -- Enqueue inside the library or made at this very instant, no batch raised, returning or timing out at this instant
      let effW (b : MBatch) : Nat := b.w.getD ((b.objs.head?.bind fun o => sc.ops[o]?.map (·.w)).getD 0)
      let ambiguous := (m.calls.any fun c => c.res.isNone || c.t == t || c.freeAt == t) ||
        (m.batches.any fun b => b.raisedAt == t || b.cbRet == some t || b.raisedAt + effMot sc.c (effW b) == t)
      if !ambiguous && !m.stale && !m.auditFail && m.shutdownAt.isNone then
        let outstanding := (m.calls.filter fun c =>
          let fin := match c.delivered with
            | some bi => (m.batches[bi]?.map fun b => batchFinished sc b t).getD false
            | none => false
          c.res == some "ok" && !fin).foldl (fun acc c => acc + c.cost) 0
        if n2 != outstanding then m := m.add "C12" "request-value-differs-from-current-demand"
      m := { m with lastGiveMe := some t }
    else if kind == "ev" then
      if a2 == "batch" then
        let objs := objsOf a3
        if m.shutdownAt.isSome then m := m.add "C16" "batch-after-shutdown" |>.add "C01" "batch-after-shutdown"
        match m.pauseAt with
        | some p => if t > p && t < p + sc.c.pause then m := m.add "C13" "batch-during-pause"
        | none => pure ()
        -- C02: batches are raised by cycles, and a cycle runs on a FlushInterval tick since Start, at a resume, or at the
        -- instant of a Flush() call of the user (v1 has no flush events: the batch instants stand for the cycles)
        match m.started with
        | some s0 =>
          let onGrid := (t - s0) % sc.c.flushInt == 0
          let atResume := match m.pauseAt with | some p => t == p + sc.c.pause | none => false
          if !onGrid && !atResume && m.flushCallAt != some t then m := m.add "C02" "batch-released-off-the-flush-interval-grid"
        | none => pure ()
        -- C05: the shape of a batch, judged on the trace alone
        let opW (o : Nat) : Nat := (sc.ops[o]?.map (·.w)).getD 0
        let opB (o : Nat) : Bool := (sc.ops[o]?.map (·.batchable)).getD true
        let bw := (objs.head?.map opW).getD 0
        let mb := sc.c.wMaxBatch bw
        if objs.isEmpty then m := m.add "C05" "empty-batch"
        if objs.any fun o => opW o != bw then m := m.add "C05" "batch-mixes-watchers" |>.add "C01" "batch-mixes-watchers"
        if objs.length > 1 && objs.any fun o => !opB o then m := m.add "C05" "non-batchable-operation-batched"
        if mb > 0 && objs.length > mb then m := m.add "C05" "batch-larger-than-MaxBatchSize"
        -- a watcher gets a second batch in one cycle only after its previous one was full. v2 delimits cycles by its
        -- flush events; in v1 an instant holds one cycle unless a Flush() or a resume falls on it
        let oneCycleInstant := m.flushCallAt != some t && (match m.pauseAt with | some p => t != p + sc.c.pause | none => true)
        let sameCycle (b : MBatch) : Bool :=
          if sc.c.gen == .v2 then b.cycle == m.cycleNo && m.cycleNo > 0 else b.raisedAt == t && oneCycleInstant
        if objs.all opB then
          let prev := m.batches.toList.filter fun b => sameCycle b && (b.objs.head?.map opW) == some bw && b.objs.all opB && !b.objs.isEmpty
          if prev.any fun b => mb == 0 || b.objs.length < mb then
            m := m.add "C05" "second-batch-in-a-cycle-although-the-previous-one-was-not-full"
        let bidx := m.batches.size
        -- match every delivered object to the oldest accepted, undelivered call of that object
        let mut calls := m.calls
        for o in objs do
          match calls.findIdx? (fun c => c.obj == o && c.delivered.isNone && !(c.res.map isValidationErr).getD false
              && c.res != some "BufferFull" && c.res != some "Shutdown" && c.res != some "panic") with
          | some i => calls := calls.modify i fun c => { c with delivered := some bidx }
          | none => m := m.add "C01" "delivered-without-a-matching-accepted-enqueue"
        m := { m with calls := calls, batches := m.batches.push { idx := bidx, objs := objs, raisedAt := t, cycle := m.cycleNo } }
      else if a2 == "shutdown" then
        if m.shutdowns > 0 then m := m.add "C16" "second-shutdown-event"
        m := { m with shutdowns := m.shutdowns + 1, shutdownAt := some t }
      else if a2 == "pause" then
        -- (a new pause taken at the very instant of a resume: the held Flush() stays held until the loop is free)
        if m.expectCycleAt == some t then
          -- (unless the cycle has already run at this instant: then the Flush has been served)
          m := { m with expectCycleAt := none, flushHeld := !(m.batches.any fun b => b.raisedAt == t) }
        if n3 != sc.pauseMs then m := m.add "C13" "pause-event-value"
        m := { m with pauseAt := some t, pauseEvents := m.pauseEvents + 1, paused := true, expectPause := false }
        if m.pauseEvents > m.pauseCalls then m := m.add "C13" "more-pauses-than-effective-calls"
        else if m.pauseEvents > m.effCalls then m := m.add "C13" "pause-taken-for-a-call-made-while-already-paused"
      else if a2 == "resume" then
        if (!sc.c.limited && sc.c.mcb == 0 && sc.emitBatch && m.flushHeld &&
          (m.calls.any fun c => c.res == some "ok" && c.delivered.isNone)) then m := { m with expectCycleAt := some t }
        m := { m with paused := false, flushHeld := false }
        match m.pauseAt with
        | some p => if t != p + sc.c.pause then m := m.add "C13" "resume-not-exactly-pausetime-after-pause"
        | none => m := m.add "C13" "resume-without-pause"
      else if a2.startsWith "audit" then
        match m.pauseAt with
        | some p => if t > p && t < p + sc.c.pause then m := m.add "C13" "audit-during-pause" |>.add "C19" "audit-during-pause"
        | none => pure ()
        -- C19: an audit on every AuditInterval tick: on the tick grid since Start (a tick that fell into a pause is
        -- answered at the resume), at most one per tick
        match m.started with
        | some s0 =>
          let onGrid := t > s0 && (t - s0) % sc.c.auditInt == 0
          let atResume := match m.pauseAt with | some p => t == p + sc.c.pause | none => false
          if !onGrid && !atResume then m := m.add "C19" "audit-off-the-audit-interval-grid"
        | none => m := m.add "C19" "audit-before-start"
        if m.lastAudit == some t then m := m.add "C19" "two-audits-at-one-tick"
        if m.shutdownAt.isSome then m := m.add "C19" "audit-after-shutdown"
        m := { m with lastAudit := some t }
        if a2 == "audit-fail" then
          if healthy && !m.stale then
            let inflight := m.calls.any fun c => c.res.isNone
            let rejected := m.calls.any fun c => c.res == some "BufferFull" || c.res == some "Shutdown"
            m := m.add "C19" (if inflight then "audit-fail-in-healthy-run:enqueue-in-flight"
                              else if rejected then "audit-fail-in-healthy-run:after-rejected-enqueue"
                              else "audit-fail-in-healthy-run")
          let inflightNow := m.calls.any fun c => c.res.isNone
          m := { m with auditFail := true, auditInFlight := m.auditInFlight || (healthy && !m.stale && inflightNow),
                        auditFailHealthy := m.auditFailHealthy || (healthy && !m.stale && !inflightNow) }
      else if a2 == "flush-start" then
        m := { m with cycleNo := m.cycleNo + 1 }
        match m.pauseAt with
        | some p => if t > p && t < p + sc.c.pause then m := m.add "C13" "cycle-during-pause"
        | none => pure ()
        if m.shutdownAt.isSome then m := m.add "C16" "cycle-after-shutdown"
        -- C02: one cycle per FlushInterval tick - a cycle begins on the tick grid since Start, at a resume (the tick or
        -- Flush() that fell into the pause), or at the instant of a manual Flush() call
        match m.started with
        | some s0 =>
          let onGrid := (t - s0) % sc.c.flushInt == 0
          let atResume := match m.pauseAt with | some p => t == p + sc.c.pause | none => false
          if !onGrid && !atResume && m.flushCallAt != some t then m := m.add "C02" "cycle-off-the-flush-interval-grid"
        | none => m := m.add "C02" "cycle-before-start"
    else if kind == "cbstart" then
      -- f = [t, cbstart, b, w, objs, atts]
      let objs := objsOf (f.getD 4 "")
      let atts := objsOf (f.getD 5 "")
      -- (without batch events the callback itself is the evidence that the batch was raised, at this very instant)
      if !sc.emitBatch then
        let bidx := m.batches.size
        let mut calls := m.calls
        for o in objs do
          match calls.findIdx? (fun c => c.obj == o && c.delivered.isNone && !(c.res.map isValidationErr).getD false
              && c.res != some "BufferFull" && c.res != some "Shutdown" && c.res != some "panic") with
          | some i => calls := calls.modify i fun c => { c with delivered := some bidx }
          | none => m := m.add "C01" "delivered-without-a-matching-accepted-enqueue"
        m := { m with calls := calls, batches := m.batches.push { idx := bidx, objs := objs, raisedAt := t } }
      -- C14: Attempt() never runs ahead of the deliveries (each delivery increments it by exactly one)
      let delivered (o : Nat) : Nat := (m.batches.toList.map (fun b => (b.objs.filter (· == o)).length)).sum
      -- (without batch events another batch holding the same object may have been raised at this instant and not
      -- have reported yet: allow for the accepted occurrences that are not accounted for)
      let slack (o : Nat) : Nat := if sc.emitBatch then 0 else
        (m.calls.filter fun c => c.obj == o && c.delivered.isNone && (c.res == some "ok" || c.res.isNone)).size
      if (objs.zip atts).any (fun (o, a) => a > delivered o + slack o || a == 0) then
        m := m.add "C14" "attempt-count-differs-from-deliveries"
      match m.batches.findIdx? (fun b => b.harnessB.isNone && b.objs == objs) with
      | some i =>
        m := { m with batches := m.batches.modify i fun b => { b with harnessB := some n2, w := some n3 } }
        if objs.any (fun o => (sc.ops[o]?.map (·.w)) != some n3) then m := m.add "C01" "delivered-to-another-watcher" |>.add "C05" "mixed-watchers"
      | none => m := m.add "C01" "callback-without-a-raised-batch"
    else if kind == "cbret" then
      -- f = [t, cbret, b, objs as the watcher finds them in its batch when it returns]
      let changed : Bool := f.length ≥ 4 &&
        (match m.batches.toList.find? (fun b => b.harnessB == some n2) with
         | some b => objsOf (f.getD 3 "") != b.objs
         | none => false)
      if changed then
        m := m.add "C01" "watcher-finds-other-operations-than-were-raised-for-it" |>.add "C05" "batch-changed-after-it-was-handed-to-the-watcher"
      m := { m with batches := m.batches.map fun b => if b.harnessB == some n2 then { b with cbRet := some t } else b }
    else if kind == "end" then
      -- C15: with ErrorOnFullBuffer no Enqueue is left waiting at the end of the history
      if sc.c.errorOnFull && m.calls.any (fun c => c.res.isNone && !c.hooked && c.freeAt < t) then
        m := m.add "C15" "error-mode-enqueue-still-waiting"
      -- starvation: with no rate limiter every cycle empties the buffer as far as batch slots allow. An operation
      -- accepted at least three flush intervals before the end of a history whose last three intervals saw a
      -- running, unpaused Batcher with every batch finished must have been delivered.
      let quiet := 3 * sc.c.flushInt
      let running := m.started.isSome && m.shutdownAt.isNone && !m.stopAsked && !m.paused &&
        (match m.pauseAt with | some p => decide (p + sc.c.pause + quiet ≤ t) | none => true) &&
        (match m.started with | some s0 => decide (s0 + quiet ≤ t) | none => false)
      let allDone := m.batches.all fun b => batchFinished sc b (t - quiet)
      if !sc.c.limited && running && allDone && t ≥ quiet then
        if m.calls.any (fun c => c.res == some "ok" && c.delivered.isNone && c.t + quiet ≤ t) then
          m := m.add "C08" "accepted-operation-not-delivered-although-nothing-holds-it-back"
          m := m.add "C01" "accepted-operation-never-delivered"
          -- C10: with a slot limit, operations that could not get a slot stay buffered only until callbacks finish
          if sc.c.gen == .v2 && sc.c.mcb > 0 then m := m.add "C10" "stalled-although-every-slot-is-free"
    else if kind == "sample" then
      let needs := n2
      let inbuf := n3
      -- the system is settled: a stop request must have been honoured unless the loop is inside a pause
      -- (a pause lasts PauseTime: a sample at or after its end is outside it whether or not a resume was reported)
      let inPause := m.paused && (match m.pauseAt with | some p => decide (t < p + sc.c.pause) | none => false)
      let blocked := m.calls.any fun c => c.res.isNone && !c.hooked && c.freeAt < t
      if m.stopAsked && m.started.isSome && !inPause && !m.expectPause && m.shutdownAt.isNone then
        m := m.add "C16" "stop-requested-but-not-shut-down"
        if blocked then m := m.add "C15" "blocked-enqueue-not-released:the-batcher-never-shut-down"
      -- C15: an Enqueue blocked on the full buffer returns when the Batcher shuts down (v1: finding F3, it panics)
      if sc.c.gen == .v2 && blocked && (match m.shutdownAt with | some sd => decide (sd < t) | none => false) then
        m := m.add "C15" "blocked-enqueue-still-waiting-after-shutdown" |>.add "C16" "enqueue-blocks-after-shutdown"
      -- C13: the pause ends after PauseTime
      if m.paused && !inPause && !m.stopAsked && m.shutdownAt.isNone then m := m.add "C13" "no-resume-after-pausetime"
      -- the system is settled: an effective Pause() must have raised its pause event by now
      if m.expectPause && !m.stopAsked && m.shutdownAt.isNone then
        m := { m with expectPause := false }
        m := m.add "C13" "effective-pause-call-without-pause-event"
      -- C19: the system is settled: the latest AuditInterval tick (or, if it fell into a pause, the resume after it) has been answered
      match m.started with
      | some s0 =>
        if !m.stopAsked && m.shutdownAt.isNone && t ≥ s0 + sc.c.auditInt then
          let g := s0 + ((t - s0) / sc.c.auditInt) * sc.c.auditInt
          let due := match m.pauseAt with
            | some p => if p ≤ g && g < p + sc.c.pause then p + sc.c.pause else g
            | none => g
          let answered := match m.lastAudit with | some a => decide (a ≥ g) | none => false
          -- (while the loop sleeps in a pause - possibly a new one taken at the very instant of a resume - ticks wait)
          if due ≤ t && !answered && !m.expectPause && !m.paused then m := m.add "C19" "audit-tick-without-audit"
      | none => pure ()
      let infl : Int := ((f.getD 4 "").toInt?).getD 0
      if m.shutdownAt.isNone then
        -- C15: bounded
        if inbuf > sc.c.bufCap then m := m.add "C15" "size-exceeds-capacity"
        -- C01: accepted operations are buffered or in exactly one batch
        let accepted := (m.calls.filter fun c => c.res == some "ok").size
        let delivered := (m.calls.filter fun c => c.delivered.isSome).size
        if accepted - delivered != inbuf && m.started.isSome then m := m.add "C01" "buffered-count-differs-from-accepted-minus-delivered"
        -- C10
        if sc.c.gen == .v2 && sc.c.mcb > 0 && !m.auditFail then
          let inprog := (m.batches.filter fun b => !batchFinished sc b t).size
          if infl > sc.c.mcb then m := m.add "C10" "inflight-above-limit"
          if inprog > sc.c.mcb then m := m.add "C10" "more-batches-in-progress-than-limit"
          if infl != inprog then m := m.add "C10" "inflight-differs-from-batches-in-progress"
          -- C11: at the write-off the slot is freed too (also for a batch whose operations cost nothing)
          let writtenOff := (m.batches.filter fun b => batchFinished sc b t && (match b.cbRet with | some r => decide (r > t) | none => true)).size
          if infl > inprog && writtenOff > 0 then m := m.add "C11" "write-off-time:slot-still-held-after-the-limit"
        -- C03 / C11: demand = cost of everything accepted (or blocked / parked inside Enqueue) whose batch has not finished
        if !m.stale && (!m.auditFail || m.auditInFlight || m.auditFailHealthy) then
          let outstanding := (m.calls.filter fun c =>
            let counted := c.res == some "ok" || (c.res.isNone)
            let fin := match c.delivered with
              | some bi => (m.batches[bi]?.map fun b => batchFinished sc b t).getD false
              | none => false
            counted && !fin).foldl (fun acc c => acc + c.cost) 0
          if needs != outstanding then
            let rejFull := (m.calls.filter fun c => c.res == some "BufferFull").foldl (fun acc c => acc + c.cost) 0
            let rejShut := (m.calls.filter fun c => c.res == some "Shutdown").foldl (fun acc c => acc + c.cost) 0
            let rule :=
              if needs > outstanding && rejFull > 0 && needs ≤ outstanding + rejFull + rejShut then "rejected-enqueue-keeps-demand:BufferFull"
              else if needs > outstanding && rejShut > 0 && needs ≤ outstanding + rejFull + rejShut then "rejected-enqueue-keeps-demand:Shutdown"
              else if needs < outstanding && m.auditInFlight then "demand-undercount:audit-with-enqueue-in-flight"
              else if needs < outstanding then "demand-undercount" else "demand-overcount"
            m := m.add "C03" rule
            if rule == "demand-undercount" || rule == "demand-overcount" then m := m.add "C11" ("write-off-time:" ++ rule)
      else
        -- after shutdown nothing is accepted any more: what was refused must not be in the figure, so the demand is
        -- at most the cost of what was accepted (buffered operations are discarded but stay counted), of calls
        -- still inside Enqueue, and of unfinished batches
        if !m.stale && !m.auditFail then
          let bound := (m.calls.filter fun c =>
            let counted := c.res == some "ok" || c.res.isNone
            let fin := match c.delivered with
              | some bi => (m.batches[bi]?.map fun b => batchFinished sc b t).getD false
              | none => false
            counted && !fin).foldl (fun acc c => acc + c.cost) 0
          if needs > bound then
            m := m.add "C03" "rejected-enqueue-keeps-demand:Shutdown" |>.add "C16" "enqueue-after-shutdown-changes-demand"
          -- … and a batch that is still with its watcher (not returned, not timed out) stays in the figure: shutting
          -- down writes nothing off
          let inProgress := (m.calls.filter fun c =>
            match c.delivered with
            | some bi => (m.batches[bi]?.map fun b => !batchFinished sc b t).getD false
            | none => false).foldl (fun acc c => acc + c.cost) 0
          if needs < inProgress then
            m := m.add "C03" "demand-undercount:after-shutdown" |>.add "C11" "write-off-time:before-the-limit-after-shutdown"
      m := { m with lastNeeds := if m.shutdownAt.isSome then some needs else none }
  return m.viols

def checkHist (inp obs : KV) : Option String × List (String × String) :=
  if obs.has "panic" then (some ("fields=panic " ++ obs.get "panic"), [("C20", "panic:" ++ obs.get "panic")]) else
  if obs.has "crash" then (some ("fields=crash " ++ obs.get "crash"), [("C20", "crash:" ++ obs.get "crash")]) else
  if obs.has "hang" then
    -- the process stopped making progress in real time: goroutines blocked on a mutex / WaitGroup for good
    (some ("fields=hang " ++ obs.get "hang"),
      [("C16", "does-not-terminate:" ++ obs.get "hang"), ("C20", "deadlock:" ++ obs.get "hang"),
       ("C08", "starved:the-processing-loop-is-blocked-for-ever:" ++ obs.get "hang")] ++
      (if ((obs.get "hang").splitOn "Pause").length > 1 || ((obs.get "hang").splitOn "resume").length > 1
        then [("C13", "pause-or-resume-blocks-for-ever:" ++ obs.get "hang")] else [])) else
  let sc := parseHScn inp
  let entries := if obs.get "tr" == "-" || obs.get "tr" == "" then [] else (obs.get "tr").splitOn ";"
  -- without WithEmitBatch() the trace does not say what each cycle raised: no acceptance, the monitors alone judge it
  -- (they take the batch from the callback that receives it)
  let (mm, inconclusive) := if sc.emitBatch then acceptHist sc (inp.nat "cap") entries else (none, false)
  let mm := if inconclusive then some ("fields=inconclusive candidate-set-bound-hit " ++ (mm.getD "").take 300) else mm
  -- a library goroutine was still blocked after every callback, caller and loop had been released
  let leak := if obs.has "leak" then
      [("C20", "goroutine-blocked-forever")] ++
      (if sc.c.gen == .v2 && sc.c.mcb > 0 then [("C10", "goroutine-blocked-forever-with-slot-limit")] else [])
    else []
  let mm := if obs.has "leak" && mm.isNone then some "fields=leak goroutine-blocked-forever" else mm
  (mm, monitorHist sc entries ++ leak)

end GoBatcher.Driver

import GoBatcher.Model.Eventer
import GoBatcher.Driver.Parse
/-!
`events` family: concurrent AddListener / RemoveListener / emit on the real listener registry.

* property monitors (C20), on the trace alone;
* trace acceptance by M-Eventer: AddListener / RemoveListener take effect at some instant between their call and
  their return, an emit takes the read lock between its call and its first delivery and gives it back between its
  last delivery and its return; the driver keeps the set of model states reachable under every such placement and
  requires every logged delivery to be an enabled `deliver` step.
-/
namespace GoBatcher.Driver
open GoBatcher

structure ECand where
  s : ESt
  pendAdd : List Nat
  pendRem : List Nat
  pendEmit : List Nat

def ECand.key (c : ECand) : String :=
  toString (c.s.listeners, c.s.removed, c.s.active, c.s.active.map (fun k => ((c.s.em k).pending, (c.s.em k).done)), c.s.finished,
    c.pendAdd, c.pendRem, c.pendEmit)

def dedupE (cs : List ECand) : List ECand := Id.run do
  let mut seen : List String := []
  let mut out : List ECand := []
  for c in cs do
    let k := c.key
    if !seen.contains k then
      seen := k :: seen
      out := c :: out
  return out.reverse

/-- one hidden step from a candidate, in every possible way -/
def hiddenSteps (c : ECand) (retSeen : List Nat) : List ECand :=
  (c.pendAdd.filterMap fun j => (estep c.s (.add j)).map fun s' => { c with s := s', pendAdd := c.pendAdd.erase j }) ++
  (c.pendRem.filterMap fun j => (estep c.s (.remove j)).map fun s' => { c with s := s', pendRem := c.pendRem.erase j }) ++
  (c.pendEmit.filterMap fun k => (estep c.s (.emitBegin k)).map fun s' => { c with s := s', pendEmit := c.pendEmit.erase k }) ++
  (c.s.active.filterMap fun k => if retSeen.contains k then none else (estep c.s (.emitEnd k)).map fun s' => { c with s := s' })

def closureE (cs : List ECand) (fuel : Nat) : List ECand :=
  match fuel with
  | 0 => cs
  | fuel + 1 =>
    let next := dedupE (cs ++ cs.flatMap fun c => hiddenSteps c [])
    if next.length == cs.length then cs else closureE next fuel

inductive EvRes where
  | ok | inconclusive | mismatch (why : String)

def acceptEvents (entries : List String) : EvRes := Id.run do
  let mut cands : List ECand := [{ s := ESt.init, pendAdd := [], pendRem := [], pendEmit := [] }]
  let mut idx := 0
  for e in entries do
    idx := idx + 1
    let f := e.splitOn ":"
    let kind := f.getD 0 ""
    let a := ((f.getD 1 "").toNat?).getD 0
    let b := ((f.getD 2 "").toNat?).getD 0
    cands := closureE cands 12
    if cands.length > 300 then return .inconclusive
    if kind == "ac" then cands := cands.map fun c => { c with pendAdd := a :: c.pendAdd }
    else if kind == "ar" then cands := cands.filter fun c => !c.pendAdd.contains a
    else if kind == "rc" then cands := cands.map fun c => { c with pendRem := a :: c.pendRem }
    else if kind == "rr" then cands := cands.filter fun c => !c.pendRem.contains a
    else if kind == "ec" then cands := cands.map fun c => { c with pendEmit := a :: c.pendEmit }
    else if kind == "d" then
      cands := cands.filterMap fun c => (estep c.s (.deliver a b)).map fun s' => { c with s := s' }
    else if kind == "er" then
      cands := cands.filter fun c => c.s.finished.contains a
    else pure ()
    cands := dedupE cands
    if cands.isEmpty then
      return .mismatch s!"events-replay entry={idx} `{e}` no placement of the registry steps explains this entry"
  return .ok

/-- C20 monitors on the trace alone -/
def monitorEvents (entries : List String) : List (String × String) := Id.run do
  let mut viols : List (String × String) := []
  let add (vs : List (String × String)) (r : String) : List (String × String) :=
    if vs.contains ("C20", r) then vs else vs ++ [("C20", r)]
  let mut addRet : List Nat := []
  let mut remCall : List Nat := []
  let mut remRet : List Nat := []
  let mut emitOpen : List Nat := []
  let mut emitDone : List Nat := []
  -- per emit: listeners that were surely registered for the whole emit must get it exactly once
  let mut mustGet : List (Nat × List Nat) := []
  let mut got : List (Nat × Nat) := []
  for e in entries do
    let f := e.splitOn ":"
    let kind := f.getD 0 ""
    let a := ((f.getD 1 "").toNat?).getD 0
    let b := ((f.getD 2 "").toNat?).getD 0
    if kind == "panic" then viols := add viols ("panic:" ++ f.getD 1 "")
    else if kind == "ar" then addRet := a :: addRet
    else if kind == "rc" then
      remCall := a :: remCall
      -- an emit still open no longer has to reach this listener
      mustGet := mustGet.map fun (k, ls) => if emitOpen.contains k then (k, ls.erase a) else (k, ls)
    else if kind == "rr" then remRet := a :: remRet
    else if kind == "ec" then
      emitOpen := a :: emitOpen
      mustGet := (a, addRet.filter fun j => !remCall.contains j) :: mustGet
    else if kind == "d" then
      if f.getD 3 "" != "1" then viols := add viols "listener-called-with-wrong-name-or-value"
      if remRet.contains b then viols := add viols "event-reached-listener-after-RemoveListener-returned"
      if !emitOpen.contains a then viols := add viols "listener-called-outside-its-emit"
      if got.contains (a, b) then viols := add viols "event-delivered-twice-to-one-listener"
      got := (a, b) :: got
    else if kind == "er" then
      emitOpen := emitOpen.erase a
      emitDone := a :: emitDone
      match mustGet.lookup a with
      | some ls => if ls.any fun j => !got.contains (a, j) then viols := add viols "registered-listener-missed-an-event"
      | none => pure ()
    else pure ()
  return viols

def checkEvents (_inp obs : KV) : Option String × List (String × String) :=
  if obs.has "hang" then (some "fields=hang", [("C20", "deadlock-in-listener-registry")]) else
  let entries := if obs.get "tr" == "-" || obs.get "tr" == "" then [] else (obs.get "tr").splitOn ";"
  let viols := monitorEvents entries
  match acceptEvents entries with
  | .ok => (none, viols)
  | .inconclusive => (none, viols)
  | .mismatch why => (some ("fields=" ++ why), viols)

/-- `stress` lines: the race-detector run of the whole public API (exploration in support of C20) -/
def checkStress (_inp obs : KV) : Option String × List (String × String) :=
  let v1 := if obs.nat "races" > 0 then [("C20", "data-race:" ++ obs.get "where")] else []
  let v2 := if obs.nat "panics" > 0 then [("C20", "panic-under-concurrent-use:" ++ obs.get "first")] else []
  let v3 := if obs.nat "hang" > 0 then [("C20", "deadlock-under-concurrent-use")] else []
  (none, v1 ++ v2 ++ v3)

end GoBatcher.Driver

import GoBatcher.Model.LeaseMgr
import GoBatcher.Driver.Parse
namespace GoBatcher.Driver
open GoBatcher

def sdkErrOf (code : String) : SdkErr :=
  if code == "none" then .none else if code == "other" || code == "cancelled" then .other
  else if code == "EmptyCode" then .storage "" else .storage code

def evStr : LmEvent → String
  | .createdContainer => "created-container" | .verifiedContainer => "verified-container"
  | .createdBlob i => s!"created-blob:{i}" | .verifiedBlob i => s!"verified-blob:{i}"
  | .failed i => s!"failed:{i}" | .error => "error"

def evsStr (l : List LmEvent) : String := if l.isEmpty then "-" else "+".intercalate (l.map evStr)

def checkLeaseMgr (inp obs : KV) : Option String × List (String × String) :=
  let gen := inp.nat "gen"
  let site := inp.get "site"
  let e := sdkErrOf (inp.get "code")
  if site == "provision" then
    let (err, ev) := provisionOutcome e
    let exp := [("err", if err then "1" else "0"), ("ev", evsStr ev), ("creates", "1")]
    let got := [("err", obs.get "err"), ("ev", obs.get "ev"), ("creates", obs.get "creates")]
    let okCode := inp.get "code" == "none" || inp.get "code" == "ContainerAlreadyExists"
    let viol := if obs.get "err" == "0" && !okCode then [("C18", "provision-succeeds-on-error:" ++ inp.get "code")]
      else if obs.get "err" == "1" && okCode then [("C18", "provision-fails-on-success:" ++ inp.get "code")] else []
    (diffFields exp got, viol)
  else if site == "lease" then
    let idx := inp.nat "index"
    let (secs, ev) := leaseOutcome idx e
    let exp := [("secs", toString secs), ("ev", evsStr ev), ("id", "lease-id-7"), ("dur", "15")]
    let got := [("secs", obs.get "secs"), ("ev", obs.get "ev"), ("id", obs.get "id"), ("dur", obs.get "dur")]
    let viol :=
      (if obs.get "secs" != "0" && inp.get "code" != "none" then [("C18", "lease-reported-without-confirmation:" ++ inp.get "code")] else []) ++
      (if inp.get "code" == "none" && obs.get "secs" != "15" then [("C18", "confirmed-lease-not-reported-as-15s")] else []) ++
      (if inp.get "code" != "none" && obs.get "ev" == "-" then [("C18", "lease-error-raises-no-event:" ++ inp.get "code")] else []) ++
      (if obs.get "dur" != "15" || obs.get "id" != "lease-id-7" then [("C18", "lease-request-parameters")] else [])
    (diffFields exp got, viol)
  else if site == "create" then
    let n := inp.nat "n"
    let pos := inp.nat "pos"
    let results := (List.range n).map fun i => if i == pos then e else SdkErr.none
    let okCode := ["none", "BlobAlreadyExists", "LeaseIdMissing"].contains (inp.get "code")
    if gen == 1 then
      let (err, ev, ups) := createV1 results
      let exp := [("err", if err then "1" else "0"), ("ev", evsStr ev), ("uploads", toString ups), ("ifnonematch", "1")]
      let got := [("err", obs.get "err"), ("ev", obs.get "ev"), ("uploads", obs.get "uploads"), ("ifnonematch", obs.get "ifnonematch")]
      let viol :=
        (if !okCode && obs.get "err" == "0" then [("C18", "v1-blob-error-not-returned:" ++ inp.get "code")] else []) ++
        (if okCode && obs.get "err" == "1" then [("C18", "v1-benign-blob-outcome-returned-as-error")] else []) ++
        (if obs.get "ifnonematch" != "1" then [("C18", "upload-may-overwrite-existing-blob")] else []) ++
        (if okCode && obs.nat "uploads" != n then [("C18", "not-every-blob-attempted")] else [])
      (diffFields exp got, viol)
    else
      let (ev, ups) := createV2 results
      let exp := [("err", "0"), ("ev", evsStr ev), ("uploads", toString ups), ("ifnonematch", "1")]
      let got := [("err", obs.get "err"), ("ev", obs.get "ev"), ("uploads", obs.get "uploads"), ("ifnonematch", obs.get "ifnonematch")]
      let nErr := ((obs.get "ev").splitOn "+").count "error"
      let viol :=
        (if !okCode && nErr != 1 then [("C18", "v2-blob-error-not-surfaced:" ++ inp.get "code")] else []) ++
        (if okCode && nErr != 0 then [("C18", "v2-benign-blob-outcome-raises-error")] else []) ++
        (if obs.get "ifnonematch" != "1" then [("C18", "upload-may-overwrite-existing-blob")] else []) ++
        (if obs.nat "uploads" != n then [("C18", "v2-remaining-blobs-not-attempted")] else [])
      (diffFields exp got, viol)
  else if site == "create2" then
    let codes := (inp.get "codes").splitOn ","
    let results := codes.map sdkErrOf
    let benign := fun (c : String) => ["none", "BlobAlreadyExists", "LeaseIdMissing"].contains c
    let obsEv := if obs.get "ev" == "-" then [] else (obs.get "ev").splitOn "+"
    -- monitors on the observation alone: a blob whose upload FAILED is never reported created / verified
    let badIdx := (codes.zipIdx.filter fun (c, _) => !benign c).map (·.2)
    let claimed := badIdx.filter fun i => obsEv.contains s!"created-blob:{i}" || obsEv.contains s!"verified-blob:{i}"
    let viol0 := if claimed.isEmpty then [] else [("C18", s!"failed-blob-reported-as-present:index={claimed.headD 0}:codes={inp.get "codes"}")]
    if gen == 1 then
      let (err, ev, ups) := createV1 results
      let exp := [("err", if err then "1" else "0"), ("ev", evsStr ev), ("uploads", toString ups)]
      let got := [("err", obs.get "err"), ("ev", obs.get "ev"), ("uploads", obs.get "uploads")]
      let viol := viol0 ++
        (if !badIdx.isEmpty && obs.get "err" == "0" then [("C18", "v1-blob-error-not-returned:" ++ inp.get "codes")] else []) ++
        (if badIdx.isEmpty && obs.get "err" == "1" then [("C18", "v1-benign-blob-outcome-returned-as-error")] else [])
      (diffFields exp got, viol)
    else
      let (ev, ups) := createV2 results
      let exp := [("err", "0"), ("ev", evsStr ev), ("uploads", toString ups)]
      let got := [("err", obs.get "err"), ("ev", obs.get "ev"), ("uploads", obs.get "uploads")]
      let nErr := obsEv.count "error"
      let viol := viol0 ++
        (if nErr < badIdx.length then [("C18", "v2-blob-error-not-surfaced:" ++ inp.get "codes")] else []) ++
        (if nErr > badIdx.length then [("C18", "v2-benign-blob-outcome-raises-error")] else []) ++
        (if obs.nat "uploads" != codes.length then [("C18", "v2-remaining-blobs-not-attempted")] else [])
      (diffFields exp got, viol)
  else if site == "loopback" then
    -- blobs are named after the partition index, never overwritten, leased for 15 s under the caller's id
    let exp := [("perr", "0"), ("cerr", "0"), ("secs0", "15"), ("secs1", "0"), ("secs2", "0"),
      ("ev", "created-container+created-blob:0+created-blob:1+verified-blob:2+failed:1+error"),
      ("reqs", "container:/cont,upload:/cont/0:ifnonematch=*,upload:/cont/1:ifnonematch=*,upload:/cont/2:ifnonematch=*," ++
               "lease:/cont/0:dur=15:id=11111111-1111-1111-1111-111111111111:action=acquire," ++
               "lease:/cont/1:dur=15:id=22222222-2222-2222-2222-222222222222:action=acquire," ++
               "lease:/cont/2:dur=15:id=33333333-3333-3333-3333-333333333333:action=acquire")]
    let got := exp.map fun (k, _) => (k, obs.get k)
    let d := diffFields exp got
    (d, (if d.isSome then [("C18", "wire-level-request-differs")] else []) ++
        (if obs.get "secs1" != "0" || obs.get "secs2" != "0" then [("C18", "lease-reported-without-confirmation:loopback")] else []))
  else (some "fields=site unknown", [])

end GoBatcher.Driver

/-! Line-protocol helpers for the driver (not part of the proved model). -/
namespace GoBatcher.Driver

abbrev KV := List (String × String)

def parseKV (s : String) : KV :=
  (s.splitOn " ").filterMap fun tok =>
    match tok.splitOn "=" with
    | [k, v] => some (k, v)
    | k :: v :: rest => some (k, "=".intercalate (v :: rest))
    | _ => none

def KV.get (kv : KV) (k : String) : String := (kv.lookup k).getD ""
def KV.nat (kv : KV) (k : String) : Nat := ((kv.lookup k).bind String.toNat?).getD 0
def KV.int (kv : KV) (k : String) : Int := ((kv.lookup k).bind String.toInt?).getD 0
def KV.bool (kv : KV) (k : String) : Bool := kv.get k == "1"
def KV.has (kv : KV) (k : String) : Bool := (kv.lookup k).isSome

/-- "a,b,c" or "-" -/
def natList (s : String) : List Nat :=
  if s == "-" || s == "" then [] else (s.splitOn ",").filterMap String.toNat?

/-- "[1,2];[3]" or "-" -/
def batchList (s : String) : List (List Nat) :=
  if s == "-" || s == "" then [] else
    (s.splitOn ";").map fun b => natList ((b.replace "[" "").replace "]" "")

def showNats (l : List Nat) : String := "[" ++ ",".intercalate (l.map toString) ++ "]"
def showBatches (l : List (List Nat)) : String :=
  if l.isEmpty then "-" else ";".intercalate (l.map showNats)

/-- split "input | observed" -/
def splitObs (line : String) : String × String :=
  match line.splitOn " | " with
  | [a, b] => (a, b)
  | a :: rest => (a, " | ".intercalate rest)
  | [] => ("", "")

def insertSorted (x : List Nat) : List (List Nat) → List (List Nat)
  | [] => [x]
  | y :: ys => if x.headD 0 < y.headD 0 || (x.headD 0 == y.headD 0 && x.length ≤ y.length) then x :: y :: ys else y :: insertSorted x ys

def sortBatches (l : List (List Nat)) : List (List Nat) := l.foldr insertSorted []

/-- field-by-field comparison; `none` when equal -/
def diffFields (exp got : List (String × String)) : Option String :=
  let bad := exp.filter fun (k, v) => got.lookup k != some v
  if bad.isEmpty then none else
    some ("fields=" ++ ",".intercalate (bad.map (·.1)) ++ " expected " ++
      " ".intercalate (bad.map fun (k, v) => k ++ "=" ++ v) ++ " observed " ++
      " ".intercalate (bad.map fun (k, _) => k ++ "=" ++ (got.lookup k).getD "?"))

end GoBatcher.Driver

import GoBatcher.Driver.Parse
/-!
Property monitors for `lease` traces (N SharedResource instances of the real code against one fake lease store),
evaluated on the trace alone: C04 (counted only while the lease is valid), C06 (capacity formula and bounds),
C07 (acquire only on demand, never renew), C09 (needed capacity acquired in bounded time), C17 (lifecycle and
live reconfiguration).
-/
namespace GoBatcher.Driver

structure LInstCfg where
  shared : Nat
  reserved : Nat
  factor : Nat        -- as configured (0 = default 1)
  maxInterval : Nat   -- ms, as configured (0 = default 500)
  provErr : Bool
  partErr : Bool := false   -- v1: createPartitions returns an error (the resource is provisioned all the same)
  faults : List String
  pre : List Nat
  post : List Nat
  slow : Nat := 0     -- a listener of this instance takes this long over every `allocated` event (holds the loop up)
deriving Repr

structure LScn where
  gen : Nat
  lease : Nat
  insts : Array LInstCfg
  endT : Nat

def parseLScn (inp : KV) : LScn :=
  let insts := ((inp.get "inst").splitOn ";").map fun e =>
    match e.splitOn ":" with
    | [sh, rs, f, mi, pre, post, flt, _, pe] =>
      let nums (s : String) : List Nat := if s == "-" then [] else (s.splitOn "+").filterMap String.toNat?
      ({ shared := (sh.toNat?).getD 0, reserved := (rs.toNat?).getD 0, factor := (f.toNat?).getD 0, maxInterval := (mi.toNat?).getD 0,
         provErr := pe == "1", partErr := pe == "2", faults := if flt == "-" then [] else flt.splitOn "+", pre := nums pre, post := nums post } : LInstCfg)
    | [sh, rs, f, mi, pre, post, flt, _, pe, slow] =>
      let nums (s : String) : List Nat := if s == "-" then [] else (s.splitOn "+").filterMap String.toNat?
      ({ shared := (sh.toNat?).getD 0, reserved := (rs.toNat?).getD 0, factor := (f.toNat?).getD 0, maxInterval := (mi.toNat?).getD 0,
         provErr := pe == "1", partErr := pe == "2", faults := if flt == "-" then [] else flt.splitOn "+", pre := nums pre, post := nums post,
         slow := (slow.toNat?).getD 0 } : LInstCfg)
    | _ => { shared := 0, reserved := 0, factor := 0, maxInterval := 0, provErr := false, faults := [], pre := [], post := [] }
  { gen := inp.nat "gen", lease := inp.nat "lease", insts := insts.toArray, endT := inp.nat "end" }

def effFactor (f : Nat) : Nat := if f == 0 then 1 else f
def ceilDiv (a b : Nat) : Nat := if b == 0 then 0 else (a + b - 1) / b

structure LInstSt where
  started : Bool := false
  startedOk : Nat := 0
  stopAsked : Bool := false
  shutdownAt : Option Nat := none
  shutdowns : Nat := 0
  crashed : Bool := false
  reserved : Nat := 0
  shared : Nat := 0
  parts : Nat := 0                         -- provisioned partition count
  held : List Nat := []                    -- partitions counted (allocated, not yet released / dropped)
  target : Nat := 0                        -- partitions the last GiveMe asks for
  lastGiveMe : Option (Nat × Nat) := none  -- (time, value)
  callOpen : Option (Nat × Nat) := none    -- (issue time, partition) of the lease call in flight
  retAt : List (Nat × Nat) := []           -- partition ↦ time its grant was reported
  procAt : List (Nat × Nat) := []          -- partition ↦ time the store processed (granted) that call
  lastFault : Nat := 0                     -- time of the last refused / errored / slow call
  provisioning : Bool := false
  pendingShared : Option (Nat × Nat) := none  -- (instant, partition count) of a SetSharedCapacity whose re-provisioning is still owed
  inListener : Bool := false               -- the loop is held up inside a slow listener (before it recomputes the capacity)
  creates : Nat := 0                       -- number of (re-)provisionings so far
  needySince : Option Nat := none          -- holds fewer than min(target, parts) partitions continuously since then
  procs : Nat := 0                         -- lease calls processed by the store so far
  faultsDoneAt : Nat := 0                  -- instant at which the last injected fault was consumed
  regrant : List (Nat × Nat) := []         -- (instant, partition): granted again at the instant its previous lease ended, before that release was reported
  satisfied : Bool := false                -- since the last demand change / fault it has held min(needed, existing) partitions at some instant

structure LMon where
  insts : Array LInstSt
  suspect : List (Nat × Nat) := []         -- (instant, instance): a request seen at full count; excused by a release reported at the same instant
  suspectP : List (Nat × Nat × Nat) := []  -- (instant, instance, partition): a request for a partition still seen as counted; excused likewise
  store : List (Nat × Nat × Nat) := []     -- partition ↦ (owner, until)
  viols : List (String × String) := []

def LMon.add (m : LMon) (p r : String) : LMon :=
  if m.viols.contains (p, r) then m else { m with viols := m.viols ++ [(p, r)] }

def LMon.upd (m : LMon) (i : Nat) (f : LInstSt → LInstSt) : LMon :=
  { m with insts := m.insts.modify i f }

def LInstSt.reneedy (s : LInstSt) (t : Nat) : LInstSt :=
  if s.held.length < min s.target s.parts then
    (if s.needySince.isNone then { s with needySince := some t } else s)
  else { s with needySince := none }

def monitorLease (sc : LScn) (entries : List String) : List (String × String) := Id.run do
  let mut m : LMon := { insts := sc.insts.map fun c => { reserved := c.reserved, shared := c.shared } }
  for e in entries do
    let f := e.splitOn ":"
    let t := ((f.getD 0 "").toNat?).getD 0
    let kind := f.getD 1 ""
    let n2 := ((f.getD 2 "").toNat?).getD 0
    let n3 := ((f.getD 3 "").toNat?).getD 0
    let cfg (i : Nat) : LInstCfg := sc.insts[i]?.getD ⟨0, 0, 0, 0, false, false, [], [], [], 0⟩
    let ist (i : Nat) : LInstSt := m.insts[i]?.getD {}
    if m.suspect.any (fun x => x.1 < t) then
      m := m.add "C07" "lease-request-without-demand"
      m := { m with suspect := m.suspect.filter (fun x => x.1 ≥ t) }
    if m.suspectP.any (fun x => x.1 < t) then
      m := m.add "C07" "lease-request-for-a-partition-it-counts"
      m := { m with suspectP := m.suspectP.filter (fun x => x.1 ≥ t) }
    if kind == "actpanic" || kind == "panic" then
      m := m.add "C17" "panic-in-api-call" |>.add "C20" "panic-in-api-call"
    else if kind == "act" then
      let a := f.getD 2 ""
      let i := n3
      let v := ((f.getD 4 "").toNat?).getD 0
      if a == "g" then
        let fac := effFactor (cfg i).factor
        let above := v - (ist i).reserved
        m := m.upd i fun s =>
          let tg := ceilDiv above fac
          ({ s with target := tg, lastGiveMe := some (t, v), satisfied := decide (s.held.length ≥ min tg s.parts) } : LInstSt).reneedy t
      else if a == "r" then m := m.upd i fun s => { s with reserved := v }
      else if a == "c" then
        if f.getD 5 "" == "ok" then
          let want := ceilDiv v (effFactor (cfg i).factor)
          m := m.upd i fun s => { s with shared := v, pendingShared := some (t, if want > 500 then 500 else want) }
      else if a == "S" then
        let res := f.getD 4 ""
        -- v1: only in the order Provision, Start, Stop - a resource that has been stopped never starts (again)
        if res == "ok" && sc.gen == 1 && (ist i).stopAsked then m := m.add "C17" "v1-start-succeeds-after-stop"
        if res == "ok" then
          if (ist i).startedOk > 0 then m := m.add "C17" "start-succeeds-twice"
          m := m.upd i fun s => { s with started := true, startedOk := s.startedOk + 1 }
        else if (ist i).startedOk == 0 && !(cfg i).provErr && !(ist i).stopAsked && sc.gen == 2 then
          m := m.add "C17" "first-start-fails"
        if res != "ok" && (cfg i).provErr && (ist i).started then m := m.add "C17" "started-despite-provisioning-failure"
      else if a == "X" then m := m.upd i fun s => { s with stopAsked := true }
      else if a == "K" then m := m.upd i fun s => { s with crashed := true, stopAsked := true }
    else if kind == "create" then
      -- create:i:count
      let i := n2
      let fac := effFactor (cfg i).factor
      let want := ceilDiv (ist i).shared fac
      let exp := if want > 500 then 500 else want
      if n3 > 500 then m := m.add "C06" "more-than-500-partitions-provisioned"
      if sc.gen == 2 && n3 != exp then m := m.add "C06" "partition-count-not-ceil-shared-over-factor"
      if sc.gen == 1 && n3 != want then m := m.add "C06" "partition-count-not-ceil-shared-over-factor"
      -- partitions beyond the new count stop being counted
      m := m.upd i fun s => match s.pendingShared with
        | some (_, cnt) => if cnt == n3 then { s with pendingShared := none } else s
        | none => s
      m := m.upd i fun s =>
        let h := s.held.filter (· < n3)
        ({ s with parts := n3, held := h, provisioning := true, creates := s.creates + 1, satisfied := s.satisfied || decide (h.length ≥ min s.target n3) } : LInstSt).reneedy t
    else if kind == "created" then
      m := m.upd n2 fun s => { s with provisioning := false }
    else if kind == "lsleep" then m := m.upd n2 fun s => { s with inListener := true }
    else if kind == "lwake" then m := m.upd n2 fun s => { s with inListener := false }
    else if kind == "issue" then
      let i := n2
      let p := n3
      let s := ist i
      if s.shutdownAt.isSome then m := m.add "C17" "lease-request-after-shutdown"
      -- (the expiry goroutine clears the partition before it reports the release: a request issued in between is
      -- judged once the instant is over)
      if !(s.held.length < s.target) then m := { m with suspect := (t, i) :: m.suspect }
      if s.held.contains p then m := { m with suspectP := (t, i, p) :: m.suspectP }
      if p ≥ s.parts then m := m.add "C07" "lease-request-for-a-partition-that-does-not-exist" |>.add "C17" "lease-request-out-of-range"
      m := m.upd i fun s => { s with callOpen := some (t, p) }
    else if kind == "proc" then
      let i := n2
      let p := n3
      let res := f.getD 4 ""
      let nf := (cfg i).faults.length
      m := m.upd i fun s => { s with procs := s.procs + 1, faultsDoneAt := if s.procs + 1 == nf then t else s.faultsDoneAt }
      if res == "grant" then
        m := { m with store := (p, i, t + sc.lease) :: m.store.filter (·.1 != p) }
        m := m.upd i fun s => { s with procAt := (p, t) :: s.procAt.filter (·.1 != p) }
      else m := m.upd i fun s => { s with lastFault := t, satisfied := decide (s.held.length ≥ min s.target s.parts) }
    else if kind == "ret" then
      let i := n2
      let p := n3
      let slow := match (ist i).callOpen with | some (t0, _) => decide (t > t0) | none => false
      m := m.upd i fun s => { s with callOpen := none, retAt := (p, t) :: s.retAt.filter (·.1 != p),
                                     lastFault := if slow then t else s.lastFault }
    else if kind == "ev" then
      let i := n2
      let name := f.getD 3 ""
      let v := ((f.getD 4 "").toNat?).getD 0
      if name == "allocated" then
        -- (a partition can be granted again at the very instant its previous lease ends: the expiry goroutine has
        -- cleared it - otherwise the loop could not have asked for it - but reports the release only afterwards)
        m := m.upd i fun s =>
          let h := if s.held.contains v then s.held else s.held ++ [v]
          ({ s with held := h, regrant := if s.held.contains v then (t, v) :: s.regrant else s.regrant,
                    satisfied := s.satisfied || decide (h.length ≥ min s.target s.parts) } : LInstSt).reneedy t
      else if name == "released" then
        m := { m with suspect := m.suspect.filter (fun x => !(x.1 == t && x.2 == i)),
                      suspectP := m.suspectP.filter (fun x => !(x.1 == t && x.2.1 == i && x.2.2 == v)) }
        -- never renewed: given up at most one lease duration after the grant was reported
        match (ist i).retAt.lookup v with
        | some r => if t > r + sc.lease then m := m.add "C07" "grant-kept-longer-than-one-lease-duration"
        | none => pure ()
        m := m.upd i fun s =>
          if s.regrant.contains (t, v) then { s with regrant := s.regrant.filter (· != (t, v)) }
          else ({ s with held := s.held.filter (· != v) } : LInstSt).reneedy t
      else if name == "shutdown" then
        if (ist i).shutdowns > 0 then m := m.add "C17" "second-shutdown-event"
        m := m.upd i fun s => { s with shutdowns := s.shutdowns + 1, shutdownAt := some t }
    else if kind == "sample" then
      let caps := (f.getD 2 "").splitOn ","
      let mut totalShared := 0
      let mut maxParts := 0
      let mut maxFactor := 1
      for (cs, i) in caps.zipIdx do
        let s := ist i
        let c := cfg i
        let fac := effFactor c.factor
        match cs.splitOn "/" with
        | [capS, maxS] =>
          if capS != "x" then
            let cap := (capS.toNat?).getD 0
            let mx := (maxS.toNat?).getD 0
            let busy := s.callOpen.isSome || s.provisioning || s.inListener
            -- C06: Capacity() = reserved + factor × held (v1 publishes asynchronously, still settled here)
            if s.started && !busy && cap != s.reserved + fac * s.held.length then
              m := m.add "C06" (if s.shutdownAt.isSome then "capacity-formula:after-shutdown" else "capacity-formula")
              -- C17: after a live re-provisioning the figure must count exactly the surviving partitions
              if s.creates ≥ 2 then m := m.add "C17" "capacity-wrong-after-reconfiguration"
            if s.started && !s.provisioning && cap > s.reserved + fac * s.parts && s.creates ≥ 2 then
              m := m.add "C17" "dropped-partition-still-counted"
            -- C07: demand at or below the reserve for more than a lease duration (plus call latencies): nothing but the reserve is left
            match s.lastGiveMe with
            | some (tg, _) =>
              let lat := (c.pre ++ c.post).foldl max 0 + c.slow
              if s.started && !busy && s.target == 0 && tg + sc.lease + 2 * lat + 1000000000 ≤ t && cap > s.reserved then
                m := m.add "C07" "capacity-not-decayed-to-reserve"
            | none => pure ()
            -- (while CreatePartitions runs the published figure still reflects the partition list before the resize)
            if s.started && !s.provisioning && cap > s.reserved + fac * s.parts then
              m := m.add "C06" "capacity-above-reserved-plus-factor-times-partitions"
            -- C17: a SetSharedCapacity is followed by a re-provisioning to the new count at the top of the next loop iteration
            match s.pendingShared with
            | some (t0, cnt) =>
              let lat := (c.pre ++ c.post).foldl max 0 + c.slow
              let mi := (if c.maxInterval == 0 then 500 else c.maxInterval) * 1000000
              if s.started && s.shutdownAt.isNone && !s.stopAsked && !s.crashed && !s.provisioning && s.parts != cnt &&
                  t0 + 2 * (mi + lat) + 20000000000 ≤ t then
                m := m.add "C17" "set-shared-capacity-not-followed-by-re-provisioning"
                -- ... and when the instance needs more than the stale list offers, capacity its own MaxCapacity()
                -- advertises is never acquired although nothing fails
                if s.target > s.parts && cnt > s.parts then
                  m := m.add "C09" "needed-capacity-never-acquired:partition-list-left-at-a-stale-shared-capacity"
            | none => pure ()
            -- C06: MaxCapacity()
            let expMax := if sc.gen == 2 then s.reserved + (if s.shared > fac * 500 then fac * 500 else s.shared) else s.reserved + s.shared
            if s.started && mx != expMax then m := m.add "C06" "max-capacity"
            -- C04: every partition an instance counts must be leased to it in the store right now
            if s.started && !s.provisioning then
              totalShared := totalShared + (cap - s.reserved)
              if s.parts > maxParts then maxParts := s.parts
              if fac > maxFactor then maxFactor := fac
              for p in s.held do
                let valid := match m.store.find? (·.1 == p) with
                  | some (_, o, u) => o == i && decide (t < u)
                  | none => false
                if !valid then
                  -- the grant behind this hold was reported later than the store made it
                  let slowRet : Bool := match s.retAt.lookup p, s.procAt.lookup p with
                    | some r, some q => decide (q < r)
                    | _, _ => false
                  let rule :=
                    if s.shutdownAt.isSome || (s.stopAsked && sc.gen == 2) then "counted-outside-lease:stopped-instance"
                    else if slowRet then "counted-outside-lease:latency-after-grant"
                    else "counted-outside-lease"
                  m := m.add "C04" rule
                  -- C06: "counted ... until shortly before it expires": still counted although its own lease has run out
                  let ownExpired : Bool := match m.store.find? (·.1 == p) with
                    | some (_, o, u) => o == i && decide (u ≤ t)
                    | none => false
                  if ownExpired && s.shutdownAt.isNone && !(s.stopAsked && sc.gen == 2) then
                    m := m.add "C06" "partition-counted-after-its-lease-ended"
                  -- C09: a slow lease call is a fault; it must not leave a partition in the capacity figure that no lease backs
                  if slowRet && s.shutdownAt.isNone && !(s.stopAsked && sc.gen == 2) then
                    m := m.add "C09" "capacity-figure-corrupted-by-slow-lease-call"
          else pure ()
        | _ => pure ()
      -- C04: the instances together never count more than partitions × factor
      if maxParts > 0 && totalShared > maxParts * maxFactor then
        if !(m.viols.any fun v => v.1 == "C04") then m := m.add "C04" "sum-of-shared-capacity-exceeds-partitions-times-factor"
    else if kind == "end" then
      -- C09: a lone needy instance with free partitions and no recent fault has what it needs
      for (s, i) in m.insts.toList.zipIdx do
        let c := cfg i
        let fac := effFactor c.factor
        let mi := (if c.maxInterval == 0 then 500 else c.maxInterval) * 1000000
        let lat := (c.pre ++ c.post).foldl max 0 + c.slow
        let window := sc.lease + (s.parts + 1) * (mi + 2 * lat) + 1000000000
        let others := (m.insts.toList.zipIdx.filter fun (o, j) => j != i && o.started && o.shutdownAt.isNone && !o.crashed && o.target > 0)
        -- C09 (contended): a partition that has been free for a long window, next to an instance that needed more
        -- for that whole window and whose calls were not being failed, must have been picked: with at most 6
        -- partitions, 150 attempts each choosing uniformly among the partitions it does not hold miss it with
        -- probability below 1e-11
        let win := 150 * (mi + 2 * lat)
        if s.started && s.shutdownAt.isNone && !s.stopAsked && !s.crashed && !s.provisioning && s.parts ≤ 6 && s.parts > 0 &&
           s.procs ≥ c.faults.length && s.faultsDoneAt + win ≤ t then
          match s.needySince with
          | some t0 =>
            if t0 + win ≤ t then
              let freeLong := (List.range s.parts).any fun p =>
                !s.held.contains p && (match m.store.find? (·.1 == p) with
                  | some (_, _, u) => decide (u + win ≤ t)
                  | none => true)
              if freeLong then m := m.add "C09" "free-partition-not-acquired-by-needy-instance"
          | none => pure ()
        match s.lastGiveMe with
        | some (tg, _) =>
          if s.started && s.shutdownAt.isNone && !s.stopAsked && !s.crashed && others.isEmpty &&
             tg + window ≤ t && s.lastFault + window ≤ t && s.parts * (mi + 2 * lat) < sc.lease && fac > 0 then
            if !s.satisfied then m := m.add "C09" "needed-capacity-not-acquired-in-bounded-time"
        | none => pure ()
  return m.viols

def checkLeaseMon (inp obs : KV) : Option String × List (String × String) :=
  if obs.has "crash" then (some ("fields=crash " ++ obs.get "crash"), [("C20", "crash:" ++ obs.get "crash"), ("C17", "shared-resource-panics:" ++ obs.get "crash")]) else
  let sc := parseLScn inp
  if obs.has "hang" then
    -- the virtual clock stalled: some goroutine waits on a mutex held across a wait (synctest cannot advance time)
    let h := obs.get "hang"
    let rule := if (h.splitOn "clearPartitionId").length > 1 then "expiry-blocked-by-provisioning"
      else if (h.splitOn "calc").length > 1 then "capacity-update-blocked-by-provisioning" else "stall:" ++ h
    -- the acquisition loop itself among the goroutines that wait for ever: capacity is never acquired again
    let loopStuck := (h.splitOn "getAllocatedAndRandomUnallocatedPartition").length > 1 || (h.splitOn ").loop").length > 1 ||
      (h.splitOn "AzureSharedResource).Start").length > 1
    (some ("fields=hang " ++ h), [("C04", "counted-outside-lease:" ++ rule), ("C17", rule)] ++
      (if loopStuck then [("C09", "acquisition-loop-blocked-for-ever:" ++ h), ("C20", "deadlock:" ++ h)]
       else [("C09", "capacity-bookkeeping-blocked-for-ever:" ++ h), ("C20", "deadlock:" ++ h)]))
  else
  let entries := if obs.get "tr" == "-" || obs.get "tr" == "" then [] else (obs.get "tr").splitOn ";"
  let viols := monitorLease sc entries
  let viols := if obs.has "panic" then viols ++ [("C17", "panic:" ++ obs.get "panic"), ("C20", "panic:" ++ obs.get "panic")] else viols
  (if obs.has "panic" then some ("fields=panic " ++ obs.get "panic") else none, viols)

end GoBatcher.Driver

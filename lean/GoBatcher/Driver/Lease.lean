import GoBatcher.Model.Lease
import GoBatcher.Driver.LeaseMon
/-!
Correspondence check for M-Lease: every entry of a `lease` trace of the real code (N instances on one fake store) is
replayed as a label of the model machine `lstep` — the label must be ENABLED in the model at that point, the time
between entries must be allowed to pass (no expiry overdue), and the observable figures (provisioned partition
count, grant/refusal by the store, counted partitions, Capacity(), MaxCapacity(), start/stop outcomes) must agree.
-/
namespace GoBatcher.Driver
open GoBatcher

structure RAux where
  started : Bool := false
  provisioning : Bool := false
  stopAsked : Bool := false
  crashed : Bool := false
  lastTouch : Nat := 0        -- last instant at which this instance's counted set or configuration moved
  lastGive : Option Nat := none
  inListener : Bool := false  -- the loop is held up inside a (slow) listener: the published figure lags the partition list
  preStarted : Bool := false  -- v2: the loop's first provisioning was logged before Start()'s own (later) log line
deriving Inhabited

structure RSt where
  s : LSt
  aux : Array RAux

inductive RRes where
  | ok
  | inconclusive (why : String)
  | mismatch (why : String)

def instCfg (sc : LScn) (i : Nat) : LInst :=
  match sc.insts[i]? with
  | some c => LInst.init (if sc.gen == 1 then .v1 else .v2) c.factor c.reserved c.shared
  | none => LInst.init .v2 0 0 0

def replayLease (sc : LScn) (entries : List String) : RRes := Id.run do
  let n := sc.insts.size
  let mut s : LSt := { now := 0, lease := sc.lease, store := fun _ => none, inst := instCfg sc }
  let mut aux : Array RAux := sc.insts.map fun _ => {}
  let mut idx := 0
  let mut preExpired : List (Nat × Nat × Nat) := []
  for e in entries do
    idx := idx + 1
    let f := e.splitOn ":"
    let t := ((f.getD 0 "").toNat?).getD 0
    let kind := f.getD 1 ""
    let n2 := ((f.getD 2 "").toNat?).getD 0
    let n3 := ((f.getD 3 "").toNat?).getD 0
    let bad (why : String) : RRes := .mismatch s!"lease-replay entry={idx} `{e}` {why}"
    -- let time pass: every expiry that is due must have fired (been reported) before
    if t > s.now then
      match lstep n s (.advance (t - s.now)) with
      | some s' => s := s'
      | none =>
        let due := (List.range n).flatMap fun i => ((s.inst i).timers.filter fun tm => tm.2 < t).map fun tm => s!"inst {i} partition {tm.1} at {tm.2}"
        return bad s!"an expiry was due earlier and was not reported: {due}"
    let ax (i : Nat) : RAux := aux[i]?.getD {}
    if kind == "act" then
      let a := f.getD 2 ""
      let i := n3
      let v := ((f.getD 4 "").toNat?).getD 0
      let x := s.inst i
      if a == "g" then
        match lstep n s (.giveMe i v) with
        | some s' => s := s'; aux := aux.modify i fun u => { u with lastGive := some t }
        | none => return bad "GiveMe not accepted by the model"
      else if a == "r" then
        match lstep n s (.setReserved i v) with
        | some s' => s := s'; aux := aux.modify i fun u => { u with lastTouch := t }
        | none => return bad "SetReservedCapacity not accepted by the model"
      else if a == "c" then
        if f.getD 5 "" == "ok" then
          match lstep n s (.setShared i v) with
          | some s' => s := s'; aux := aux.modify i fun u => { u with lastTouch := t }
          | none => return bad "SetSharedCapacity not accepted by the model"
      else if a == "V" then
        -- v1 Provision(): merged with Start in the model; `create` has started the model instance already
        let res := f.getD 4 ""
        if res == "ok" then
          if x.phase == .uninit then
            match lstep n s (.start i true) with
            | some s' =>
              if (s'.inst i).phase != .started then return bad "the model refuses this configuration (more than 500 partitions), the code accepted it"
              s := s'
              match lstep n s (.provision i) with
              | some s'' => s := s''
              | none => pure ()
            | none => return bad "Provision succeeded, the model does not accept a start here"
        else
          if x.phase == .uninit && x.alive && !(ax i).stopAsked then
            let c := sc.insts[i]?
            let provErr := match c with | some c => c.provErr | none => false
            let refused := match lstep n s (.start i true) with
              | some s' => (s'.inst i).phase == .uninit
              | none => true
            let partErr := match c with | some c => c.partErr | none => false
            if !provErr && !partErr && !refused then return bad "Provision failed, the model expects it to succeed"
      else if a == "S" then
        let res := f.getD 4 ""
        if sc.gen == 1 then
          if res == "ok" then
            if x.phase != .started then return bad "v1 Start succeeded on a resource the model has not provisioned / has stopped"
            if (ax i).started then return bad "v1 Start succeeded twice"
            aux := aux.modify i fun u => { u with started := true }
        else
          if res == "ok" then
            if (ax i).preStarted then aux := aux.modify i fun u => { u with preStarted := false, started := true }
            else
            match lstep n s (.start i true) with
            | some s' => s := s'; aux := aux.modify i fun u => { u with started := true }
            | none => return bad "Start succeeded, the model does not accept a (second) start"
          else
            let provErr := match sc.insts[i]? with | some c => c.provErr | none => false
            if x.phase == .uninit && x.alive then
              if provErr then
                match lstep n s (.start i false) with
                | some s' => s := s'
                | none => pure ()
              else if !(ax i).stopAsked then return bad "Start failed, the model expects it to succeed"
      else if a == "X" then aux := aux.modify i fun u => { u with stopAsked := true }
      else if a == "K" then
        -- the harness "crashes" an instance by cancelling its context and no longer consulting it; the object lives
        -- on in the test process (its loop ends at the next iteration, its timers still fire): in model terms that is a
        -- Stop whose shutdown comes later, so the model's store stays in step with the fake store
        aux := aux.modify i fun u => { u with crashed := true, stopAsked := true }
    else if kind == "create" then
      let i := n2
      if sc.gen == 1 && (s.inst i).phase == .uninit then
        match lstep n s (.start i true) with
        | some s' =>
          if (s'.inst i).phase != .started then return bad "the model refuses this configuration (more than 500 partitions), the code provisions it"
          s := s'
        | none => return bad "model cannot start"
      -- v2: Start() starts the loop and returns; the harness logs `act:S` after the return, the loop goroutine may
      -- log its first provisioning before that (log lines are written outside the code's critical sections)
      if sc.gen == 2 && (s.inst i).phase == .uninit && !(ax i).preStarted then
        match lstep n s (.start i true) with
        | some s' => s := s'; aux := aux.modify i fun u => { u with preStarted := true }
        | none => pure ()
      match lstep n s (.provision i) with
      | some s' =>
        if (s'.inst i).parts != n3 then return bad s!"partition count: model {(s'.inst i).parts}"
        s := s'
        aux := aux.modify i fun u => { u with provisioning := true, lastTouch := t }
      | none => return bad "the model has no (re-)provisioning pending here"
    else if kind == "created" then
      aux := aux.modify n2 fun u => { u with provisioning := false, lastTouch := t }
    else if kind == "issue" then
      let i := n2
      -- the expiry goroutine clears a partition before it reports the release: a request the loop issues in
      -- between sees the smaller count; the model takes the due expiries of this instance first
      if (lstep n s (.issue i n3)).isNone then
        for tm in (s.inst i).timers do
          if tm.2 ≤ s.now then
            match lstep n s (.expire i tm.1 tm.2) with
            | some s' => s := s'; preExpired := (i, tm.1, tm.2) :: preExpired
            | none => pure ()
      match lstep n s (.issue i n3) with
      | some s' => s := s'
      | none =>
        if (ax i).lastGive == some t then return .inconclusive "GiveMe and the loop's read of the target at the same instant"
        let x := s.inst i
        return bad s!"lease request not enabled in the model (held={x.held} target={x.target} parts={x.parts} loop={x.loopOn} call={x.call.isSome} needProvision={x.needProvision})"
    else if kind == "proc" then
      let i := n2
      let grant := f.getD 4 "" == "grant"
      match lstep n s (.proc i grant) with
      | some s' =>
        if grant then
          match (s'.inst i).call with
          | some cl => if cl.result == some none then return bad "the store granted a partition the model's store holds leased"
          | none => pure ()
        s := s'
      | none => return bad "no lease call in flight in the model"
    else if kind == "ret" then
      let i := n2
      match lstep n s (.ret i) with
      | some s' => s := s'; aux := aux.modify i fun u => { u with lastTouch := t }
      | none => return bad "no processed lease call to return in the model"
    else if kind == "ev" then
      let i := n2
      let name := f.getD 3 ""
      let v := ((f.getD 4 "").toNat?).getD 0
      if name == "allocated" then
        if !(s.inst i).held.contains v then return bad "partition reported allocated, the model does not count it (late grant?)"
      else if name == "released" then
        if preExpired.contains (i, v, t) then
          preExpired := preExpired.erase (i, v, t)
          aux := aux.modify i fun u => { u with lastTouch := t }
        else
        match lstep n s (.expire i v t) with
        | some s' => s := s'; aux := aux.modify i fun u => { u with lastTouch := t }
        | none => return bad s!"release at an instant the model has no expiry for (timers={(s.inst i).timers})"
      else if name == "shutdown" then
        match lstep n s (.stop i) with
        | some s' => s := s'
        | none => return bad "shutdown event, the model's loop is not running / has a call in flight"
    else if kind == "lsleep" then aux := aux.modify n2 fun u => { u with inListener := true }
    else if kind == "lwake" then aux := aux.modify n2 fun u => { u with inListener := false, lastTouch := t }
    else if kind == "sample" then
      let caps := (f.getD 2 "").splitOn ","
      for (cs, i) in caps.zipIdx do
        let u := ax i
        let x := s.inst i
        match cs.splitOn "/" with
        | [capS, maxS] =>
          if capS != "x" && u.started then
            let cap := (capS.toNat?).getD 0
            let mx := (maxS.toNat?).getD 0
            if mx != x.maxCapacity then return bad s!"MaxCapacity() of instance {i}: model {x.maxCapacity}"
            if !u.provisioning && !u.inListener && x.call.isNone && u.lastTouch != t && cap != x.capacity then
              return bad s!"Capacity() of instance {i}: model {x.capacity} (held={x.held})"
        | _ => pure ()
    else pure ()
  return .ok

def checkLease (inp obs : KV) : Option String × List (String × String) :=
  let (mm, viols) := checkLeaseMon inp obs
  if mm.isSome || obs.has "crash" || obs.has "hang" || obs.has "panic" then (mm, viols) else
  let sc := parseLScn inp
  let entries := if obs.get "tr" == "-" || obs.get "tr" == "" then [] else (obs.get "tr").splitOn ";"
  match replayLease sc entries with
  | .ok => (none, viols)
  | .inconclusive _ => (none, viols)
  | .mismatch why => (some ("fields=" ++ why), viols)

end GoBatcher.Driver

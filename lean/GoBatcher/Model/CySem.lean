import GoBatcher.Model.Cycle
import GoBatcher.Model.GoSem
/-
What /verif/extract/transcycle.go reads and writes when it translates ONE iteration of v2's flush-cycle loop.
-/
namespace GoBatcher.CySem

/-- everything the loop body reads -/
structure CyIn where
  enforce : Bool       -- enforceCapacity (a rate limiter is attached)
  capacity : Int       -- the cycle's allowance
  consumed : Int       -- cost released so far in this cycle
  batchable : Bool     -- op.IsBatchable()
  cost : Int           -- op.Cost()
  maxB : Int           -- watcher.MaxBatchSize()
  bnil : Bool          -- `batch == nil` after `batch, ok := batches[watcher]`
  ok : Bool            -- its `ok`
  blen : Int           -- len(batch)
  avail : Bool         -- what r.tryReserveBatchSlot() answers if it is called
deriving DecidableEq, Repr

/-- everything it does -/
structure CyOut where
  action : Nat         -- 0 = goes round again, 1 = break, 2 = continue
  consumed : Int
  reserved : Bool      -- tryReserveBatchSlot() was called and answered true
  raisedLen : Int      -- length of the batch handed to processBatch (0 = none)
  stored : Bool        -- batches[watcher] was assigned
  storeLen : Int       -- ... a batch of this length (0 = nil)
  bufCall : Nat        -- 0 = none, 1 = r.buffer.skip(), 2 = r.buffer.remove()
deriving DecidableEq, Repr

end GoBatcher.CySem

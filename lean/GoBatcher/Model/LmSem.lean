import GoBatcher.Model.LeaseMgr
/-
Meaning of what /verif/extract/translm.go emits for the Azure Blob lease manager: the state the translated
functions thread, early exit, and the counting loop.
-/
namespace GoBatcher.LmSem
open GoBatcher

structure LmSt where
  err : SdkErr := .none        -- the Go variable `err`
  ev : List LmEvent := []      -- events raised so far, in order
  calls : Nat := 0             -- SDK calls made so far
  secs : Nat := 0              -- `leaseTime` in seconds
deriving DecidableEq, Repr

/-- `for i := i0; i < i0 + k; i++ { body }` where `.error r` is a `return` inside the body -/
def forFrom (body : Nat → LmSt → Except LmSt LmSt) : Nat → Nat → LmSt → Except LmSt LmSt
  | 0, _, s => .ok s
  | k + 1, i, s =>
    match body i s with
    | .error r => .error r
    | .ok s' => forFrom body k (i + 1) s'

/-- the state a function ends with, by `return` or by reaching its end -/
def done : Except LmSt LmSt → LmSt
  | .ok s => s
  | .error s => s

end GoBatcher.LmSem

import GoBatcher.Model.Buffer
/-
M-Buffer L0: the v2 buffer (/repo/v2/buffer.go) as the code has it — a doubly linked list of `links` nodes on a
heap, with `head`, `tail`, `cursor` pointers and a separate `len` counter.

Pointers are `Option Nat` (`none` = nil, `some a` = the node at heap address `a`); the heap is a list of nodes,
allocation (`&links{...}`) appends, nothing is ever freed (garbage collection is not modelled: an unlinked node
simply stays on the heap, unreachable). Every method body is transcribed statement by statement, including the
re-reads through `b.cursor` after a store, the two `panic` branches, and nil dereferences: an operation returns
`none` exactly when the Go code would panic (explicit `panic(...)` or a nil-pointer dereference).

`Props/C15b.lean` proves that L0 refines the list-with-cursor model L1 (`Model/Buffer.lean`) and that `none` is
unreachable from `LBuf.new`.
-/
namespace GoBatcher

structure Link where
  prv : Option Nat
  op : Op
  nxt : Option Nat
deriving Repr, DecidableEq

structure LBuf where
  heap : List Link
  head : Option Nat
  tail : Option Nat
  cursor : Option Nat
  len : Nat
  cap : Nat
  shut : Bool
deriving Repr, DecidableEq

def LBuf.new (cap : Nat) : LBuf :=
  { heap := [], head := none, tail := none, cursor := none, len := 0, cap := cap, shut := false }

/-- `if b.cursor == nil { return nil }; return b.cursor.op` -/
def LBuf.curOp (b : LBuf) : Option (Option Op) :=
  match b.cursor with
  | none => some none
  | some c => (b.heap[c]?).map (fun l => some l.op)

/-- `top()` -/
def LBuf.top (b : LBuf) : Option (LBuf × Option Op) :=
  let b1 := { b with cursor := b.head }
  b1.curOp.map (fun r => (b1, r))

/-- `skip()` -/
def LBuf.skip (b : LBuf) : Option (LBuf × Option Op) :=
  match b.cursor with
  | none => some (b, none)
  | some c =>
    (b.heap[c]?).bind fun l =>
    let b1 := { b with cursor := l.nxt }
    b1.curOp.map (fun r => (b1, r))

/-- the `switch` of `remove()`: unlink the cursor node -/
def LBuf.unlink (b : LBuf) (c : Nat) : Option LBuf :=
  (b.heap[c]?).bind fun l =>
  match l.prv, l.nxt with
  | some p, some n =>
    -- b.cursor.prv.nxt = b.cursor.nxt
    (b.heap[p]?).bind fun pl =>
    let h1 := b.heap.set p { pl with nxt := some n }
    -- b.cursor.nxt.prv = b.cursor.prv      (re-read through the cursor)
    (h1[c]?).bind fun l1 =>
    match l1.nxt with
    | none => none
    | some n1 =>
      (h1[n1]?).bind fun nl =>
      let h2 := h1.set n1 { nl with prv := l1.prv }
      -- b.cursor = b.cursor.nxt
      (h2[c]?).map fun l2 => { b with heap := h2, cursor := l2.nxt }
  | some p, none =>
    -- b.cursor.prv.nxt = nil; b.tail = b.cursor.prv; b.cursor = nil
    (b.heap[p]?).bind fun pl =>
    let h1 := b.heap.set p { pl with nxt := none }
    (h1[c]?).map fun l1 => { b with heap := h1, tail := l1.prv, cursor := none }
  | none, some n =>
    -- b.cursor.nxt.prv = nil; b.head = b.cursor.nxt; b.cursor = b.cursor.nxt
    (b.heap[n]?).bind fun nl =>
    let h1 := b.heap.set n { nl with prv := none }
    (h1[c]?).map fun l1 => { b with heap := h1, head := l1.nxt, cursor := l1.nxt }
  | none, none => some { b with head := none, tail := none, cursor := none }

/-- `remove()` -/
def LBuf.remove (b : LBuf) : Option (LBuf × Option Op) :=
  match b.cursor with
  | none => some (b, none)
  | some c =>
    (b.unlink c).bind fun b1 =>
    if b1.len = 0 then none            -- panic("removing from empty buffer is not allowed")
    else
      let b2 := { b1 with len := b1.len - 1 }     -- (notFull.Signal() is the blocked-caller machine's step)
      b2.curOp.map (fun r => (b2, r))

/-- one attempt of `enqueue(op, errorOnFull)` under the lock (`wouldBlock` = the caller goes into `notFull.Wait()`) -/
def LBuf.enqueue (b : LBuf) (op : Op) (errorOnFull : Bool) : Option (LBuf × EnqRes) :=
  if b.shut then some (b, .shutdown)
  else if b.len ≥ b.cap then some (b, if errorOnFull then .full else .wouldBlock)
  else
    match b.head with
    | none =>
      let a := b.heap.length
      some ({ b with heap := b.heap ++ [{ prv := none, op := op, nxt := none }], head := some a, tail := some a,
                     len := b.len + 1 }, .ok)
    | some _ =>
      match b.tail with
      | none => none                   -- panic("a buffer tail was not found")
      | some t =>
        let a := b.heap.length
        let h1 := b.heap ++ [{ prv := some t, op := op, nxt := none }]
        -- b.tail.nxt = link
        (h1[t]?).map fun tl =>
        ({ b with heap := h1.set t { tl with nxt := some a }, tail := some a, len := b.len + 1 }, .ok)

/-- `shutdown()` -/
def LBuf.shutdown (b : LBuf) : LBuf :=
  { b with head := none, tail := none, cursor := none, len := 0, shut := true }

def LBuf.size (b : LBuf) : Nat := b.len

end GoBatcher

namespace GoBatcher
/-! ### observation of the linked structure (what the verification seam `Dump` reports) -/

/-- addresses met walking `nxt` pointers from `p` (bounded by `fuel`) -/
def LBuf.walkFwd (b : LBuf) : Nat → Option Nat → List Nat
  | 0, _ => []
  | _, none => []
  | fuel + 1, some a =>
    match b.heap[a]? with
    | none => []
    | some l => a :: LBuf.walkFwd b fuel l.nxt

/-- addresses met walking `prv` pointers from `p` (bounded by `fuel`) -/
def LBuf.walkBwd (b : LBuf) : Nat → Option Nat → List Nat
  | 0, _ => []
  | _, none => []
  | fuel + 1, some a =>
    match b.heap[a]? with
    | none => []
    | some l => a :: LBuf.walkBwd b fuel l.prv

def LBuf.opsAt (b : LBuf) (as : List Nat) : List Op := as.filterMap (fun a => (b.heap[a]?).map (·.op))
end GoBatcher

namespace GoBatcher.HeapSem
/-! ### meaning of the pointer operations the translator of `buffer.go` emits (extract/transbuf.go) -/

/-- the node a pointer refers to; `none` = nil dereference (a panic in Go) -/
def rd (b : LBuf) (p : Option Nat) : Option Link := p.bind (b.heap[·]?)
/-- `P.prv = v` -/
def storePrv (b : LBuf) (p : Option Nat) (v : Option Nat) : Option LBuf :=
  p.bind fun a => (b.heap[a]?).map fun l => { b with heap := b.heap.set a { l with prv := v } }
/-- `P.nxt = v` -/
def storeNxt (b : LBuf) (p : Option Nat) (v : Option Nat) : Option LBuf :=
  p.bind fun a => (b.heap[a]?).map fun l => { b with heap := b.heap.set a { l with nxt := v } }
end GoBatcher.HeapSem

/-
M-Validate: the admission checks at the top of `Enqueue` (both generations have the same four checks in the
same order: /repo/batcher.go `func (r *Batcher) Enqueue`, /repo/v2/batcher.go `func (r *batcher) Enqueue`).
-/
namespace GoBatcher

inductive Err where
  | noOperation | noWatcher | tooExpensive | tooManyAttempts
deriving DecidableEq, Repr

/-- Everything `Enqueue`'s validation looks at. -/
structure EnqInput where
  hasOp : Bool            -- op != nil
  hasWatcher : Bool       -- op.Watcher() != nil
  limited : Bool          -- r.ratelimiter != nil
  maxCap : Nat            -- r.ratelimiter.MaxCapacity()
  cost : Nat              -- op.Cost()
  maxAttempts : Nat       -- watcher.MaxAttempts()   (0 = unlimited)
  attempt : Nat           -- op.Attempt()
deriving DecidableEq, Repr

def validate (i : EnqInput) : Option Err :=
  if !i.hasOp then some .noOperation
  else if !i.hasWatcher then some .noWatcher
  else if i.limited && decide (i.cost > i.maxCap) then some .tooExpensive
  else if decide (i.maxAttempts > 0) && decide (i.attempt ≥ i.maxAttempts) then some .tooManyAttempts
  else none

/-- names, in the order the checks appear in the source (compared with the regenerated facts) -/
def validateOrderNames : List String := ["NoOperationError", "NoWatcherError", "TooExpensiveError", "TooManyAttemptsError"]

end GoBatcher

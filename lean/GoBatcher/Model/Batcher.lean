import GoBatcher.Model.Cycle
import GoBatcher.Model.Buffer
import GoBatcher.Model.Validate
/-
M-Batcher: the Batcher (both generations) as ONE timed labelled machine.

Mirrors /repo/batcher.go and /repo/v2/batcher.go: `Enqueue` (validate → count → insert), `Pause`, `Flush`,
`Start`, `Stop` / context cancellation, the processing loop (`select` over stop, pause, audit tick, capacity
tick, flush tick, flush request), the flush cycle (one `stepOp` of M-Cycle per `cycleStep`, driving the
M-Buffer cursor), the per-batch goroutine (callback or MaxOperationTime, then decrement and slot release),
and the three tickers.

Concurrency and timing nondeterminism live entirely in the labels: which goroutine moves next, which ready
`select` arm is taken, when a callback returns, how time advances. `step` is a partial function
`St → Label → Option St`: `none` = the label is not enabled in that state.

Time model (DESIGN.md 4.2): computation takes no time; `advance dt` is enabled only when nothing is
runnable and only up to the next deadline (maximal progress) — this is what testing/synctest implements.
-/
namespace GoBatcher

inductive Gen where
  | v1 | v2
deriving DecidableEq, Repr

inductive Phase where
  | uninit | started | paused | stopped
deriving DecidableEq, Repr, Hashable

/-- static configuration, after `applyDefaults` -/
structure BCfg where
  gen : Gen
  bufCap : Nat
  limited : Bool
  flushInt : Nat
  capInt : Nat
  auditInt : Nat
  mot : Nat
  pause : Nat
  errorOnFull : Bool
  mcb : Nat                   -- MaxConcurrentBatches (0 = no limit; always 0 in v1)
  wMaxBatch : Nat → Nat
  wMot : Nat → Nat            -- watcher MaxOperationTime (0 = not set)
  /-- behaviour-selecting facts regenerated from the source -/
  rollback : Bool             -- Enqueue takes the cost back when the insert fails
  wos : Bool                  -- v2 buffer shutdown wakes waiters

def applyDefault (v dflt : Int) : Nat := if v ≤ 0 then dflt.toNat else v.toNat

def defFlush : Int := 100000000
def defCap : Int := 100000000
def defAudit : Int := 10000000000
def defMot : Int := 60000000000
def defPause : Int := 500000000

/-- `if watcher.MaxOperationTime() > 0 { maxOperationTime = watcher.MaxOperationTime() }` -/
def effMot (c : BCfg) (w : Nat) : Nat := if c.wMot w > 0 then c.wMot w else c.mot

/-- a raised batch and its goroutine -/
structure RBatch where
  id : Nat
  w : Nat
  ops : List Op
  raisedAt : Nat
  deadline : Nat
  cbDone : Bool
  finished : Bool
deriving Repr, DecidableEq, Hashable

inductive LoopSt where
  | notStarted
  | idle
  | sleeping (until_ : Nat)
  | cycle (allow : Nat) (acc : Acc)    -- scanning the buffer; `allow` = the allowance read at cycle start
  | sweep (acc : Acc)                  -- `for watcher, batch := range batches { processBatch(watcher, batch) }`
  | exited
deriving Repr, DecidableEq, Hashable

inductive AuditOutcome where
  | pass | skip | failTarget | failInflight | failBoth
deriving Repr, DecidableEq, Hashable

structure St where
  now : Nat
  phase : Phase
  bm : BufM                          -- buffer + blocked callers
  closed : Bool                      -- v1: the buffer channel has been closed
  target : Nat
  pend : List (Nat × Op)             -- calls that counted their cost and have not left Enqueue yet
  batches : List RBatch
  nextBatch : Nat
  slots : Nat                        -- len(r.inflight)
  loop : LoopSt
  flushReq : Bool
  pauseReq : Bool
  stopReq : Bool                     -- v1: stop channel closed; v2: context cancelled
  tickF : Bool
  tickC : Bool
  tickA : Bool
  nextF : Nat
  nextC : Nat
  nextA : Nat
  lastFlush : Option Nat
  -- history (ghost) variables
  inserted : List Op                 -- every operation occurrence that entered the buffer
  discarded : List Op                -- buffered at shutdown
  shutdowns : Nat                    -- shutdown events raised
  giveMes : List (Nat × Nat)         -- (time, value) of every GiveMe
  cycles : Nat                       -- cycles begun
  flushTicksTaken : Nat
  flushCalls : Nat
  pauses : Nat                       -- pause events
  effPauseCalls : Nat                -- Pause() calls that were effective
  audits : List (Nat × AuditOutcome)
deriving Repr, DecidableEq, Hashable

inductive Label where
  -- API
  | enqReject (k : Nat) (e : Err)
  | enqCount (k : Nat) (op : Op)
  | enqInsert (k : Nat)
  | enqAdmit (k : Nat)
  | pauseCall
  | flushCall
  | startCall
  | startAgain                        -- Start() when already started: ImproperOrder, no effect
  | stopCall                          -- v1 Stop() / v2 cancel()
  -- processing loop
  | takeStop
  | takePause
  | wake
  | takeAudit
  | takeCap
  | takeFlushTick
  | cycleBegin (allow : Nat)
  | cycleStep
  | scanEnd                           -- the scan loop breaks: end of buffer or cut-off
  | sweepOne (w : Nat)                -- the range loop visits watcher w's open batch
  | cycleEnd
  -- timers
  | fireF | fireC | fireA
  -- batches
  | cbReturn (b : Nat)
  | finish (b : Nat)
  | advance (dt : Nat)
  /-- environment: operation object `obj` starts reporting another Cost() (staleness injection, C19) -/
  | setCost (obj : Nat) (cost : Nat)
deriving Repr, DecidableEq

def St.init (c : BCfg) : St :=
  { now := 0, phase := .uninit, bm := BufM.new c.bufCap, closed := false, target := 0, pend := [],
    batches := [], nextBatch := 0, slots := 0, loop := .notStarted, flushReq := false, pauseReq := false,
    stopReq := false, tickF := false, tickC := false, tickA := false, nextF := 0, nextC := 0, nextA := 0,
    lastFlush := none, inserted := [], discarded := [], shutdowns := 0, giveMes := [], cycles := 0,
    flushTicksTaken := 0, flushCalls := 0, pauses := 0, effPauseCalls := 0, audits := [] }

def batchCost (b : RBatch) : Nat := (b.ops.map (·.cost)).sum

/-- `incTarget(-total)`: saturating -/
def decTarget (t total : Nat) : Nat := t - total

def slotFree (c : BCfg) (s : St) : Bool := c.mcb == 0 || decide (s.slots < c.mcb)

/-- raise one batch: `processBatch` / v1 `flush` closure -/
def raise (c : BCfg) (s : St) (p : Batch) : St :=
  if p.2.isEmpty then s else
  { s with
    batches := s.batches ++ [{ id := s.nextBatch, w := p.1, ops := p.2, raisedAt := s.now,
                               deadline := s.now + effMot c p.1, cbDone := false, finished := false }],
    nextBatch := s.nextBatch + 1,
    lastFlush := some s.now }

/-- the audit condition: buffer empty and more than MaxOperationTime since the last flush with records -/
def auditCond (c : BCfg) (s : St) : Bool :=
  s.bm.buf.items.isEmpty && (match s.lastFlush with | none => true | some t => decide (s.now - t > c.mot))

def auditOutcome (c : BCfg) (s : St) : AuditOutcome :=
  if auditCond c s then
    match c.gen with
    | .v1 => if s.target > 0 then .failTarget else .pass
    | .v2 =>
      if s.target > 0 && s.slots > 0 then .failBoth
      else if s.target > 0 then .failTarget
      else if s.slots > 0 then .failInflight
      else .pass
  else .skip

/-- is some arm of the loop's `select` ready? -/
def armReady (s : St) : Bool :=
  s.stopReq || s.pauseReq || s.tickA || s.tickC || s.tickF || s.flushReq

def tickersRunning (s : St) : Bool :=
  match s.loop with
  | .notStarted => false
  | .exited => false
  | _ => true

def unfinished (s : St) : List RBatch := s.batches.filter (fun b => !b.finished)

/-- maximal progress: may `dt` elapse? -/
def canAdvance (s : St) (dt : Nat) : Bool :=
  decide (dt > 0) &&
  (match s.loop with
   | .cycle _ _ => false
   | .sweep _ => false
   | .idle => !armReady s
   | .sleeping u => decide (s.now + dt ≤ u)
   | _ => true) &&
  (!tickersRunning s || (decide (s.now + dt ≤ s.nextF) && decide (s.now + dt ≤ s.nextC) && decide (s.now + dt ≤ s.nextA))) &&
  (unfinished s).all (fun b => !b.cbDone && decide (s.now + dt ≤ b.deadline)) &&
  s.bm.woken.isEmpty

def reCost (obj cost : Nat) (o : Op) : Op := if o.obj = obj then { o with cost := cost } else o
def reCostB (obj cost : Nat) (l : List Batch) : List Batch := l.map (fun p => (p.1, p.2.map (reCost obj cost)))
def reCostAcc (obj cost : Nat) (a : Acc) : Acc := { a with openB := reCostB obj cost a.openB }

/-- where the scan loop looks next: v2 follows the buffer's cursor; v1 has no cursor — every iteration asks the
channel again, so it looks at the head as long as there is one (a value that arrives mid-cycle is still seen) -/
def curPos (c : BCfg) (s : St) : Option Nat :=
  match c.gen with
  | .v2 => s.bm.buf.cur
  | .v1 => if s.bm.buf.items.isEmpty then none else some 0

/-- remove the record at position `i` (for v2 `i` is the cursor: this is `Buf.remove`) -/
def removeAt (b : Buf) (i : Nat) : Buf :=
  let items' := b.items.eraseIdx i
  { b with items := items', cur := if (items'[i]?).isSome then some i else none }

/-- the scan loop of a cycle is over: the cursor ran off the end of the buffer, or the cut-off holds -/
def scanDone (c : BCfg) (s : St) (allow : Nat) (acc : Acc) : Bool :=
  match curPos c s with
  | none => true
  | some i =>
    match s.bm.buf.items[i]? with
    | none => true
    | some _ => cutoff { ge := c.gen == .v2, limited := c.limited, allow := allow, mb := c.wMaxBatch } acc.consumed

def removePend (k : Nat) (l : List (Nat × Op)) : List (Nat × Op) := l.filter (·.1 != k)

def findPend (k : Nat) (l : List (Nat × Op)) : Option Op := (l.find? (·.1 == k)).map (·.2)

/-- v1 channel hand-off: a receive with blocked senders moves the oldest sender's value into the channel -/
def v1Handoff (s : St) : St :=
  match s.bm.waiting with
  | [] => s
  | (k, op) :: rest =>
    { s with bm := { s.bm with buf := { s.bm.buf with items := s.bm.buf.items ++ [op] }, waiting := rest,
                               returned := s.bm.returned ++ [(k, .ok)] },
             pend := removePend k s.pend, inserted := s.inserted ++ [op] }

/-! ### the effects of the individual actions (each one atomic: a critical section or one channel operation) -/

/-- the operation goes into the buffer and the call returns nil -/
def enqOk (s : St) (k : Nat) (op : Op) : St :=
  { s with bm := { s.bm with buf := { s.bm.buf with items := s.bm.buf.items ++ [op] },
                             returned := s.bm.returned ++ [(k, .ok)] },
           pend := removePend k s.pend, inserted := s.inserted ++ [op] }

/-- the call returns an error (`takeBack`: the cost is subtracted from the target again) -/
def enqRefuse (s : St) (k : Nat) (op : Op) (r : EnqRes) (takeBack : Bool) : St :=
  { s with bm := { s.bm with returned := s.bm.returned ++ [(k, r)] }, pend := removePend k s.pend,
           target := if takeBack then decTarget s.target op.cost else s.target }

/-- the call blocks on the full buffer -/
def enqBlock (s : St) (k : Nat) (op : Op) : St :=
  { s with bm := { s.bm with waiting := s.bm.waiting ++ [(k, op)] } }

def unwake (s : St) (w : Nat × Op) : St := { s with bm := { s.bm with woken := s.bm.woken.erase w } }

/-- v1: the deferred part of the loop: close(r.buffer) (blocked senders panic), shutdown event. What is in
the channel stays there (`OperationsInBuffer()` keeps reporting it) and is never received. -/
def shutdownV1 (s : St) : St :=
  { s with loop := .exited, closed := true, shutdowns := s.shutdowns + 1,
           bm := { s.bm with waiting := [], returned := s.bm.returned ++ s.bm.waiting.map (fun w => (w.1, .shutdown)) },
           pend := s.pend.filter (fun p => !(s.bm.waiting.any (·.1 == p.1))) }

/-- v2: `r.shutdown()`: buffer.shutdown() (waking the waiters if `wos`), phase, shutdown event -/
def shutdownV2 (c : BCfg) (s : St) : St :=
  { s with loop := .exited, phase := .stopped, shutdowns := s.shutdowns + 1,
           bm := if c.wos then { s.bm with buf := s.bm.buf.shutdown, waiting := [], woken := s.bm.woken ++ s.bm.waiting }
                 else { s.bm with buf := s.bm.buf.shutdown },
           discarded := s.discarded ++ s.bm.buf.items }

def slotsAfter (c : BCfg) (s : St) (slot : Bool) : Nat := if slot && c.mcb != 0 then s.slots + 1 else s.slots

/-- v2: remove the cursor record, `notFull.Signal()`, reserve the slot, go on scanning -/
def afterTakeV2 (c : BCfg) (s : St) (i : Nat) (allow : Nat) (acc' : Acc) (slot : Bool) : St :=
  { s with bm := signalOne { s.bm with buf := removeAt s.bm.buf i }, slots := slotsAfter c s slot, loop := .cycle allow acc' }

/-- v1: receive from the channel (the oldest blocked sender's value moves in) -/
def afterTakeV1 (c : BCfg) (s : St) (i : Nat) (allow : Nat) (acc' : Acc) (slot : Bool) : St :=
  v1Handoff { s with bm := { s.bm with buf := removeAt s.bm.buf i }, slots := slotsAfter c s slot, loop := .cycle allow acc' }

/-- one loop iteration took the cursor operation -/
def afterTake (c : BCfg) (s : St) (i : Nat) (allow : Nat) (acc' : Acc) (slot : Bool) : St :=
  match c.gen with
  | .v2 => afterTakeV2 c s i allow acc' slot
  | .v1 => afterTakeV1 c s i allow acc' slot

def markCbDone (s : St) (b : Nat) : St :=
  { s with batches := s.batches.map (fun x => if x.id == b then { x with cbDone := true } else x) }

/-- the batch goroutine passes its `select`: decrement the target, release the slot -/
def markFinished (c : BCfg) (s : St) (b : Nat) (x : RBatch) : St :=
  { s with batches := s.batches.map (fun y => if y.id == b then { y with finished := true } else y),
           target := decTarget s.target (batchCost x),
           slots := if c.mcb != 0 then s.slots - 1 else s.slots }

def doAudit (c : BCfg) (s : St) : St :=
  { s with tickA := false, audits := s.audits ++ [(s.now, auditOutcome c s)],
           target := if auditCond c s then 0 else s.target,
           slots := if auditCond c s && c.gen == .v2 then 0 else s.slots }

def doSetCost (s : St) (obj cost : Nat) : St :=
  { s with
    bm := { s.bm with buf := { s.bm.buf with items := s.bm.buf.items.map (reCost obj cost) },
                      waiting := s.bm.waiting.map (fun p => (p.1, reCost obj cost p.2)),
                      woken := s.bm.woken.map (fun p => (p.1, reCost obj cost p.2)) },
    pend := s.pend.map (fun p => (p.1, reCost obj cost p.2)),
    batches := s.batches.map (fun b => { b with ops := b.ops.map (reCost obj cost) }),
    loop := match s.loop with
      | .cycle a acc => .cycle a (reCostAcc obj cost acc)
      | .sweep acc => .sweep (reCostAcc obj cost acc)
      | l => l }

def cycleCfg (c : BCfg) (allow : Nat) : Cfg :=
  { ge := c.gen == .v2, limited := c.limited, allow := allow, mb := c.wMaxBatch }

def step (c : BCfg) (s : St) : Label → Option St
  | .enqReject _ _ => some s
  | .enqCount k op =>
    if (s.pend.any (·.1 == k)) then none else
    some { s with target := s.target + op.cost, pend := s.pend ++ [(k, op)] }
  | .enqInsert k =>
    match findPend k s.pend with
    | none => none
    | some op =>
      if s.bm.waiting.any (·.1 == k) || s.bm.woken.any (·.1 == k) then none else
      match c.gen with
      | .v1 =>
        if s.closed then some (enqRefuse s k op .shutdown false)   -- send on closed channel: panic, cost stays counted
        else if s.bm.buf.items.length < s.bm.buf.cap then some (enqOk s k op)
        else if c.errorOnFull then some (enqRefuse s k op .full c.rollback)
        else some (enqBlock s k op)
      | .v2 =>
        if s.bm.buf.shut then some (enqRefuse s k op .shutdown c.rollback)
        else if s.bm.buf.items.length < s.bm.buf.cap then some (enqOk s k op)
        else if c.errorOnFull then some (enqRefuse s k op .full c.rollback)
        else some (enqBlock s k op)
  | .enqAdmit k =>       -- v2: a woken caller re-checks (BufM.retry)
    match s.bm.woken.find? (·.1 == k) with
    | none => none
    | some w =>
      if c.wos && s.bm.buf.shut then some (enqRefuse (unwake s w) k w.2 .shutdown c.rollback)
      else if s.bm.buf.items.length ≥ s.bm.buf.cap then some (enqBlock (unwake s w) k w.2)
      else some (enqOk (unwake s w) k w.2)
  | .pauseCall =>
    if s.phase == .started then
      some { s with pauseReq := true, phase := .paused, effPauseCalls := s.effPauseCalls + 1 }
    else some s
  | .flushCall => some { s with flushReq := true, flushCalls := s.flushCalls + 1 }
  | .startCall =>
    if s.phase == .uninit then
      some { s with phase := .started, loop := .idle, nextF := s.now + c.flushInt, nextC := s.now + c.capInt,
                    nextA := s.now + c.auditInt }
    else none
  | .startAgain => if s.phase == .uninit then none else some s
  | .stopCall =>
    match c.gen with
    | .v2 => some { s with stopReq := true }
    | .v1 =>   -- Stop(): ignored when already stopped; before Start there is no stop channel
      if s.phase == .stopped then some s
      else if s.phase == .uninit then some { s with phase := .stopped }
      else some { s with stopReq := true, phase := .stopped }
  | .takeStop =>
    if s.loop == .idle && s.stopReq then
      match c.gen with
      | .v1 => some (shutdownV1 s)
      | .v2 => some (shutdownV2 c s)
    else none
  | .takePause =>
    if s.loop == .idle && s.pauseReq then
      some { s with pauseReq := false, loop := .sleeping (s.now + c.pause), pauses := s.pauses + 1 }
    else none
  | .wake =>
    match s.loop with
    | .sleeping u =>
      if s.now == u then
        some { s with loop := .idle, phase := if s.phase == .paused then .started else s.phase }
      else none
    | _ => none
  | .takeAudit => if s.loop == .idle && s.tickA then some (doAudit c s) else none
  | .takeCap =>
    if s.loop == .idle && s.tickC then
      some { s with tickC := false, giveMes := if c.limited then s.giveMes ++ [(s.now, s.target)] else s.giveMes }
    else none
  | .takeFlushTick =>
    if s.loop == .idle && s.tickF then
      some { s with tickF := false, flushReq := true, flushTicksTaken := s.flushTicksTaken + 1 }
    else none
  | .cycleBegin allow =>
    if s.loop == .idle && s.flushReq then
      some { s with flushReq := false, loop := .cycle allow { consumed := 0, openB := [] }, cycles := s.cycles + 1,
                    bm := { s.bm with buf := s.bm.buf.top.1 } }
    else none
  | .cycleStep =>
    match s.loop with
    | .cycle allow acc =>
      match curPos c s with
      | none => none                       -- end of buffer: only the sweep is left
      | some i =>
        match s.bm.buf.items[i]? with
        | none => none
        | some op =>
          match stepOp (cycleCfg c allow) acc (slotFree c s) op with
          | .stop => none                  -- cut-off: only the sweep is left
          | .skip => some { s with bm := { s.bm with buf := s.bm.buf.skip.1 } }
          | .take acc' none slot => some (afterTake c s i allow acc' slot)
          | .take acc' (some p) slot => some (raise c (afterTake c s i allow acc' slot) p)
    | _ => none
  | .scanEnd =>
    match s.loop with
    | .cycle allow acc => if scanDone c s allow acc then some { s with loop := .sweep acc } else none
    | _ => none
  | .sweepOne w =>
    match s.loop with
    | .sweep acc =>
      match lookupB w acc.openB with
      | none => none
      | some b => some { raise c s (w, b) with loop := .sweep { acc with openB := eraseB w acc.openB } }
    | _ => none
  | .cycleEnd =>
    match s.loop with
    | .sweep acc => if acc.openB.isEmpty then some { s with loop := .idle } else none
    | _ => none
  | .fireF =>
    if tickersRunning s && s.now == s.nextF then some { s with tickF := true, nextF := s.nextF + c.flushInt } else none
  | .fireC =>
    if tickersRunning s && s.now == s.nextC then some { s with tickC := true, nextC := s.nextC + c.capInt } else none
  | .fireA =>
    if tickersRunning s && s.now == s.nextA then some { s with tickA := true, nextA := s.nextA + c.auditInt } else none
  | .cbReturn b =>
    if s.batches.any (fun x => x.id == b && !x.cbDone) then some (markCbDone s b) else none
  | .finish b =>
    match s.batches.find? (fun x => x.id == b) with
    | none => none
    | some x =>
      if !x.finished && (x.cbDone || decide (x.deadline ≤ s.now)) then some (markFinished c s b x) else none
  | .advance dt => if canAdvance s dt then some { s with now := s.now + dt } else none
  | .setCost obj cost => some (doSetCost s obj cost)

def run (c : BCfg) : St → List Label → Option St
  | s, [] => some s
  | s, l :: ls => (step c s l).bind (fun s' => run c s' ls)

/-- states reachable from the initial state -/
def Reachable (c : BCfg) (s : St) : Prop := ∃ ls, run c (St.init c) ls = some s

end GoBatcher

/-
M-Lease: N SharedResource instances (either generation) and ONE lease store, as a timed labelled machine.

Mirrors /repo/azure-shared-resource.go (v1) and /repo/v2/shared-resource.go (v2): GiveMe, the acquisition loop
(sleep a random interval; if fewer partitions are held than the last GiveMe asked for, pick a random partition
that is not held and ask the lease manager for it; on a grant, start the timer that gives it back and mark it
held), the expiry timers, Capacity()/MaxCapacity(), v2's live SetReservedCapacity / SetSharedCapacity
(re-provisioning at the top of a loop iteration), Start / Stop / cancellation, crashes.

The lease store (Azure Blob leases behind the lease manager) is modelled, not verified: it grants an exclusive
lease of exactly `lease` time units, starting at the instant it PROCESSES the request — any instant between
the issue and the return of the call, chosen by the environment (`proc`).

Nondeterminism lives in the labels: which instance moves, the random interval (`wake` is enabled at any time
the loop is not busy — the sleep length is the environment's choice), the random partition, the processing
instant and outcome of each call, how time advances.
-/
namespace GoBatcher

inductive LGen where
  | v1 | v2
deriving DecidableEq, Repr

inductive LPhase where
  | uninit | started | stopped
deriving DecidableEq, Repr

/-- a lease call in flight -/
structure LCall where
  part : Nat
  issuedAt : Nat
  /-- `none` = not processed by the store yet; `some none` = refused / failed; `some (some u)` = granted until `u` -/
  result : Option (Option Nat)
deriving DecidableEq, Repr

structure LInst where
  gen : LGen
  factor : Nat            -- after the default (≥ 1)
  reserved : Nat
  shared : Nat
  phase : LPhase
  alive : Bool            -- false = crashed: the process is gone, nobody consults it any more
  loopOn : Bool           -- the acquisition loop is running (started with a lease manager, not yet shut down)
  parts : Nat             -- number of provisioned partitions (length of the partition list)
  held : List Nat         -- partitions whose slot is non-nil: the ones Capacity() counts
  timers : List (Nat × Nat)   -- pending expiry goroutines: (partition, instant at which it clears the partition)
  target : Nat            -- partitions the last GiveMe asked for
  call : Option LCall
  needProvision : Bool    -- v2: a (re-)provisioning request is pending
  shutdowns : Nat
deriving DecidableEq, Repr

structure LSt where
  now : Nat
  lease : Nat                               -- the lease duration (15 s)
  store : Nat → Option (Nat × Nat)          -- partition ↦ (owner instance, valid until)
  inst : Nat → LInst

inductive LLabel where
  | start (i : Nat) (provisionOk : Bool)    -- Start (v1: Provision + Start); `provisionOk` = the container call succeeded
  | giveMe (i : Nat) (v : Nat)
  | setReserved (i : Nat) (v : Nat)         -- v2
  | setShared (i : Nat) (v : Nat)           -- v2
  | provision (i : Nat)                     -- the loop re-provisions (v2) / Provision() provisions (v1, inside `start`)
  | issue (i : Nat) (p : Nat)               -- the loop asks for partition p
  | proc (i : Nat) (grant : Bool)           -- the store processes the request (`grant = false`: refusal or error injected)
  | ret (i : Nat)                           -- the call returns to the loop
  | expire (i : Nat) (p : Nat) (c : Nat)    -- an expiry goroutine fires
  | stop (i : Nat)                          -- Stop() / context cancelled: the loop shuts down
  | crash (i : Nat)
  | advance (dt : Nat)
deriving DecidableEq, Repr

def updI (f : Nat → LInst) (i : Nat) (x : LInst) : Nat → LInst := fun j => if j = i then x else f j
def updS (f : Nat → Option (Nat × Nat)) (p : Nat) (x : Option (Nat × Nat)) : Nat → Option (Nat × Nat) :=
  fun q => if q = p then x else f q

def ceilDivN (a b : Nat) : Nat := (a + b - 1) / b

def maxPartitions : Nat := 500

/-- `ceil(shared / factor)`, capped at 500 in v2 (v1 refuses such a configuration before it gets here) -/
def partitionCount (g : LGen) (shared factor : Nat) : Nat :=
  let n := ceilDivN shared factor
  match g with
  | .v2 => if n > maxPartitions then maxPartitions else n
  | .v1 => n

/-- `Capacity()` -/
def LInst.capacity (x : LInst) : Nat := x.reserved + x.factor * x.held.length

/-- `MaxCapacity()` -/
def LInst.maxCapacity (x : LInst) : Nat :=
  match x.gen with
  | .v2 => x.reserved + (if x.shared > x.factor * maxPartitions then x.factor * maxPartitions else x.shared)
  | .v1 => x.reserved + x.shared

/-- GiveMe: partitions needed = ceil((requested − reserved)⁺ / factor) -/
def neededPartitions (x : LInst) (v : Nat) : Nat := ceilDivN (v - x.reserved) x.factor

/-- may `dt` elapse? every expiry timer fires at its instant (urgency) -/
def lCanAdvance (s : LSt) (n : Nat) (dt : Nat) : Bool :=
  decide (dt > 0) && (List.range n).all fun i => (s.inst i).timers.all fun t => decide (s.now + dt ≤ t.2)

/-- the store grants a lease on `p` iff nobody holds one or the last one has run out -/
def freeAt (e : Option (Nat × Nat)) (now : Nat) : Bool :=
  match e with
  | none => true
  | some (_, u) => decide (u ≤ now)

def storeFree (s : LSt) (p : Nat) : Bool := freeAt (s.store p) s.now

/-- the instance after a grant has been reported in time: partition marked held, expiry timer started -/
def afterGrant (x : LInst) (cl : LCall) (lease : Nat) : LInst :=
  { x with call := none, held := if x.held.contains cl.part then x.held else x.held ++ [cl.part],
           timers := x.timers ++ [(cl.part, cl.issuedAt + lease)] }

def LLabel.inst? : LLabel → Option Nat
  | .start i _ | .giveMe i _ | .setReserved i _ | .setShared i _ | .provision i | .issue i _ | .proc i _ | .ret i
  | .expire i _ _ | .stop i | .crash i => some i
  | .advance _ => none

/-- one step of an instance `i < n` (or of the clock) -/
def lstepCore (n : Nat) (s : LSt) : LLabel → Option LSt
  | .start i ok =>
    let x := s.inst i
    if x.phase == .uninit && x.alive then
      -- v1 refuses a configuration of more than 500 partitions (Provision returns an error)
      if ok && !(x.gen == .v1 && decide (ceilDivN x.shared x.factor > maxPartitions)) then
        some { s with inst := updI s.inst i { x with phase := .started, loopOn := true, needProvision := true } }
      else some s     -- a provisioning failure reported to the caller leaves the resource not started
    else none
  | .giveMe i v =>
    let x := s.inst i
    some { s with inst := updI s.inst i { x with target := neededPartitions x v } }
  | .setReserved i v =>
    let x := s.inst i
    if x.gen == .v2 then some { s with inst := updI s.inst i { x with reserved := v } } else none
  | .setShared i v =>
    let x := s.inst i
    if x.gen == .v2 then some { s with inst := updI s.inst i { x with shared := v, needProvision := true } } else none
  | .provision i =>
    let x := s.inst i
    if x.loopOn && x.needProvision && x.call.isNone then
      let cnt := partitionCount x.gen x.shared x.factor
      some { s with inst := updI s.inst i { x with parts := cnt, held := x.held.filter (· < cnt), needProvision := false } }
    else none
  | .issue i p =>
    let x := s.inst i
    -- (a pending re-provisioning is noticed at the top of the next iteration only: requests may still be issued)
    if x.loopOn && x.alive && x.call.isNone && decide (x.held.length < x.target) && decide (p < x.parts)
        && !x.held.contains p then
      some { s with inst := updI s.inst i { x with call := some { part := p, issuedAt := s.now, result := none } } }
    else none
  | .proc i grant =>
    let x := s.inst i
    match x.call with
    | some cl =>
      if cl.result.isSome then none else
      if grant && storeFree s cl.part then
        some { s with store := updS s.store cl.part (some (i, s.now + s.lease)),
                      inst := updI s.inst i { x with call := some { cl with result := some (some (s.now + s.lease)) } } }
      else some { s with inst := updI s.inst i { x with call := some { cl with result := some none } } }
    | none => none
  | .ret i =>
    let x := s.inst i
    match x.call with
    | some cl =>
      match cl.result with
      | none => none
      | some none => some { s with inst := updI s.inst i { x with call := none } }
      | some (some _) =>
        -- the lease is counted from the moment it was requested; a grant that comes back after that is dropped
        if cl.issuedAt + s.lease ≤ s.now then some { s with inst := updI s.inst i { x with call := none } }
        else some { s with inst := updI s.inst i (afterGrant x cl s.lease) }
    | none => none
  | .expire i p c =>
    let x := s.inst i
    if x.timers.contains (p, c) && decide (c ≤ s.now) then
      some { s with inst := updI s.inst i { x with timers := x.timers.erase (p, c), held := x.held.filter (· != p) } }
    else none
  | .stop i =>
    let x := s.inst i
    if x.loopOn && x.call.isNone then
      some { s with inst := updI s.inst i { x with loopOn := false, phase := .stopped, shutdowns := x.shutdowns + 1 } }
    else none
  | .crash i =>
    let x := s.inst i
    -- the process is gone; a lease request it had in flight may still reach the store (`proc`)
    some { s with inst := updI s.inst i { x with alive := false, loopOn := false } }
  | .advance dt => if lCanAdvance s n dt then some { s with now := s.now + dt } else none

/-- the machine has `n` instances: labels of other indexes are not enabled -/
def lstep (n : Nat) (s : LSt) (l : LLabel) : Option LSt :=
  match l.inst? with
  | some i => if i < n then lstepCore n s l else none
  | none => lstepCore n s l

def lrun (n : Nat) : LSt → List LLabel → Option LSt
  | s, [] => some s
  | s, l :: ls => (lstep n s l).bind (fun s' => lrun n s' ls)

def LInst.init (g : LGen) (factor reserved shared : Nat) : LInst :=
  { gen := g, factor := if factor = 0 then 1 else factor, reserved := reserved, shared := shared, phase := .uninit, alive := true,
    loopOn := false, parts := 0, held := [], timers := [], target := 0, call := none, needProvision := false, shutdowns := 0 }

end GoBatcher

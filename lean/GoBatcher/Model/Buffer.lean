import GoBatcher.Model.Cycle
/-
M-Buffer (L1): the v2 buffer (/repo/v2/buffer.go) as a list with one cursor, plus the condition-variable
protocol of blocked `enqueue` callers as a small labelled machine.  The v1 buffer is a Go channel: the same
L1 operations without cursor (`top`;`remove` = receive), bounded by its capacity.

Every method of the Go buffer runs under `b.lock`, so each L1 operation is one atomic step.
-/
namespace GoBatcher

structure Buf where
  items : List Op
  cur : Option Nat        -- index of the cursor node in `items`; `none` = nil cursor
  cap : Nat
  shut : Bool
deriving Repr, DecidableEq, Hashable

def Buf.new (cap : Nat) : Buf := { items := [], cur := none, cap := cap, shut := false }

def Buf.size (b : Buf) : Nat := b.items.length

/-- `top()`: cursor to the head; returns the head operation -/
def Buf.top (b : Buf) : Buf × Option Op :=
  match b.items with
  | [] => ({ b with cur := none }, none)
  | o :: _ => ({ b with cur := some 0 }, some o)

/-- `skip()`: advance the cursor leaving the record in place -/
def Buf.skip (b : Buf) : Buf × Option Op :=
  match b.cur with
  | none => (b, none)
  | some i =>
    match b.items[i + 1]? with
    | some o => ({ b with cur := some (i + 1) }, some o)
    | none => ({ b with cur := none }, none)

/-- `remove()`: unlink the cursor record, cursor to its successor -/
def Buf.remove (b : Buf) : Buf × Option Op :=
  match b.cur with
  | none => (b, none)
  | some i =>
    let items' := b.items.eraseIdx i
    match items'[i]? with
    | some o => ({ b with items := items', cur := some i }, some o)
    | none => ({ b with items := items', cur := none }, none)

inductive EnqRes where
  | ok | full | shutdown | wouldBlock
deriving Repr, DecidableEq, Hashable

/-- one attempt of `enqueue(op, errorOnFull)` under the lock: `wouldBlock` = the caller goes into `notFull.Wait()` -/
def Buf.enqueue (b : Buf) (op : Op) (errorOnFull : Bool) : Buf × EnqRes :=
  if b.shut then (b, .shutdown)
  else if b.items.length ≥ b.cap then (b, if errorOnFull then .full else .wouldBlock)
  else ({ b with items := b.items ++ [op] }, .ok)

def Buf.shutdown (b : Buf) : Buf := { b with items := [], cur := none, shut := true }

/-! ### blocked callers: the `sync.Cond` protocol -/

/-- `wakeOnShutdown`: does `shutdown()` broadcast `notFull` and does a woken caller re-check `isShutdown`?
(fact extracted from the source; `false` on the unfixed code) -/
structure BufM where
  buf : Buf
  waiting : List (Nat × Op)     -- callers inside `notFull.Wait()`, oldest first
  woken : List (Nat × Op)       -- callers signalled, about to re-acquire the lock and re-check
  returned : List (Nat × EnqRes)
deriving Repr, DecidableEq, Hashable

inductive BufLabel where
  | enq (k : Nat) (op : Op) (errorOnFull : Bool)   -- a new Enqueue call reaches the buffer
  | retry (k : Nat)                                 -- a woken caller re-checks
  | top | skip | remove
  | shutdown
deriving Repr, DecidableEq

def BufM.new (cap : Nat) : BufM := { buf := Buf.new cap, waiting := [], woken := [], returned := [] }

/-- `Signal()` wakes the longest-waiting caller (runtime notifyList is FIFO) -/
def signalOne (m : BufM) : BufM :=
  match m.waiting with
  | [] => m
  | w :: rest => { m with waiting := rest, woken := m.woken ++ [w] }

def BufM.step (wakeOnShutdown : Bool) (m : BufM) : BufLabel → Option BufM
  | .enq k op eof =>        -- = `Buf.enqueue` with `wouldBlock` turned into waiting (`enq_step_spec`)
    if m.buf.shut then some { m with returned := m.returned ++ [(k, .shutdown)] }
    else if m.buf.items.length ≥ m.buf.cap then
      if eof then some { m with returned := m.returned ++ [(k, .full)] }
      else some { m with waiting := m.waiting ++ [(k, op)] }
    else some { m with buf := { m.buf with items := m.buf.items ++ [op] }, returned := m.returned ++ [(k, .ok)] }
  | .retry k =>
    match m.woken.find? (·.1 == k) with
    | none => none
    | some w =>
      let op := w.2
      let woken' := m.woken.erase w
      -- the unfixed loop `for b.len >= b.cap { Wait() }` does not look at isShutdown again
      if wakeOnShutdown && m.buf.shut then
        some { m with woken := woken', returned := m.returned ++ [(k, .shutdown)] }
      else if m.buf.items.length ≥ m.buf.cap then
        some { m with woken := woken', waiting := m.waiting ++ [(k, op)] }
      else
        some { m with woken := woken', buf := { m.buf with items := m.buf.items ++ [op] },
                      returned := m.returned ++ [(k, .ok)] }
  | .top => some { m with buf := m.buf.top.1 }
  | .skip => some { m with buf := m.buf.skip.1 }
  | .remove =>
    match m.buf.cur with
    | none => some m
    | some _ => some (signalOne { m with buf := m.buf.remove.1 })
  | .shutdown =>
    let m' := { m with buf := m.buf.shutdown }
    if wakeOnShutdown then some { m' with waiting := [], woken := m'.woken ++ m'.waiting } else some m'

def BufM.run (wos : Bool) : BufM → List BufLabel → Option BufM
  | m, [] => some m
  | m, l :: ls => (m.step wos l).bind (fun m' => BufM.run wos m' ls)

end GoBatcher

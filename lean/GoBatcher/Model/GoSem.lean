/-
GoSem: the meaning given to the Go subset that /verif/extract/trans.go translates (Generated/Trans.lean).

Every Go integer is a Lean `Int`. `uint32` arithmetic wraps: the translator writes `u32 (a + b)` for every uint32
`+ - *` and for every conversion to uint32. `int` and `time.Duration` are unbounded here (64-bit overflow is
not modelled). `math.Ceil(float64(a) / float64(b))` on uint32 operands is the integer ceiling; that IEEE doubles
compute exactly this for all uint32 a, b > 0 is tested by the harness (float sweep), not proved. For b = 0 the
Go result (+Inf / NaN converted to an integer) is implementation-specific: `goCeilDiv a 0 = 0` is a placeholder
and every theorem about it assumes b > 0.
-/
namespace GoBatcher.GoSem

def u32 (x : Int) : Int := x % 4294967296

/-- Go's `/` on integers truncates toward zero (division by zero panics in Go; not modelled) -/
def goDiv (a b : Int) : Int := Int.tdiv a b

def goCeilDiv (a b : Int) : Int := if b = 0 then 0 else (a + b - 1) / b

theorem u32_of_range {x : Int} (h0 : 0 ≤ x) (h1 : x < 4294967296) : u32 x = x := by
  unfold u32; omega

theorem u32_nonneg (x : Int) : 0 ≤ u32 x := by unfold u32; omega
theorem u32_lt (x : Int) : u32 x < 4294967296 := by unfold u32; omega

end GoBatcher.GoSem

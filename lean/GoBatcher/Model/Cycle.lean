/-
M-Cycle: one flush cycle of the Batcher (both API generations).

Mirrors the body of the `case <-r.flush:` arm in /repo/batcher.go (v1) and /repo/v2/batcher.go (v2):
the loop that walks the buffer, groups batchable operations per watcher, raises full batches at once,
releases non-batchable operations singly, stops at the cut-off, and (v2) skips operations that cannot
get one of the MaxConcurrentBatches slots.  `stepOp` is the loop body for ONE operation; `scan` is the
loop with nothing interleaved; the Batcher machine (Model/Batcher.lean) drives the same `stepOp`.
-/
namespace GoBatcher

/-- An enqueued operation occurrence. `id` is unique per accepted Enqueue call; `obj` names the Go
operation object (one object may be enqueued several times). -/
structure Op where
  id : Nat
  obj : Nat
  w : Nat
  cost : Nat
  batchable : Bool
deriving DecidableEq, Repr, Hashable

/-- What a cycle reads once at its start. -/
structure Cfg where
  /-- cut-off comparison is `consumed >= allow` (v2) rather than `consumed > allow` (v1); from Facts -/
  ge : Bool
  /-- a rate limiter is attached -/
  limited : Bool
  /-- the cycle allowance `uint32(float64(Capacity())/1000.0*float64(FlushInterval.Milliseconds()))` -/
  allow : Nat
  /-- watcher ↦ MaxBatchSize (0 = unlimited) -/
  mb : Nat → Nat

abbrev Batch := Nat × List Op   -- (watcher, operations in order)

/-- The mutable state of one cycle: cost released so far and the map watcher ↦ open batch. -/
structure Acc where
  consumed : Nat
  openB : List Batch
deriving Repr, DecidableEq, Hashable

inductive Res where
  | stop                                              -- cut-off: the cycle ends here
  | skip                                              -- v2: no batch slot; op stays in the buffer
  | take (a : Acc) (out : Option Batch) (slot : Bool) -- op leaves the buffer; `out` raised now; `slot` reserved
deriving Repr, DecidableEq

def cutoff (c : Cfg) (consumed : Nat) : Bool :=
  c.limited && (if c.ge then decide (consumed ≥ c.allow) else decide (consumed > c.allow))

def isFull (c : Cfg) (w n : Nat) : Bool := decide (c.mb w > 0) && decide (n ≥ c.mb w)

def lookupB (w : Nat) : List Batch → Option (List Op)
  | [] => none
  | (w', b) :: rest => if w' = w then some b else lookupB w rest

def eraseB (w : Nat) : List Batch → List Batch
  | [] => []
  | (w', b) :: rest => if w' = w then rest else (w', b) :: eraseB w rest

/-- append `op` to its watcher's batch `b` (possibly empty) and raise it when full -/
def place (c : Cfg) (a : Acc) (op : Op) (b : List Op) (slot : Bool) : Res :=
  if isFull c op.w (b.length + 1) then
    .take { consumed := a.consumed + op.cost, openB := eraseB op.w a.openB } (some (op.w, b ++ [op])) slot
  else
    .take { consumed := a.consumed + op.cost, openB := (op.w, b ++ [op]) :: eraseB op.w a.openB } none slot

/-- The loop body for one operation. `avail` = "tryReserveBatchSlot would succeed now" (always true in v1
and in v2 without MaxConcurrentBatches). -/
def stepOp (c : Cfg) (a : Acc) (avail : Bool) (op : Op) : Res :=
  if cutoff c a.consumed then .stop
  else if op.batchable then
    match lookupB op.w a.openB with
    | some b => place c a op b false
    | none => if avail then place c a op [] true else .skip
  else if avail then
    .take { a with consumed := a.consumed + op.cost } (some (op.w, [op])) true
  else .skip

/-- `WithMaxConcurrentBatches(n)`: `tryReserveBatchSlot` always succeeds when `n == 0` (unset or set to 0) -/
def slotLimit (mcb : Nat) : Option Nat := if mcb = 0 then none else some mcb

def takeSlot : Option Nat → Option Nat
  | none => none
  | some n => some (n - 1)

def slotAvail : Option Nat → Bool
  | none => true
  | some n => decide (n > 0)

/-- Result of a whole (uninterrupted) cycle. -/
structure ScanOut where
  acc : Acc
  raised : List Batch      -- in raise order
  kept : List Op           -- skipped, still buffered, in order
  rest : List Op           -- not looked at (after the cut-off)
  free : Option Nat
deriving Repr, DecidableEq

/-- The cycle loop with nothing interleaved. `free` = free batch slots (`none` = unlimited). -/
def scan (c : Cfg) : List Op → Acc → Option Nat → ScanOut
  | [], a, free => { acc := a, raised := [], kept := [], rest := [], free := free }
  | op :: buf, a, free =>
    match stepOp c a (slotAvail free) op with
    | .stop => { acc := a, raised := [], kept := [], rest := op :: buf, free := free }
    | .skip =>
      let r := scan c buf a free
      { r with kept := op :: r.kept }
    | .take a' out slot =>
      let r := scan c buf a' (if slot then takeSlot free else free)
      { r with raised := out.toList ++ r.raised }

/-- The end-of-cycle loop `for watcher, batch := range batches { processBatch(watcher, batch) }` iterates a Go
map: the open batches are raised in ANY order (entries set to `nil` after a full batch are not in `openB`,
and `processBatch` ignores empty batches). A sweep is any permutation of the open-batch table. -/
def SweepOK (c : Cfg) (buf : List Op) (free : Option Nat) (sweep : List Batch) : Prop :=
  sweep.Perm (scan c buf { consumed := 0, openB := [] } free).acc.openB

/-- Everything a complete cycle hands to watchers, for the given sweep order. -/
def cycleBatches (c : Cfg) (buf : List Op) (free : Option Nat) (sweep : List Batch) : List Batch :=
  (scan c buf { consumed := 0, openB := [] } free).raised ++ sweep

/-- The buffer after a complete cycle. -/
def cycleBuffer (c : Cfg) (buf : List Op) (free : Option Nat) : List Op :=
  let r := scan c buf { consumed := 0, openB := [] } free
  r.kept ++ r.rest

end GoBatcher

/-
M-LeaseMgr: the Azure Blob lease manager (both generations) as pure functions of the outcome of each SDK call.
Mirrors /repo/azure-blob-lease-manager.go (v1: provision / createPartitions / leasePartition) and
/repo/v2/azure-blob-lease-manager.go (v2: Provision / CreatePartitions / LeasePartition).
-/
namespace GoBatcher

/-- what an SDK call returned, as the code classifies it -/
inductive SdkErr where
  | none                       -- err == nil
  | storage (code : String)    -- err.(azblob.StorageError), ServiceCode() = code
  | other                      -- any other error (transport, context cancelled, …)
deriving DecidableEq, Repr

inductive LmEvent where
  | createdContainer | verifiedContainer
  | createdBlob (i : Nat) | verifiedBlob (i : Nat)
  | failed (index : Nat)
  | error
deriving DecidableEq, Repr

/-- the lease the manager asks for -/
def leaseSeconds : Nat := 15

/-- `LeasePartition`: (reported lease time in seconds — 0 = none, events) -/
def leaseOutcome (index : Nat) : SdkErr → Nat × List LmEvent
  | .none => (leaseSeconds, [])
  | .storage "LeaseAlreadyPresent" => (0, [.failed index])
  | .storage _ => (0, [.error])
  | .other => (0, [.error])

/-- `Provision` (container): (error returned to the caller?, events) -/
def provisionOutcome : SdkErr → Bool × List LmEvent
  | .none => (false, [.createdContainer])
  | .storage "ContainerAlreadyExists" => (false, [.verifiedContainer])
  | .storage _ => (true, [])
  | .other => (true, [])

inductive BlobRes where
  | created | verified | err
deriving DecidableEq, Repr

/-- one blob upload (If-None-Match: *) -/
def blobOutcome : SdkErr → BlobRes
  | .none => .created
  | .storage "BlobAlreadyExists" => .verified
  | .storage "LeaseIdMissing" => .verified
  | .storage _ => .err
  | .other => .err

/-- v1 `createPartitions`: blobs 0..n-1 in order; the first other error is returned and ends the run.
`results i` = outcome of the upload of blob `i`; returns (error returned?, events, blobs attempted) -/
def createV1 (results : List SdkErr) (i : Nat := 0) : Bool × List LmEvent × Nat :=
  match results with
  | [] => (false, [], 0)
  | r :: rest =>
    match blobOutcome r with
    | .created => let (e, ev, n) := createV1 rest (i + 1); (e, .createdBlob i :: ev, n + 1)
    | .verified => let (e, ev, n) := createV1 rest (i + 1); (e, .verifiedBlob i :: ev, n + 1)
    | .err => (true, [], 1)

/-- v2 `CreatePartitions`: an error raises an error event and the remaining blobs are still attempted -/
def createV2 (results : List SdkErr) (i : Nat := 0) : List LmEvent × Nat :=
  match results with
  | [] => ([], 0)
  | r :: rest =>
    let (ev, n) := createV2 rest (i + 1)
    match blobOutcome r with
    | .created => (.createdBlob i :: ev, n + 1)
    | .verified => (.verifiedBlob i :: ev, n + 1)
    | .err => (.error :: ev, n + 1)

end GoBatcher

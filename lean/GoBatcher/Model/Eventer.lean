/-
M-Eventer: the listener registry of both generations (eventer.go / v2/eventer.go) under its RWMutex.

AddListener / RemoveListener take the WRITE lock: they are atomic steps, enabled only while no emit holds the read
lock. An emit takes the READ lock (`emitBegin`: from here on the listener map cannot change — the model records it
as the emit's snapshot), calls every listener of the map once, in any order (`deliver`), and releases the lock
(`emitEnd`). Any number of emits may be in progress at once. Listener ids are fresh (uuid.New()), event numbers
identify emit calls.

"RemoveListener has returned" = its step has been taken; "an event reaches a listener" = `deliver`.
Synchronous re-entry from inside a listener (excluded by the property) is not modelled.
-/
namespace GoBatcher

structure Emit where
  snap : List Nat        -- the listeners registered when the read lock was taken
  pending : List Nat     -- not called yet
  done : List Nat        -- called
deriving DecidableEq, Repr

structure ESt where
  listeners : List Nat
  removed : List Nat          -- ids whose RemoveListener has returned
  active : List Nat           -- emits holding the read lock
  em : Nat → Emit
  finished : List Nat         -- emits that have returned
  log : List (Nat × Nat)      -- (event, listener) deliveries, newest first

inductive ELabel where
  | add (id : Nat)
  | remove (id : Nat)
  | emitBegin (ev : Nat)
  | deliver (ev : Nat) (id : Nat)
  | emitEnd (ev : Nat)
deriving DecidableEq, Repr

def updE (f : Nat → Emit) (ev : Nat) (x : Emit) : Nat → Emit := fun k => if k = ev then x else f k

def estep (s : ESt) : ELabel → Option ESt
  | .add id =>
    if s.active.isEmpty && !s.listeners.contains id && !s.removed.contains id then
      some { s with listeners := id :: s.listeners }
    else none
  | .remove id =>
    if s.active.isEmpty then some { s with listeners := s.listeners.erase id, removed := id :: s.removed }
    else none
  | .emitBegin ev =>
    if !s.active.contains ev && !s.finished.contains ev then
      some { s with active := ev :: s.active, em := updE s.em ev { snap := s.listeners, pending := s.listeners, done := [] } }
    else none
  | .deliver ev id =>
    if s.active.contains ev && (s.em ev).pending.contains id then
      some { s with em := updE s.em ev { (s.em ev) with pending := (s.em ev).pending.erase id, done := id :: (s.em ev).done },
                    log := (ev, id) :: s.log }
    else none
  | .emitEnd ev =>
    if s.active.contains ev && (s.em ev).pending.isEmpty then
      some { s with active := s.active.erase ev, finished := ev :: s.finished }
    else none

def erun : ESt → List ELabel → Option ESt
  | s, [] => some s
  | s, l :: ls => (estep s l).bind (fun s' => erun s' ls)

def ESt.init : ESt :=
  { listeners := [], removed := [], active := [], em := fun _ => { snap := [], pending := [], done := [] }, finished := [], log := [] }

end GoBatcher

/-
M-Locks: the lock discipline of the shared state of both generations, as a table of guards per field, checked
against the access table that /verif/extract/locks.go regenerates from /repo on every run
(`Facts.v1_accesses`, `Facts.v2_accesses`: every access to a receiver field with the locks held lexically there).

A guard says how a field is protected once the object is shared between goroutines:
* `mutex m`      every access holds `m` (writes exclusively, reads at least shared);
* `atomic`       every access goes through sync/atomic;
* `frozen ws`    the field is assigned only at initialisation time — by the `With…` setters / `applyDefaults`
                 (which run before the object is started) or by the functions `ws`, which assign it before the
                 goroutines that read it are started (`go` statement = happens-before) and under the lock that any
                 concurrent API reader takes; afterwards it is only read (channels, mutexes, condition variables and
                 interfaces carry their own synchronisation);
* `confined fs`  the field is only touched by the functions `fs`, which all run on the one processing goroutine.

What this gives: two accesses to the same field, at least one of them a write, that can happen concurrently
after initialisation hold a common mutex (the writer exclusively), or are both atomic, or run on the same
goroutine (`conflict_free`). That a program with this property has no data race in the Go memory model is the
classical lockset argument; it is NOT proved here (trusted base), and the lexical reading of `Lock(); defer
Unlock()` by the extractor is trusted as well.
-/
namespace GoBatcher

structure Access where
  strct : String
  func : String
  field : String
  write : Bool
  atomic : Bool
  locks : List String
deriving DecidableEq, Repr

def Access.ofTuple (t : String × String × String × Bool × Bool × List String) : Access :=
  { strct := t.1, func := t.2.1, field := t.2.2.1, write := t.2.2.2.1, atomic := t.2.2.2.2.1, locks := t.2.2.2.2.2 }

inductive Guard where
  | mutex (m : String)
  | atomic
  | frozen (writers : List String)
  | confined (funcs : List String)
deriving DecidableEq, Repr

/-- functions that only run while the object is being configured, before it is started or shared -/
def initFn (f : String) : Bool := f.startsWith "With" || f.startsWith "with" || f == "applyDefaults"

def Access.ok (a : Access) : Guard → Bool
  | .mutex m => initFn a.func || (if a.write then a.locks.contains (m ++ ":X")
                                  else a.locks.contains (m ++ ":X") || a.locks.contains (m ++ ":S"))
  | .atomic => a.atomic || initFn a.func
  | .frozen ws => !a.write || ws.contains a.func || initFn a.func
  | .confined fs => fs.contains a.func

def guardV2 (strct field : String) : Guard :=
  if strct == "EventerBase" && field == "listeners" then .mutex "listenerMutex"
  else if strct == "batcher" && field == "phase" then .mutex "phaseMutex"
  else if strct == "batcher" && field == "target" then .mutex "targetMutex"
  else if strct == "batcher" && field == "lastFlushWithRecords" then .confined ["Start$lit", "processBatch"]
  else if strct == "buffer" && !(field == "lock" || field == "notFull") then .mutex "lock"
  else if strct == "sharedResource" && field == "phase" then .mutex "phaseMutex"
  else if strct == "sharedResource" && field == "partitions" then .mutex "partlock"
  else if strct == "sharedResource" && (field == "capacity" || field == "target" || field == "sharedCapacity"
      || field == "reservedCapacity") then .atomic
  else if strct == "sharedResource" && (field == "factor" || field == "maxInterval" || field == "provision") then .frozen ["Start"]
  else if strct == "operation" && field == "attempt" then .atomic
  else if strct == "azureBlobLeaseManager" && field == "container" then .frozen ["Provision"]
  else if strct == "azureBlobLeaseManager" && field == "eventer" then .frozen ["RaiseEventsTo"]
  else .frozen []

def guardV1 (strct field : String) : Guard :=
  if strct == "eventer" && field == "listeners" then .mutex "listenerMutex"
  else if strct == "Batcher" && field == "phase" then .mutex "phaseMutex"
  else if strct == "Batcher" && field == "target" then .mutex "targetMutex"
  else if strct == "Batcher" && field == "stop" then .frozen ["Start"]
  else if strct == "AzureSharedResource" && field == "phase" then .mutex "phaseMutex"
  else if strct == "AzureSharedResource" && field == "partitions" then .mutex "partlock"
  else if strct == "AzureSharedResource" && (field == "capacity" || field == "target") then .atomic
  else if strct == "AzureSharedResource" && (field == "factor" || field == "maxInterval") then .frozen ["Provision"]
  else if strct == "AzureSharedResource" && field == "stop" then .frozen ["Start"]
  else if strct == "Operation" && field == "attempt" then .atomic
  else if strct == "azureBlobLeaseManager" && field == "container" then .frozen ["provision"]
  else if strct == "azureBlobLeaseManager" && field == "parent" then .frozen ["provision", "raiseEventsTo"]
  else .frozen []

def tableOk (guard : String → String → Guard) (tab : List Access) : Bool :=
  tab.all fun a => a.ok (guard a.strct a.field)

/-- may the two accesses run concurrently with the object shared? (both after initialisation) -/
def concurrentCandidates (a b : Access) : Bool := !initFn a.func && !initFn b.func

/-- the pairwise statement the guards add up to -/
def pairOk (g : Guard) (a b : Access) : Bool :=
  match g with
  | .mutex m =>
    (if a.write then a.locks.contains (m ++ ":X") else a.locks.contains (m ++ ":X") || a.locks.contains (m ++ ":S")) &&
    (if b.write then b.locks.contains (m ++ ":X") else b.locks.contains (m ++ ":X") || b.locks.contains (m ++ ":S"))
  | .atomic => a.atomic && b.atomic
  | .frozen ws => (!a.write || ws.contains a.func) && (!b.write || ws.contains b.func)
  | .confined fs => fs.contains a.func && fs.contains b.func

/-- generic: a table that respects its guards has no unsynchronised conflicting pair -/
theorem conflict_free (guard : String → String → Guard) (tab : List Access) (h : tableOk guard tab = true)
    (a b : Access) (ha : a ∈ tab) (hb : b ∈ tab) (hs : a.strct = b.strct) (hf : a.field = b.field)
    (hc : concurrentCandidates a b = true) : pairOk (guard a.strct a.field) a b = true := by
  have oka := List.all_eq_true.1 h a ha
  have okb := List.all_eq_true.1 h b hb
  rw [← hs, ← hf] at okb
  simp only [concurrentCandidates, Bool.and_eq_true, Bool.not_eq_true'] at hc
  cases hg : guard a.strct a.field <;> simp only [hg, Access.ok, pairOk] at oka okb ⊢ <;>
    simp_all

end GoBatcher

import GoBatcher.Generated.Facts
import GoBatcher.Model.Validate
import GoBatcher.Model.Batcher
/-!
Expectations on the facts regenerated from /repo's sources on every run (`Generated/Facts.lean`).
Each theorem pins a syntactic fact the hand-written model relies on; its name carries the ids of the properties
whose models rely on it, and `bin/check` counts it among those properties' proof obligations. When the source
changes a fact, the theorem no longer checks: the tie between model and code is broken for those properties.
-/
namespace GoBatcher.Expect
open GoBatcher

/-- `Enqueue` runs the four admission checks in the modelled order (both generations) -/
theorem facts_C14_validate_order :
    Facts.v1_validateOrder = validateOrderNames ∧ Facts.v2_validateOrder = validateOrderNames := by decide

/-- … with the modelled comparison operators (local names by position: §0 receiver, §1 the operation, §3 the watcher's MaxAttempts) -/
theorem facts_C14_validate_conditions :
    Facts.v1_validateConds = ["§1 == nil", "§1.Watcher() == nil",
      "§0.ratelimiter != nil && §1.Cost() > §0.ratelimiter.MaxCapacity()",
      "§3 > 0 && §1.Attempt() >= §3"] ∧
    Facts.v2_validateConds = Facts.v1_validateConds := by decide

/-- the demand is counted before the operation is inserted, with the verification hook in between -/
theorem facts_C03_C19_count_then_hook_then_insert :
    Facts.v1_countBeforeInsert = true ∧ Facts.v2_countBeforeInsert = true ∧
    Facts.v1_hookBetweenCountAndInsert = true ∧ Facts.v2_hookBetweenCountAndInsert = true := by decide

/-- v2 buffer: `shutdown()` broadcasts and a woken `enqueue` re-checks `isShutdown` (fix of finding F4) -/
theorem facts_C15_C16_shutdown_wakes_waiters : Facts.v2_shutdownWakesWaiters = some true := by decide

/-- C16: the v2 setters the property names refuse (panic) once the Batcher has been started - in EVERY later phase; the
theorems about intervals and times (C02 C11 C12 C13 C19) rely on those values being fixed from Start on -/
theorem facts_C02_C11_C12_C13_C16_C19_setter_guards :
    ∀ x ∈ ["WithRateLimiter", "WithFlushInterval", "WithCapacityInterval", "WithAuditInterval", "WithMaxOperationTime",
           "WithPauseTime", "WithErrorOnFullBuffer"], x ∈ Facts.v2_guardedSetters := by decide

/-- the defaults `applyDefaults` installs are the model's (nanoseconds), in both generations -/
theorem facts_C02_C11_C12_C13_C19_default_values :
    Facts.v2_defaults = ["§0.flushInterval <= 0|§0.flushInterval|" ++ toString defFlush,
                         "§0.capacityInterval <= 0|§0.capacityInterval|" ++ toString defCap,
                         "§0.auditInterval <= 0|§0.auditInterval|" ++ toString defAudit,
                         "§0.maxOperationTime <= 0|§0.maxOperationTime|" ++ toString defMot,
                         "§0.pauseTime <= 0|§0.pauseTime|" ++ toString defPause] ∧
    Facts.v1_defaults = Facts.v2_defaults := by decide

/-- Enqueue takes the cost back when the buffer refuses the operation (fix of findings F1/F2) -/
theorem facts_C03_C14_C15_C19_rollback :
    Facts.v1_rollbackOnInsertError = true ∧ Facts.v2_rollbackOnInsertError = true := by decide

/-- C18: the service codes the model singles out are the SDK's spelling of those conditions -/
theorem facts_C18_sdk_codes :
    "LeaseAlreadyPresent" ∈ Facts.sdk_serviceCodes ∧ "ContainerAlreadyExists" ∈ Facts.sdk_serviceCodes ∧
    "BlobAlreadyExists" ∈ Facts.sdk_serviceCodes ∧ "LeaseIdMissing" ∈ Facts.sdk_serviceCodes ∧
    Facts.sdk_serviceCodes.length ≥ 100 := by decide

end GoBatcher.Expect

import GoBatcher.Generated.TransLm
/-!
The error classification of the Azure Blob lease manager, TRANSLATED from `azure-blob-lease-manager.go` of both
generations on every run (`Generated/TransLm.lean`, by /verif/extract/translm.go), computes exactly the outcome
functions of `Model/LeaseMgr.lean` that the C18 theorems (`Props/C18.lean`) are about - for every error value
(any service-code string, a storage error without a code, a non-storage error), every index, every run length.
-/
namespace GoBatcher.ExpectTransLm
open GoBatcher GoBatcher.LmSem GoBatcher.TransLm

/-- `leasePartition` / `LeasePartition`: one SDK call; 15 s reported iff it returned no error; the events of the model -/
theorem trans_C18_leasePartition_v1 (index : Nat) (e : SdkErr) :
    ((v1_lm_leasePartition index e).secs, (v1_lm_leasePartition index e).ev) = leaseOutcome index e ∧
    (v1_lm_leasePartition index e).calls = 1 := by
  cases e with
  | none => simp [v1_lm_leasePartition, done, leaseOutcome, leaseSeconds]
  | other => simp [v1_lm_leasePartition, done, leaseOutcome]
  | storage code =>
    by_cases h : code = "LeaseAlreadyPresent"
    · subst h; simp [v1_lm_leasePartition, done, leaseOutcome]
    · simp [v1_lm_leasePartition, done, h]
      unfold leaseOutcome
      split <;> simp_all

theorem trans_C18_LeasePartition_v2 (index : Nat) (e : SdkErr) :
    ((v2_lm_LeasePartition index e).secs, (v2_lm_LeasePartition index e).ev) = leaseOutcome index e ∧
    (v2_lm_LeasePartition index e).calls = 1 := by
  cases e with
  | none => simp [v2_lm_LeasePartition, done, leaseOutcome, leaseSeconds]
  | other => simp [v2_lm_LeasePartition, done, leaseOutcome]
  | storage code =>
    by_cases h : code = "LeaseAlreadyPresent"
    · subst h; simp [v2_lm_LeasePartition, done, leaseOutcome]
    · simp [v2_lm_LeasePartition, done, h]
      unfold leaseOutcome
      split <;> simp_all

/-- `provision` / `Provision` from the container call on: an error is returned iff the model says so; its events -/
theorem trans_C18_provision_v1 (e : SdkErr) :
    (decide ((v1_lm_provision e).err ≠ .none), (v1_lm_provision e).ev) = provisionOutcome e ∧ (v1_lm_provision e).calls = 1 := by
  cases e with
  | none => simp [v1_lm_provision, done, provisionOutcome]
  | other => simp [v1_lm_provision, done, provisionOutcome]
  | storage code =>
    by_cases h : code = "ContainerAlreadyExists"
    · subst h; simp [v1_lm_provision, done, provisionOutcome]
    · simp [v1_lm_provision, done, h]
      unfold provisionOutcome
      split <;> simp_all

theorem trans_C18_Provision_v2 (e : SdkErr) :
    (decide ((v2_lm_Provision e).err ≠ .none), (v2_lm_Provision e).ev) = provisionOutcome e ∧ (v2_lm_Provision e).calls = 1 := by
  cases e with
  | none => simp [v2_lm_Provision, done, provisionOutcome]
  | other => simp [v2_lm_Provision, done, provisionOutcome]
  | storage code =>
    by_cases h : code = "ContainerAlreadyExists"
    · subst h; simp [v2_lm_Provision, done, provisionOutcome]
    · simp [v2_lm_Provision, done, h]
      unfold provisionOutcome
      split <;> simp_all

/-! ### the provisioning loops -/

/-- the event one upload outcome produces in v2 -/
def ev2 (r : SdkErr) (i : Nat) : LmEvent :=
  match blobOutcome r with
  | .created => .createdBlob i
  | .verified => .verifiedBlob i
  | .err => .error

theorem createV2_cons (r : SdkErr) (rest : List SdkErr) (i : Nat) :
    createV2 (r :: rest) i = (ev2 r i :: (createV2 rest (i + 1)).1, (createV2 rest (i + 1)).2 + 1) := by
  simp only [createV2, ev2]
  cases blobOutcome r <;> rfl

/-- the body of v2's loop, as generated -/
def bodyV2 (results : Nat → SdkErr) : Nat → LmSt → Except LmSt LmSt := fun i st =>
  let st := { st with err := results i, calls := st.calls + 1 }
  if st.err != .none then
    match st.err with
    | .storage code =>
      if code == "BlobAlreadyExists" || code == "LeaseIdMissing" then
        let st := { st with ev := st.ev ++ [.verifiedBlob i] }
        .ok st
      else
        let st := { st with ev := st.ev ++ [.error] }
        .ok st
    | _ =>
      let st := { st with ev := st.ev ++ [.error] }
      .ok st
  else
    let st := { st with ev := st.ev ++ [.createdBlob i] }
    .ok st

theorem v2_unfold (count : Nat) (results : Nat → SdkErr) :
    v2_lm_CreatePartitions count results =
      done (match forFrom (bodyV2 results) count 0 {} with | .error r => .error r | .ok st => .ok st) := rfl

theorem bodyV2_spec (results : Nat → SdkErr) (i : Nat) (st : LmSt) :
    bodyV2 results i st = .ok { st with err := results i, calls := st.calls + 1, ev := st.ev ++ [ev2 (results i) i] } := by
  unfold bodyV2 ev2
  cases h : results i with
  | none => simp [blobOutcome]
  | other => simp [blobOutcome]
  | storage code =>
    by_cases h1 : code = "BlobAlreadyExists"
    · subst h1; simp [blobOutcome]
    · by_cases h2 : code = "LeaseIdMissing"
      · subst h2; simp [blobOutcome]
      · simp [h1, h2]
        unfold blobOutcome
        split <;> simp_all

theorem createV2_calls : ∀ (l : List SdkErr) (i : Nat), (createV2 l i).2 = l.length
  | [], _ => rfl
  | r :: rest, i => by rw [createV2_cons]; simp [createV2_calls rest (i + 1)]

theorem forFrom_v2 (results : Nat → SdkErr) : ∀ (k i : Nat) (st : LmSt),
    ∃ st', forFrom (bodyV2 results) k i st = .ok st' ∧
      st'.ev = st.ev ++ (createV2 ((List.range' i k).map results) i).1 ∧
      st'.calls = st.calls + (createV2 ((List.range' i k).map results) i).2 ∧ st'.secs = st.secs
  | 0, i, st => ⟨st, rfl, by simp [createV2], by simp [createV2], rfl⟩
  | k + 1, i, st => by
    obtain ⟨st', h1, h2, h3, h4⟩ := forFrom_v2 results k (i + 1)
      { st with err := results i, calls := st.calls + 1, ev := st.ev ++ [ev2 (results i) i] }
    refine ⟨st', ?_, ?_, ?_, ?_⟩
    · simp only [forFrom, bodyV2_spec]; exact h1
    · rw [h2, List.range'_succ, List.map_cons, createV2_cons]; simp
    · rw [h3, List.range'_succ, List.map_cons, createV2_cons]; simp; omega
    · rw [h4]

/-- v2 `CreatePartitions(count)`: the events and the number of uploads are the model's `createV2`, whatever each
upload answers; no error reaches the caller; every blob is attempted -/
theorem trans_C18_CreatePartitions_v2 (count : Nat) (results : Nat → SdkErr) :
    ((v2_lm_CreatePartitions count results).ev, (v2_lm_CreatePartitions count results).calls) =
      createV2 ((List.range count).map results) ∧ (v2_lm_CreatePartitions count results).calls = count := by
  obtain ⟨st', h1, h2, h3, _⟩ := forFrom_v2 results count 0 {}
  rw [v2_unfold, h1]
  simp only [done, h2, h3, List.range_eq_range']
  refine ⟨by simp, by simp [createV2_calls]⟩

/-! v1: the first real error ends the run and is returned -/

theorem createV1_cons (r : SdkErr) (rest : List SdkErr) (i : Nat) :
    createV1 (r :: rest) i =
      (match blobOutcome r with
       | .created => ((createV1 rest (i + 1)).1, .createdBlob i :: (createV1 rest (i + 1)).2.1, (createV1 rest (i + 1)).2.2 + 1)
       | .verified => ((createV1 rest (i + 1)).1, .verifiedBlob i :: (createV1 rest (i + 1)).2.1, (createV1 rest (i + 1)).2.2 + 1)
       | .err => (true, [], 1)) := by
  simp only [createV1]
  cases blobOutcome r <;> rfl

def bodyV1 (results : Nat → SdkErr) : Nat → LmSt → Except LmSt LmSt := fun i st =>
  let st := { st with err := results i, calls := st.calls + 1 }
  if st.err != .none then
    match st.err with
    | .storage code =>
      if code == "BlobAlreadyExists" || code == "LeaseIdMissing" then
        let st := { st with err := .none }
        let st := { st with ev := st.ev ++ [.verifiedBlob i] }
        .ok st
      else
        .error st
    | _ =>
      .error st
  else
    let st := { st with ev := st.ev ++ [.createdBlob i] }
    .ok st

theorem v1_unfold (count : Nat) (results : Nat → SdkErr) :
    v1_lm_createPartitions count results =
      done (match forFrom (bodyV1 results) count 0 {} with | .error r => .error r | .ok st => .error st) := rfl

theorem bodyV1_spec (results : Nat → SdkErr) (i : Nat) (st : LmSt) :
    bodyV1 results i st =
      (match blobOutcome (results i) with
       | .created => .ok { st with err := .none, calls := st.calls + 1, ev := st.ev ++ [.createdBlob i] }
       | .verified => .ok { st with err := .none, calls := st.calls + 1, ev := st.ev ++ [.verifiedBlob i] }
       | .err => .error { st with err := results i, calls := st.calls + 1 }) := by
  unfold bodyV1
  cases h : results i with
  | none => simp [blobOutcome]
  | other => simp [blobOutcome]
  | storage code =>
    by_cases h1 : code = "BlobAlreadyExists"
    · subst h1; simp [blobOutcome]
    · by_cases h2 : code = "LeaseIdMissing"
      · subst h2; simp [blobOutcome]
      · simp [h1, h2]
        unfold blobOutcome
        split <;> simp_all

theorem blobOutcome_err_ne_none (r : SdkErr) (h : blobOutcome r = .err) : r ≠ .none := by
  intro h'; subst h'; simp [blobOutcome] at h

/-- the state the loop leaves (by falling through or by `return`), against the model from index `i` on; a state that
enters with `err = none` -/
theorem forFrom_v1 (results : Nat → SdkErr) : ∀ (k i : Nat) (st : LmSt), st.err = .none →
    let r := match forFrom (bodyV1 results) k i st with | .error r => r | .ok s => s
    let m := createV1 ((List.range' i k).map results) i
    (r.err != .none) = m.1 ∧ r.ev = st.ev ++ m.2.1 ∧ r.calls = st.calls + m.2.2
  | 0, i, st, h => by simp [forFrom, createV1, h]
  | k + 1, i, st, h => by
    simp only [forFrom, bodyV1_spec, List.range'_succ, List.map_cons, createV1_cons]
    cases hb : blobOutcome (results i) with
    | created =>
      have := forFrom_v1 results k (i + 1) { st with err := .none, calls := st.calls + 1, ev := st.ev ++ [.createdBlob i] } rfl
      simp only at this ⊢
      obtain ⟨a, b, c⟩ := this
      refine ⟨a, ?_, ?_⟩
      · simp [b]
      · rw [c]; omega
    | verified =>
      have := forFrom_v1 results k (i + 1) { st with err := .none, calls := st.calls + 1, ev := st.ev ++ [.verifiedBlob i] } rfl
      simp only at this ⊢
      obtain ⟨a, b, c⟩ := this
      refine ⟨a, ?_, ?_⟩
      · simp [b]
      · rw [c]; omega
    | err =>
      have := blobOutcome_err_ne_none _ hb
      simp [this]

/-- v1 `createPartitions(count)`: an error is returned iff the model says so, with the model's events and number of
uploads - the run stops at the first upload that fails for a reason other than "exists already" -/
theorem trans_C18_createPartitions_v1 (count : Nat) (results : Nat → SdkErr) :
    ((v1_lm_createPartitions count results).err != .none, (v1_lm_createPartitions count results).ev,
      (v1_lm_createPartitions count results).calls) = createV1 ((List.range count).map results) := by
  have h := forFrom_v1 results count 0 {} rfl
  rw [v1_unfold]
  simp only [List.range_eq_range'] at h ⊢
  obtain ⟨a, b, c⟩ := h
  cases hf : forFrom (bodyV1 results) count 0 {} with
  | error r => simp only [hf, done] at a b c ⊢; rw [a, b, c]; simp
  | ok s => simp only [hf, done] at a b c ⊢; rw [a, b, c]; simp

/-! non-vacuity: the translated functions on concrete runs -/
example : (v1_lm_createPartitions 3 (fun i => if i = 1 then .storage "BlobAlreadyExists" else .none)).ev
    = [.createdBlob 0, .verifiedBlob 1, .createdBlob 2] := by decide
example : (v1_lm_createPartitions 3 (fun i => if i = 1 then .other else .none)).calls = 2 := by decide
example : (v2_lm_CreatePartitions 3 (fun i => if i = 1 then .other else .none)).ev = [.createdBlob 0, .error, .createdBlob 2] := by decide
example : (v2_lm_LeasePartition 7 (.storage "LeaseAlreadyPresent")).ev = [.failed 7] ∧ (v2_lm_LeasePartition 7 .none).secs = 15 := by decide

end GoBatcher.ExpectTransLm

module verifextract

go 1.26

// Translator for the pointer code of /repo/v2/buffer.go: every method of `buffer` becomes a Lean definition over the
// heap model of GoBatcher/Model/BufferLinked.lean (`LBuf`: a list of `links` nodes, pointers are `Option Nat`).
// The output (Generated/TransBuf.lean) is regenerated on every run; ExpectTransBuf.lean proves that each generated
// definition EQUALS the hand-written L0 operation the refinement theorems (Props/C15b.lean) are about, for every heap -
// well formed or not. An edit of buffer.go that changes what a method does to the linked structure changes the
// generated definition and that equation stops checking.
//
// Semantics: statements run in the Option monad (`none` = the Go code panics: an explicit panic(...) or a nil
// dereference). `P.prv` / `P.nxt` / `P.op` read the node `P` points to (`rd`), `P.prv = v` stores into it
// (`storePrv`), `&links{...}` appends a node to the heap. An assignment evaluates the pointer operand on its left, then
// its right-hand side, then stores (Go's order). `a && b` in a condition is short-circuit (nested ifs). Mutex calls,
// `defer`, `Signal()` and `Broadcast()` are skipped (the blocked-caller machine BufM owns them); a `for` loop around
// `notFull.Wait()` is ONE attempt: reaching `Wait()` returns `wouldBlock` (a woken caller re-runs the attempt, which
// re-checks exactly what the code re-checks after `Wait()`: the shutdown flag, then the loop condition).
// Anything else is refused (`-- REFUSED`), never guessed.
package main

import (
	"fmt"
	"go/ast"
	"go/token"
	"strings"
)

type bufTr struct {
	p      *pkg
	rname  string
	tmp    int
	ret    string // "op" | "err" | "unit"
	locals map[string]bool
}

type bufRefuse struct{ why string }

func (c *bufTr) fail(format string, a ...interface{}) { panic(bufRefuse{fmt.Sprintf(format, a...)}) }

func (c *bufTr) fresh(prefix string) string {
	c.tmp++
	return fmt.Sprintf("%s%d", prefix, c.tmp)
}

var bufFields = map[string]string{"head": "head", "tail": "tail", "cursor": "cursor", "len": "len", "cap": "cap", "isShutdown": "shut"}

// val evaluates an expression; `pre` receives the binds it needs (each a line ending in `=>` or a `let`).
func (c *bufTr) val(e ast.Expr, pre *[]string) string {
	switch v := e.(type) {
	case *ast.ParenExpr:
		return c.val(v.X, pre)
	case *ast.Ident:
		switch v.Name {
		case "nil":
			return "none"
		case "true", "false":
			return v.Name
		case "op", "errorOnFull":
			return v.Name
		}
		if c.locals[v.Name] {
			return v.Name
		}
		c.fail("identifier %s", v.Name)
	case *ast.BasicLit:
		if v.Kind == token.INT {
			return v.Value
		}
	case *ast.SelectorExpr:
		if id, ok := v.X.(*ast.Ident); ok && id.Name == c.rname {
			f, ok := bufFields[v.Sel.Name]
			if !ok {
				c.fail("field %s", v.Sel.Name)
			}
			return c.rname + "." + f
		}
		if v.Sel.Name != "prv" && v.Sel.Name != "nxt" && v.Sel.Name != "op" {
			c.fail("selector %s", c.p.str(v))
		}
		pv := c.val(v.X, pre)
		t := c.fresh("t")
		*pre = append(*pre, fmt.Sprintf("(rd %s %s).bind fun %s =>", c.rname, pv, t))
		return t + "." + v.Sel.Name
	case *ast.UnaryExpr:
		if v.Op == token.AND {
			if cl, ok := v.X.(*ast.CompositeLit); ok && c.p.str(cl.Type) == "links" {
				prv, nxt, op := "none", "none", ""
				for _, el := range cl.Elts {
					kv, ok := el.(*ast.KeyValueExpr)
					if !ok {
						c.fail("links literal without keys")
					}
					x := c.val(kv.Value, pre)
					switch c.p.str(kv.Key) {
					case "prv":
						prv = x
					case "nxt":
						nxt = x
					case "op":
						op = x
					default:
						c.fail("links field %s", c.p.str(kv.Key))
					}
				}
				if op == "" {
					c.fail("links literal without op")
				}
				a := c.fresh("a")
				*pre = append(*pre, fmt.Sprintf("let %s := %s.heap.length", a, c.rname))
				*pre = append(*pre, fmt.Sprintf("let %s := { %s with heap := %s.heap ++ [({ prv := %s, op := %s, nxt := %s } : Link)] }", c.rname, c.rname, c.rname, prv, op, nxt))
				return "(some " + a + ")"
			}
		}
		if v.Op == token.NOT {
			return "(!" + c.val(v.X, pre) + ")"
		}
	case *ast.BinaryExpr:
		a := c.val(v.X, pre)
		b := c.val(v.Y, pre)
		switch v.Op {
		case token.EQL:
			return "(" + a + " == " + b + ")"
		case token.NEQ:
			return "(" + a + " != " + b + ")"
		case token.GEQ:
			return "(decide (" + a + " ≥ " + b + "))"
		case token.LSS:
			return "(decide (" + a + " < " + b + "))"
		}
	}
	c.fail("expression %s", c.p.str(e))
	return ""
}

func (c *bufTr) skippable(call *ast.CallExpr) bool {
	txt := c.p.str(call.Fun)
	for _, suf := range []string{".Lock", ".Unlock", ".Signal", ".Broadcast"} {
		if strings.HasSuffix(txt, suf) {
			return true
		}
	}
	return false
}

func lines(ind string, pre []string) string {
	var sb strings.Builder
	for _, l := range pre {
		sb.WriteString(ind + l + "\n")
	}
	return sb.String()
}

func (c *bufTr) result(e ast.Expr, pre *[]string) string {
	switch c.ret {
	case "unit":
		return "some " + c.rname
	case "op":
		if id, ok := e.(*ast.Ident); ok && id.Name == "nil" {
			return fmt.Sprintf("some (%s, none)", c.rname)
		}
		x := c.val(e, pre)
		return fmt.Sprintf("some (%s, some %s)", c.rname, x)
	case "err":
		id, ok := e.(*ast.Ident)
		if !ok {
			c.fail("error result %s", c.p.str(e))
		}
		m := map[string]string{"nil": ".ok", "BufferIsShutdown": ".shutdown", "BufferFullError": ".full"}
		r, ok := m[id.Name]
		if !ok {
			c.fail("error value %s", id.Name)
		}
		return fmt.Sprintf("some (%s, %s)", c.rname, r)
	}
	return ""
}

func hasWait(p *pkg, n ast.Node) bool {
	found := false
	ast.Inspect(n, func(x ast.Node) bool {
		if call, ok := x.(*ast.CallExpr); ok && strings.HasSuffix(p.str(call.Fun), ".Wait") {
			found = true
		}
		return true
	})
	return found
}

// cond emits `if <e> then <thenB> else <elseB>` with short-circuit `&&`.
func (c *bufTr) cond(e ast.Expr, thenB, elseB func(ind string) string, ind string) string {
	if pe, ok := e.(*ast.ParenExpr); ok {
		return c.cond(pe.X, thenB, elseB, ind)
	}
	if be, ok := e.(*ast.BinaryExpr); ok && be.Op == token.LAND {
		return c.cond(be.X, func(i string) string { return c.cond(be.Y, thenB, elseB, i) }, elseB, ind)
	}
	pre := []string{}
	x := c.val(e, &pre)
	return lines(ind, pre) + ind + "if " + x + " then\n" + thenB(ind+"  ") + ind + "else\n" + elseB(ind+"  ")
}

// emit translates a statement list; every path ends in a result.
func (c *bufTr) emit(stmts []ast.Stmt, ind string) string {
	for i, s := range stmts {
		rest := stmts[i+1:]
		switch v := s.(type) {
		case *ast.DeferStmt:
			if c.skippable(v.Call) {
				continue
			}
			c.fail("defer %s", c.p.str(v.Call))
		case *ast.ExprStmt:
			call, ok := v.X.(*ast.CallExpr)
			if !ok {
				c.fail("expression statement")
			}
			txt := c.p.str(call.Fun)
			if c.skippable(call) {
				continue
			}
			if txt == "panic" {
				return ind + "none\n"
			}
			if strings.HasSuffix(txt, ".Wait") {
				if c.ret != "err" {
					c.fail("Wait outside enqueue")
				}
				return ind + fmt.Sprintf("some (%s, .wouldBlock)\n", c.rname)
			}
			c.fail("call %s", txt)
		case *ast.ReturnStmt:
			pre := []string{}
			var r string
			if len(v.Results) == 0 {
				if c.ret != "unit" {
					c.fail("bare return")
				}
				r = "some " + c.rname
			} else {
				r = c.result(v.Results[0], &pre)
			}
			return lines(ind, pre) + ind + r + "\n"
		case *ast.IncDecStmt:
			if c.p.str(v.X) != c.rname+".len" {
				c.fail("inc/dec of %s", c.p.str(v.X))
			}
			op := "+"
			if v.Tok == token.DEC {
				op = "-"
			}
			return ind + fmt.Sprintf("let %s := { %s with len := %s.len %s 1 }\n", c.rname, c.rname, c.rname, op) + c.emit(rest, ind)
		case *ast.AssignStmt:
			if len(v.Lhs) != 1 || len(v.Rhs) != 1 {
				c.fail("multi-assignment")
			}
			pre := []string{}
			if v.Tok == token.DEFINE {
				id := v.Lhs[0].(*ast.Ident)
				x := c.val(v.Rhs[0], &pre)
				c.locals[id.Name] = true
				return lines(ind, pre) + ind + fmt.Sprintf("let %s := %s\n", id.Name, x) + c.emit(rest, ind)
			}
			if v.Tok != token.ASSIGN {
				c.fail("assignment operator %s", v.Tok)
			}
			sel, ok := v.Lhs[0].(*ast.SelectorExpr)
			if !ok {
				c.fail("assignment target %s", c.p.str(v.Lhs[0]))
			}
			if id, ok := sel.X.(*ast.Ident); ok && id.Name == c.rname {
				f, ok := bufFields[sel.Sel.Name]
				if !ok {
					c.fail("field %s", sel.Sel.Name)
				}
				x := c.val(v.Rhs[0], &pre)
				return lines(ind, pre) + ind + fmt.Sprintf("let %s := { %s with %s := %s }\n", c.rname, c.rname, f, x) + c.emit(rest, ind)
			}
			// P.prv = v / P.nxt = v : the pointer operand first, then the right-hand side, then the store
			if sel.Sel.Name != "prv" && sel.Sel.Name != "nxt" {
				c.fail("store into %s", c.p.str(sel))
			}
			pv := c.val(sel.X, &pre)
			x := c.val(v.Rhs[0], &pre)
			setter := map[string]string{"prv": "storePrv", "nxt": "storeNxt"}[sel.Sel.Name]
			pre = append(pre, fmt.Sprintf("(%s %s %s %s).bind fun %s =>", setter, c.rname, pv, x, c.rname))
			return lines(ind, pre) + c.emit(rest, ind)
		case *ast.IfStmt:
			if v.Init != nil {
				c.fail("if with init")
			}
			return c.cond(v.Cond,
				func(i string) string { return c.emit(append(append([]ast.Stmt{}, v.Body.List...), rest...), i) },
				func(i string) string { return c.emit(append(append([]ast.Stmt{}, elseStmts(v)...), rest...), i) }, ind)
		case *ast.SwitchStmt:
			if v.Tag != nil || v.Init != nil {
				c.fail("switch with a tag")
			}
			return c.emit(append([]ast.Stmt{switchToIf(v)}, rest...), ind)
		case *ast.BlockStmt:
			return c.emit(append(append([]ast.Stmt{}, v.List...), rest...), ind)
		case *ast.ForStmt:
			// `for cond { ...; Wait(); ... }`: one attempt (see the header)
			if v.Init != nil || v.Post != nil || v.Cond == nil || !hasWait(c.p, v.Body) {
				c.fail("for loop that is not a wait loop")
			}
			return c.cond(v.Cond,
				func(i string) string { return c.emit(v.Body.List, i) }, // ends at Wait() or at a return
				func(i string) string { return c.emit(rest, i) }, ind)
		default:
			c.fail("statement %T", s)
		}
	}
	if c.ret == "unit" {
		return ind + "some " + c.rname + "\n"
	}
	c.fail("control reaches the end of a function with a result")
	return ""
}

func transBuf(v2 *pkg) string {
	var sb strings.Builder
	sb.WriteString("/- GENERATED by /verif/extract (transbuf.go) from /repo/v2/buffer.go on every run. Do not edit. -/\nimport GoBatcher.Model.BufferLinked\nnamespace GoBatcher.TransBuf\nopen GoBatcher GoBatcher.HeapSem\n\n")
	type spec struct{ name, lean, ret, params, rty string }
	for _, sp := range []spec{
		{"top", "top", "op", "", "Option (LBuf × Option Op)"},
		{"skip", "skip", "op", "", "Option (LBuf × Option Op)"},
		{"remove", "remove", "op", "", "Option (LBuf × Option Op)"},
		{"enqueue", "enqueue", "err", " (op : Op) (errorOnFull : Bool)", "Option (LBuf × EnqRes)"},
		{"shutdown", "shutdown", "unit", "", "Option LBuf"},
		{"size", "size", "nat", "", "Nat"},
	} {
		fd := v2.fn("buffer.go", "buffer", sp.name)
		if fd == nil {
			sb.WriteString(fmt.Sprintf("-- REFUSED %s: function not found\n\n", sp.lean))
			continue
		}
		c := &bufTr{p: v2, rname: fd.Recv.List[0].Names[0].Name, ret: sp.ret, locals: map[string]bool{}}
		body, why := func() (out string, why string) {
			defer func() {
				if r := recover(); r != nil {
					if rf, ok := r.(bufRefuse); ok {
						out, why = "", rf.why
						return
					}
					panic(r)
				}
			}()
			if sp.ret == "nat" {
				// `return b.len` behind the lock
				for _, s := range fd.Body.List {
					if rs, ok := s.(*ast.ReturnStmt); ok && len(rs.Results) == 1 {
						pre := []string{}
						x := c.val(rs.Results[0], &pre)
						if len(pre) == 0 {
							return "  " + x + "\n", ""
						}
					}
				}
				return "", "size is not a plain field read"
			}
			return c.emit(fd.Body.List, "  "), ""
		}()
		if why != "" {
			sb.WriteString(fmt.Sprintf("-- REFUSED %s: %s\n\n", sp.lean, why))
			continue
		}
		sb.WriteString(fmt.Sprintf("/-- translated from v2/buffer.go (buffer).%s -/\ndef %s (%s : LBuf)%s : %s :=\n%s\n", sp.name, sp.lean, c.rname, sp.params, sp.rty, body))
	}
	sb.WriteString("end GoBatcher.TransBuf\n")
	return sb.String()
}

// Translator for the BODY of v2's flush-cycle loop (v2/batcher.go, `case <-r.flush:`, the `for { ... }` that walks the
// buffer): one iteration for a present operation becomes a Lean decision function `cycleBody : CyIn → CyOut`
// (Model/CySem.lean). ExpectTransCycle.lean proves that it IS the model's `stepOp` (Model/Cycle.lean), the function
// every cycle theorem (C01 C02 C05 C08 C10) is about.
//
// It is a symbolic execution of the loop body over a fixed vocabulary; the comparison operators, the constants, the
// order of the statements and which branch calls what are all taken from the source:
//
//	inputs    enforceCapacity, capacity, consumed, op.IsBatchable(), op.Cost(), watcher.MaxBatchSize(),
//	          `batch == nil`, `ok` and len(batch) of `batch, ok := batches[watcher]`, and what
//	          r.tryReserveBatchSlot() answers IF it is called (`&&` / `||` are short-circuit: `reserved` records that it
//	          was called and answered true)
//	effects   consumed += op.Cost(); batch = append(batch, op); r.processBatch(watcher, batch | []Operation{op});
//	          batches[watcher] = nil | batch; op = r.buffer.skip() | r.buffer.remove(); break; continue
//
// `if op == nil { break }` is the loop's exit for an exhausted buffer: the body is translated for a present operation
// (the test is taken as false). Anything else is refused.
package main

import (
	"fmt"
	"go/ast"
	"go/token"
	"strings"
)

type cyState struct {
	consumed, blen, raisedLen, storeLen string
	reserved, stored                    bool
	bufCall                             int
	max                                 string // the local `max`
}

type cyTr struct {
	p *pkg
}

type cyRefuse struct{ why string }

func (c *cyTr) fail(format string, a ...interface{}) { panic(cyRefuse{fmt.Sprintf(format, a...)}) }

func (c *cyTr) out(st cyState, action int, ind string) string {
	return fmt.Sprintf("%s{ action := %d, consumed := %s, reserved := %v, raisedLen := %s, stored := %v, storeLen := %s, bufCall := %d }\n",
		ind, action, st.consumed, st.reserved, st.raisedLen, st.stored, st.storeLen, st.bufCall)
}

// intExpr: integer-valued expressions of the vocabulary
func (c *cyTr) intExpr(e ast.Expr, st cyState) string {
	switch s := c.p.str(e); s {
	case "consumed":
		return st.consumed
	case "capacity":
		return "i.capacity"
	case "len(batch)":
		return st.blen
	case "int(max)", "max":
		if st.max == "" {
			c.fail("max read before it is set")
		}
		return st.max
	case "0":
		return "0"
	}
	c.fail("integer expression %s", c.p.str(e))
	return ""
}

// branch: `if cond then thenK else elseK` with short-circuit evaluation and the effect of tryReserveBatchSlot()
func (c *cyTr) branch(cond ast.Expr, st cyState, thenK, elseK func(cyState, string) string, ind string) string {
	switch v := cond.(type) {
	case *ast.ParenExpr:
		return c.branch(v.X, st, thenK, elseK, ind)
	case *ast.UnaryExpr:
		if v.Op == token.NOT {
			return c.branch(v.X, st, elseK, thenK, ind)
		}
	case *ast.BinaryExpr:
		switch v.Op {
		case token.LAND:
			return c.branch(v.X, st, func(s2 cyState, i2 string) string { return c.branch(v.Y, s2, thenK, elseK, i2) }, elseK, ind)
		case token.LOR:
			return c.branch(v.X, st, thenK, func(s2 cyState, i2 string) string { return c.branch(v.Y, s2, thenK, elseK, i2) }, ind)
		case token.GEQ, token.GTR, token.LSS, token.LEQ, token.EQL, token.NEQ:
			if c.p.str(v) == "op == nil" {
				return elseK(st, ind) // the body is for a present operation
			}
			if c.p.str(v) == "batch == nil" {
				return ind + "if i.bnil then\n" + thenK(st, ind+"  ") + ind + "else\n" + elseK(st, ind+"  ")
			}
			op := map[token.Token]string{token.GEQ: "≥", token.GTR: ">", token.LSS: "<", token.LEQ: "≤", token.EQL: "=", token.NEQ: "≠"}[v.Op]
			a, b := c.intExpr(v.X, st), c.intExpr(v.Y, st)
			return ind + fmt.Sprintf("if %s %s %s then\n", a, op, b) + thenK(st, ind+"  ") + ind + "else\n" + elseK(st, ind+"  ")
		}
	case *ast.Ident:
		switch v.Name {
		case "enforceCapacity":
			return ind + "if i.enforce then\n" + thenK(st, ind+"  ") + ind + "else\n" + elseK(st, ind+"  ")
		case "ok":
			return ind + "if i.ok then\n" + thenK(st, ind+"  ") + ind + "else\n" + elseK(st, ind+"  ")
		}
	case *ast.CallExpr:
		switch c.p.str(v) {
		case "op.IsBatchable()":
			return ind + "if i.batchable then\n" + thenK(st, ind+"  ") + ind + "else\n" + elseK(st, ind+"  ")
		case "r.tryReserveBatchSlot()":
			yes := st
			yes.reserved = true
			return ind + "if i.avail then\n" + thenK(yes, ind+"  ") + ind + "else\n" + elseK(st, ind+"  ")
		}
	}
	c.fail("condition %s", c.p.str(cond))
	return ""
}

func (c *cyTr) exec(stmts []ast.Stmt, st cyState, ind string) string {
	for k, s := range stmts {
		rest := stmts[k+1:]
		switch v := s.(type) {
		case *ast.BranchStmt:
			switch v.Tok {
			case token.BREAK:
				return c.out(st, 1, ind)
			case token.CONTINUE:
				return c.out(st, 2, ind)
			}
			c.fail("branch %s", v.Tok)
		case *ast.IfStmt:
			if v.Init != nil {
				c.fail("if with init")
			}
			return c.branch(v.Cond, st,
				func(s2 cyState, i2 string) string {
					return c.exec(append(append([]ast.Stmt{}, v.Body.List...), rest...), s2, i2)
				},
				func(s2 cyState, i2 string) string {
					return c.exec(append(append([]ast.Stmt{}, elseStmts(v)...), rest...), s2, i2)
				}, ind)
		case *ast.SwitchStmt:
			if v.Tag != nil || v.Init != nil {
				c.fail("switch with a tag")
			}
			return c.exec(append([]ast.Stmt{switchToIf(v)}, rest...), st, ind)
		case *ast.BlockStmt:
			return c.exec(append(append([]ast.Stmt{}, v.List...), rest...), st, ind)
		case *ast.SelectStmt:
			// v1: `select { case op := <-r.buffer: BODY  default: break Fill }` - for a present operation the receive is
			// taken (the operation leaves the channel: bufCall 2); the default is the exit for an exhausted buffer
			var body []ast.Stmt
			okShape := len(v.Body.List) == 2
			for _, cl := range v.Body.List {
				cc := cl.(*ast.CommClause)
				if cc.Comm == nil {
					if len(cc.Body) != 1 || !strings.HasPrefix(c.p.str(cc.Body[0]), "break") {
						okShape = false
					}
				} else if c.p.str(cc.Comm) == "op := <-r.buffer" {
					body = cc.Body
				} else {
					okShape = false
				}
			}
			if !okShape || body == nil {
				c.fail("select shape")
			}
			st.bufCall = 2
			return c.exec(append(append([]ast.Stmt{}, body...), rest...), st, ind)
		case *ast.AssignStmt:
			txt := c.p.str(v)
			switch {
			case txt == "batch := batches[watcher]":
				continue // described by the input blen (a missing entry is a nil batch of length 0)
			case txt == "watcher := op.Watcher()":
				continue
			case txt == "batch, ok := batches[watcher]":
				continue // described by the inputs bnil, ok, blen
			case txt == "consumed += op.Cost()":
				st.consumed = "(u32 (" + st.consumed + " + i.cost))"
				continue
			case txt == "batch = append(batch, op)":
				st.blen = "(" + st.blen + " + 1)"
				continue
			case txt == "max := watcher.MaxBatchSize()":
				st.max = "i.maxB"
				continue
			case txt == "batches[watcher] = nil":
				st.stored, st.storeLen = true, "0"
				continue
			case txt == "batches[watcher] = batch":
				st.stored, st.storeLen = true, st.blen
				continue
			case txt == "op = r.buffer.skip()":
				st.bufCall = 1
				continue
			case txt == "op = r.buffer.remove()":
				st.bufCall = 2
				continue
			}
			c.fail("assignment %s", txt)
		case *ast.ExprStmt:
			switch c.p.str(v.X) {
			case "r.processBatch(watcher, batch)":
				st.raisedLen = st.blen
				continue
			case "r.processBatch(watcher, []Operation{op})":
				st.raisedLen = "1"
				continue
			case "flush(watcher, batch)":
				st.raisedLen = st.blen
				continue
			case "flush(watcher, []IOperation{op})":
				st.raisedLen = "1"
				continue
			}
			c.fail("call %s", c.p.str(v.X))
		default:
			c.fail("statement %T", s)
		}
	}
	return c.out(st, 0, ind)
}

// v1: the labelled loop `Fill: for { ... }` of the flush arm
func transCycleV1(v1 *pkg, sb *strings.Builder) {
	fd := v1.fn("batcher.go", "Batcher", "Start")
	var body []ast.Stmt
	if fd != nil {
		ast.Inspect(fd.Body, func(n ast.Node) bool {
			if ls, ok := n.(*ast.LabeledStmt); ok && ls.Label.Name == "Fill" {
				if f, ok := ls.Stmt.(*ast.ForStmt); ok && f.Init == nil && f.Cond == nil && f.Post == nil {
					body = f.Body.List
				}
			}
			return body == nil
		})
	}
	if body == nil {
		sb.WriteString("-- REFUSED cycleBodyV1: the cycle loop was not found\n\n")
		return
	}
	c := &cyTr{p: v1}
	text, why := func() (out, why string) {
		defer func() {
			if r := recover(); r != nil {
				if rf, ok := r.(cyRefuse); ok {
					out, why = "", rf.why
					return
				}
				panic(r)
			}
		}()
		st := cyState{consumed: "i.consumed", blen: "i.blen", raisedLen: "0", storeLen: "0"}
		return c.exec(body, st, "  "), ""
	}()
	if why != "" {
		sb.WriteString(fmt.Sprintf("-- REFUSED cycleBodyV1: %s\n\n", why))
		return
	}
	sb.WriteString("/-- one iteration of v1's cycle loop for a present operation, translated from batcher.go -/\ndef cycleBodyV1 (i : CyIn) : CyOut :=\n" + text + "\n")
}

func transCycle(v1, v2 *pkg) string {
	var sb strings.Builder
	sb.WriteString("/- GENERATED by /verif/extract (transcycle.go) from the flush-cycle loops of /repo/batcher.go and /repo/v2/batcher.go on every run. Do not edit. -/\nimport GoBatcher.Model.CySem\nnamespace GoBatcher.TransCycle\nopen GoBatcher GoBatcher.GoSem GoBatcher.CySem\n\n")
	transCycleV1(v1, &sb)
	fd := v2.fn("batcher.go", "batcher", "Start")
	var body []ast.Stmt
	if fd != nil {
		// the `for { ... }` that follows `op := r.buffer.top()`
		ast.Inspect(fd.Body, func(n ast.Node) bool {
			if body != nil {
				return false
			}
			var list []ast.Stmt
			switch b := n.(type) {
			case *ast.BlockStmt:
				list = b.List
			case *ast.CommClause:
				list = b.Body
			}
			for i, st := range list {
				if v2.str(st) == "op := r.buffer.top()" && i+1 < len(list) {
					if f, ok := list[i+1].(*ast.ForStmt); ok && f.Init == nil && f.Cond == nil && f.Post == nil {
						body = f.Body.List
						return false
					}
				}
			}
			return true
		})
	}
	if body == nil {
		sb.WriteString("-- REFUSED cycleBody: the cycle loop was not found\n\nend GoBatcher.TransCycle\n")
		return sb.String()
	}
	c := &cyTr{p: v2}
	text, why := func() (out, why string) {
		defer func() {
			if r := recover(); r != nil {
				if rf, ok := r.(cyRefuse); ok {
					out, why = "", rf.why
					return
				}
				panic(r)
			}
		}()
		st := cyState{consumed: "i.consumed", blen: "i.blen", raisedLen: "0", storeLen: "0"}
		return c.exec(body, st, "  "), ""
	}()
	if why != "" {
		sb.WriteString(fmt.Sprintf("-- REFUSED cycleBody: %s\n\n", why))
	} else {
		sb.WriteString("/-- one iteration of the cycle loop for a present operation, translated from v2/batcher.go -/\ndef cycleBody (i : CyIn) : CyOut :=\n" + text + "\n")
	}
	sb.WriteString("end GoBatcher.TransCycle\n")
	return sb.String()
}

package main

import (
	"fmt"
	"go/ast"
	"go/token"
	"os"
	"path/filepath"
	"regexp"
	"sort"
	"strings"
)

func extractAll(f *facts, v1, v2 *pkg, repo string) {
	bufferFacts(f, v2)
	enqueueFacts(f, "v1", v1, "batcher.go", "Batcher")
	enqueueFacts(f, "v2", v2, "batcher.go", "batcher")
	// control-flow shape of the functions the Batcher machine mirrors: every `if`/`for`/`case` condition, in source order
	for _, fn := range []string{"applyDefaults", "Pause", "resume", "Flush", "Stop", "incTarget", "trySetTargetToZero"} {
		shapeFact(f, "v1_shape_"+fn, v1, "batcher.go", "Batcher", fn)
	}
	// Start is split: the part outside the loop's select, one part per select arm, one per named function literal
	shapeParts(f, "v1_shape_Start", v1, "batcher.go", "Batcher", "Start")
	shapeParts(f, "v2_shape_Start", v2, "batcher.go", "batcher", "Start")
	for _, fn := range []string{"applyDefaults", "Pause", "resume", "Flush", "shutdown", "incTarget", "confirmTargetIsZero",
		"confirmInflightIsZero", "tryReserveBatchSlot", "releaseBatchSlot", "processBatch", "Inflight"} {
		shapeFact(f, "v2_shape_"+fn, v2, "batcher.go", "batcher", fn)
	}
	for _, fn := range []string{"size", "top", "skip", "remove", "enqueue", "shutdown"} {
		shapeFact(f, "v2_shape_buffer_"+fn, v2, "buffer.go", "buffer", fn)
	}
	for _, fn := range []string{"provision", "getBlob", "createPartitions", "leasePartition"} {
		shapeFact(f, "v1_shape_lm_"+fn, v1, "azure-blob-lease-manager.go", "azureBlobLeaseManager", fn)
	}
	for _, fn := range []string{"Provision", "getBlob", "CreatePartitions", "LeasePartition"} {
		shapeFact(f, "v2_shape_lm_"+fn, v2, "azure-blob-lease-manager.go", "azureBlobLeaseManager", fn)
	}
	// SharedResource / eventer: same skeleton, with the full text of every return and assignment
	for _, fn := range []string{"Provision", "MaxCapacity", "Capacity", "calc", "GiveMe", "getAllocatedAndRandomUnallocatedPartition",
		"setPartitionId", "clearPartitionId", "Start", "Stop"} {
		shapeFactX(f, "v1_shape_sr_"+fn, v1, "azure-shared-resource.go", "AzureSharedResource", fn, true)
	}
	for _, fn := range []string{"MaxCapacity", "Capacity", "GiveMe", "Provision", "Start", "Stop"} {
		shapeFactX(f, "v1_shape_sr_provisioned_"+fn, v1, "provisioned-resource.go", "ProvisionedResource", fn, true)
	}
	for _, fn := range []string{"MaxCapacity", "Capacity", "SetSharedCapacity", "SetReservedCapacity", "calc", "GiveMe", "scheduleProvision",
		"getAllocatedAndRandomUnallocatedPartition", "setPartitionId", "clearPartitionId", "provisionBlobs", "loop", "Start", "shutdown"} {
		shapeFactX(f, "v2_shape_sr_"+fn, v2, "shared-resource.go", "sharedResource", fn, true)
	}
	for _, fn := range []string{"AddListener", "RemoveListener", "emit"} {
		shapeFactX(f, "v1_shape_ev_"+fn, v1, "eventer.go", "eventer", fn, true)
	}
	for _, fn := range []string{"AddListener", "RemoveListener", "Emit"} {
		shapeFactX(f, "v2_shape_ev_"+fn, v2, "eventer.go", "EventerBase", fn, true)
	}
	sdkCodesFact(f)
	accessFact(f, "v1_accesses", v1)
	accessFact(f, "v2_accesses", v2)
	defaultsFact(f, "v1", v1, "Batcher")
	defaultsFact(f, "v2", v2, "batcher")
	setterGuards(f, v2)
}

// shapeFact lists, in source order, the conditions of every if / for / switch-case / select-case of a function,
// plus the names of the functions it calls. A change of a comparison operator, a dropped branch, a reordered
// check or a dropped call changes the list.
func shapeFact(f *facts, name string, p *pkg, file, recv, fn string) {
	shapeFactX(f, name, p, file, recv, fn, false)
}

// localNames: the local variables of a function (receiver, parameters, named results, everything it declares) in
// order of declaration. The skeleton facts name them by position (§0, §1, ...) so that renaming a local variable -
// the most common harmless edit - does not change a skeleton, while swapping two operands still does.
func localNames(fd *ast.FuncDecl) map[string]string {
	type decl struct {
		name string
		pos  token.Pos
	}
	var ds []decl
	seen := map[string]bool{}
	ast.Inspect(fd, func(x ast.Node) bool {
		id, ok := x.(*ast.Ident)
		if !ok || id.Obj == nil || id.Obj.Kind != ast.Var || id.Name == "_" {
			return true
		}
		if id.Obj.Pos() < fd.Pos() || id.Obj.Pos() > fd.End() {
			return true
		}
		if !seen[id.Name] {
			seen[id.Name] = true
			ds = append(ds, decl{id.Name, id.Obj.Pos()})
		}
		return true
	})
	sort.SliceStable(ds, func(i, j int) bool { return ds[i].pos < ds[j].pos })
	out := map[string]string{}
	for i, d := range ds {
		out[d.name] = fmt.Sprintf("§%d", i)
	}
	return out
}

// normLocals replaces identifiers that are local names (and are not selected fields: not preceded by '.')
func normLocals(s string, names map[string]string) string {
	var sb strings.Builder
	i := 0
	isId := func(c byte) bool {
		return c == '_' || (c >= '0' && c <= '9') || (c >= 'a' && c <= 'z') || (c >= 'A' && c <= 'Z')
	}
	for i < len(s) {
		c := s[i]
		if isId(c) && !(c >= '0' && c <= '9') {
			j := i
			for j < len(s) && isId(s[j]) {
				j++
			}
			word := s[i:j]
			prevDot := false
			for k := i - 1; k >= 0; k-- {
				if s[k] == ' ' {
					continue
				}
				prevDot = s[k] == '.'
				break
			}
			if r, ok := names[word]; ok && !prevDot {
				sb.WriteString(r)
			} else {
				sb.WriteString(word)
			}
			i = j
			continue
		}
		sb.WriteByte(c)
		i++
	}
	return sb.String()
}

func normAll(ss []string, names map[string]string) []string {
	out := make([]string, len(ss))
	for i, x := range ss {
		out[i] = normLocals(x, names)
	}
	return out
}

// tickerRoles: local variable -> role, for `x := time.NewTicker(r.<interval field>)`
func tickerRoles(p *pkg, fd *ast.FuncDecl) map[string]string {
	roles := map[string]string{}
	ast.Inspect(fd, func(x ast.Node) bool {
		as, ok := x.(*ast.AssignStmt)
		if !ok || len(as.Lhs) != 1 || len(as.Rhs) != 1 {
			return true
		}
		call, ok := as.Rhs[0].(*ast.CallExpr)
		if !ok || p.str(call.Fun) != "time.NewTicker" || len(call.Args) != 1 {
			return true
		}
		arg := p.str(call.Args[0])
		role := ""
		switch {
		case strings.HasSuffix(arg, ".auditInterval"):
			role = "audit"
		case strings.HasSuffix(arg, ".capacityInterval"):
			role = "capacity"
		case strings.HasSuffix(arg, ".flushInterval"):
			role = "flushtick"
		}
		if role != "" {
			roles[p.str(as.Lhs[0])] = role
		}
		return true
	})
	return roles
}

// armName: the part a select arm of the processing loop belongs to (by what the arm receives from, not by the
// names of local variables)
func armName(comm string, roles map[string]string) string {
	for v, role := range roles {
		if strings.Contains(comm, "<-"+v+".C") {
			return role
		}
	}
	switch {
	case comm == "":
		return "default"
	case strings.Contains(comm, ".Done()") || strings.HasSuffix(comm, ".stop"):
		return "stop"
	case strings.HasSuffix(comm, ".pause"):
		return "pause"
	case strings.HasSuffix(comm, ".flush"):
		return "flush"
	}
	return "other"
}

// shapeParts: like shapeFact, but the skeleton of `Start` is cut into parts, so that an edit in one arm of the
// processing loop only touches the expectations of the properties that arm implements: `<name>_head` (everything
// outside the arms of the loop's select: phase check, defaults, tickers, the loop frame, deferred shutdown),
// `<name>_arm_<stop|pause|audit|capacity|flushtick|flush>`, and `<name>_lit_<var>` for a function literal bound
// to a local variable (v1: the `flush` closure that raises a batch and runs the per-batch goroutine).
func shapeParts(f *facts, name string, p *pkg, file, recv, fn string) {
	fd := p.fn(file, recv, fn)
	if fd == nil || fd.Body == nil {
		f.strList(name+"_head", []string{"<missing>"})
		f.errs = append(f.errs, name+": function not found")
		return
	}
	parts := map[string][]string{}
	var walk func(part string, n ast.Node)
	roles := tickerRoles(p, fd)
	nlit := 0
	isLoopSelect := func(s *ast.SelectStmt) bool {
		for _, c := range s.Body.List {
			if cc, ok := c.(*ast.CommClause); ok && cc.Comm != nil && armName(oneLine(p.str(cc.Comm)), roles) == "audit" {
				return true
			}
		}
		return false
	}
	walk = func(part string, root ast.Node) {
		inspectBlocks(root, func(x ast.Node) bool {
			if x == root {
				return true
			}
			switch n := x.(type) {
			case *ast.SelectStmt:
				if isLoopSelect(n) {
					for _, c := range n.Body.List {
						cc := c.(*ast.CommClause)
						comm := ""
						if cc.Comm != nil {
							comm = oneLine(p.str(cc.Comm))
						}
						parts[part] = append(parts[part], "select "+comm)
						arm := "arm_" + armName(comm, roles)
						if _, seen := parts[arm]; !seen {
							parts[arm] = []string{}
						}
						for _, st := range cc.Body {
							parts[arm] = append(parts[arm], shapeOf(p, st, false)...)
						}
					}
					return false
				}
			case *ast.AssignStmt:
				if len(n.Lhs) == 1 && len(n.Rhs) == 1 {
					if fl, ok := n.Rhs[0].(*ast.FuncLit); ok {
						nlit++
						lit := fmt.Sprintf("closure%d", nlit)
						parts[part] = append(parts[part], p.str(n.Lhs[0])+" := <func literal>")
						parts[lit] = append(parts[lit], shapeOf(p, fl.Body, false)...)
						return false
					}
				}
			}
			parts[part] = append(parts[part], shapeNode(p, x, false)...)
			return true
		}, func() { parts[part] = append(parts[part], "}") })
	}
	walk("head", fd.Body)
	keys := make([]string, 0, len(parts))
	for k := range parts {
		keys = append(keys, k)
	}
	sort.Strings(keys)
	names := localNames(fd)
	for _, k := range keys {
		f.strList(name+"_"+normLocals(k, names), normAll(parts[k], names))
	}
}

// shapeNode: the skeleton entry (if any) of ONE node, without descending
func shapeNode(p *pkg, x ast.Node, full bool) []string {
	var out []string
	switch n := x.(type) {
	case *ast.IfStmt:
		out = append(out, "if "+p.str(n.Cond))
	case *ast.ForStmt:
		if n.Cond != nil {
			out = append(out, "for "+p.str(n.Cond))
		} else {
			out = append(out, "for")
		}
	case *ast.RangeStmt:
		out = append(out, "range "+p.str(n.X))
	case *ast.CaseClause:
		if len(n.List) == 0 {
			out = append(out, "default")
		} else {
			var cs []string
			for _, e := range n.List {
				cs = append(cs, p.str(e))
			}
			out = append(out, "case "+strings.Join(cs, ", "))
		}
	case *ast.CommClause:
		if n.Comm == nil {
			out = append(out, "select-default")
		} else {
			out = append(out, "select "+oneLine(p.str(n.Comm)))
		}
	case *ast.CallExpr:
		if _, ok := n.Fun.(*ast.FuncLit); ok {
			out = append(out, "call <func literal>")
		} else {
			out = append(out, "call "+p.str(n.Fun))
		}
	case *ast.GoStmt:
		out = append(out, "go")
	case *ast.DeferStmt:
		out = append(out, "defer")
	case *ast.ReturnStmt:
		if full {
			out = append(out, oneLine(p.str(n)))
		} else {
			out = append(out, "return")
		}
	case *ast.BranchStmt:
		out = append(out, n.Tok.String()+" "+labelOf(n))
	case *ast.IncDecStmt:
		out = append(out, p.str(n.X)+n.Tok.String())
	case *ast.AssignStmt:
		if full {
			out = append(out, oneLine(p.str(n)))
		} else {
			out = append(out, oneLine(p.str(n.Lhs[0]))+" "+n.Tok.String())
		}
	}
	return out
}

// inspectBlocks is ast.Inspect that also reports the END of every block statement (so that a statement moved into
// or out of an `if` / `for` / `case` body changes the skeleton although the order of the statements stays the same)
func inspectBlocks(root ast.Node, pre func(ast.Node) bool, blockEnd func()) {
	var stack []ast.Node
	ast.Inspect(root, func(x ast.Node) bool {
		if x == nil {
			top := stack[len(stack)-1]
			stack = stack[:len(stack)-1]
			if _, ok := top.(*ast.BlockStmt); ok && top != root {
				blockEnd()
			}
			return true
		}
		if !pre(x) {
			return false // (Inspect does not call f(nil) for a node whose children are skipped)
		}
		stack = append(stack, x)
		return true
	})
}

// shapeOf: the skeleton of a whole subtree
func shapeOf(p *pkg, root ast.Node, full bool) []string {
	var out []string
	inspectBlocks(root, func(x ast.Node) bool {
		out = append(out, shapeNode(p, x, full)...)
		return true
	}, func() { out = append(out, "}") })
	return out
}

func shapeFactX(f *facts, name string, p *pkg, file, recv, fn string, full bool) {
	fd := p.fn(file, recv, fn)
	if fd == nil || fd.Body == nil {
		f.strList(name, []string{"<missing>"})
		f.errs = append(f.errs, name+": function not found")
		return
	}
	out := shapeOf(p, fd.Body, full)
	f.strList(name, normAll(out, localNames(fd)))
}

func labelOf(n *ast.BranchStmt) string {
	if n.Label != nil {
		return n.Label.Name
	}
	return ""
}

func oneLine(s string) string {
	if i := strings.Index(s, "\n"); i >= 0 {
		s = s[:i]
	}
	return strings.TrimSpace(s)
}

// applyDefaults: `if r.X <= 0 { r.X = N * time.Unit }` -> (field, nanoseconds)
func defaultsFact(f *facts, gen string, p *pkg, recv string) {
	fd := p.fn("batcher.go", recv, "applyDefaults")
	units := map[string]int64{"Nanosecond": 1, "Microsecond": 1000, "Millisecond": 1000000, "Second": 1000000000, "Minute": 60000000000, "Hour": 3600000000000}
	var out []string
	if fd != nil {
		for _, st := range fd.Body.List {
			is, ok := st.(*ast.IfStmt)
			if !ok || len(is.Body.List) != 1 {
				continue
			}
			as, ok := is.Body.List[0].(*ast.AssignStmt)
			if !ok || len(as.Rhs) != 1 {
				continue
			}
			be, ok := as.Rhs[0].(*ast.BinaryExpr)
			if !ok {
				continue
			}
			lit, ok1 := be.X.(*ast.BasicLit)
			sel, ok2 := be.Y.(*ast.SelectorExpr)
			if !ok1 || !ok2 {
				continue
			}
			var n int64
			fmt.Sscan(lit.Value, &n)
			out = append(out, fmt.Sprintf("%s|%s|%d", normLocals(p.str(is.Cond), localNames(fd)), normLocals(p.str(as.Lhs[0]), localNames(fd)), n*units[sel.Sel.Name]))
		}
	}
	f.strList(gen+"_defaults", out)
}

// v2 With* setters: which of them refuse (panic) once the phase is not uninitialized
func setterGuards(f *facts, v2 *pkg) {
	var guarded, unguarded []string
	file := v2.files["batcher.go"]
	if file != nil {
		for _, d := range file.Decls {
			fd, ok := d.(*ast.FuncDecl)
			if !ok || fd.Recv == nil || !strings.HasPrefix(fd.Name.Name, "With") {
				continue
			}
			g := false
			ast.Inspect(fd.Body, func(x ast.Node) bool {
				if is, ok := x.(*ast.IfStmt); ok && strings.Contains(v2.str(is.Cond), "phase != phaseUninitialized") && containsCall(v2, is.Body, "panic") {
					g = true
				}
				return true
			})
			if g {
				guarded = append(guarded, fd.Name.Name)
			} else {
				unguarded = append(unguarded, fd.Name.Name)
			}
		}
	}
	f.strList("v2_guardedSetters", guarded)
	f.strList("v2_unguardedSetters", unguarded)
}

// containsCall reports whether n contains a call whose printed function expression ends with suffix.
func containsCall(p *pkg, n ast.Node, suffix string) bool {
	found := false
	ast.Inspect(n, func(x ast.Node) bool {
		if c, ok := x.(*ast.CallExpr); ok && strings.HasSuffix(p.str(c.Fun), suffix) {
			found = true
		}
		return !found
	})
	return found
}

// v2/buffer.go: does shutdown() broadcast notFull, and does enqueue() re-check isShutdown after Wait()?
func bufferFacts(f *facts, v2 *pkg) {
	sd := v2.fn("buffer.go", "buffer", "shutdown")
	enq := v2.fn("buffer.go", "buffer", "enqueue")
	if sd == nil || enq == nil {
		f.optBool("v2_shutdownWakesWaiters", nil)
		f.errs = append(f.errs, "v2 buffer.shutdown/enqueue not found")
		return
	}
	broadcasts := containsCall(v2, sd.Body, "notFull.Broadcast")
	// inside the `for b.len >= b.cap` loop: after the Wait() call statement an `if ... isShutdown` must follow
	rechecks := false
	ast.Inspect(enq.Body, func(x ast.Node) bool {
		fs, ok := x.(*ast.ForStmt)
		if !ok {
			return true
		}
		seenWait := false
		for _, st := range fs.Body.List {
			if es, ok := st.(*ast.ExprStmt); ok && containsCall(v2, es, "notFull.Wait") {
				seenWait = true
				continue
			}
			if is, ok := st.(*ast.IfStmt); ok && seenWait && strings.Contains(v2.str(is.Cond), "isShutdown") {
				rechecks = true
			}
		}
		return true
	})
	v := broadcasts && rechecks
	f.optBool("v2_shutdownWakesWaiters", &v)
	f.boolean("v2_shutdownBroadcasts", broadcasts)
	f.boolean("v2_enqueueRechecksShutdownAfterWait", rechecks)
}

// Enqueue: order of the validation errors, comparison operators, position of the demand increment and the hook
// relative to the buffer insert, roll-back of the increment on an insert error.
func enqueueFacts(f *facts, gen string, p *pkg, file, recv string) {
	fd := p.fn(file, recv, "Enqueue")
	if fd == nil {
		f.strList(gen+"_validateOrder", nil)
		f.errs = append(f.errs, gen+" Enqueue not found")
		return
	}
	var order []string
	var conds []string
	incIdx, hookIdx, insertIdx := -1, -1, -1
	rollback := false
	for i, st := range fd.Body.List {
		switch s := st.(type) {
		case *ast.IfStmt:
			// `if cond { return XError }`
			if len(s.Body.List) == 1 {
				if rs, ok := s.Body.List[0].(*ast.ReturnStmt); ok && len(rs.Results) == 1 && insertIdx < 0 && incIdx < 0 {
					name := p.str(rs.Results[0])
					name = strings.TrimSuffix(name, "{}")
					order = append(order, name)
					conds = append(conds, normLocals(p.str(s.Cond), localNames(fd)))
					continue
				}
			}
			// v1: `if r.errorOnFullBuffer { select { case r.buffer <- op: default: [rollback;] return BufferFullError{} } } else { r.buffer <- op }`
			if strings.Contains(p.str(s), "r.buffer <- op") {
				insertIdx = i
				if containsCall(p, s, "incTarget") {
					rollback = true
				}
			}
			// v2 after a fix: `if err := r.buffer.enqueue(...); err != nil { r.incTarget(-...); return err }`
			if strings.Contains(p.str(s), "buffer.enqueue(") {
				insertIdx = i
				if containsCall(p, s.Body, "incTarget") {
					rollback = true
				}
			}
		case *ast.ExprStmt:
			if containsCall(p, s, "incTarget") && incIdx < 0 {
				incIdx = i
			}
			if containsCall(p, s, "verifPoint") {
				hookIdx = i
			}
		case *ast.ReturnStmt:
			if strings.Contains(p.str(s), "buffer.enqueue(") {
				insertIdx = i
			}
		case *ast.AssignStmt:
			if strings.Contains(p.str(s), "buffer.enqueue(") {
				insertIdx = i
				// look at the following statements for a roll-back under `if err != nil`
				for _, st2 := range fd.Body.List[i+1:] {
					if is, ok := st2.(*ast.IfStmt); ok && strings.Contains(p.str(is.Cond), "err != nil") && containsCall(p, is.Body, "incTarget") {
						rollback = true
					}
				}
			}
		}
	}
	f.strList(gen+"_validateOrder", order)
	f.strList(gen+"_validateConds", conds)
	f.boolean(gen+"_countBeforeInsert", incIdx >= 0 && insertIdx > incIdx)
	f.boolean(gen+"_hookBetweenCountAndInsert", incIdx >= 0 && hookIdx > incIdx && insertIdx > hookIdx)
	f.boolean(gen+"_rollbackOnInsertError", rollback)
	_ = token.NoPos
}

// the azblob SDK's ServiceCodeType constants (module cache, v0.13.0)
func sdkCodesFact(f *facts) {
	dir := ""
	for _, root := range []string{os.Getenv("GOMODCACHE"), filepath.Join(os.Getenv("HOME"), "go", "pkg", "mod"), "/root/go/pkg/mod"} {
		p := filepath.Join(root, "github.com", "!azure", "azure-storage-blob-go@v0.13.0", "azblob")
		if st, err := os.Stat(p); err == nil && st.IsDir() {
			dir = p
			break
		}
	}
	re := regexp.MustCompile(`ServiceCode\w+\s+ServiceCodeType\s*=\s*"([^"]*)"`)
	set := map[string]bool{}
	files, _ := filepath.Glob(filepath.Join(dir, "*.go"))
	for _, fn := range files {
		data, _ := os.ReadFile(fn)
		for _, m := range re.FindAllStringSubmatch(string(data), -1) {
			if m[1] != "" {
				set[m[1]] = true
			}
		}
	}
	var out []string
	for k := range set {
		out = append(out, k)
	}
	sort.Strings(out)
	f.strList("sdk_serviceCodes", out)
	if len(out) == 0 {
		f.errs = append(f.errs, "azblob service codes not found in the module cache")
	}
}

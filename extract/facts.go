package main

import (
	"go/ast"
	"go/token"
	"strings"
)

func extractAll(f *facts, v1, v2 *pkg, repo string) {
	bufferFacts(f, v2)
	enqueueFacts(f, "v1", v1, "batcher.go", "Batcher")
	enqueueFacts(f, "v2", v2, "batcher.go", "batcher")
}

// containsCall reports whether n contains a call whose printed function expression ends with suffix.
func containsCall(p *pkg, n ast.Node, suffix string) bool {
	found := false
	ast.Inspect(n, func(x ast.Node) bool {
		if c, ok := x.(*ast.CallExpr); ok && strings.HasSuffix(p.str(c.Fun), suffix) {
			found = true
		}
		return !found
	})
	return found
}

// v2/buffer.go: does shutdown() broadcast notFull, and does enqueue() re-check isShutdown after Wait()?
func bufferFacts(f *facts, v2 *pkg) {
	sd := v2.fn("buffer.go", "buffer", "shutdown")
	enq := v2.fn("buffer.go", "buffer", "enqueue")
	if sd == nil || enq == nil {
		f.optBool("v2_shutdownWakesWaiters", nil)
		f.errs = append(f.errs, "v2 buffer.shutdown/enqueue not found")
		return
	}
	broadcasts := containsCall(v2, sd.Body, "notFull.Broadcast")
	// inside the `for b.len >= b.cap` loop: after the Wait() call statement an `if ... isShutdown` must follow
	rechecks := false
	ast.Inspect(enq.Body, func(x ast.Node) bool {
		fs, ok := x.(*ast.ForStmt)
		if !ok {
			return true
		}
		seenWait := false
		for _, st := range fs.Body.List {
			if es, ok := st.(*ast.ExprStmt); ok && containsCall(v2, es, "notFull.Wait") {
				seenWait = true
				continue
			}
			if is, ok := st.(*ast.IfStmt); ok && seenWait && strings.Contains(v2.str(is.Cond), "isShutdown") {
				rechecks = true
			}
		}
		return true
	})
	v := broadcasts && rechecks
	f.optBool("v2_shutdownWakesWaiters", &v)
	f.boolean("v2_shutdownBroadcasts", broadcasts)
	f.boolean("v2_enqueueRechecksShutdownAfterWait", rechecks)
}

// Enqueue: order of the validation errors, comparison operators, position of the demand increment and the hook
// relative to the buffer insert, roll-back of the increment on an insert error.
func enqueueFacts(f *facts, gen string, p *pkg, file, recv string) {
	fd := p.fn(file, recv, "Enqueue")
	if fd == nil {
		f.strList(gen+"_validateOrder", nil)
		f.errs = append(f.errs, gen+" Enqueue not found")
		return
	}
	var order []string
	var conds []string
	incIdx, hookIdx, insertIdx := -1, -1, -1
	rollback := false
	for i, st := range fd.Body.List {
		switch s := st.(type) {
		case *ast.IfStmt:
			// `if cond { return XError }`
			if len(s.Body.List) == 1 {
				if rs, ok := s.Body.List[0].(*ast.ReturnStmt); ok && len(rs.Results) == 1 && insertIdx < 0 && incIdx < 0 {
					name := p.str(rs.Results[0])
					name = strings.TrimSuffix(name, "{}")
					order = append(order, name)
					conds = append(conds, p.str(s.Cond))
					continue
				}
			}
			// v1: `if r.errorOnFullBuffer { select { case r.buffer <- op: default: [rollback;] return BufferFullError{} } } else { r.buffer <- op }`
			if strings.Contains(p.str(s), "r.buffer <- op") {
				insertIdx = i
				if containsCall(p, s, "incTarget") {
					rollback = true
				}
			}
			// v2 after a fix: `if err := r.buffer.enqueue(...); err != nil { r.incTarget(-...); return err }`
			if strings.Contains(p.str(s), "buffer.enqueue(") {
				insertIdx = i
				if containsCall(p, s.Body, "incTarget") {
					rollback = true
				}
			}
		case *ast.ExprStmt:
			if containsCall(p, s, "incTarget") && incIdx < 0 {
				incIdx = i
			}
			if containsCall(p, s, "verifPoint") {
				hookIdx = i
			}
		case *ast.ReturnStmt:
			if strings.Contains(p.str(s), "buffer.enqueue(") {
				insertIdx = i
			}
		case *ast.AssignStmt:
			if strings.Contains(p.str(s), "buffer.enqueue(") {
				insertIdx = i
				// look at the following statements for a roll-back under `if err != nil`
				for _, st2 := range fd.Body.List[i+1:] {
					if is, ok := st2.(*ast.IfStmt); ok && strings.Contains(p.str(is.Cond), "err != nil") && containsCall(p, is.Body, "incTarget") {
						rollback = true
					}
				}
			}
		}
	}
	f.strList(gen+"_validateOrder", order)
	f.strList(gen+"_validateConds", conds)
	f.boolean(gen+"_countBeforeInsert", incIdx >= 0 && insertIdx > incIdx)
	f.boolean(gen+"_hookBetweenCountAndInsert", incIdx >= 0 && hookIdx > incIdx && insertIdx > hookIdx)
	f.boolean(gen+"_rollbackOnInsertError", rollback)
	_ = token.NoPos
}

// Translator: a small subset of Go (integer / boolean straight-line code with if, switch-true, counting for-loops
// and early returns) to Lean 4 definitions. The definitions are regenerated from /repo's sources on every run
// (Generated/Trans.lean); hand-written theorems (GoBatcher/Props/Trans*.lean) prove that they compute what the
// hand-written models assume — for all inputs. A source edit that changes what one of these functions computes
// changes the regenerated definition and the theorem about it no longer checks.
//
// Semantics (GoBatcher/Model/GoSem.lean): every integer is a Lean `Int`; uint32 arithmetic is wrapped explicitly
// (`u32 (a + b)`); `int` / `time.Duration` are unbounded (64-bit overflow is not modelled); a pointer or interface
// is the Bool "is not nil"; a slice of pointers is a `List Bool`; `math.Ceil(float64(a) / float64(b))` is the
// integer ceiling `goCeilDiv a b` (agreement with IEEE doubles on uint32 operands is tested by the harness, not
// proved). Calls to mutexes, `defer`, and event emission are skipped (atomicity and events belong to the
// labelled machines); every skipped call is listed in a comment above the definition.
//
// When a construct outside the subset is met the translator refuses: it writes `-- REFUSED <fn>: <why>` and no
// definition, so every theorem about that function stops checking (a broken tie, never a guess).
package main

import (
	"fmt"
	"go/ast"
	"go/token"
	"regexp"
	"sort"
	"strings"
)

type gty int

const (
	tUnknown gty = iota
	tU32
	tInt
	tBool
	tF64
	tPtr     // pointer / interface: Bool "non-nil"
	tPtrList // slice of pointers: List Bool
	tIntList // slice of integers: List Int
	tMap     // map with opaque keys and values: association list List (Int × Int), newest binding first
	tErr     // error value: String tag ("" = nil)
	tUntyped
)

func (t gty) lean() string {
	switch t {
	case tU32, tInt, tUntyped:
		return "Int"
	case tBool, tPtr:
		return "Bool"
	case tPtrList:
		return "List Bool"
	case tIntList:
		return "List Int"
	case tMap:
		return "List (Int × Int)"
	case tErr:
		return "String"
	}
	return "Int"
}

type refuse struct{ why string }

type structInfo struct {
	name   string
	fields []string
	ftype  map[string]gty
}

type tfun struct {
	lean   string // Lean name
	decl   *ast.FuncDecl
	recv   string
	st     *structInfo
	params []string
	ptypes []gty
	// results
	resNames  []string
	resTypes  []gty
	mutates   bool
	text      string
	skipped   []string
	capNames  []string // results that are capture flags / extra outputs (whole-function mode), after the function's own
	maps      map[string]bool
	sliceBody bool // the slice is (part of) a loop body: `continue` ends it
	inputs    map[string]string
	chans     map[string]string
	calls     map[string]string
	capture   bool
	view      string   // suffix of the structure name: a separate record of the receiver's fields for this group of functions
	opaque    bool     // argument-less interface-method calls become parameters
	onames    []string // those parameters, in order of first use
	otypes    []gty
}

type translator struct {
	p       *pkg
	gen     string
	structs map[string]*structInfo
	consts  map[string]string
	funs    map[string]*tfun // by recv.name
	used    map[string]map[string]bool
	lifts   [][2]string    // (callee structure key, caller structure key): the caller's structure includes the callee's fields
	imeth   map[string]gty // result type of the argument-less methods of the package's interfaces, by method name
}

func typeOfExpr(e ast.Expr) gty {
	switch t := e.(type) {
	case *ast.Ident:
		switch t.Name {
		case "uint32", "uint", "uint64":
			if t.Name == "uint32" {
				return tU32
			}
			return tInt
		case "int", "int64", "int32":
			return tInt
		case "bool":
			return tBool
		case "float64":
			return tF64
		case "error":
			return tErr
		}
		return tPtr // named interface / struct type held by value or interface
	case *ast.SelectorExpr:
		if id, ok := t.X.(*ast.Ident); ok && id.Name == "time" && t.Sel.Name == "Duration" {
			return tInt
		}
		if id, ok := t.X.(*ast.Ident); ok && id.Name == "uuid" && t.Sel.Name == "UUID" {
			return tInt // an opaque identifier
		}
		return tPtr
	case *ast.StarExpr:
		return tPtr
	case *ast.ArrayType:
		if _, ok := t.Elt.(*ast.StarExpr); ok && t.Len == nil {
			return tPtrList
		}
	case *ast.InterfaceType, *ast.FuncType, *ast.ChanType, *ast.MapType:
		return tPtr
	}
	return tUnknown
}

func newTranslator(p *pkg, gen string) *translator {
	t := &translator{p: p, gen: gen, structs: map[string]*structInfo{}, consts: map[string]string{}, funs: map[string]*tfun{},
		used: map[string]map[string]bool{}, imeth: map[string]gty{}}
	names := make([]string, 0, len(p.files))
	for n := range p.files {
		names = append(names, n)
	}
	sort.Strings(names)
	for _, n := range names {
		for _, d := range p.files[n].Decls {
			gd, ok := d.(*ast.GenDecl)
			if !ok {
				continue
			}
			for _, s := range gd.Specs {
				switch sp := s.(type) {
				case *ast.TypeSpec:
					if it, ok := sp.Type.(*ast.InterfaceType); ok {
						for _, m := range it.Methods.List {
							ft, ok := m.Type.(*ast.FuncType)
							if !ok || len(m.Names) != 1 || len(ft.Params.List) != 0 || ft.Results == nil || len(ft.Results.List) != 1 {
								continue
							}
							ty := typeOfExpr(ft.Results.List[0].Type)
							if old, seen := t.imeth[m.Names[0].Name]; seen && old != ty {
								ty = tUnknown
							}
							t.imeth[m.Names[0].Name] = ty
						}
					}
					if stt, ok := sp.Type.(*ast.StructType); ok {
						si := &structInfo{name: sp.Name.Name, ftype: map[string]gty{}}
						for _, f := range stt.Fields.List {
							for _, nm := range f.Names {
								si.fields = append(si.fields, nm.Name)
								si.ftype[nm.Name] = typeOfExpr(f.Type)
							}
						}
						t.structs[si.name] = si
					}
				case *ast.ValueSpec:
					if gd.Tok == token.CONST {
						// `X = iota` followed by bare names: 0, 1, 2, ...
						for k, s2 := range gd.Specs {
							vs2 := s2.(*ast.ValueSpec)
							if k == 0 {
								if len(vs2.Values) != 1 {
									break
								}
								if id, ok := vs2.Values[0].(*ast.Ident); !ok || id.Name != "iota" {
									break
								}
							} else if len(vs2.Values) != 0 {
								break
							}
							if len(vs2.Names) == 1 {
								t.consts[vs2.Names[0].Name] = fmt.Sprint(k)
							}
						}
						for i, nm := range sp.Names {
							if i < len(sp.Values) {
								if bl, ok := sp.Values[i].(*ast.BasicLit); ok && bl.Kind == token.INT {
									t.consts[nm.Name] = bl.Value
								}
							}
						}
					}
				}
			}
		}
	}
	return t
}

type env struct {
	rangeElem    map[string]string // while a `range` body is translated: source text -> the bound element variable
	pendingMoves []string
	t            *translator
	f            *tfun
	rname        string
	vars         map[string]gty
	lnames       map[string]string // Go local -> Lean name
}

func (e *env) fail(format string, a ...interface{}) { panic(refuse{fmt.Sprintf(format, a...)}) }

func leanIdent(s string) string {
	switch s {
	case "max", "min", "len", "at", "end", "from", "to", "fun", "open", "local", "instance", "show", "have", "then", "index", "count":
		return s + "_"
	}
	return s
}

func (e *env) useField(name string) gty {
	ty, ok := e.f.st.ftype[name]
	if !ok {
		e.fail("unknown field %s", name)
	}
	if _, isChan := e.f.chans[name]; isChan {
		ty = tInt
		e.f.st.ftype[name] = tInt
	}
	if e.f.maps[name] {
		ty = tMap
		e.f.st.ftype[name] = tMap
	}
	if ty == tUnknown {
		e.fail("field %s has a type outside the subset", name)
	}
	if e.t.used[e.f.st.name+e.f.view] == nil {
		e.t.used[e.f.st.name+e.f.view] = map[string]bool{}
	}
	e.t.used[e.f.st.name+e.f.view][name] = true
	return ty
}

// recvField: `r.f` or `&r.f` -> field name
func (e *env) recvField(x ast.Expr) (string, bool) {
	if u, ok := x.(*ast.UnaryExpr); ok && u.Op == token.AND {
		x = u.X
	}
	if s, ok := x.(*ast.SelectorExpr); ok {
		if id, ok := s.X.(*ast.Ident); ok && id.Name == e.rname {
			return s.Sel.Name, true
		}
	}
	return "", false
}

func wrap(ty gty, s string) string {
	if ty == tU32 {
		return "(u32 " + s + ")"
	}
	return s
}

func unify(a, b gty) gty {
	if a == tUntyped {
		return b
	}
	return a
}

func (e *env) expr(x ast.Expr) (string, gty) {
	if v, ok := e.rangeElem[e.t.p.str(x)]; ok {
		return v, tInt
	}
	if in, ok := e.f.inputs[e.t.p.str(x)]; ok {
		name, tyS := in[:strings.Index(in, ":")], in[strings.Index(in, ":")+1:]
		ty := tInt
		if tyS == "bool" {
			ty = tBool
		}
		if tyS == "err" {
			ty = tErr
		}
		if tyS == "list" {
			ty = tIntList
		}
		found := false
		for _, n := range e.f.onames {
			found = found || n == name
		}
		if !found {
			e.f.onames = append(e.f.onames, name)
			e.f.otypes = append(e.f.otypes, ty)
		}
		return name, ty
	}
	switch v := x.(type) {
	case *ast.ParenExpr:
		return e.expr(v.X)
	case *ast.BasicLit:
		if v.Kind == token.INT {
			return v.Value, tUntyped
		}
		if v.Kind == token.STRING && strings.HasPrefix(v.Value, "\"guard:") {
			return strings.TrimSuffix(strings.TrimPrefix(v.Value, "\"guard:"), "\""), tBool
		}
		e.fail("literal %s", v.Value)
	case *ast.Ident:
		switch v.Name {
		case "true", "false":
			return v.Name, tBool
		case "nil":
			return "false", tPtr
		}
		if ty, ok := e.vars[v.Name]; ok {
			return e.lnames[v.Name], ty
		}
		if v.Name == e.rname {
			return "true", tPtr // the receiver as a value (`return r`): a non-nil pointer
		}
		if c, ok := e.t.consts[v.Name]; ok {
			return c, tUntyped
		}
		e.fail("unknown identifier %s", v.Name)
	case *ast.SelectorExpr:
		if f, ok := e.recvField(v); ok {
			ty := e.useField(f)
			return fmt.Sprintf("%s.%s", e.rname, leanIdent(f)), ty
		}
		if id, ok := v.X.(*ast.Ident); ok && id.Name == "time" {
			if ns, ok := map[string]string{"Nanosecond": "1", "Microsecond": "1000", "Millisecond": "1000000", "Second": "1000000000",
				"Minute": "60000000000", "Hour": "3600000000000"}[v.Sel.Name]; ok {
				return ns, tInt
			}
		}
		e.fail("selector %s", e.t.p.str(v))
	case *ast.IndexExpr:
		xs, ty := e.expr(v.X)
		is, _ := e.expr(v.Index)
		if ty == tIntList {
			// an index outside the slice panics in Go; the theorems about such a definition carry the bound as a hypothesis
			return fmt.Sprintf("(%s.getD (Int.toNat %s) 0)", xs, is), tU32
		}
		if ty != tPtrList {
			e.fail("index into %s", e.t.p.str(v.X))
		}
		return fmt.Sprintf("(%s.getD (Int.toNat %s) false)", xs, is), tPtr
	case *ast.UnaryExpr:
		if v.Op == token.AND {
			if _, isId := v.X.(*ast.Ident); isId {
				return "true", tPtr // the address of a variable: a non-nil pointer
			}
		}
		s, ty := e.expr(v.X)
		switch v.Op {
		case token.SUB:
			return wrap(ty, "(- "+s+")"), ty
		case token.NOT:
			return "(!" + s + ")", tBool
		}
		e.fail("unary %s", v.Op)
	case *ast.BinaryExpr:
		return e.binary(v)
	case *ast.CallExpr:
		return e.call(v)
	}
	e.fail("expression %s", e.t.p.str(x))
	return "", tUnknown
}

func (e *env) binary(v *ast.BinaryExpr) (string, gty) {
	a, ta := e.expr(v.X)
	b, tb := e.expr(v.Y)
	ty := unify(ta, tb)
	switch v.Op {
	case token.LAND:
		return "(" + a + " && " + b + ")", tBool
	case token.LOR:
		return "(" + a + " || " + b + ")", tBool
	case token.EQL, token.NEQ:
		if ty == tPtr || ty == tBool {
			// comparison with nil: the Bool is "non-nil"
			if id, ok := v.Y.(*ast.Ident); ok && id.Name == "nil" {
				if v.Op == token.EQL {
					return "(!" + a + ")", tBool
				}
				return a, tBool
			}
			if v.Op == token.EQL {
				return "(" + a + " == " + b + ")", tBool
			}
			return "(" + a + " != " + b + ")", tBool
		}
		if ty == tMap {
			// a nil map and an empty map read alike; `m == nil` is "has no entries"
			if id, ok := v.Y.(*ast.Ident); ok && id.Name == "nil" {
				if v.Op == token.EQL {
					return "(" + a + ".isEmpty)", tBool
				}
				return "(!" + a + ".isEmpty)", tBool
			}
		}
		if ty == tErr {
			if id, ok := v.Y.(*ast.Ident); ok && id.Name == "nil" {
				if v.Op == token.EQL {
					return "(" + a + " == \"\")", tBool
				}
				return "(" + a + " != \"\")", tBool
			}
		}
		if v.Op == token.EQL {
			return "(decide (" + a + " = " + b + "))", tBool
		}
		return "(decide (" + a + " ≠ " + b + "))", tBool
	case token.LSS:
		return "(decide (" + a + " < " + b + "))", tBool
	case token.LEQ:
		return "(decide (" + a + " ≤ " + b + "))", tBool
	case token.GTR:
		return "(decide (" + a + " > " + b + "))", tBool
	case token.GEQ:
		return "(decide (" + a + " ≥ " + b + "))", tBool
	case token.ADD:
		return wrap(ty, "("+a+" + "+b+")"), ty
	case token.SUB:
		return wrap(ty, "("+a+" - "+b+")"), ty
	case token.MUL:
		return wrap(ty, "("+a+" * "+b+")"), ty
	case token.QUO:
		if ty == tF64 {
			e.fail("float64 division outside math.Ceil")
		}
		return "(goDiv " + a + " " + b + ")", ty
	}
	e.fail("operator %s", v.Op)
	return "", tUnknown
}

func (e *env) call(v *ast.CallExpr) (string, gty) {
	switch fn := v.Fun.(type) {
	case *ast.Ident:
		switch fn.Name {
		case "uint32":
			s, ty := e.expr(v.Args[0])
			_ = ty
			return "(u32 " + s + ")", tU32
		case "int", "int64":
			s, _ := e.expr(v.Args[0])
			return s, tInt
		case "float64":
			s, ty := e.expr(v.Args[0])
			if ty != tU32 && ty != tUntyped {
				e.fail("float64 of a non-uint32 value")
			}
			return s, tF64
		case "len":
			if _, shadowed := e.vars["len"]; shadowed {
				e.fail("call of a shadowed len")
			}
			if f, ok := e.recvField(v.Args[0]); ok {
				if _, isChan := e.f.chans[f]; isChan {
					e.useField(f)
					return fmt.Sprintf("%s.%s", e.rname, leanIdent(f)), tInt
				}
			}
			s, ty := e.expr(v.Args[0])
			if ty != tPtrList && ty != tIntList {
				e.fail("len of %s", e.t.p.str(v.Args[0]))
			}
			return "(" + s + ".length : Int)", tInt
		case "make":
			// make([]uint32, 0): the empty list
			if at, ok := v.Args[0].(*ast.ArrayType); ok && at.Len == nil && len(v.Args) == 2 && e.t.p.str(at.Elt) == "uint32" && e.t.p.str(v.Args[1]) == "0" {
				return "([] : List Int)", tIntList
			}
			if _, isMap := v.Args[0].(*ast.MapType); isMap {
				return "([] : List (Int × Int))", tMap
			}
			// make([]*T, n): n nil pointers
			if at, ok := v.Args[0].(*ast.ArrayType); ok && at.Len == nil && len(v.Args) == 2 {
				if _, isPtr := at.Elt.(*ast.StarExpr); isPtr {
					n, _ := e.expr(v.Args[1])
					return "(List.replicate (Int.toNat " + n + ") false)", tPtrList
				}
			}
			e.fail("make of %s", e.t.p.str(v.Args[0]))
		case "append":
			if len(v.Args) == 2 {
				xs, ty := e.expr(v.Args[0])
				x, _ := e.expr(v.Args[1])
				if ty == tIntList {
					return "(" + xs + " ++ [" + x + "])", tIntList
				}
			}
			e.fail("append %s", e.t.p.str(v))
		}
	case *ast.SelectorExpr:
		if id, ok := fn.X.(*ast.Ident); ok {
			switch id.Name + "." + fn.Sel.Name {
			case "atomic.LoadUint32":
				if f, ok := e.recvField(v.Args[0]); ok {
					e.useField(f)
					return fmt.Sprintf("%s.%s", e.rname, leanIdent(f)), tU32
				}
			case "rand.Intn":
				// the random choice is an input of the translated function (0 ≤ it < the argument is a hypothesis of the theorems)
				if e.f.opaque && len(e.f.onames) == 0 {
					e.expr(v.Args[0])
					e.f.onames = append(e.f.onames, "rand_Intn")
					e.f.otypes = append(e.f.otypes, tInt)
					return "rand_Intn", tInt
				}
			case "math.Ceil":
				if be, ok := v.Args[0].(*ast.BinaryExpr); ok && be.Op == token.QUO {
					a, ta := e.expr(be.X)
					b, tb := e.expr(be.Y)
					if ta == tF64 && tb == tF64 {
						return "(goCeilDiv " + a + " " + b + ")", tF64
					}
				}
				e.fail("math.Ceil of something other than float64(a) / float64(b)")
			}
			if id.Name == e.rname {
				// call of another translated method with a result
				if cal, ok := e.t.funs[e.f.recv+"."+fn.Sel.Name]; ok && len(cal.resTypes) == 1 && !cal.mutates && len(v.Args) == 0 {
					e.noteLift(cal)
					return "(" + cal.lean + " " + e.recvArg(cal) + ")", cal.resTypes[0]
				}
			}
		}
	}
	if sel, ok := v.Fun.(*ast.SelectorExpr); ok && e.f.opaque && len(v.Args) == 0 {
		// `x.M()` on an interface value: an input of the translated function (the user's getters are taken to be pure)
		if _, xty := e.expr(sel.X); xty == tPtr {
			if ty, ok := e.t.imeth[sel.Sel.Name]; ok && ty != tUnknown && ty != tF64 {
				name := strings.NewReplacer(".", "_", "(", "", ")", "").Replace(e.t.p.str(sel.X)) + "_" + sel.Sel.Name
				found := false
				for _, n := range e.f.onames {
					found = found || n == name
				}
				if !found {
					e.f.onames = append(e.f.onames, name)
					e.f.otypes = append(e.f.otypes, ty)
				}
				return name, ty
			}
		}
	}
	e.fail("call %s", e.t.p.str(v.Fun))
	return "", tUnknown
}

// ---- statements

// chanOp: a select case `r.f <- struct{}{}` (send) or `<-r.f` (receive) on a channel field modelled as a counter;
// returns the guard and the statement that moves the token
func (e *env) chanOp(comm ast.Stmt) (guard string, move string) {
	switch c := comm.(type) {
	case *ast.SendStmt:
		if f, ok := e.recvField(c.Chan); ok {
			if capF, isChan := e.f.chans[f]; isChan {
				e.useField(f)
				capS := capF // a literal capacity (`make(chan T, 1)`), a named input ("in:<name>"), or the field that holds it
				if strings.HasPrefix(capF, "in:") {
					capS = capF[3:]
					found := false
					for _, n := range e.f.onames {
						found = found || n == capS
					}
					if !found {
						e.f.onames = append(e.f.onames, capS)
						e.f.otypes = append(e.f.otypes, tInt)
					}
				} else if strings.Trim(capF, "0123456789") != "" {
					e.useField(capF)
					capS = e.rname + "." + leanIdent(capF)
				}
				return fmt.Sprintf("(decide (%s.%s < %s))", e.rname, leanIdent(f), capS),
					fmt.Sprintf("let %s := { %s with %s := %s.%s + 1 }", e.rname, e.rname, leanIdent(f), e.rname, leanIdent(f))
			}
		}
	case *ast.ExprStmt:
		if u, ok := c.X.(*ast.UnaryExpr); ok && u.Op == token.ARROW {
			if f, ok := e.recvField(u.X); ok {
				if _, isChan := e.f.chans[f]; isChan {
					e.useField(f)
					return fmt.Sprintf("(decide (%s.%s > 0))", e.rname, leanIdent(f)),
						fmt.Sprintf("let %s := { %s with %s := %s.%s - 1 }", e.rname, e.rname, leanIdent(f), e.rname, leanIdent(f))
				}
			}
		}
	}
	e.fail("select case %s", e.t.p.str(comm))
	return "", ""
}

// chanMove: a marker statement carrying the Lean text that moves a token
type chanMove struct {
	ast.EmptyStmt
	text string
}

// selectToIf: `select { case <chan op>: A  default: B }` (exactly one communication case and a default)
func (e *env) selectToIf(v *ast.SelectStmt) *ast.IfStmt {
	var comm *ast.CommClause
	var dflt *ast.CommClause
	for _, c := range v.Body.List {
		cc := c.(*ast.CommClause)
		if cc.Comm == nil {
			dflt = cc
		} else if comm == nil {
			comm = cc
		} else {
			e.fail("select with several communication cases")
		}
	}
	if comm == nil || dflt == nil {
		e.fail("select without a default (blocking)")
	}
	guard, move := e.chanOp(comm.Comm)
	e.pendingMoves = append(e.pendingMoves, move)
	marker := &ast.ExprStmt{X: &ast.BasicLit{Kind: token.STRING, Value: fmt.Sprintf("\"chanmove:%d\"", len(e.pendingMoves)-1)}}
	cond := &ast.BasicLit{Kind: token.STRING, Value: "\"guard:" + guard + "\""}
	return &ast.IfStmt{Cond: cond, Body: &ast.BlockStmt{List: append([]ast.Stmt{marker}, comm.Body...)}, Else: &ast.BlockStmt{List: dflt.Body}}
}

// drainLoop: see the ForStmt case
func (e *env) drainLoop(sel *ast.SelectStmt, ind string) string {
	var comm, dflt *ast.CommClause
	for _, c := range sel.Body.List {
		cc := c.(*ast.CommClause)
		if cc.Comm == nil {
			dflt = cc
		} else {
			comm = cc
		}
	}
	if comm == nil || dflt == nil || len(sel.Body.List) != 2 {
		e.fail("drain loop shape")
	}
	es, ok := comm.Comm.(*ast.ExprStmt)
	if !ok {
		e.fail("drain loop: the case is not a receive")
	}
	u, ok := es.X.(*ast.UnaryExpr)
	if !ok || u.Op != token.ARROW {
		e.fail("drain loop: the case is not a receive")
	}
	f, ok := e.recvField(u.X)
	if !ok {
		e.fail("drain loop channel")
	}
	if _, isChan := e.f.chans[f]; !isChan {
		e.fail("drain loop channel")
	}
	e.useField(f)
	// the body: constant assignments to locals only
	names := []string{}
	var body strings.Builder
	for _, st := range comm.Body {
		as, ok := st.(*ast.AssignStmt)
		if !ok || as.Tok != token.ASSIGN || len(as.Lhs) != 1 {
			e.fail("drain loop body")
		}
		id, ok := as.Lhs[0].(*ast.Ident)
		if !ok {
			e.fail("drain loop body")
		}
		if _, isLocal := e.vars[id.Name]; !isLocal {
			e.fail("drain loop body")
		}
		rid, ok := as.Rhs[0].(*ast.Ident)
		if !ok || (rid.Name != "true" && rid.Name != "false") {
			e.fail("drain loop body assigns a non-constant")
		}
		names = append(names, e.lnames[id.Name])
		body.WriteString(fmt.Sprintf("%s    let %s := %s\n", ind, e.lnames[id.Name], rid.Name))
	}
	fl := leanIdent(f)
	tup := tupleOf(append([]string{e.rname}, names...))
	var sb strings.Builder
	sb.WriteString(fmt.Sprintf("%slet %s :=\n%s  if (decide (%s.%s > 0)) then\n%s    let %s := { %s with %s := 0 }\n%s%s    %s\n%s  else\n%s    %s\n",
		ind, tup, ind, e.rname, fl, ind, e.rname, e.rname, fl, body.String(), ind, tup, ind, ind, tup))
	// the default case ends the loop (it must return)
	if !hasReturn(dflt.Body) {
		e.fail("drain loop: the default case does not return")
	}
	sb.WriteString(e.block(dflt.Body, "()", ind))
	return sb.String()
}

func (e *env) noteLift(cal *tfun) {
	if cal.view == e.f.view {
		return
	}
	e.t.lifts = append(e.t.lifts, [2]string{cal.recv + cal.view, e.f.recv + e.f.view})
}

// recvArg: the receiver as the callee wants it. A callee translated over another VIEW of the same Go struct gets a
// record built from the caller's fields (marker expanded at emission, when the callee's field set is final).
func (e *env) recvArg(cal *tfun) string {
	if cal.view == e.f.view {
		return e.rname
	}
	return fmt.Sprintf("⟪DOWN|%s|%s|%s⟫", cal.recv+cal.view, e.f.recv+e.f.view, e.rname)
}

// recvBack: the statement that takes the callee's (possibly changed) record `cr` back into the caller's
func (e *env) recvBack(cal *tfun, cr string, ind string) string {
	return fmt.Sprintf("%slet %s := ⟪UP|%s|%s|%s|%s⟫\n", ind, e.rname, cal.recv+cal.view, e.f.recv+e.f.view, e.rname, cr)
}

var liftRe = regexp.MustCompile(`⟪(DOWN|UP)\|([^|⟫]*)\|([^|⟫]*)\|([^|⟫]*)(?:\|([^|⟫]*))?⟫`)

// expandLifts: replaces the markers; the caller's structure gets every field of the callee's
func (t *translator) expandLifts(text string, st map[string]*structInfo) string {
	return liftRe.ReplaceAllStringFunc(text, func(m string) string {
		g := liftRe.FindStringSubmatch(m)
		kind, calleeKey, callerKey, r, cr := g[1], g[2], g[3], g[4], g[5]
		fields := []string{}
		var best *structInfo
		for _, s := range st {
			if strings.HasPrefix(calleeKey, s.name) && (best == nil || len(s.name) > len(best.name)) {
				best = s
			}
		}
		if best != nil {
			for _, fn := range best.fields {
				if t.used[calleeKey][fn] {
					fields = append(fields, fn)
				}
			}
		}
		parts := []string{}
		for _, fn := range fields {
			if kind == "DOWN" {
				parts = append(parts, fmt.Sprintf("%s := %s.%s", leanIdent(fn), r, leanIdent(fn)))
			} else {
				parts = append(parts, fmt.Sprintf("%s := %s.%s", leanIdent(fn), cr, leanIdent(fn)))
			}
		}
		_ = callerKey
		if kind == "DOWN" {
			return "{ " + strings.Join(parts, ", ") + " }"
		}
		return "{ " + r + " with " + strings.Join(parts, ", ") + " }"
	})
}

// noLeadingComments: the printer attaches a comment in front of a declaration to its text
func noLeadingComments(s string) string {
	for strings.HasPrefix(s, "//") {
		i := strings.Index(s, "\n")
		if i < 0 {
			return ""
		}
		s = s[i+1:]
	}
	return s
}

func sortedValues(m map[string]string) []string {
	out := []string{}
	for _, v := range m {
		out = append(out, v)
	}
	sort.Strings(out)
	return out
}

// mutCall: `r.f()` where f is an already translated method of the receiver that changes it and has one result
func (e *env) mutCall(x ast.Expr) *tfun {
	call, ok := x.(*ast.CallExpr)
	if !ok || len(call.Args) != 0 {
		return nil
	}
	sel, ok := call.Fun.(*ast.SelectorExpr)
	if !ok {
		return nil
	}
	if id, ok := sel.X.(*ast.Ident); !ok || id.Name != e.rname {
		return nil
	}
	if cal, ok := e.t.funs[e.f.recv+"."+sel.Sel.Name]; ok && cal.mutates && len(cal.resTypes) == 1 {
		return cal
	}
	return nil
}

func (e *env) skippable(s ast.Stmt) bool {
	var call *ast.CallExpr
	switch v := s.(type) {
	case *ast.DeferStmt:
		call = v.Call
	case *ast.ExprStmt:
		c, ok := v.X.(*ast.CallExpr)
		if !ok {
			return false
		}
		call = c
	default:
		return false
	}
	txt := e.t.p.str(call.Fun)
	if e.f.capture && (strings.HasSuffix(txt, ".Emit") || strings.HasSuffix(txt, ".emit")) {
		return false
	}
	if txt == "verifPoint" {
		return true // the verification seam (a no-op without the build tag)
	}
	for _, suf := range []string{".Lock", ".Unlock", ".RLock", ".RUnlock", ".Emit", ".emit"} {
		if strings.HasSuffix(txt, suf) {
			e.f.skipped = append(e.f.skipped, txt)
			return true
		}
	}
	return false
}

// assigned collects the Go variables (and "r" for receiver fields / atomic stores) assigned in stmts.
func (e *env) assigned(stmts []ast.Stmt, out map[string]bool) {
	for _, s := range stmts {
		ast.Inspect(s, func(n ast.Node) bool {
			switch v := n.(type) {
			case *ast.AssignStmt:
				if v.Tok == token.DEFINE {
					return true
				}
				for _, l := range v.Lhs {
					if id, ok := l.(*ast.Ident); ok {
						out[id.Name] = true
					} else {
						out[e.rname] = true
					}
				}
			case *ast.RangeStmt:
				if f, ok := e.recvField(v.X); ok && e.f.maps[f] {
					out["called"] = true
					return false
				}
			case *ast.GoStmt:
				if nm, ok := e.f.calls[e.t.p.str(v.Call.Fun)]; ok {
					out[nm+"Called"] = true
					return false
				}
				if nm, ok := e.f.calls["go func"]; ok {
					out[nm+"Called"] = true
					return false
				}
				if nm, ok := e.f.calls["time.Sleep"]; ok {
					out[nm+"Called"] = true
					out[nm+"Arg"] = true
				}
				return false
			case *ast.BasicLit:
				if v.Kind == token.STRING && strings.HasPrefix(v.Value, "\"chanmove:") {
					out[e.rname] = true
				}
			case *ast.SendStmt:
				out[e.rname] = true
			case *ast.UnaryExpr:
				if v.Op == token.ARROW {
					out[e.rname] = true
				}
			case *ast.IncDecStmt:
				if id, ok := v.X.(*ast.Ident); ok {
					out[id.Name] = true
				} else {
					out[e.rname] = true
				}
			case *ast.CallExpr:
				if e.t.p.str(v.Fun) == "delete" {
					out[e.rname] = true
				}
				if e.t.p.str(v.Fun) == "copy" && len(v.Args) == 2 {
					if id, ok := v.Args[0].(*ast.Ident); ok {
						out[id.Name] = true
					}
				}
				txt := e.t.p.str(v.Fun)
				if txt == "atomic.StoreUint32" || txt == "atomic.AddUint32" {
					out[e.rname] = true
				}
				if e.f.capture && (strings.HasSuffix(txt, ".Emit") || strings.HasSuffix(txt, ".emit")) {
					out["ev"] = true
				}
				if nm, ok := e.f.calls[txt]; ok {
					out[nm+"Called"] = true
					out[nm+"Arg"] = true
				}
				if sel, ok := v.Fun.(*ast.SelectorExpr); ok {
					if id, ok := sel.X.(*ast.Ident); ok && id.Name == e.rname {
						if cal, ok := e.t.funs[e.f.recv+"."+sel.Sel.Name]; ok && cal.mutates {
							out[e.rname] = true
						}
					}
				}
			}
			return true
		})
	}
}

func hasReturn(stmts []ast.Stmt) bool {
	found := false
	for _, s := range stmts {
		ast.Inspect(s, func(n ast.Node) bool {
			if _, ok := n.(*ast.ReturnStmt); ok {
				found = true
			}
			if b, ok := n.(*ast.BranchStmt); ok && b.Tok == token.CONTINUE {
				found = true // (only reachable in loop-body slices; refused elsewhere)
			}
			if c, ok := n.(*ast.CallExpr); ok {
				if id, ok := c.Fun.(*ast.Ident); ok && id.Name == "panic" {
					found = true // a captured panic ends the function
				}
			}
			if _, ok := n.(*ast.FuncLit); ok {
				return false
			}
			return true
		})
	}
	return found
}

func (e *env) result(vals []string) string {
	parts := []string{}
	if e.f.mutates {
		parts = append(parts, e.rname)
	}
	parts = append(parts, vals...)
	if len(parts) == 0 {
		return "()"
	}
	if len(parts) == 1 {
		return parts[0]
	}
	return "(" + strings.Join(parts, ", ") + ")"
}

func (e *env) namedResults() []string {
	out := []string{}
	for _, n := range e.f.resNames {
		out = append(out, e.lnames[n])
	}
	return out
}

func tupleOf(names []string) string {
	if len(names) == 1 {
		return names[0]
	}
	return "(" + strings.Join(names, ", ") + ")"
}

func (e *env) setVar(name string, ty gty) string {
	e.vars[name] = ty
	e.lnames[name] = leanIdent(name)
	return e.lnames[name]
}

func (e *env) assignTo(lhs ast.Expr, rhs string, rty gty, ind string) string {
	if id, ok := lhs.(*ast.Ident); ok {
		ty, ok := e.vars[id.Name]
		if !ok {
			e.fail("assignment to unknown variable %s", id.Name)
		}
		_ = ty
		return fmt.Sprintf("%slet %s := %s\n", ind, e.lnames[id.Name], rhs)
	}
	if f, ok := e.recvField(lhs); ok {
		e.useField(f)
		return fmt.Sprintf("%slet %s := { %s with %s := %s }\n", ind, e.rname, e.rname, leanIdent(f), rhs)
	}
	if ix, ok := lhs.(*ast.IndexExpr); ok {
		if f, ok := e.recvField(ix.X); ok && e.f.maps[f] {
			e.useField(f)
			k, _ := e.expr(ix.Index)
			fl := leanIdent(f)
			return fmt.Sprintf("%slet %s := { %s with %s := (%s, %s) :: %s.%s.filter (fun kv => kv.1 != %s) }\n", ind, e.rname, e.rname, fl, k, rhs, e.rname, fl, k)
		}
		if f, ok := e.recvField(ix.X); ok && e.useField(f) == tPtrList {
			is, _ := e.expr(ix.Index)
			return fmt.Sprintf("%slet %s := { %s with %s := %s.%s.set (Int.toNat %s) %s }\n", ind, e.rname, e.rname, leanIdent(f), e.rname, leanIdent(f), is, rhs)
		}
	}
	e.fail("assignment target %s", e.t.p.str(lhs))
	return ""
}

// block translates stmts; `fall` is what the block evaluates to when control reaches its end.
func (e *env) block(stmts []ast.Stmt, fall string, ind string) string {
	var sb strings.Builder
	for i, s := range stmts {
		rest := stmts[i+1:]
		if e.skippable(s) {
			continue
		}
		switch v := s.(type) {
		case *ast.ReturnStmt:
			vals := []string{}
			if len(v.Results) == 0 {
				vals = e.namedResults()
			} else {
				for j, r := range v.Results {
					if j < len(e.f.resTypes) && e.f.resTypes[j] == tErr {
						if id, ok := r.(*ast.Ident); ok {
							if _, isVar := e.vars[id.Name]; !isVar {
								if id.Name == "nil" {
									vals = append(vals, "\"\"")
								} else {
									vals = append(vals, fmt.Sprintf("%q", id.Name)) // a package-level error value
								}
								continue
							}
						}
						x, _ := e.rhs(r)
						vals = append(vals, x)
						continue
					}
					x, ty := e.expr(r)
					if j < len(e.f.resTypes) {
						x = wrap2(e.f.resTypes[j], ty, x)
					}
					vals = append(vals, x)
				}
				// (capture flags and extra outputs follow the function's own results)
				for _, cn := range e.f.capNames {
					vals = append(vals, e.lnames[cn])
				}
			}
			sb.WriteString(ind + e.result(vals) + "\n")
			return sb.String()
		case *ast.DeclStmt:
			gd := v.Decl.(*ast.GenDecl)
			for _, sp := range gd.Specs {
				vs := sp.(*ast.ValueSpec)
				ty := typeOfExpr(vs.Type)
				for _, nm := range vs.Names {
					ln := e.setVar(nm.Name, ty)
					zero := "0"
					if ty == tBool || ty == tPtr {
						zero = "false"
					}
					if len(vs.Values) == 1 && len(vs.Names) == 1 {
						zero, _ = e.expr(vs.Values[0])
					}
					sb.WriteString(fmt.Sprintf("%slet %s : %s := %s\n", ind, ln, ty.lean(), zero))
				}
			}
		case *ast.AssignStmt:
			if len(v.Lhs) != 1 || len(v.Rhs) != 1 {
				e.fail("multi-assignment")
			}
			if v.Tok == token.DEFINE {
				if cal := e.mutCall(v.Rhs[0]); cal != nil {
					id := v.Lhs[0].(*ast.Ident)
					ln := e.setVar(id.Name, cal.resTypes[0])
					if cal.view != e.f.view {
						e.noteLift(cal)
						sb.WriteString(fmt.Sprintf("%slet (cr_, %s) := %s %s\n", ind, ln, cal.lean, e.recvArg(cal)))
						sb.WriteString(e.recvBack(cal, "cr_", ind))
						continue
					}
					sb.WriteString(fmt.Sprintf("%slet (%s, %s) := %s %s\n", ind, e.rname, ln, cal.lean, e.rname))
					continue
				}
				x, ty := e.rhs(v.Rhs[0])
				if ty == tUntyped {
					ty = tInt
				}
				id := v.Lhs[0].(*ast.Ident)
				ln := e.setVar(id.Name, ty)
				sb.WriteString(fmt.Sprintf("%slet %s : %s := %s\n", ind, ln, ty.lean(), x))
				continue
			}
			lty := e.lhsType(v.Lhs[0])
			var x string
			var ty gty
			if id, ok := v.Rhs[0].(*ast.Ident); ok && lty == tErr && id.Name != "nil" {
				if _, isVar := e.vars[id.Name]; !isVar {
					x, ty = fmt.Sprintf("%q", id.Name), tErr // a package-level error value
				}
			}
			if x == "" {
				x, ty = e.rhs(v.Rhs[0])
			}
			switch v.Tok {
			case token.ASSIGN:
				sb.WriteString(e.assignTo(v.Lhs[0], wrap2(lty, ty, x), lty, ind))
			case token.ADD_ASSIGN, token.SUB_ASSIGN, token.MUL_ASSIGN:
				cur, _ := e.expr(v.Lhs[0])
				op := map[token.Token]string{token.ADD_ASSIGN: "+", token.SUB_ASSIGN: "-", token.MUL_ASSIGN: "*"}[v.Tok]
				sb.WriteString(e.assignTo(v.Lhs[0], wrap(lty, "("+cur+" "+op+" "+x+")"), lty, ind))
			default:
				e.fail("assignment operator %s", v.Tok)
			}
		case *ast.IncDecStmt:
			lty := e.lhsType(v.X)
			cur, _ := e.expr(v.X)
			op := "+"
			if v.Tok == token.DEC {
				op = "-"
			}
			sb.WriteString(e.assignTo(v.X, wrap(lty, "("+cur+" "+op+" 1)"), lty, ind))
		case *ast.ExprStmt:
			if bl, ok := v.X.(*ast.BasicLit); ok && bl.Kind == token.STRING && strings.HasPrefix(bl.Value, "\"chanmove:") {
				var k int
				fmt.Sscanf(bl.Value, "\"chanmove:%d\"", &k)
				sb.WriteString(ind + e.pendingMoves[k] + "\n")
				continue
			}
			if u, ok := v.X.(*ast.UnaryExpr); ok && u.Op == token.ARROW {
				// `<-r.f`: takes one token (on an empty channel the goroutine would block: the counter stays at 0)
				if f, ok := e.recvField(u.X); ok {
					if _, isChan := e.f.chans[f]; isChan {
						e.useField(f)
						fl := leanIdent(f)
						sb.WriteString(fmt.Sprintf("%slet %s := { %s with %s := (if %s.%s > 0 then %s.%s - 1 else %s.%s) }\n", ind, e.rname, e.rname, fl, e.rname, fl, e.rname, fl, e.rname, fl))
						continue
					}
				}
				e.fail("receive %s", e.t.p.str(u))
			}
			call, ok := v.X.(*ast.CallExpr)
			if !ok {
				e.fail("expression statement")
			}
			txt := e.t.p.str(call.Fun)
			if e.f.capture && (strings.HasSuffix(txt, ".Emit") || strings.HasSuffix(txt, ".emit")) && len(call.Args) >= 3 {
				msg := ""
				switch a := call.Args[2].(type) {
				case *ast.Ident:
					msg = a.Name
				case *ast.BasicLit:
					if a.Value != `""` {
						msg = "text"
					}
				}
				sb.WriteString(fmt.Sprintf("%slet ev := %q\n", ind, e.t.p.str(call.Args[0])+"|"+msg))
				continue
			}
			if txt == "delete" && len(call.Args) == 2 {
				if f, ok := e.recvField(call.Args[0]); ok && e.f.maps[f] {
					e.useField(f)
					k, _ := e.expr(call.Args[1])
					fl := leanIdent(f)
					sb.WriteString(fmt.Sprintf("%slet %s := { %s with %s := %s.%s.filter (fun kv => kv.1 != %s) }\n", ind, e.rname, e.rname, fl, e.rname, fl, k))
					continue
				}
				e.fail("delete from %s", e.t.p.str(call.Args[0]))
			}
			if txt == "copy" && len(call.Args) == 2 {
				// copy(dst, src) on slices of pointers: the first min(len dst, len src) elements
				did, ok := call.Args[0].(*ast.Ident)
				if !ok || e.vars[did.Name] != tPtrList {
					e.fail("copy into %s", e.t.p.str(call.Args[0]))
				}
				src, sty := e.expr(call.Args[1])
				if sty != tPtrList {
					e.fail("copy from %s", e.t.p.str(call.Args[1]))
				}
				d := e.lnames[did.Name]
				sb.WriteString(fmt.Sprintf("%slet %s := (%s.take %s.length) ++ (%s.drop %s.length)\n", ind, d, src, d, d, src))
				continue
			}
			if nm, ok := e.f.calls[txt]; ok && txt == "panic" {
				// a panic ends the function: the flag is set and the results are what they are
				sb.WriteString(fmt.Sprintf("%slet %sCalled := true\n", ind, nm))
				vals := []string{}
				nOwn := len(e.f.resTypes) - len(e.f.capNames)
				if len(e.f.resNames) == len(e.f.capNames) {
					// unnamed own results: their zero values
					for j := 0; j < nOwn; j++ {
						switch e.f.resTypes[j] {
						case tBool, tPtr:
							vals = append(vals, "false")
						case tErr:
							vals = append(vals, "\"\"")
						default:
							vals = append(vals, "0")
						}
					}
					for _, cn := range e.f.capNames {
						vals = append(vals, e.lnames[cn])
					}
				} else {
					vals = e.namedResults()
				}
				sb.WriteString(ind + e.result(vals) + "\n")
				return sb.String()
			}
			if nm, ok := e.f.calls[txt]; ok && len(call.Args) >= 2 {
				sb.WriteString(fmt.Sprintf("%slet %sCalled := true\n", ind, nm))
				continue
			}
			if nm, ok := e.f.calls[txt]; ok && len(call.Args) <= 1 {
				x := "0"
				if len(call.Args) == 1 {
					if _, isIn := e.f.inputs[e.t.p.str(call.Args[0])]; isIn || txt != "close" {
						x, _ = e.expr(call.Args[0])
					}
				}
				// (<name>Count: how often the call has been made on this path)
				sb.WriteString(fmt.Sprintf("%slet %sCalled := true\n%slet %sArg := %s\n", ind, nm, ind, nm, x))
				continue
			}
			if txt == "atomic.AddUint32" {
				f, ok := e.recvField(call.Args[0])
				if !ok {
					e.fail("atomic add target")
				}
				e.useField(f)
				x, _ := e.rhs(call.Args[1])
				sb.WriteString(fmt.Sprintf("%slet %s := { %s with %s := (u32 (%s.%s + %s)) }\n", ind, e.rname, e.rname, leanIdent(f), e.rname, leanIdent(f), x))
				continue
			}
			if txt == "atomic.StoreUint32" {
				f, ok := e.recvField(call.Args[0])
				if !ok {
					e.fail("atomic store target")
				}
				e.useField(f)
				x, ty := e.rhs(call.Args[1])
				sb.WriteString(fmt.Sprintf("%slet %s := { %s with %s := %s }\n", ind, e.rname, e.rname, leanIdent(f), wrap2(tU32, ty, x)))
				continue
			}
			if sel, ok := call.Fun.(*ast.SelectorExpr); ok {
				if id, ok := sel.X.(*ast.Ident); ok && id.Name == e.rname {
					if cal, ok := e.t.funs[e.f.recv+"."+sel.Sel.Name]; ok && len(cal.resTypes) == 0 && cal.mutates && len(call.Args) == len(cal.params) && len(call.Args) > 0 {
						args := []string{}
						for _, a := range call.Args {
							x, _ := e.expr(a)
							args = append(args, "("+x+")")
						}
						if cal.view != e.f.view {
							e.noteLift(cal)
							sb.WriteString(fmt.Sprintf("%slet cr_ := %s %s %s\n", ind, cal.lean, e.recvArg(cal), strings.Join(args, " ")))
							sb.WriteString(e.recvBack(cal, "cr_", ind))
							continue
						}
						sb.WriteString(fmt.Sprintf("%slet %s := %s %s %s\n", ind, e.rname, cal.lean, e.rname, strings.Join(args, " ")))
						continue
					}
					if cal, ok := e.t.funs[e.f.recv+"."+sel.Sel.Name]; ok && len(cal.resTypes) == 0 && len(call.Args) == 0 {
						if cal.mutates {
							if cal.view != e.f.view {
								e.noteLift(cal)
								sb.WriteString(fmt.Sprintf("%slet cr_ := %s %s\n", ind, cal.lean, e.recvArg(cal)))
								sb.WriteString(e.recvBack(cal, "cr_", ind))
								continue
							}
							sb.WriteString(fmt.Sprintf("%slet %s := %s %s\n", ind, e.rname, cal.lean, e.rname))
						}
						continue
					}
				}
			}
			e.fail("call statement %s", txt)
		case *ast.IfStmt:
			sb.WriteString(e.ifStmt(v, rest, fall, ind))
			if e.ifReturns(v) {
				return sb.String()
			}
		case *ast.SwitchStmt:
			if v.Tag != nil || v.Init != nil {
				e.fail("switch with a tag")
			}
			sb.WriteString(e.ifStmt(switchToIf(v), rest, fall, ind))
			if e.ifReturns(switchToIf(v)) {
				return sb.String()
			}
		case *ast.BranchStmt:
			// in a slice of a loop body: `continue` ends the iteration - the slice yields its outputs as they are
			if v.Tok == token.CONTINUE && e.f.sliceBody {
				sb.WriteString(ind + fall + "\n")
				return sb.String()
			}
			e.fail("%s statement", v.Tok)
		case *ast.GoStmt:
			// `go func(..) { time.Sleep(d); ... }(..)`: a goroutine that first sleeps `d` (evaluated now: the closure does
			// not change it) - captured as the call time.Sleep(d)
			if nm, ok := e.f.calls[e.t.p.str(v.Call.Fun)]; ok {
				// `go r.loop(ctx)`: a captured call
				sb.WriteString(fmt.Sprintf("%slet %sCalled := true\n", ind, nm))
				continue
			}
			fl, ok := v.Call.Fun.(*ast.FuncLit)
			if nm, has := e.f.calls["go func"]; ok && has {
				// any other goroutine: only that it is started
				sb.WriteString(fmt.Sprintf("%slet %sCalled := true\n", ind, nm))
				continue
			}
			nm, has := e.f.calls["time.Sleep"]
			if !ok || !has || len(fl.Body.List) == 0 {
				e.fail("go statement")
			}
			es, ok := fl.Body.List[0].(*ast.ExprStmt)
			if !ok {
				e.fail("go statement: the goroutine does not start with time.Sleep")
			}
			c0, ok := es.X.(*ast.CallExpr)
			if !ok || e.t.p.str(c0.Fun) != "time.Sleep" || len(c0.Args) != 1 {
				e.fail("go statement: the goroutine does not start with time.Sleep")
			}
			x, _ := e.expr(c0.Args[0])
			sb.WriteString(fmt.Sprintf("%slet %sCalled := true\n%slet %sArg := %s\n", ind, nm, ind, nm, x))
		case *ast.RangeStmt:
			// `for _, op := range batch { total += int(op.Cost()) }` over a list input: a fold; inside the body
			// `<op>.Cost()` is the element
			if v.Key == nil || e.t.p.str(v.Key) != "_" || v.Value == nil {
				e.fail("range statement shape")
			}
			if f, ok := e.recvField(v.X); ok && e.f.maps[f] {
				// `for _, fn := range r.m { fn(args...) }`: every value is called once (Go picks the order; the list order
				// stands for it) - captured as the list `called`
				vn := e.t.p.str(v.Value)
				if len(v.Body.List) != 1 {
					e.fail("range over a map: body")
				}
				es, ok := v.Body.List[0].(*ast.ExprStmt)
				if !ok {
					e.fail("range over a map: body")
				}
				c0, ok := es.X.(*ast.CallExpr)
				if !ok || e.t.p.str(c0.Fun) != vn {
					e.fail("range over a map: body is not a call of the value")
				}
				if _, ok := e.vars["called"]; !ok {
					e.fail("range over a map without a `called` output")
				}
				e.useField(f)
				sb.WriteString(fmt.Sprintf("%slet called := called ++ %s.%s.map (fun kv => kv.2)\n", ind, e.rname, leanIdent(f)))
				continue
			}
			lst, lty := e.expr(v.X)
			if lty != tIntList {
				e.fail("range over %s", e.t.p.str(v.X))
			}
			if hasReturn(v.Body.List) {
				e.fail("return inside a range loop")
			}
			as := map[string]bool{}
			e.assigned(v.Body.List, as)
			names := []string{}
			for nm := range as {
				if nm == e.rname {
					e.fail("range body changes the receiver")
				}
				if _, ok := e.vars[nm]; ok {
					names = append(names, e.lnames[nm])
				}
			}
			sort.Strings(names)
			if len(names) != 1 {
				e.fail("range body must assign exactly one local")
			}
			el := e.t.p.str(v.Value) + "_Cost"
			save := e.snapshot()
			e.rangeElem = map[string]string{e.t.p.str(v.Value) + ".Cost()": el}
			sb.WriteString(fmt.Sprintf("%slet %s := %s.foldl (fun %s (%s : Int) =>\n", ind, names[0], lst, names[0], el))
			sb.WriteString(e.block(v.Body.List, names[0], ind+"    "))
			sb.WriteString(fmt.Sprintf("%s  ) %s\n", ind, names[0]))
			e.rangeElem = nil
			e.restore(save)
		case *ast.SendStmt:
			// `r.f <- x` as a statement: one more token (on a full channel the goroutine would block: the theorems about
			// such a definition carry `tokens < capacity` as a hypothesis)
			if f, ok := e.recvField(v.Chan); ok {
				if _, isChan := e.f.chans[f]; isChan {
					e.useField(f)
					sb.WriteString(fmt.Sprintf("%slet %s := { %s with %s := %s.%s + 1 }\n", ind, e.rname, e.rname, leanIdent(f), e.rname, leanIdent(f)))
					continue
				}
			}
			e.fail("send %s", e.t.p.str(v))
		case *ast.SelectStmt:
			ifs := e.selectToIf(v)
			sb.WriteString(e.ifStmt(ifs, rest, fall, ind))
			if e.ifReturns(ifs) {
				return sb.String()
			}
		case *ast.ForStmt:
			if v.Init == nil && v.Cond == nil && v.Post == nil && len(v.Body.List) == 1 {
				if sel, ok := v.Body.List[0].(*ast.SelectStmt); ok {
					// `for { select { case <-r.f: S  default: return X } }`: drains the channel; S (constant assignments to
					// locals only) has the effect of one execution iff the channel held a token
					sb.WriteString(e.drainLoop(sel, ind))
					return sb.String()
				}
			}
			sb.WriteString(e.forStmt(v, ind))
		case *ast.BlockStmt:
			sb.WriteString(e.block(append(append([]ast.Stmt{}, v.List...), rest...), fall, ind))
			return sb.String()
		default:
			e.fail("statement %T", s)
		}
	}
	sb.WriteString(ind + fall + "\n")
	return sb.String()
}

func wrap2(lty, rty gty, x string) string {
	if lty == tU32 && rty != tU32 {
		return "(u32 " + x + ")"
	}
	return x
}

func (e *env) rhs(x ast.Expr) (string, gty) {
	// error values: `X{...}` / `X{}` composite literals become their type name; fmt.Errorf(...) becomes "error"
	switch v := x.(type) {
	case *ast.CompositeLit:
		return fmt.Sprintf("%q", e.t.p.str(v.Type)), tErr
	case *ast.CallExpr:
		if e.t.p.str(v.Fun) == "fmt.Errorf" || e.t.p.str(v.Fun) == "errors.New" {
			return "\"error\"", tErr
		}
	}
	return e.expr(x)
}

func (e *env) lhsType(x ast.Expr) gty {
	if id, ok := x.(*ast.Ident); ok {
		if ty, ok := e.vars[id.Name]; ok {
			return ty
		}
		e.fail("unknown variable %s", id.Name)
	}
	if f, ok := e.recvField(x); ok {
		return e.useField(f)
	}
	if ix, ok := x.(*ast.IndexExpr); ok {
		if f, ok := e.recvField(ix.X); ok && e.f.maps[f] {
			return tInt
		}
		if f, ok := e.recvField(ix.X); ok && e.useField(f) == tPtrList {
			return tPtr
		}
	}
	e.fail("assignment target %s", e.t.p.str(x))
	return tUnknown
}

func switchToIf(v *ast.SwitchStmt) *ast.IfStmt {
	var root, cur *ast.IfStmt
	var dflt *ast.BlockStmt
	for _, c := range v.Body.List {
		cc := c.(*ast.CaseClause)
		if cc.List == nil {
			dflt = &ast.BlockStmt{List: cc.Body}
			continue
		}
		var cond ast.Expr = cc.List[0]
		for _, o := range cc.List[1:] {
			cond = &ast.BinaryExpr{X: cond, Op: token.LOR, Y: o}
		}
		n := &ast.IfStmt{Cond: cond, Body: &ast.BlockStmt{List: cc.Body}}
		if root == nil {
			root = n
		} else {
			cur.Else = n
		}
		cur = n
	}
	if root == nil {
		return &ast.IfStmt{Cond: ast.NewIdent("true"), Body: dflt}
	}
	if dflt != nil {
		cur.Else = dflt
	}
	return root
}

func (e *env) ifReturns(v *ast.IfStmt) bool {
	b := []ast.Stmt{v.Body}
	if v.Else != nil {
		b = append(b, v.Else)
	}
	return hasReturn(b)
}

func elseStmts(v *ast.IfStmt) []ast.Stmt {
	switch x := v.Else.(type) {
	case nil:
		return nil
	case *ast.BlockStmt:
		return x.List
	case *ast.IfStmt:
		return []ast.Stmt{x}
	}
	return nil
}

func (e *env) ifStmt(v *ast.IfStmt, rest []ast.Stmt, fall string, ind string) string {
	var sb strings.Builder
	if v.Init != nil {
		// `if x := E; cond { ... }`: the definition first (x is not used after the statement in this subset)
		as, ok := v.Init.(*ast.AssignStmt)
		if !ok || (as.Tok != token.DEFINE && as.Tok != token.ASSIGN) || len(as.Lhs) != 1 || len(as.Rhs) != 1 {
			e.fail("if with an init statement that is not a definition or an assignment")
		}
		x, ty := e.rhs(as.Rhs[0])
		if ty == tUntyped {
			ty = tInt
		}
		id, isId := as.Lhs[0].(*ast.Ident)
		if !isId {
			e.fail("if with an init statement that assigns a field")
		}
		if as.Tok == token.ASSIGN {
			if _, known := e.vars[id.Name]; !known {
				e.fail("assignment to unknown variable %s", id.Name)
			}
			sb.WriteString(fmt.Sprintf("%slet %s := %s\n", ind, e.lnames[id.Name], x))
		} else {
			ln := e.setVar(id.Name, ty)
			sb.WriteString(fmt.Sprintf("%slet %s : %s := %s\n", ind, ln, ty.lean(), x))
		}
	}
	var c string
	if cal := e.mutCall(v.Cond); cal != nil && cal.resTypes[0] == tBool {
		// `if r.f() {` where f changes the receiver: the call first, then the test of its result
		if cal.view != e.f.view {
			e.noteLift(cal)
			sb.WriteString(fmt.Sprintf("%slet (cr_, cond_) := %s %s\n", ind, cal.lean, e.recvArg(cal)))
			sb.WriteString(e.recvBack(cal, "cr_", ind))
		} else {
			sb.WriteString(fmt.Sprintf("%slet (%s, cond_) := %s %s\n", ind, e.rname, cal.lean, e.rname))
		}
		c = "cond_"
	} else {
		c, _ = e.expr(v.Cond)
	}
	if e.ifReturns(v) {
		// a branch returns: the continuation is duplicated into both branches
		save := e.snapshot()
		sb.WriteString(fmt.Sprintf("%sif %s then\n", ind, c))
		sb.WriteString(e.block(append(append([]ast.Stmt{}, v.Body.List...), rest...), fall, ind+"  "))
		e.restore(save)
		sb.WriteString(ind + "else\n")
		sb.WriteString(e.block(append(append([]ast.Stmt{}, elseStmts(v)...), rest...), fall, ind+"  "))
		e.restore(save)
		return sb.String()
	}
	as := map[string]bool{}
	e.assigned([]ast.Stmt{v.Body}, as)
	if v.Else != nil {
		e.assigned([]ast.Stmt{v.Else}, as)
	}
	names := []string{}
	for n := range as {
		if n == e.rname {
			names = append(names, n)
		} else if _, ok := e.vars[n]; ok {
			names = append(names, e.lnames[n])
		}
	}
	sort.Strings(names)
	if len(names) == 0 {
		// nothing assigned: the statement can only contain skipped calls
		e.block(v.Body.List, "()", ind)
		if v.Else != nil {
			e.block(elseStmts(v), "()", ind)
		}
		return ""
	}
	tup := tupleOf(names)
	save := e.snapshot()
	sb.WriteString(fmt.Sprintf("%slet %s :=\n%s  if %s then\n", ind, tup, ind, c))
	sb.WriteString(e.block(v.Body.List, tup, ind+"    "))
	e.restore(save)
	sb.WriteString(ind + "  else\n")
	sb.WriteString(e.block(elseStmts(v), tup, ind+"    "))
	e.restore(save)
	return sb.String()
}

type snap struct {
	vars   map[string]gty
	lnames map[string]string
}

func (e *env) snapshot() snap {
	s := snap{map[string]gty{}, map[string]string{}}
	for k, v := range e.vars {
		s.vars[k] = v
	}
	for k, v := range e.lnames {
		s.lnames[k] = v
	}
	return s
}
func (e *env) restore(s snap) {
	e.vars, e.lnames = map[string]gty{}, map[string]string{}
	for k, v := range s.vars {
		e.vars[k] = v
	}
	for k, v := range s.lnames {
		e.lnames[k] = v
	}
}

// forStmt: `for i := 0; i < N; i++ { body }` -> fold over List.range N
func (e *env) forStmt(v *ast.ForStmt, ind string) string {
	init, ok := v.Init.(*ast.AssignStmt)
	if !ok || init.Tok != token.DEFINE || len(init.Lhs) != 1 {
		e.fail("for loop init")
	}
	iv := init.Lhs[0].(*ast.Ident).Name
	if bl, ok := init.Rhs[0].(*ast.BasicLit); !ok || bl.Value != "0" {
		e.fail("for loop must start at 0")
	}
	cond, ok := v.Cond.(*ast.BinaryExpr)
	if !ok || cond.Op != token.LSS || e.t.p.str(cond.X) != iv {
		e.fail("for loop condition")
	}
	post, ok := v.Post.(*ast.IncDecStmt)
	if !ok || post.Tok != token.INC || e.t.p.str(post.X) != iv {
		e.fail("for loop post statement")
	}
	if hasReturn(v.Body.List) {
		e.fail("return inside a for loop")
	}
	ast.Inspect(v.Body, func(n ast.Node) bool {
		if b, ok := n.(*ast.BranchStmt); ok {
			e.fail("%s inside a for loop", b.Tok)
		}
		return true
	})
	n, _ := e.expr(cond.Y)
	as := map[string]bool{}
	e.assigned(v.Body.List, as)
	if as[iv] {
		e.fail("loop variable assigned in the body")
	}
	names := []string{}
	for nm := range as {
		if nm == e.rname {
			names = append(names, nm)
		} else if _, ok := e.vars[nm]; ok {
			names = append(names, e.lnames[nm])
		}
	}
	sort.Strings(names)
	if len(names) == 0 {
		return ""
	}
	tup := tupleOf(names)
	save := e.snapshot()
	li := e.setVar(iv, tInt)
	var sb strings.Builder
	pat := tup
	if len(names) > 1 {
		pat = "⟨" + strings.Join(names, ", ") + "⟩"
	}
	sb.WriteString(fmt.Sprintf("%slet %s := (List.range (Int.toNat %s)).foldl (fun %s (%s_n : Nat) =>\n%s    let %s : Int := %s_n\n", ind, tup, n, pat, li, ind, li, li))
	sb.WriteString(e.block(v.Body.List, tup, ind+"    "))
	sb.WriteString(fmt.Sprintf("%s  ) %s\n", ind, tup))
	e.restore(save)
	return sb.String()
}

// translate one method. sliceFrom/sliceN: translate only `sliceN` statements starting at the one that defines
// `sliceFrom` (for a computation embedded in a function that is otherwise outside the subset); the definition
// then returns the variables listed in sliceOut.
type tspec struct {
	file, recv, name, lean string
	sliceFrom              string
	sliceN                 int
	sliceOut               []string
	view                   string
	sliceAt                string            // like sliceFrom, but the first statement (anywhere in the body, also inside closures and select arms) whose text starts with this
	inputs                 map[string]string // source text of an expression -> "name:type" (int|bool): an input of the translated code
	chanCap                map[string]string // field that is a `chan struct{}` -> the field holding its capacity: the channel is the number of tokens in it
	extraOut               []string          // extra results of a whole-function translation: "name:list"
	mapFields              []string          // fields that are maps: association lists (key, value), keys and values opaque integers
	loopBody               bool              // the slice lies in a loop body (`continue` allowed)
	sliceHas               string            // ... and contains this
	captureCalls           map[string]string // text of a called function -> name: the statement `f(x)` sets <name>Called := true, <name>Arg := x
	captureEmit            bool              // an Emit / emit call assigns its event (and message constant) to the string variable `ev`
	until                  string            // translate only the statements before the first call statement of this function
	opaque                 bool
}

func (t *translator) translate(sp tspec) (res *tfun, why string) {
	fd := t.p.fn(sp.file, sp.recv, sp.name)
	if fd == nil {
		return nil, "function not found"
	}
	st := t.structs[sp.recv]
	if st == nil {
		return nil, "receiver struct not found"
	}
	mapsSet := map[string]bool{}
	for _, m := range sp.mapFields {
		mapsSet[m] = true
	}
	f := &tfun{maps: mapsSet, lean: sp.lean, decl: fd, recv: sp.recv, st: st, opaque: sp.opaque, view: sp.view, inputs: sp.inputs, capture: sp.captureEmit, calls: sp.captureCalls, chans: sp.chanCap, sliceBody: sp.loopBody}
	e := &env{t: t, f: f, vars: map[string]gty{}, lnames: map[string]string{}}
	e.rname = fd.Recv.List[0].Names[0].Name
	defer func() {
		if r := recover(); r != nil {
			if rf, ok := r.(refuse); ok {
				res, why = nil, rf.why
				return
			}
			panic(r)
		}
	}()
	for _, p := range fd.Type.Params.List {
		if sp.sliceAt != "" {
			break // a slice from deep inside the body: what it reads is named by `inputs`
		}
		ty := typeOfExpr(p.Type)
		for _, nm := range p.Names {
			if ty == tUnknown || ty == tF64 {
				e.fail("parameter %s has a type outside the subset", nm.Name)
			}
			if ty == tPtr && sp.sliceFrom == "" && !sp.opaque {
				continue // contexts, ids: not used by the translated subset (a use would fail as unknown identifier)
			}
			f.params = append(f.params, nm.Name)
			f.ptypes = append(f.ptypes, ty)
			e.setVar(nm.Name, ty)
		}
	}
	stmts := fd.Body.List
	if sp.until != "" {
		cut := -1
		for i, s := range stmts {
			if es, ok := s.(*ast.ExprStmt); ok {
				if c, ok := es.X.(*ast.CallExpr); ok && t.p.str(c.Fun) == sp.until {
					cut = i
					break
				}
			}
			if strings.HasPrefix(t.p.str(s), sp.until) {
				cut = i
				break
			}
		}
		if cut < 0 {
			return nil, "end of the prefix (" + sp.until + ") not found"
		}
		stmts = stmts[:cut]
	}
	if sp.sliceAt != "" {
		var found []ast.Stmt
		ast.Inspect(fd.Body, func(n ast.Node) bool {
			if found != nil {
				return false
			}
			var list []ast.Stmt
			switch b := n.(type) {
			case *ast.BlockStmt:
				list = b.List
			case *ast.CommClause:
				list = b.Body
			case *ast.CaseClause:
				list = b.Body
			}
			for i, st := range list {
				if strings.HasPrefix(noLeadingComments(t.p.str(st)), sp.sliceAt) && strings.Contains(t.p.str(st), sp.sliceHas) && i+sp.sliceN <= len(list) {
					found = list[i : i+sp.sliceN]
					return false
				}
			}
			return true
		})
		if found == nil {
			return nil, "slice start not found"
		}
		stmts = found
		f.params, f.ptypes = nil, nil
		if len(sp.sliceOut) == 0 {
			// the tail of the function: `return` statements keep their meaning, results are the function's
			for _, r := range fd.Type.Results.List {
				if len(r.Names) == 0 {
					f.resTypes = append(f.resTypes, typeOfExpr(r.Type))
				}
				for _, nm := range r.Names {
					f.resNames = append(f.resNames, nm.Name)
					f.resTypes = append(f.resTypes, typeOfExpr(r.Type))
					e.setVar(nm.Name, typeOfExpr(r.Type))
				}
			}
		} else {
			sp.sliceFrom = sp.sliceAt
		}
		if sp.captureEmit {
			e.setVar("ev", tErr)
		}
		for _, nm := range sortedValues(sp.captureCalls) {
			e.setVar(nm+"Called", tBool)
			e.setVar(nm+"Arg", tInt)
		}
	} else if sp.sliceFrom != "" {
		start := -1
		for i, s := range stmts {
			if as, ok := s.(*ast.AssignStmt); ok && as.Tok == token.DEFINE && len(as.Lhs) == 1 && t.p.str(as.Lhs[0]) == sp.sliceFrom {
				start = i
				break
			}
		}
		if start < 0 || start+sp.sliceN > len(stmts) {
			return nil, "slice start not found"
		}
		stmts = stmts[start : start+sp.sliceN]
		f.params, f.ptypes = nil, nil
		// named results of the enclosing function are locals here
		if fd.Type.Results != nil {
			for _, r := range fd.Type.Results.List {
				for _, nm := range r.Names {
					e.setVar(nm.Name, typeOfExpr(r.Type))
				}
			}
		}
	} else if fd.Type.Results != nil {
		for _, r := range fd.Type.Results.List {
			ty := typeOfExpr(r.Type)
			if len(r.Names) == 0 {
				f.resTypes = append(f.resTypes, ty)
			}
			for _, nm := range r.Names {
				f.resNames = append(f.resNames, nm.Name)
				f.resTypes = append(f.resTypes, ty)
				e.setVar(nm.Name, ty)
			}
		}
	}
	if sp.sliceAt == "" {
		for _, o := range sp.extraOut {
			nm := o[:strings.Index(o, ":")]
			e.setVar(nm, tIntList)
			f.resNames = append(f.resNames, nm)
			f.resTypes = append(f.resTypes, tIntList)
			f.capNames = append(f.capNames, nm)
		}
		for _, nm := range sortedValues(sp.captureCalls) {
			e.setVar(nm+"Called", tBool)
			e.setVar(nm+"Arg", tInt)
			f.resNames = append(f.resNames, nm+"Called")
			f.resTypes = append(f.resTypes, tBool)
			f.capNames = append(f.capNames, nm+"Called")
		}
		if sp.captureEmit {
			e.setVar("ev", tErr)
			f.resNames = append(f.resNames, "ev")
			f.resTypes = append(f.resTypes, tErr)
			f.capNames = append(f.capNames, "ev")
		}
	}
	as := map[string]bool{}
	e.assigned(stmts, as)
	f.mutates = as[e.rname]
	var body string
	var retTy []string
	if f.mutates {
		retTy = append(retTy, "T_"+t.gen+"_"+sp.recv+sp.view)
	}
	if sp.sliceFrom != "" {
		// the slice "returns" the listed variables; an early return inside it yields them as they are then
		pre := ""
		for _, nm := range sp.sliceOut {
			if ty, ok := e.vars[nm]; ok { // a named result of the enclosing function: starts at its zero value
				zero := "0"
				if ty == tErr {
					zero = "\"\""
				}
				if ty == tBool || ty == tPtr {
					zero = "false"
				}
				pre += fmt.Sprintf("  let %s : %s := %s\n", e.lnames[nm], ty.lean(), zero)
			}
		}
		f.resNames = sp.sliceOut
		// result types are known only after translation: translate with a placeholder continuation
		body = pre + e.blockSlice(stmts, sp.sliceOut)
		for _, nm := range sp.sliceOut {
			retTy = append(retTy, e.vars[nm].lean())
			f.resTypes = append(f.resTypes, e.vars[nm])
		}
	} else {
		for _, nm := range sortedValues(sp.captureCalls) {
			body += fmt.Sprintf("  let %sArg : Int := 0\n", nm)
		}
		for _, nm := range f.resNames {
			zero := "0"
			if e.vars[nm] == tIntList {
				body += fmt.Sprintf("  let %s : List Int := []\n", e.lnames[nm])
				continue
			}
			switch e.vars[nm] {
			case tBool, tPtr:
				zero = "false"
			case tErr:
				zero = "\"\""
			}
			body += fmt.Sprintf("  let %s : %s := %s\n", e.lnames[nm], e.vars[nm].lean(), zero)
		}
		fall := e.result(e.namedResults())
		if sp.until != "" && len(f.resNames) == 0 {
			zs := []string{}
			for _, ty := range f.resTypes {
				switch ty {
				case tErr:
					zs = append(zs, "\"\"")
				case tBool, tPtr:
					zs = append(zs, "false")
				default:
					zs = append(zs, "0")
				}
			}
			fall = e.result(zs)
		}
		body += e.block(stmts, fall, "  ")
		for _, ty := range f.resTypes {
			retTy = append(retTy, ty.lean())
		}
	}
	rt := "Unit"
	if len(retTy) > 0 {
		rt = strings.Join(retTy, " × ")
	}
	var sb strings.Builder
	sk := append([]string{}, f.skipped...)
	sort.Strings(sk)
	sb.WriteString(fmt.Sprintf("/-- translated from %s (%s).%s; skipped calls: %s -/\n", sp.file, sp.recv, sp.name, strings.Join(uniq(sk), ", ")))
	sb.WriteString(fmt.Sprintf("def %s (%s : T_%s_%s)", sp.lean, e.rname, t.gen, sp.recv+sp.view))
	for i, p := range f.params {
		sb.WriteString(fmt.Sprintf(" (%s : %s)", leanIdent(p), f.ptypes[i].lean()))
	}
	for i, p := range f.onames {
		sb.WriteString(fmt.Sprintf(" (%s : %s)", p, f.otypes[i].lean()))
	}
	sb.WriteString(fmt.Sprintf(" : %s :=\n%s", rt, body))
	f.text = sb.String()
	t.funs[sp.recv+"."+sp.name] = f
	return f, ""
}

// blockSlice: like block, the fall-through value being the tuple of the slice's output variables
func (e *env) blockSlice(stmts []ast.Stmt, out []string) string {
	// output variables defined inside the slice get their Lean names when defined; use Go names mapped lazily
	names := []string{}
	for _, n := range out {
		names = append(names, leanIdent(n))
	}
	fall := tupleOf(names)
	if e.f.mutates {
		fall = tupleOf(append([]string{e.rname}, names...))
	}
	// `return` inside the slice yields the same tuple
	e.f.resNames = out
	for _, n := range out {
		if _, ok := e.lnames[n]; !ok {
			e.lnames[n] = leanIdent(n)
		}
	}
	return e.block(stmts, fall, "  ")
}

func uniq(s []string) []string {
	out := []string{}
	for i, x := range s {
		if i == 0 || x != s[i-1] {
			out = append(out, x)
		}
	}
	return out
}

// emit writes the structures (only the fields the translated functions use) and the definitions.
func (t *translator) emit(specs []tspec, sb *strings.Builder) {
	type item struct {
		sp  tspec
		f   *tfun
		why string
	}
	items := []item{}
	for _, sp := range specs {
		f, why := t.translate(sp)
		items = append(items, item{sp, f, why})
	}
	// a caller's structure includes the fields of the callees it lifts (to a fixpoint)
	for changed := true; changed; {
		changed = false
		for _, l := range t.lifts {
			for fn := range t.used[l[0]] {
				if t.used[l[1]] == nil {
					t.used[l[1]] = map[string]bool{}
				}
				if !t.used[l[1]][fn] {
					t.used[l[1]][fn] = true
					changed = true
				}
			}
		}
	}
	for _, it := range items {
		if it.f != nil {
			it.f.text = t.expandLifts(it.f.text, t.structs)
		}
	}
	recvs := []string{}
	seen := map[string]bool{}
	for _, it := range items {
		if !seen[it.sp.recv+"|"+it.sp.view] {
			seen[it.sp.recv+"|"+it.sp.view] = true
			recvs = append(recvs, it.sp.recv+"|"+it.sp.view)
		}
	}
	for _, rv := range recvs {
		r := rv[:strings.Index(rv, "|")]
		view := rv[strings.Index(rv, "|")+1:]
		st := t.structs[r]
		if st == nil {
			continue
		}
		sb.WriteString(fmt.Sprintf("structure T_%s_%s where\n", t.gen, r+view))
		n := 0
		for _, fn := range st.fields {
			if t.used[r+view][fn] {
				sb.WriteString(fmt.Sprintf("  %s : %s\n", leanIdent(fn), st.ftype[fn].lean()))
				n++
			}
		}
		if n == 0 {
			sb.WriteString("  unit : Unit := ()\n")
		}
		sb.WriteString("deriving DecidableEq, Repr\n\n")
	}
	for _, it := range items {
		if it.f == nil {
			sb.WriteString(fmt.Sprintf("-- REFUSED %s: %s\n\n", it.sp.lean, it.why))
			continue
		}
		sb.WriteString(it.f.text + "\n")
	}
}

func transAll(v1, v2 *pkg) string {
	var sb strings.Builder
	sb.WriteString("/- GENERATED by /verif/extract (trans.go) from the go-batcher sources on every run. Do not edit. -/\nimport GoBatcher.Model.GoSem\nnamespace GoBatcher.Trans\nopen GoBatcher.GoSem\n\n")
	t1 := newTranslator(v1, "v1")
	t1.emit([]tspec{
		{file: "batcher.go", recv: "Batcher", name: "incTarget", lean: "v1_incTarget"},
		{file: "batcher.go", recv: "Batcher", name: "trySetTargetToZero", lean: "v1_trySetTargetToZero"},
		{file: "batcher.go", recv: "Batcher", name: "Start", lean: "v1_auditArm", sliceAt: "if len(r.buffer) < 1 && time.Since(lastFlushWithRecords)", sliceN: 1, sliceOut: []string{"ev"}, captureEmit: true,
			inputs: map[string]string{"len(r.buffer)": "bufLen:int", "time.Since(lastFlushWithRecords)": "sinceLast:int", "r.maxOperationTime": "mot:int"}},
		{file: "batcher.go", recv: "Batcher", name: "getTarget", lean: "v1_getTarget"},
		{file: "batcher.go", recv: "Batcher", name: "NeedsCapacity", lean: "v1_NeedsCapacity"},
		{file: "batcher.go", recv: "Batcher", name: "Start", lean: "v1_capacityArm", sliceAt: "if r.ratelimiter != nil {", sliceHas: "r.NeedsCapacity()", sliceN: 1, sliceOut: []string{"giveMeCalled", "giveMeArg"},
			inputs: map[string]string{"r.ratelimiter != nil": "limited:bool"}, captureCalls: map[string]string{"r.ratelimiter.GiveMe": "giveMe"}},
		{file: "batcher.go", recv: "Batcher", name: "Enqueue", lean: "v1_Enqueue", view: "_enqw", opaque: true,
			inputs: map[string]string{"r.errorOnFullBuffer": "errorOnFull:bool"}, chanCap: map[string]string{"buffer": "in:bufCap"}},
		{file: "batcher.go", recv: "Batcher", name: "Enqueue", lean: "v1_enqueueTail", view: "_enq", sliceAt: "r.incTarget(int(op.Cost()))", sliceN: 4,
			inputs: map[string]string{"op.Cost()": "cost:int", "r.errorOnFullBuffer": "errorOnFull:bool"}, chanCap: map[string]string{"buffer": "in:bufCap"}},
		{file: "batcher.go", recv: "Batcher", name: "Start", lean: "v1_finishTail", sliceAt: "var total int = 0", sliceN: 3,
			sliceOut: []string{"total"}, inputs: map[string]string{"batch": "costs:list"}},
		{file: "batcher.go", recv: "Batcher", name: "Stop", lean: "v1_Stop", view: "_st",
			inputs: map[string]string{"r.stop != nil": "hasStop:bool"}, captureCalls: map[string]string{"close": "closeStop", "r.shutdown.Wait": "wait"}},
		{file: "batcher.go", recv: "Batcher", name: "Flush", lean: "v1_Flush", view: "_fl", chanCap: map[string]string{"flush": "1"}},
		{file: "batcher.go", recv: "Batcher", name: "Pause", lean: "v1_Pause", view: "_pz", chanCap: map[string]string{"pause": "1"}},
		{file: "batcher.go", recv: "Batcher", name: "resume", lean: "v1_resume", view: "_ph"},
		{file: "batcher.go", recv: "Batcher", name: "Start", lean: "v1_pauseArm", view: "_ph", sliceAt: "r.emit(PauseEvent", sliceN: 4, sliceOut: []string{"sleepCalled", "sleepArg"},
			inputs: map[string]string{"r.pauseTime": "pauseTime:int"}, captureCalls: map[string]string{"time.Sleep": "sleep"}},
		{file: "batcher.go", recv: "Batcher", name: "Start", lean: "v1_effMot", sliceAt: "maxOperationTime := r.maxOperationTime", sliceN: 2, sliceOut: []string{"maxOperationTime"},
			inputs: map[string]string{"r.maxOperationTime": "mot:int", "watcher.MaxOperationTime()": "wMot:int"}},
		{file: "batcher.go", recv: "Batcher", name: "applyDefaults", lean: "v1_applyDefaults", view: "_cfg"},
		{file: "batcher.go", recv: "Batcher", name: "Start", lean: "v1_startHead", view: "_cfg", until: "capacityTimer :=",
			inputs: map[string]string{"r.phase": "phase:int", "r.buffer == nil": "noBuffer:bool"}},
		{file: "batcher.go", recv: "Batcher", name: "Enqueue", lean: "v1_enqueueAdmit", until: "r.incTarget", opaque: true, view: "_cfg"},
		{file: "eventer.go", recv: "eventer", name: "AddListener", lean: "v1_ev_AddListener", mapFields: []string{"listeners"},
			inputs: map[string]string{"uuid.New()": "newId:int", "fn": "fn:int"}},
		{file: "eventer.go", recv: "eventer", name: "RemoveListener", lean: "v1_ev_RemoveListener", mapFields: []string{"listeners"}},
		{file: "eventer.go", recv: "eventer", name: "emit", lean: "v1_ev_emit", mapFields: []string{"listeners"}, extraOut: []string{"called:list"}},
		{file: "operation.go", recv: "Operation", name: "MakeAttempt", lean: "v1_op_MakeAttempt"},
		{file: "operation.go", recv: "Operation", name: "Attempt", lean: "v1_op_Attempt"},
		{file: "operation.go", recv: "Operation", name: "Cost", lean: "v1_op_Cost"},
		{file: "operation.go", recv: "Operation", name: "IsBatchable", lean: "v1_op_IsBatchable"},
		{file: "azure-shared-resource.go", recv: "AzureSharedResource", name: "MaxCapacity", lean: "v1_sr_MaxCapacity"},
		{file: "azure-shared-resource.go", recv: "AzureSharedResource", name: "Capacity", lean: "v1_sr_Capacity"},
		{file: "azure-shared-resource.go", recv: "AzureSharedResource", name: "calc", lean: "v1_sr_calc"},
		{file: "azure-shared-resource.go", recv: "AzureSharedResource", name: "GiveMe", lean: "v1_sr_GiveMe"},
		{file: "azure-shared-resource.go", recv: "AzureSharedResource", name: "clearPartitionId", lean: "v1_sr_clearPartitionId"},
		{file: "azure-shared-resource.go", recv: "AzureSharedResource", name: "getAllocatedAndRandomUnallocatedPartition", lean: "v1_sr_pick", opaque: true},
		{file: "azure-shared-resource.go", recv: "AzureSharedResource", name: "Start", lean: "v1_sr_grant", view: "_grant", sliceAt: "requested := time.Now()", sliceN: 9, loopBody: true,
			sliceOut:     []string{"sleepCalled", "sleepArg", "markCalled"},
			inputs:       map[string]string{"time.Now()": "now:int", "time.Since(requested)": "elapsed:int", "r.leaseManager.leasePartition(ctx, id, index)": "granted:int"},
			captureCalls: map[string]string{"time.Sleep": "sleep", "r.setPartitionId": "mark", "recalc": "calc"}},
		{file: "azure-shared-resource.go", recv: "AzureSharedResource", name: "Start", lean: "v1_sr_startHead", view: "_ph", until: "recalc := func"},
		{file: "azure-shared-resource.go", recv: "AzureSharedResource", name: "Stop", lean: "v1_sr_Stop", view: "_ph",
			inputs: map[string]string{"r.stop != nil": "hasStop:bool"}, captureCalls: map[string]string{"close": "closeStop", "r.shutdown.Wait": "wait"}},
		{file: "azure-shared-resource.go", recv: "AzureSharedResource", name: "Provision", lean: "v1_sr_provisionTail", view: "_pt", sliceAt: "r.partitions = make([]*string, count)", sliceN: 4,
			inputs: map[string]string{"count": "count:int", "r.leaseManager.createPartitions(ctx, count)": "createErr:err"}},
		{file: "azure-shared-resource.go", recv: "AzureSharedResource", name: "Provision", lean: "v1_sr_requirements", until: "r.partlock.Lock", view: "_req"},
		{file: "azure-shared-resource.go", recv: "AzureSharedResource", name: "Provision", lean: "v1_sr_partitionCount", sliceFrom: "count", sliceN: 2, sliceOut: []string{"count", "err"}},
		{file: "provisioned-resource.go", recv: "ProvisionedResource", name: "MaxCapacity", lean: "v1_pr_MaxCapacity"},
		{file: "provisioned-resource.go", recv: "ProvisionedResource", name: "Capacity", lean: "v1_pr_Capacity"},
	}, &sb)
	t2 := newTranslator(v2, "v2")
	t2.emit([]tspec{
		{file: "batcher.go", recv: "batcher", name: "incTarget", lean: "v2_incTarget"},
		{file: "batcher.go", recv: "batcher", name: "confirmTargetIsZero", lean: "v2_confirmTargetIsZero"},
		{file: "batcher.go", recv: "batcher", name: "Start", lean: "v2_auditArm", sliceAt: "if r.buffer.size() == 0 && time.Since(r.lastFlushWithRecords)", sliceN: 1, sliceOut: []string{"ev"}, captureEmit: true,
			inputs: map[string]string{"r.buffer.size()": "bufSize:int", "time.Since(r.lastFlushWithRecords)": "sinceLast:int", "r.maxOperationTime": "mot:int", "r.confirmInflightIsZero()": "inflightIsZero:bool"}},
		{file: "batcher.go", recv: "batcher", name: "NeedsCapacity", lean: "v2_NeedsCapacity"},
		{file: "batcher.go", recv: "batcher", name: "Start", lean: "v2_capacityArm", sliceAt: "if r.ratelimiter != nil {", sliceHas: "r.NeedsCapacity()", sliceN: 1, sliceOut: []string{"giveMeCalled", "giveMeArg"},
			inputs: map[string]string{"r.ratelimiter != nil": "limited:bool", "r.emitRequest": "emitRequest:bool"}, captureCalls: map[string]string{"r.ratelimiter.GiveMe": "giveMe"}},
		{file: "batcher.go", recv: "batcher", name: "Enqueue", lean: "v2_Enqueue", view: "_enqw", opaque: true,
			inputs: map[string]string{"r.buffer.enqueue(op, r.errorOnFullBuffer)": "enqErr:err"}},
		{file: "batcher.go", recv: "batcher", name: "Enqueue", lean: "v2_enqueueTail", sliceAt: "r.incTarget(int(op.Cost()))", sliceN: 4,
			inputs: map[string]string{"op.Cost()": "cost:int", "r.buffer.enqueue(op, r.errorOnFullBuffer)": "enqErr:err"}},
		{file: "batcher.go", recv: "batcher", name: "tryReserveBatchSlot", lean: "v2_tryReserveBatchSlot", view: "_slots", chanCap: map[string]string{"inflight": "maxConcurrentBatches"}},
		{file: "batcher.go", recv: "batcher", name: "releaseBatchSlot", lean: "v2_releaseBatchSlot", view: "_slots", chanCap: map[string]string{"inflight": "maxConcurrentBatches"}},
		{file: "batcher.go", recv: "batcher", name: "confirmInflightIsZero", lean: "v2_confirmInflightIsZero", view: "_slots", chanCap: map[string]string{"inflight": "maxConcurrentBatches"}},
		{file: "batcher.go", recv: "batcher", name: "Inflight", lean: "v2_Inflight", view: "_slots", chanCap: map[string]string{"inflight": "maxConcurrentBatches"}},
		{file: "batcher.go", recv: "batcher", name: "WithRateLimiter", lean: "v2_WithRateLimiter", view: "_set", opaque: true, captureCalls: map[string]string{"panic": "panic"}},
		{file: "batcher.go", recv: "batcher", name: "WithFlushInterval", lean: "v2_WithFlushInterval", view: "_set", opaque: true, captureCalls: map[string]string{"panic": "panic"}},
		{file: "batcher.go", recv: "batcher", name: "WithCapacityInterval", lean: "v2_WithCapacityInterval", view: "_set", opaque: true, captureCalls: map[string]string{"panic": "panic"}},
		{file: "batcher.go", recv: "batcher", name: "WithAuditInterval", lean: "v2_WithAuditInterval", view: "_set", opaque: true, captureCalls: map[string]string{"panic": "panic"}},
		{file: "batcher.go", recv: "batcher", name: "WithMaxOperationTime", lean: "v2_WithMaxOperationTime", view: "_set", opaque: true, captureCalls: map[string]string{"panic": "panic"}},
		{file: "batcher.go", recv: "batcher", name: "WithPauseTime", lean: "v2_WithPauseTime", view: "_set", opaque: true, captureCalls: map[string]string{"panic": "panic"}},
		{file: "batcher.go", recv: "batcher", name: "WithErrorOnFullBuffer", lean: "v2_WithErrorOnFullBuffer", view: "_set", opaque: true, captureCalls: map[string]string{"panic": "panic"}},
		{file: "batcher.go", recv: "batcher", name: "shutdown", lean: "v2_shutdown", view: "_ph", captureEmit: true, captureCalls: map[string]string{"r.buffer.shutdown": "bufShutdown"}},
		{file: "batcher.go", recv: "batcher", name: "Flush", lean: "v2_Flush", view: "_fl", chanCap: map[string]string{"flush": "1"}},
		{file: "batcher.go", recv: "batcher", name: "Pause", lean: "v2_Pause", view: "_pz", chanCap: map[string]string{"pause": "1"}},
		{file: "batcher.go", recv: "batcher", name: "processBatch", lean: "v2_finishTail", view: "_fin", sliceAt: "var total int = 0", sliceN: 4,
			sliceOut: []string{"total"}, inputs: map[string]string{"batch": "costs:list"}},
		{file: "batcher.go", recv: "batcher", name: "resume", lean: "v2_resume", view: "_ph"},
		{file: "batcher.go", recv: "batcher", name: "Start", lean: "v2_pauseArm", view: "_ph", sliceAt: "r.Emit(PauseEvent", sliceN: 4, sliceOut: []string{"sleepCalled", "sleepArg"},
			inputs: map[string]string{"r.pauseTime": "pauseTime:int"}, captureCalls: map[string]string{"time.Sleep": "sleep"}},
		{file: "batcher.go", recv: "batcher", name: "processBatch", lean: "v2_effMot", sliceAt: "maxOperationTime := r.maxOperationTime", sliceN: 2, sliceOut: []string{"maxOperationTime"},
			inputs: map[string]string{"r.maxOperationTime": "mot:int", "watcher.MaxOperationTime()": "wMot:int"}},
		{file: "batcher.go", recv: "batcher", name: "applyDefaults", lean: "v2_applyDefaults", view: "_cfg"},
		{file: "batcher.go", recv: "batcher", name: "Start", lean: "v2_startHead", view: "_cfg", until: "capacityTimer :=",
			inputs: map[string]string{"r.phase": "phase:int"}},
		{file: "batcher.go", recv: "batcher", name: "Enqueue", lean: "v2_enqueueAdmit", until: "r.incTarget", opaque: true, view: "_cfg"},
		{file: "eventer.go", recv: "EventerBase", name: "AddListener", lean: "v2_ev_AddListener", mapFields: []string{"listeners"},
			inputs: map[string]string{"uuid.New()": "newId:int", "fn": "fn:int"}},
		{file: "eventer.go", recv: "EventerBase", name: "RemoveListener", lean: "v2_ev_RemoveListener", mapFields: []string{"listeners"}},
		{file: "eventer.go", recv: "EventerBase", name: "Emit", lean: "v2_ev_Emit", mapFields: []string{"listeners"}, extraOut: []string{"called:list"}},
		{file: "operation.go", recv: "operation", name: "MakeAttempt", lean: "v2_op_MakeAttempt"},
		{file: "operation.go", recv: "operation", name: "Attempt", lean: "v2_op_Attempt"},
		{file: "operation.go", recv: "operation", name: "Cost", lean: "v2_op_Cost"},
		{file: "operation.go", recv: "operation", name: "IsBatchable", lean: "v2_op_IsBatchable"},
		{file: "shared-resource.go", recv: "sharedResource", name: "MaxCapacity", lean: "v2_sr_MaxCapacity"},
		{file: "shared-resource.go", recv: "sharedResource", name: "Capacity", lean: "v2_sr_Capacity"},
		{file: "shared-resource.go", recv: "sharedResource", name: "calc", lean: "v2_sr_calc"},
		{file: "shared-resource.go", recv: "sharedResource", name: "GiveMe", lean: "v2_sr_GiveMe"},
		{file: "shared-resource.go", recv: "sharedResource", name: "SetReservedCapacity", lean: "v2_sr_SetReservedCapacity"},
		{file: "shared-resource.go", recv: "sharedResource", name: "clearPartitionId", lean: "v2_sr_clearPartitionId"},
		{file: "shared-resource.go", recv: "sharedResource", name: "getAllocatedAndRandomUnallocatedPartition", lean: "v2_sr_pick", opaque: true},
		{file: "shared-resource.go", recv: "sharedResource", name: "Start", lean: "v2_sr_requirements", until: "r.provision = make", view: "_req"},
		{file: "shared-resource.go", recv: "sharedResource", name: "setPartitionId", lean: "v2_sr_setPartitionId"},
		{file: "shared-resource.go", recv: "sharedResource", name: "shutdown", lean: "v2_sr_shutdown", view: "_ph", captureEmit: true},
		{file: "shared-resource.go", recv: "sharedResource", name: "loop", lean: "v2_sr_grant", view: "_grant", sliceAt: "requested := time.Now()", sliceN: 9, loopBody: true,
			sliceOut:     []string{"sleepCalled", "sleepArg", "markCalled"},
			inputs:       map[string]string{"time.Now()": "now:int", "time.Since(requested)": "elapsed:int", "r.leaseManager.LeasePartition(ctx, id, index)": "granted:int"},
			captureCalls: map[string]string{"time.Sleep": "sleep", "r.setPartitionId": "mark", "r.calc": "calc"}},
		{file: "shared-resource.go", recv: "sharedResource", name: "scheduleProvision", lean: "v2_sr_scheduleProvision", view: "_prov", chanCap: map[string]string{"provision": "1"}},
		{file: "shared-resource.go", recv: "sharedResource", name: "SetSharedCapacity", lean: "v2_sr_SetSharedCapacity", view: "_prov", chanCap: map[string]string{"provision": "1"}},
		{file: "shared-resource.go", recv: "sharedResource", name: "Start", lean: "v2_sr_startTail", view: "_stt", sliceAt: "if r.leaseManager != nil {", sliceHas: "Provision", sliceN: 3,
			inputs: map[string]string{"r.leaseManager.Provision(ctx)": "provErr:err"}, chanCap: map[string]string{"provision": "1"},
			captureCalls: map[string]string{"r.loop": "loop", "r.calc": "calc", "go func": "watch"}},
		{file: "shared-resource.go", recv: "sharedResource", name: "provisionBlobs", lean: "v2_sr_reprovision", sliceFrom: "sharedCapacity", sliceN: 8, sliceOut: []string{"count"}},
		{file: "shared-resource.go", recv: "sharedResource", name: "provisionBlobs", lean: "v2_sr_partitionCount", sliceFrom: "sharedCapacity", sliceN: 3, sliceOut: []string{"count"}},
	}, &sb)
	sb.WriteString("end GoBatcher.Trans\n")
	return sb.String()
}

// Translator for the Azure Blob lease manager (azure-blob-lease-manager.go, both generations): the error
// classification of `provision` / `createPartitions` / `leasePartition` becomes Lean definitions over the state
// `LmSt` of GoBatcher/Model/LmSem.lean (the variable `err`, the events raised, the SDK calls made, the reported lease
// seconds). ExpectTransLm.lean proves them equal to the outcome functions of Model/LeaseMgr.lean that C18's theorems
// are about - for EVERY error value (any service-code string, a storage error without a code, a non-storage error),
// every index and every run length.
//
// Semantics: an SDK call (`container.Create`, `blob.Upload`, `blob.AcquireLease`) is an input: `e`, or `results i` for
// the upload of blob `i`. `err.(azblob.StorageError)` succeeds exactly on `SdkErr.storage code`; `serr.ServiceCode()`
// is `code`; the `azblob.ServiceCode…` constants are read from the SDK's source in the module cache. `m.emit(...)` /
// `m.eventer.Emit(...)` append the event. A `return` is `.error st` (early exit), falling off the end `.ok st`; a
// counting `for` loop is `forFrom`. Statements that only build the request (blob URL, reader, access conditions) are
// skipped by NAME (blob, empty, reader, cond); anything else outside the subset is refused.
package main

import (
	"fmt"
	"go/ast"
	"go/token"
	"os"
	"path/filepath"
	"regexp"
	"strings"
)

type lmTr struct {
	p      *pkg
	codes  map[string]string // ServiceCodeX -> "X"
	upload string            // what an Upload call returns: "results i"
	single string            // what Create / AcquireLease return: "e"
	consts map[string]string // local integer constants
}

type lmRefuse struct{ why string }

func (c *lmTr) fail(format string, a ...interface{}) { panic(lmRefuse{fmt.Sprintf(format, a...)}) }

func sdkCodeConsts() map[string]string {
	out := map[string]string{}
	for _, root := range []string{os.Getenv("GOMODCACHE"), filepath.Join(os.Getenv("HOME"), "go", "pkg", "mod"), "/root/go/pkg/mod"} {
		dir := filepath.Join(root, "github.com", "!azure", "azure-storage-blob-go@v0.13.0", "azblob")
		if st, err := os.Stat(dir); err != nil || !st.IsDir() {
			continue
		}
		re := regexp.MustCompile(`(ServiceCode\w+)\s+ServiceCodeType\s*=\s*"([^"]*)"`)
		files, _ := filepath.Glob(filepath.Join(dir, "*.go"))
		for _, fn := range files {
			data, _ := os.ReadFile(fn)
			for _, m := range re.FindAllStringSubmatch(string(data), -1) {
				out[m[1]] = m[2]
			}
		}
		break
	}
	return out
}

var lmEvents = map[string]string{
	"VerifiedContainerEvent": ".verifiedContainer", "CreatedContainerEvent": ".createdContainer",
	"VerifiedBlobEvent": ".verifiedBlob %s", "CreatedBlobEvent": ".createdBlob %s", "FailedEvent": ".failed %s", "ErrorEvent": ".error",
}

func (c *lmTr) sdkCall(e ast.Expr) (string, bool) {
	call, ok := e.(*ast.CallExpr)
	if !ok {
		return "", false
	}
	txt := c.p.str(call.Fun)
	switch {
	case strings.HasSuffix(txt, ".Upload"):
		return c.upload, true
	case strings.HasSuffix(txt, ".Create"), strings.HasSuffix(txt, ".AcquireLease"):
		return c.single, true
	}
	return "", false
}

func (c *lmTr) idx(e ast.Expr) string {
	s := c.p.str(e)
	switch s {
	case "0":
		return "0"
	case "i":
		return "i"
	case "int(index)":
		return "index"
	}
	c.fail("event value %s", s)
	return ""
}

func (c *lmTr) emit(stmts []ast.Stmt, ind string) string {
	for k, s := range stmts {
		rest := stmts[k+1:]
		switch v := s.(type) {
		case *ast.DeclStmt:
			gd := v.Decl.(*ast.GenDecl)
			ok := true
			for _, sp := range gd.Specs {
				vs := sp.(*ast.ValueSpec)
				for j, nm := range vs.Names {
					if j < len(vs.Values) {
						if bl, isLit := vs.Values[j].(*ast.BasicLit); isLit && bl.Kind == token.INT {
							c.consts[nm.Name] = bl.Value
							continue
						}
					}
					if nm.Name != "empty" {
						ok = false
					}
				}
			}
			if !ok {
				c.fail("declaration %s", c.p.str(v))
			}
			continue
		case *ast.AssignStmt:
			if len(v.Rhs) == 1 {
				if src, ok := c.sdkCall(v.Rhs[0]); ok {
					if len(v.Lhs) != 2 || c.p.str(v.Lhs[0]) != "_" || c.p.str(v.Lhs[1]) != "err" {
						c.fail("SDK call result not assigned to `_, err`")
					}
					return ind + fmt.Sprintf("let st := { st with err := %s, calls := st.calls + 1 }\n", src) + c.emit(rest, ind)
				}
			}
			if len(v.Lhs) == 1 && len(v.Rhs) == 1 {
				l, r := c.p.str(v.Lhs[0]), c.p.str(v.Rhs[0])
				if l == "err" && r == "nil" && v.Tok == token.ASSIGN {
					return ind + "let st := { st with err := .none }\n" + c.emit(rest, ind)
				}
				if bl, ok := v.Rhs[0].(*ast.BasicLit); ok && bl.Kind == token.INT && v.Tok == token.DEFINE {
					c.consts[l] = bl.Value
					continue
				}
				if l == "leaseTime" && v.Tok == token.ASSIGN {
					m := regexp.MustCompile(`^time\.Duration\((\w+)\) \* time\.Second$`).FindStringSubmatch(r)
					if m != nil {
						if val, ok := c.consts[m[1]]; ok {
							return ind + fmt.Sprintf("let st := { st with secs := %s }\n", val) + c.emit(rest, ind)
						}
					}
					c.fail("lease time %s", r)
				}
				// request construction, skipped by name
				if v.Tok == token.DEFINE && (l == "blob" || l == "reader" || l == "cond") {
					continue
				}
			}
			c.fail("assignment %s", c.p.str(v))
		case *ast.ExprStmt:
			call, ok := v.X.(*ast.CallExpr)
			if !ok {
				c.fail("expression statement")
			}
			txt := c.p.str(call.Fun)
			if strings.HasSuffix(txt, ".emit") || strings.HasSuffix(txt, ".Emit") {
				name := c.p.str(call.Args[0])
				pat, ok := lmEvents[name]
				if !ok {
					c.fail("event %s", name)
				}
				evs := pat
				if strings.Contains(pat, "%s") {
					evs = fmt.Sprintf(pat, c.idx(call.Args[1]))
				}
				return ind + fmt.Sprintf("let st := { st with ev := st.ev ++ [%s] }\n", evs) + c.emit(rest, ind)
			}
			c.fail("call %s", txt)
		case *ast.ReturnStmt:
			if len(v.Results) != 0 {
				c.fail("return with values")
			}
			return ind + ".error st\n"
		case *ast.IfStmt:
			thenS := append(append([]ast.Stmt{}, v.Body.List...), rest...)
			elseS := append(append([]ast.Stmt{}, elseStmts(v)...), rest...)
			if v.Init != nil {
				// if serr, ok := err.(azblob.StorageError); ok { ... }
				if c.p.str(v.Init) == "serr, ok := err.(azblob.StorageError)" && c.p.str(v.Cond) == "ok" {
					return ind + "match st.err with\n" + ind + "| .storage code =>\n" + c.emit(thenS, ind+"  ") + ind + "| _ =>\n" + c.emit(elseS, ind+"  ")
				}
				c.fail("if with init %s", c.p.str(v.Init))
			}
			if c.p.str(v.Cond) == "err != nil" {
				return ind + "if st.err != .none then\n" + c.emit(thenS, ind+"  ") + ind + "else\n" + c.emit(elseS, ind+"  ")
			}
			c.fail("condition %s", c.p.str(v.Cond))
		case *ast.SwitchStmt:
			if v.Init != nil || v.Tag == nil || c.p.str(v.Tag) != "serr.ServiceCode()" {
				c.fail("switch %s", c.p.str(v.Tag))
			}
			var dflt []ast.Stmt
			type arm struct {
				cond string
				body []ast.Stmt
			}
			arms := []arm{}
			for _, cl := range v.Body.List {
				cc := cl.(*ast.CaseClause)
				if cc.List == nil {
					dflt = cc.Body
					continue
				}
				conds := []string{}
				for _, x := range cc.List {
					name := strings.TrimPrefix(c.p.str(x), "azblob.")
					val, ok := c.codes[name]
					if !ok {
						c.fail("service code constant %s not found in the SDK source", name)
					}
					conds = append(conds, fmt.Sprintf("code == %q", val))
				}
				arms = append(arms, arm{strings.Join(conds, " || "), cc.Body})
			}
			var sb strings.Builder
			cur := ind
			for _, a := range arms {
				sb.WriteString(cur + "if " + a.cond + " then\n" + c.emit(append(append([]ast.Stmt{}, a.body...), rest...), cur+"  ") + cur + "else\n")
				cur += "  "
			}
			sb.WriteString(c.emit(append(append([]ast.Stmt{}, dflt...), rest...), cur))
			return sb.String()
		case *ast.ForStmt:
			init, ok := v.Init.(*ast.AssignStmt)
			if !ok || c.p.str(init) != "i := 0" || c.p.str(v.Cond) != "i < count" || c.p.str(v.Post) != "i++" {
				c.fail("for loop header")
			}
			return ind + "match forFrom (fun i st =>\n" + c.emit(v.Body.List, ind+"    ") + ind + "  ) count 0 st with\n" +
				ind + "| .error r => .error r\n" + ind + "| .ok st =>\n" + c.emit(rest, ind+"  ")
		default:
			c.fail("statement %T", s)
		}
	}
	return ind + ".ok st\n"
}

func transLm(v1, v2 *pkg) string {
	var sb strings.Builder
	sb.WriteString("/- GENERATED by /verif/extract (translm.go) from azure-blob-lease-manager.go (both generations) on every run. Do not edit. -/\nimport GoBatcher.Model.LmSem\nnamespace GoBatcher.TransLm\nopen GoBatcher GoBatcher.LmSem\n\n")
	codes := sdkCodeConsts()
	type spec struct {
		gen      string
		p        *pkg
		name     string
		lean     string
		params   string
		fromCall string // translate from the first statement that makes this SDK call ("" = whole body)
	}
	for _, sp := range []spec{
		{"v1", v1, "provision", "v1_lm_provision", "(e : SdkErr)", ".Create"},
		{"v1", v1, "createPartitions", "v1_lm_createPartitions", "(count : Nat) (results : Nat → SdkErr)", ""},
		{"v1", v1, "leasePartition", "v1_lm_leasePartition", "(index : Nat) (e : SdkErr)", ""},
		{"v2", v2, "Provision", "v2_lm_Provision", "(e : SdkErr)", ".Create"},
		{"v2", v2, "CreatePartitions", "v2_lm_CreatePartitions", "(count : Nat) (results : Nat → SdkErr)", ""},
		{"v2", v2, "LeasePartition", "v2_lm_LeasePartition", "(index : Nat) (e : SdkErr)", ""},
	} {
		fd := sp.p.fn("azure-blob-lease-manager.go", "azureBlobLeaseManager", sp.name)
		if fd == nil {
			sb.WriteString(fmt.Sprintf("-- REFUSED %s: function not found\n\n", sp.lean))
			continue
		}
		c := &lmTr{p: sp.p, codes: codes, upload: "results i", single: "e", consts: map[string]string{}}
		stmts := fd.Body.List
		if sp.fromCall != "" {
			start := -1
			for i, s := range stmts {
				if as, ok := s.(*ast.AssignStmt); ok && len(as.Rhs) == 1 {
					if call, ok := as.Rhs[0].(*ast.CallExpr); ok && strings.HasSuffix(sp.p.str(call.Fun), sp.fromCall) {
						start = i
						break
					}
				}
			}
			if start < 0 {
				sb.WriteString(fmt.Sprintf("-- REFUSED %s: SDK call %s not found\n\n", sp.lean, sp.fromCall))
				continue
			}
			stmts = stmts[start:]
		}
		body, why := func() (out, why string) {
			defer func() {
				if r := recover(); r != nil {
					if rf, ok := r.(lmRefuse); ok {
						out, why = "", rf.why
						return
					}
					panic(r)
				}
			}()
			return c.emit(stmts, "  "), ""
		}()
		if why != "" {
			sb.WriteString(fmt.Sprintf("-- REFUSED %s: %s\n\n", sp.lean, why))
			continue
		}
		sb.WriteString(fmt.Sprintf("/-- translated from %s azure-blob-lease-manager.go (azureBlobLeaseManager).%s -/\ndef %s %s : LmSt :=\n  let st : LmSt := {}\n  done (\n%s  )\n\n", sp.gen, sp.name, sp.lean, sp.params, body))
	}
	sb.WriteString("end GoBatcher.TransLm\n")
	return sb.String()
}

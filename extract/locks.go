// Access table: every access to a field of a receiver struct, with the locks held lexically at that point.
// Lexical reading: `x.Lock()` / `x.RLock()` add x (exclusive / shared) until the matching `x.Unlock()` /
// `x.RUnlock()` in the same block sequence or, with `defer`, until the function ends; a nested block starts with
// a copy of the set and what it does to it is forgotten afterwards (an early `Unlock(); return` inside an `if`
// does not release the lock for the code after the `if`); a function literal starts with NO locks (it may run
// on another goroutine) and is reported under the name `<func>$lit`. Accesses through sync/atomic are marked.
package main

import (
	"fmt"
	"go/ast"
	"go/token"
	"sort"
	"strings"
)

type access struct {
	strct, fn, field string
	write, atomic    bool
	locks            []string // "name:X" exclusive, "name:S" shared
}

func (a access) lean() string {
	q := make([]string, len(a.locks))
	for i, l := range a.locks {
		q[i] = fmt.Sprintf("%q", l)
	}
	return fmt.Sprintf("(%q, %q, %q, %v, %v, [%s])", a.strct, a.fn, a.field, a.write, a.atomic, strings.Join(q, ", "))
}

type lockWalker struct {
	p      *pkg
	strct  string
	recv   string
	fields map[string]bool
	out    *[]access
}

func (w *lockWalker) fieldOf(x ast.Expr) (string, bool) {
	if u, ok := x.(*ast.UnaryExpr); ok && u.Op == token.AND {
		x = u.X
	}
	if ix, ok := x.(*ast.IndexExpr); ok {
		x = ix.X
	}
	if s, ok := x.(*ast.SelectorExpr); ok {
		if id, ok := s.X.(*ast.Ident); ok && id.Name == w.recv && w.fields[s.Sel.Name] {
			return s.Sel.Name, true
		}
	}
	return "", false
}

func held(m map[string]string) []string {
	out := []string{}
	for k, v := range m {
		out = append(out, k+":"+v)
	}
	sort.Strings(out)
	return out
}

func copyMap(m map[string]string) map[string]string {
	c := map[string]string{}
	for k, v := range m {
		c[k] = v
	}
	return c
}

func (w *lockWalker) rec(fn, field string, write, atomic bool, locks map[string]string) {
	*w.out = append(*w.out, access{w.strct, fn, field, write, atomic, held(locks)})
}

// reads records every receiver-field read inside an expression (writes are handled by the statement walker)
func (w *lockWalker) reads(fn string, e ast.Node, locks map[string]string) {
	if e == nil {
		return
	}
	ast.Inspect(e, func(n ast.Node) bool {
		switch v := n.(type) {
		case *ast.FuncLit:
			w.block(fn+"$lit", v.Body.List, map[string]string{})
			return false
		case *ast.CallExpr:
			txt := w.p.str(v.Fun)
			if strings.HasPrefix(txt, "atomic.") && len(v.Args) > 0 {
				if f, ok := w.fieldOf(v.Args[0]); ok {
					w.rec(fn, f, !strings.HasPrefix(txt, "atomic.Load"), true, locks)
					for _, a := range v.Args[1:] {
						w.reads(fn, a, locks)
					}
					return false
				}
			}
			if txt == "delete" && len(v.Args) > 0 {
				if f, ok := w.fieldOf(v.Args[0]); ok {
					w.rec(fn, f, true, false, locks)
					for _, a := range v.Args[1:] {
						w.reads(fn, a, locks)
					}
					return false
				}
			}
		case *ast.SelectorExpr:
			if f, ok := w.fieldOf(v); ok {
				w.rec(fn, f, false, false, locks)
				return false
			}
		}
		return true
	})
}

// lockCall: `r.mu.Lock()` etc. on a receiver field -> (field, method)
func (w *lockWalker) lockCall(c *ast.CallExpr) (string, string, bool) {
	s, ok := c.Fun.(*ast.SelectorExpr)
	if !ok {
		return "", "", false
	}
	switch s.Sel.Name {
	case "Lock", "Unlock", "RLock", "RUnlock":
	default:
		return "", "", false
	}
	if f, ok := w.fieldOf(s.X); ok {
		return f, s.Sel.Name, true
	}
	return "", "", false
}

func (w *lockWalker) block(fn string, stmts []ast.Stmt, locks map[string]string) {
	for _, s := range stmts {
		w.stmt(fn, s, locks)
	}
}

func (w *lockWalker) stmt(fn string, s ast.Stmt, locks map[string]string) {
	switch v := s.(type) {
	case nil:
	case *ast.ExprStmt:
		if c, ok := v.X.(*ast.CallExpr); ok {
			if f, m, ok := w.lockCall(c); ok {
				w.rec(fn, f, false, false, locks) // the mutex field itself is read
				switch m {
				case "Lock":
					locks[f] = "X"
				case "RLock":
					locks[f] = "S"
				default:
					delete(locks, f)
				}
				return
			}
		}
		w.reads(fn, v.X, locks)
	case *ast.DeferStmt:
		if _, _, ok := w.lockCall(v.Call); ok {
			return // released when the function returns
		}
		w.reads(fn, v.Call, locks)
	case *ast.GoStmt:
		w.reads(fn, v.Call, locks)
	case *ast.AssignStmt:
		for _, l := range v.Lhs {
			if f, ok := w.fieldOf(l); ok {
				w.rec(fn, f, true, false, locks)
				if ix, ok := l.(*ast.IndexExpr); ok {
					w.reads(fn, ix.Index, locks)
				}
				if v.Tok != token.ASSIGN && v.Tok != token.DEFINE {
					w.rec(fn, f, false, false, locks)
				}
			} else {
				w.reads(fn, l, locks)
			}
		}
		for _, r := range v.Rhs {
			w.reads(fn, r, locks)
		}
	case *ast.IncDecStmt:
		if f, ok := w.fieldOf(v.X); ok {
			w.rec(fn, f, true, false, locks)
			w.rec(fn, f, false, false, locks)
		} else {
			w.reads(fn, v.X, locks)
		}
	case *ast.BlockStmt:
		w.block(fn, v.List, copyMap(locks))
	case *ast.IfStmt:
		w.stmt(fn, v.Init, locks)
		w.reads(fn, v.Cond, locks)
		w.block(fn, v.Body.List, copyMap(locks))
		if v.Else != nil {
			w.stmt(fn, v.Else, copyMap(locks))
		}
	case *ast.ForStmt:
		w.stmt(fn, v.Init, locks)
		w.reads(fn, v.Cond, locks)
		w.stmt(fn, v.Post, locks)
		w.block(fn, v.Body.List, copyMap(locks))
	case *ast.RangeStmt:
		w.reads(fn, v.X, locks)
		w.block(fn, v.Body.List, copyMap(locks))
	case *ast.SwitchStmt:
		w.stmt(fn, v.Init, locks)
		w.reads(fn, v.Tag, locks)
		for _, c := range v.Body.List {
			cc := c.(*ast.CaseClause)
			for _, e := range cc.List {
				w.reads(fn, e, locks)
			}
			w.block(fn, cc.Body, copyMap(locks))
		}
	case *ast.SelectStmt:
		for _, c := range v.Body.List {
			cc := c.(*ast.CommClause)
			w.stmt(fn, cc.Comm, locks)
			w.block(fn, cc.Body, copyMap(locks))
		}
	case *ast.SendStmt:
		w.reads(fn, v.Chan, locks)
		w.reads(fn, v.Value, locks)
	case *ast.LabeledStmt:
		w.stmt(fn, v.Stmt, locks)
	case *ast.ReturnStmt:
		for _, r := range v.Results {
			w.reads(fn, r, locks)
		}
	case *ast.DeclStmt:
		w.reads(fn, v.Decl, locks)
	default:
		w.reads(fn, s, locks)
	}
}

func accessTable(p *pkg) []access {
	var out []access
	structs := map[string]map[string]bool{}
	names := make([]string, 0, len(p.files))
	for n := range p.files {
		names = append(names, n)
	}
	sort.Strings(names)
	for _, n := range names {
		for _, d := range p.files[n].Decls {
			gd, ok := d.(*ast.GenDecl)
			if !ok {
				continue
			}
			for _, sp := range gd.Specs {
				if ts, ok := sp.(*ast.TypeSpec); ok {
					if st, ok := ts.Type.(*ast.StructType); ok {
						fs := map[string]bool{}
						for _, f := range st.Fields.List {
							for _, nm := range f.Names {
								fs[nm.Name] = true
							}
						}
						structs[ts.Name.Name] = fs
					}
				}
			}
		}
	}
	for _, n := range names {
		for _, d := range p.files[n].Decls {
			fd, ok := d.(*ast.FuncDecl)
			if !ok || fd.Recv == nil || fd.Body == nil || len(fd.Recv.List) != 1 || len(fd.Recv.List[0].Names) != 1 {
				continue
			}
			t := fd.Recv.List[0].Type
			if s, ok := t.(*ast.StarExpr); ok {
				t = s.X
			}
			id, ok := t.(*ast.Ident)
			if !ok || structs[id.Name] == nil {
				continue
			}
			w := &lockWalker{p: p, strct: id.Name, recv: fd.Recv.List[0].Names[0].Name, fields: structs[id.Name], out: &out}
			w.block(fd.Name.Name, fd.Body.List, map[string]string{})
		}
	}
	// canonical: sorted, de-duplicated
	sort.Slice(out, func(i, j int) bool { return out[i].lean() < out[j].lean() })
	var ded []access
	for i, a := range out {
		if i == 0 || a.lean() != out[i-1].lean() {
			ded = append(ded, a)
		}
	}
	return ded
}

func accessFact(f *facts, name string, p *pkg) {
	tab := accessTable(p)
	q := make([]string, len(tab))
	for i, a := range tab {
		q[i] = a.lean()
	}
	f.def(name, "List (String × String × String × Bool × Bool × List String)", "[\n  "+strings.Join(q, ",\n  ")+"]")
}

// Command hx is the correspondence harness: it drives the REAL go-batcher code (both generations, built
// from /repo with -tags verif) and writes one canonical line per observation for the Lean driver.
package main

import (
	"bufio"
	"flag"
	"fmt"
	"os"
	"sort"
	"testing"
)

type family struct {
	name string
	run  func(args []string, out *bufio.Writer) error
}

var families = map[string]func(args []string, out *bufio.Writer) error{}

func register(name string, fn func(args []string, out *bufio.Writer) error) { families[name] = fn }

var hxArgs []string

// TestMain strips our own arguments (everything after "--") before the testing package sees them.
func TestMain(m *testing.M) {
	args := os.Args
	for i, a := range args {
		if a == "--" {
			hxArgs = args[i+1:]
			os.Args = args[:i]
			break
		}
	}
	os.Exit(m.Run())
}

func TestHX(t *testing.T) {
	theT = t
	hxMain(hxArgs)
}

func hxMain(args []string) {
	os.Args = append([]string{"hx"}, args...)
	if len(os.Args) < 2 {
		names := []string{}
		for n := range families {
			names = append(names, n)
		}
		sort.Strings(names)
		fmt.Fprintln(os.Stderr, "usage: hx <family> [flags]; families:", names)
		os.Exit(2)
	}
	fn, ok := families[os.Args[1]]
	if !ok {
		fmt.Fprintln(os.Stderr, "unknown family", os.Args[1])
		os.Exit(2)
	}
	dst := os.Stdout
	if p := os.Getenv("HX_OUT"); p != "" {
		f, err := os.Create(p)
		if err != nil {
			fmt.Fprintln(os.Stderr, "hx:", err)
			os.Exit(3)
		}
		defer f.Close()
		dst = f
	}
	out := bufio.NewWriterSize(dst, 1<<20)
	err := fn(os.Args[2:], out)
	out.Flush()
	if err != nil {
		fmt.Fprintln(os.Stderr, "hx:", err)
		os.Exit(3)
	}
}

func newFlags(name string) *flag.FlagSet { return flag.NewFlagSet(name, flag.ExitOnError) }

package main

import (
	"testing"
	"testing/synctest"
)

// The harness is built as a test binary (`go test -c`) because testing/synctest needs a *testing.T.
var theT *testing.T

// synctestRun runs fn inside a synctest bubble (virtual clock). A panic inside fn on the bubble's root
// goroutine is re-raised to the caller.
func synctestRun(fn func()) {
	var panicked interface{}
	synctest.Test(theT, func(t *testing.T) {
		defer func() {
			if p := recover(); p != nil {
				panicked = p
			}
		}()
		fn()
	})
	if panicked != nil {
		panic(panicked)
	}
}

package main

import (
	"bufio"
	"fmt"
	"sort"
	"strings"
	"sync"
	"testing/synctest"

	b2 "github.com/mspnp/go-batcher/v2"
)

// buffer: operation sequences against the REAL v2 buffer (in-package seam VerifBuffer), in a synctest bubble so
// that "settled" (every caller returned or durably blocked in Cond.Wait) is well defined after each action.
//
//	E<k>  Enqueue(op k, errorOnFull=false) from its own goroutine      F<k>  Enqueue(op k, errorOnFull=true)
//	T S R top / skip / remove from the (single) loop goroutine          X     shutdown
//
// Observed after each action: value returned (T/S/R), size(), calls that returned since the previous action.
func init() { register("buffer", famBuffer) }

type bufScn struct {
	cap  int
	acts []string
}

func (s bufScn) key() string {
	return fmt.Sprintf("buffer cap=%d acts=%s", s.cap, dash(strings.Join(s.acts, ",")))
}

func famBuffer(args []string, out *bufio.Writer) error {
	fs := newFlags("buffer")
	seed := fs.Uint64("seed", 1, "seed")
	n := fs.Int("n", 2000, "random scenarios")
	exh := fs.Int("exhaustive", 5, "exhaustive up to this many actions (0 = off)")
	maxLen := fs.Int("maxlen", 60, "max actions in random scenarios")
	scnFile := fs.String("scnfile", "", "run exactly the buffer scenarios of this file")
	fs.Parse(args)
	var scns []bufScn
	if *scnFile != "" {
		kvs, err := readScnFile(*scnFile, "buffer")
		if err != nil {
			return err
		}
		for _, kv := range kvs {
			scns = append(scns, bufScn{cap: atoi(kv["cap"]), acts: splitList(kv["acts"])})
		}
		*exh, *n = 0, 0
	}
	if *exh > 0 {
		for cap := 1; cap <= 3; cap++ {
			var rec func(prefix []string, next int)
			rec = func(prefix []string, next int) {
				scns = append(scns, bufScn{cap: cap, acts: append([]string{}, prefix...)})
				if len(prefix) == *exh {
					return
				}
				for _, a := range []string{"E", "F", "T", "S", "R", "R*", "X"} {
					if a == "E" || a == "F" {
						rec(append(prefix, fmt.Sprintf("%s%d", a, next)), next+1)
					} else {
						rec(append(prefix, a), next)
					}
				}
			}
			rec(nil, 1)
		}
	}
	r := newRng(*seed)
	for i := 0; i < *n; i++ {
		s := bufScn{cap: 1 + r.intn(4)}
		l := r.intn(*maxLen + 1)
		next := 1
		xAllowed := r.chance(1, 3)
		for j := 0; j < l; j++ {
			switch c := r.intn(20); {
			case c < 6:
				s.acts = append(s.acts, fmt.Sprintf("E%d", next))
				next++
			case c < 8:
				s.acts = append(s.acts, fmt.Sprintf("F%d", next))
				next++
			case c < 11:
				s.acts = append(s.acts, "T")
			case c < 14:
				s.acts = append(s.acts, "S")
			case c < 19:
				if r.chance(1, 3) {
					s.acts = append(s.acts, "R*")
				} else {
					s.acts = append(s.acts, "R")
				}
			default:
				if xAllowed {
					s.acts = append(s.acts, "X")
				} else {
					s.acts = append(s.acts, "R")
				}
			}
		}
		scns = append(scns, s)
	}
	res := make([]string, len(scns))
	var wg sync.WaitGroup
	sem := make(chan struct{}, 16)
	for i := range scns {
		wg.Add(1)
		sem <- struct{}{}
		go func(i int) {
			defer wg.Done()
			defer func() { <-sem }()
			res[i] = runBuffer(scns[i])
		}(i)
	}
	wg.Wait()
	for _, l := range res {
		fmt.Fprintln(out, l)
	}
	return nil
}

func runBuffer(s bufScn) (line string) {
	defer func() {
		if p := recover(); p != nil {
			line = s.key() + " | panic=" + strings.ReplaceAll(fmt.Sprint(p), " ", "_")
		}
	}()
	var obs []string
	var loopPanic interface{}
	synctestRun(func() {
		buf := b2.VerifNewBuffer(uint32(s.cap))
		w := b2.NewWatcher(func([]b2.Operation) {})
		var mu sync.Mutex
		returned := map[int]string{}
		var fresh []int
		done := false
		opName := func(o b2.Operation) string {
			if o == nil {
				return "nil"
			}
			return fmt.Sprint(o.Payload().(int))
		}
		for _, a := range s.acts {
			settle := !strings.HasSuffix(a, "*")
			a = strings.TrimSuffix(a, "*")
			ret := "."
			func() {
				defer func() {
					if p := recover(); p != nil {
						ret = "panic"
						loopPanic = p
					}
				}()
				switch a[0] {
				case 'E':
					k := atoi(a[1:])
					go func() {
						err := buf.Enqueue(b2.NewOperation(w, 1, k, true), false)
						mu.Lock()
						defer mu.Unlock()
						if done {
							return
						}
						returned[k] = errName(err)
						fresh = append(fresh, k)
					}()
				case 'F':
					k := atoi(a[1:])
					err := buf.Enqueue(b2.NewOperation(w, 1, k, true), true)
					mu.Lock()
					returned[k] = errName(err)
					fresh = append(fresh, k)
					mu.Unlock()
				case 'T':
					ret = opName(buf.Top())
				case 'S':
					ret = opName(buf.Skip())
				case 'R':
					ret = opName(buf.Remove())
				case 'X':
					buf.Shutdown()
				}
			}()
			if !settle {
				// no settling: woken callers may or may not have run before the next action
				obs = append(obs, fmt.Sprintf("%s/~/~", ret))
				continue
			}
			synctest.Wait()
			mu.Lock()
			sort.Ints(fresh)
			var rs []string
			for _, k := range fresh {
				rs = append(rs, fmt.Sprintf("%d:%s", k, returned[k]))
			}
			fresh = nil
			mu.Unlock()
			obs = append(obs, fmt.Sprintf("%s/%d/%s", ret, buf.Size(), dash(strings.Join(rs, "+"))))
		}
		// end of scenario: let callers that are still blocked go (their results are not part of the observation)
		mu.Lock()
		done = true
		mu.Unlock()
		buf.WakeAll()
		synctest.Wait()
		// a caller can only remain blocked now if the buffer is full: free places until everybody is gone
		for i := 0; i < len(s.acts)+2; i++ {
			func() {
				defer func() { _ = recover() }()
				buf.Top()
				buf.Remove()
			}()
			buf.WakeAll()
			synctest.Wait()
		}
	})
	_ = loopPanic
	return s.key() + " | obs=" + dash(strings.Join(obs, ";"))
}

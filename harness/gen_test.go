package main

import (
	"context"
	"fmt"
	"sync"
	"sync/atomic"
	"time"

	"github.com/google/uuid"
	b1 "github.com/mspnp/go-batcher"
	b2 "github.com/mspnp/go-batcher/v2"
)

// ---------- fake rate limiter (works for both generations) ----------

type fakeLimiter struct {
	capacity atomic.Uint32
	maxCap   atomic.Uint32
	onCap    func(v uint32) // called on every Capacity() read
	onGiveMe func(v uint32)
}

func (f *fakeLimiter) Provision(ctx context.Context) error { return nil }
func (f *fakeLimiter) MaxCapacity() uint32                 { return f.maxCap.Load() }
func (f *fakeLimiter) Capacity() uint32 {
	v := f.capacity.Load()
	if f.onCap != nil {
		f.onCap(v)
	}
	return v
}
func (f *fakeLimiter) GiveMe(v uint32) {
	if f.onGiveMe != nil {
		f.onGiveMe(v)
	}
}
func (f *fakeLimiter) Start(ctx context.Context) error { return nil }
func (f *fakeLimiter) Stop()                           {}
func (f *fakeLimiter) AddListener(fn func(event string, val int, msg string, metadata interface{})) uuid.UUID {
	return uuid.New()
}
func (f *fakeLimiter) RemoveListener(id uuid.UUID)                                  {}
func (f *fakeLimiter) Emit(event string, val int, msg string, metadata interface{}) {}

// ---------- generation-independent Batcher facade ----------

type bcfg struct {
	gen         int // 1 or 2
	buf         uint32
	limiter     *fakeLimiter
	flush       time.Duration
	capInt      time.Duration
	audit       time.Duration
	mot         time.Duration
	pause       time.Duration
	errorOnFull bool
	mcb         int // v2 MaxConcurrentBatches; <0 = not set
	emitBatch   bool
}

type wspec struct {
	id          int
	maxBatch    uint32
	maxAttempts uint32
	mot         time.Duration
}

// reread reads the payloads of the batch slice the watcher was handed AGAIN (the library must not touch a batch once it
// has been handed over)
type batchCB func(w int, objs []int, attempts []uint32, reread func() []int)
type eventCB func(event string, val int, msg string, objs []int)

type facade interface {
	addWatcher(s wspec, cb batchCB)
	newOp(obj, w int, cost uint32, batchable bool) // w<0: no watcher
	setCost(obj int, cost uint32)
	attempt(obj int) uint32
	makeAttempt(obj int)
	enqueue(obj int) string // obj<0: nil operation
	pause()
	flush()
	needs() uint32
	inbuf() uint32
	inflight() int
	start() string
	stop() // v1: Stop(); v2: cancel()
	listen(cb eventCB) func()
}

func errName(err error) string {
	if err == nil {
		return "ok"
	}
	switch err.(type) {
	case b1.NoOperationError:
		return "NoOperation"
	case b1.NoWatcherError:
		return "NoWatcher"
	case b1.TooExpensiveError:
		return "TooExpensive"
	case b1.TooManyAttemptsError:
		return "TooManyAttempts"
	case b1.BufferFullError:
		return "BufferFull"
	case b1.BatcherImproperOrderError:
		return "ImproperOrder"
	case b1.BufferNotAllocated:
		return "BufferNotAllocated"
	case b1.RateLimiterImproperOrderError:
		return "RateLimiterImproperOrder"
	case b1.UndefinedLeaseManagerError:
		return "UndefinedLeaseManager"
	case b1.UndefinedSharedCapacityError:
		return "UndefinedSharedCapacity"
	case b1.PartitionsOutOfRangeError:
		return "PartitionsOutOfRange"
	}
	switch err {
	case b2.NoOperationError:
		return "NoOperation"
	case b2.NoWatcherError:
		return "NoWatcher"
	case b2.TooExpensiveError:
		return "TooExpensive"
	case b2.TooManyAttemptsError:
		return "TooManyAttempts"
	case b2.BufferFullError:
		return "BufferFull"
	case b2.BufferIsShutdown:
		return "Shutdown"
	case b2.ImproperOrderError:
		return "ImproperOrder"
	case b2.InitializationOnlyError:
		return "InitializationOnly"
	case b2.SharedCapacityNotProvisioned:
		return "SharedCapacityNotProvisioned"
	}
	return "other:" + err.Error()
}

// ---- mutable-cost operations (C19 staleness injection) wrap the library's own operation ----

type op1 struct {
	b1.IOperation
	cost atomic.Uint32
}

func (o *op1) Cost() uint32 { return o.cost.Load() }

type op2 struct {
	b2.Operation
	cost atomic.Uint32
}

func (o *op2) Cost() uint32 { return o.cost.Load() }

// ---- v1 ----

type fac1 struct {
	b        b1.IBatcher
	mu       sync.Mutex
	watchers map[int]b1.IWatcher
	ops      map[int]*op1
}

func newFacade(c bcfg) facade {
	if c.gen == 1 {
		b := b1.NewBatcherWithBuffer(c.buf)
		if c.limiter != nil {
			b.WithRateLimiter(c.limiter)
		}
		b.WithFlushInterval(c.flush).WithCapacityInterval(c.capInt).WithAuditInterval(c.audit).
			WithMaxOperationTime(c.mot).WithPauseTime(c.pause)
		if c.errorOnFull {
			b.WithErrorOnFullBuffer()
		}
		if c.emitBatch {
			b.WithEmitBatch()
		}
		return &fac1{b: b, watchers: map[int]b1.IWatcher{}, ops: map[int]*op1{}}
	}
	b := b2.NewBatcherWithBuffer(c.buf)
	if c.limiter != nil {
		b.WithRateLimiter(c.limiter)
	}
	b.WithFlushInterval(c.flush).WithCapacityInterval(c.capInt).WithAuditInterval(c.audit).
		WithMaxOperationTime(c.mot).WithPauseTime(c.pause)
	if c.errorOnFull {
		b.WithErrorOnFullBuffer()
	}
	if c.emitBatch {
		b.WithEmitBatch()
	}
	b.WithEmitFlush().WithEmitRequest()
	if c.mcb >= 0 {
		b.WithMaxConcurrentBatches(uint32(c.mcb))
	}
	ctx, cancel := context.WithCancel(context.Background())
	return &fac2{b: b, ctx: ctx, cancel: cancel, watchers: map[int]b2.Watcher{}, ops: map[int]*op2{}}
}

func (f *fac1) addWatcher(s wspec, cb batchCB) {
	w := b1.NewWatcher(func(batch []b1.IOperation) {
		objs := make([]int, len(batch))
		atts := make([]uint32, len(batch))
		for i, o := range batch {
			objs[i] = o.Payload().(int)
			atts[i] = o.Attempt()
		}
		cb(s.id, objs, atts, func() []int {
			again := make([]int, len(batch))
			for i, o := range batch {
				if o == nil {
					again[i] = -1
				} else {
					again[i] = o.Payload().(int)
				}
			}
			return again
		})
	}).WithMaxBatchSize(s.maxBatch).WithMaxAttempts(s.maxAttempts).WithMaxOperationTime(s.mot)
	f.mu.Lock()
	f.watchers[s.id] = w
	f.mu.Unlock()
}

func (f *fac1) newOp(obj, w int, cost uint32, batchable bool) {
	f.mu.Lock()
	defer f.mu.Unlock()
	var wt b1.IWatcher
	if w >= 0 {
		wt = f.watchers[w]
	}
	o := &op1{IOperation: b1.NewOperation(wt, cost, obj, batchable)}
	o.cost.Store(cost)
	f.ops[obj] = o
}
func (f *fac1) get(obj int) *op1             { f.mu.Lock(); defer f.mu.Unlock(); return f.ops[obj] }
func (f *fac1) setCost(obj int, cost uint32) { f.get(obj).cost.Store(cost) }
func (f *fac1) attempt(obj int) uint32       { return f.get(obj).Attempt() }
func (f *fac1) makeAttempt(obj int)          { f.get(obj).MakeAttempt() }
func (f *fac1) enqueue(obj int) string {
	if obj < 0 {
		return errName(f.b.Enqueue(nil))
	}
	return errName(f.b.Enqueue(f.get(obj)))
}
func (f *fac1) pause()        { f.b.Pause() }
func (f *fac1) flush()        { f.b.Flush() }
func (f *fac1) needs() uint32 { return f.b.NeedsCapacity() }
func (f *fac1) inbuf() uint32 { return f.b.OperationsInBuffer() }
func (f *fac1) inflight() int { return -1 }
func (f *fac1) start() string { return errName(f.b.Start()) }
func (f *fac1) stop()         { f.b.Stop() }
func (f *fac1) listen(cb eventCB) func() {
	id := f.b.AddListener(func(event string, val int, msg string, metadata interface{}) {
		var objs []int
		if batch, ok := metadata.([]b1.IOperation); ok {
			for _, o := range batch {
				objs = append(objs, o.Payload().(int))
			}
		}
		cb(event, val, msg, objs)
	})
	return func() { f.b.RemoveListener(id) }
}

// ---- v2 ----

type fac2 struct {
	b        b2.Batcher
	ctx      context.Context
	cancel   context.CancelFunc
	mu       sync.Mutex
	watchers map[int]b2.Watcher
	ops      map[int]*op2
}

func (f *fac2) addWatcher(s wspec, cb batchCB) {
	w := b2.NewWatcher(func(batch []b2.Operation) {
		objs := make([]int, len(batch))
		atts := make([]uint32, len(batch))
		for i, o := range batch {
			objs[i] = o.Payload().(int)
			atts[i] = o.Attempt()
		}
		cb(s.id, objs, atts, func() []int {
			again := make([]int, len(batch))
			for i, o := range batch {
				if o == nil {
					again[i] = -1
				} else {
					again[i] = o.Payload().(int)
				}
			}
			return again
		})
	}).WithMaxBatchSize(s.maxBatch).WithMaxAttempts(s.maxAttempts).WithMaxOperationTime(s.mot)
	f.mu.Lock()
	f.watchers[s.id] = w
	f.mu.Unlock()
}
func (f *fac2) newOp(obj, w int, cost uint32, batchable bool) {
	f.mu.Lock()
	defer f.mu.Unlock()
	var wt b2.Watcher
	if w >= 0 {
		wt = f.watchers[w]
	}
	o := &op2{Operation: b2.NewOperation(wt, cost, obj, batchable)}
	o.cost.Store(cost)
	f.ops[obj] = o
}
func (f *fac2) get(obj int) *op2             { f.mu.Lock(); defer f.mu.Unlock(); return f.ops[obj] }
func (f *fac2) setCost(obj int, cost uint32) { f.get(obj).cost.Store(cost) }
func (f *fac2) attempt(obj int) uint32       { return f.get(obj).Attempt() }
func (f *fac2) makeAttempt(obj int)          { f.get(obj).MakeAttempt() }
func (f *fac2) enqueue(obj int) string {
	if obj < 0 {
		return errName(f.b.Enqueue(nil))
	}
	return errName(f.b.Enqueue(f.get(obj)))
}
func (f *fac2) pause()        { f.b.Pause() }
func (f *fac2) flush()        { f.b.Flush() }
func (f *fac2) needs() uint32 { return f.b.NeedsCapacity() }
func (f *fac2) inbuf() uint32 { return f.b.OperationsInBuffer() }
func (f *fac2) inflight() int { return int(f.b.Inflight()) }
func (f *fac2) start() string { return errName(f.b.Start(f.ctx)) }
func (f *fac2) stop()         { f.cancel() }
func (f *fac2) listen(cb eventCB) func() {
	id := f.b.AddListener(func(event string, val int, msg string, metadata interface{}) {
		var objs []int
		if batch, ok := metadata.([]b2.Operation); ok {
			for _, o := range batch {
				objs = append(objs, o.Payload().(int))
			}
		}
		cb(event, val, msg, objs)
	})
	return func() { f.b.RemoveListener(id) }
}

func ints(xs []int) string {
	s := "["
	for i, x := range xs {
		if i > 0 {
			s += ","
		}
		s += fmt.Sprint(x)
	}
	return s + "]"
}

func b01(b bool) int {
	if b {
		return 1
	}
	return 0
}

package main

import (
	"bufio"
	"fmt"
	"strings"
	"sync"

	b2 "github.com/mspnp/go-batcher/v2"
)

// buflinked: sequential operation sequences against the REAL v2 buffer, observing after EVERY action not only
// what the call returned but the linked structure itself (in-package seam VerifBuffer.Dump: forward walk from
// head, backward walk from tail, the len counter, the cursor's position, the shutdown flag). The Lean driver
// runs the L0 model (Model/BufferLinked.lean, the linked list as the code has it) on the same actions and
// compares all of it. Sequential on purpose (error-mode enqueues never block), so the comparison is exact.
//
//	F<k> enqueue(op k, errorOnFull=true)   T top   S skip   R remove   X shutdown
func init() { register("buflinked", famBufLinked) }

type blScn struct {
	cap  int
	acts []string
}

func (s blScn) key() string {
	return fmt.Sprintf("buflinked cap=%d acts=%s", s.cap, dash(strings.Join(s.acts, ",")))
}

func famBufLinked(args []string, out *bufio.Writer) error {
	fs := newFlags("buflinked")
	seed := fs.Uint64("seed", 1, "seed")
	n := fs.Int("n", 2000, "random scenarios")
	exh := fs.Int("exhaustive", 6, "exhaustive up to this many actions (0 = off)")
	maxLen := fs.Int("maxlen", 80, "max actions in random scenarios")
	scnFile := fs.String("scnfile", "", "run exactly the buflinked scenarios of this file")
	fs.Parse(args)
	var scns []blScn
	if *scnFile != "" {
		kvs, err := readScnFile(*scnFile, "buflinked")
		if err != nil {
			return err
		}
		for _, kv := range kvs {
			scns = append(scns, blScn{cap: atoi(kv["cap"]), acts: splitList(kv["acts"])})
		}
		*exh, *n = 0, 0
	}
	if *exh > 0 {
		for cap := 1; cap <= 3; cap++ {
			var rec func(prefix []string, next int)
			rec = func(prefix []string, next int) {
				if len(prefix) == *exh {
					scns = append(scns, blScn{cap: cap, acts: append([]string{}, prefix...)})
					return
				}
				for _, a := range []string{"F", "T", "S", "R", "X"} {
					if a == "F" {
						rec(append(prefix, fmt.Sprintf("F%d", next)), next+1)
					} else {
						if a == "X" && len(prefix) < *exh-2 {
							continue // a shutdown ends everything interesting: only near the end
						}
						rec(append(prefix, a), next)
					}
				}
			}
			rec(nil, 1)
		}
	}
	r := newRng(*seed)
	for i := 0; i < *n; i++ {
		s := blScn{cap: 1 + r.intn(6)}
		l := r.intn(*maxLen + 1)
		next := 1
		for j := 0; j < l; j++ {
			switch c := r.intn(20); {
			case c < 8:
				s.acts = append(s.acts, fmt.Sprintf("F%d", next))
				next++
			case c < 11:
				s.acts = append(s.acts, "T")
			case c < 15:
				s.acts = append(s.acts, "S")
			case c < 19 || j < l-3:
				s.acts = append(s.acts, "R")
			default:
				s.acts = append(s.acts, "X")
			}
		}
		scns = append(scns, s)
	}
	res := make([]string, len(scns))
	var wg sync.WaitGroup
	sem := make(chan struct{}, 16)
	for i := range scns {
		wg.Add(1)
		sem <- struct{}{}
		go func(i int) {
			defer wg.Done()
			defer func() { <-sem }()
			res[i] = runBufLinked(scns[i])
		}(i)
	}
	wg.Wait()
	for _, l := range res {
		fmt.Fprintln(out, l)
	}
	return nil
}

func runBufLinked(s blScn) string {
	buf := b2.VerifNewBuffer(uint32(s.cap))
	w := b2.NewWatcher(func([]b2.Operation) {})
	opName := func(o b2.Operation) string {
		if o == nil {
			return "nil"
		}
		return fmt.Sprint(o.Payload().(int))
	}
	ids := func(ops []b2.Operation) string {
		var xs []string
		for _, o := range ops {
			xs = append(xs, opName(o))
		}
		if len(xs) == 0 {
			return "e"
		}
		return strings.Join(xs, ".")
	}
	var obs []string
	for _, a := range s.acts {
		ret := "."
		func() {
			defer func() {
				if p := recover(); p != nil {
					ret = "panic"
				}
			}()
			switch a[0] {
			case 'F':
				ret = errName(buf.Enqueue(b2.NewOperation(w, 1, atoi(a[1:]), true), true))
			case 'T':
				ret = opName(buf.Top())
			case 'S':
				ret = opName(buf.Skip())
			case 'R':
				ret = opName(buf.Remove())
			case 'X':
				buf.Shutdown()
			}
		}()
		fwd, bwd, length, cur, shut := buf.Dump()
		obs = append(obs, fmt.Sprintf("%s/%d/%s/%s/%d/%d/%v", ret, buf.Size(), ids(fwd), ids(bwd), length, cur, b2i(shut)))
		if ret == "panic" {
			break
		}
	}
	return s.key() + " | obs=" + dash(strings.Join(obs, ";"))
}

func b2i(b bool) int {
	if b {
		return 1
	}
	return 0
}

module verifharness

go 1.26

require (
	github.com/Azure/azure-storage-blob-go v0.13.0
	github.com/google/uuid v1.2.0
	github.com/mspnp/go-batcher v0.0.0
	github.com/mspnp/go-batcher/v2 v2.0.0
)

require (
	github.com/Azure/azure-pipeline-go v0.2.3 // indirect
	github.com/mattn/go-ieproxy v0.0.1 // indirect
)

replace github.com/mspnp/go-batcher => /repo

replace github.com/mspnp/go-batcher/v2 => /repo/v2

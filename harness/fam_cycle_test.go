package main

import (
	"sort"
	"bufio"
	"fmt"
	"strings"
	"sync"
	"testing/synctest"
	"time"
)

// cycle: ONE flush cycle of the real Batcher, in a synctest bubble, against an arbitrary buffer content,
// followed by a "drain" cycle (all callbacks released, no allowance limit) that makes the remaining buffer
// content and order observable. Observed: batch events in raise order (both cycles), OperationsInBuffer and
// NeedsCapacity after each.
func init() { register("cycle", famCycle) }

type cycOp struct {
	w         int
	cost      uint32
	batchable bool
}

type cycScn struct {
	gen   int
	lim   bool
	cap   uint32
	ms    int
	slots int // -1 none
	mb    []uint32
	ops   []cycOp
}

func (s cycScn) key() string {
	var sb strings.Builder
	fmt.Fprintf(&sb, "cycle gen=%d lim=%d cap=%d ms=%d slots=%d mb=", s.gen, b01(s.lim), s.cap, s.ms, s.slots)
	for i, m := range s.mb {
		if i > 0 {
			sb.WriteByte(',')
		}
		fmt.Fprint(&sb, m)
	}
	sb.WriteString(" ops=")
	for i, o := range s.ops {
		if i > 0 {
			sb.WriteByte(',')
		}
		fmt.Fprintf(&sb, "%d:%d:%d", o.w, o.cost, b01(o.batchable))
	}
	if len(s.ops) == 0 {
		sb.WriteString("-")
	}
	return sb.String()
}

func famCycle(args []string, out *bufio.Writer) error {
	fs := newFlags("cycle")
	seed := fs.Uint64("seed", 1, "seed")
	n := fs.Int("n", 300, "random scenarios")
	exh := fs.Int("exhaustive", 3, "exhaustive up to this many ops (0 = off)")
	maxOps := fs.Int("maxops", 40, "max ops in random scenarios")
	scnFile := fs.String("scnfile", "", "run exactly the cycle scenarios of this file")
	fs.Parse(args)
	var scns []cycScn
	if *scnFile != "" {
		kvs, err := readScnFile(*scnFile, "cycle")
		if err != nil {
			return err
		}
		for _, kv := range kvs {
			scns = append(scns, cycFromKV(kv))
		}
		*exh, *n = 0, 0
	}
	if *exh > 0 {
		scns = append(scns, cycExhaustive(*exh)...)
	}
	r := newRng(*seed)
	for i := 0; i < *n; i++ {
		scns = append(scns, cycRandom(r, *maxOps))
	}
	// run in parallel shards, print in order
	res := make([]string, len(scns))
	var wg sync.WaitGroup
	sem := make(chan struct{}, 16)
	for i := range scns {
		wg.Add(1)
		sem <- struct{}{}
		go func(i int) {
			defer wg.Done()
			defer func() { <-sem }()
			res[i] = runCycle(scns[i])
		}(i)
	}
	wg.Wait()
	for _, l := range res {
		fmt.Fprintln(out, l)
	}
	return nil
}

func cycFromKV(kv map[string]string) cycScn {
	s := cycScn{gen: atoi(kv["gen"]), lim: kv["lim"] == "1", cap: atou(kv["cap"]), ms: atoi(kv["ms"]), slots: atoi(kv["slots"])}
	for _, m := range splitList(kv["mb"]) {
		s.mb = append(s.mb, atou(m))
	}
	for _, o := range splitList(kv["ops"]) {
		p := strings.Split(o, ":")
		if len(p) == 3 {
			s.ops = append(s.ops, cycOp{w: atoi(p[0]), cost: atou(p[1]), batchable: p[2] == "1"})
		}
	}
	return s
}

func cycExhaustive(maxLen int) []cycScn {
	var out []cycScn
	// per-op alternatives: 2 watchers x batchable x cost {0,1,2}
	var alts []cycOp
	for w := 0; w < 2; w++ {
		for _, b := range []bool{true, false} {
			for _, c := range []uint32{0, 1, 2} {
				alts = append(alts, cycOp{w, c, b})
			}
		}
	}
	var rec func(prefix []cycOp)
	emit := func(ops []cycOp) {
		total := uint32(0)
		for _, o := range ops {
			total += o.cost
		}
		for gen := 1; gen <= 2; gen++ {
			slotOpts := []int{-1}
			if gen == 2 {
				slotOpts = []int{-1, 1, 2}
			}
			for _, slots := range slotOpts {
				for _, mb := range [][]uint32{{0, 0}, {1, 2}, {2, 1}, {2, 0}} {
					// no limiter
					out = append(out, cycScn{gen: gen, lim: false, ms: 1000, slots: slots, mb: mb, ops: append([]cycOp{}, ops...)})
					// every cut position: allowance 0..total (ms=1000 => allowance == capacity)
					for a := uint32(0); a <= total+1; a++ {
						out = append(out, cycScn{gen: gen, lim: true, cap: a, ms: 1000, slots: slots, mb: mb, ops: append([]cycOp{}, ops...)})
					}
				}
			}
		}
	}
	rec = func(prefix []cycOp) {
		emit(prefix)
		if len(prefix) == maxLen {
			return
		}
		for _, a := range alts {
			rec(append(prefix, a))
		}
	}
	rec(nil)
	return out
}

func cycRandom(r *rng, maxOps int) cycScn {
	s := cycScn{gen: 1 + r.intn(2), lim: r.chance(3, 4), slots: -1}
	nw := 1 + r.intn(4)
	for i := 0; i < nw; i++ {
		s.mb = append(s.mb, uint32(r.pick(0, 0, 1, 2, 3, 5)))
	}
	if s.gen == 2 && r.chance(1, 2) {
		s.slots = r.pick(0, 1, 1, 2, 3, 5)
	}
	n := r.intn(maxOps + 1)
	total := uint32(0)
	for i := 0; i < n; i++ {
		o := cycOp{w: r.intn(nw), cost: uint32(r.pick(0, 1, 1, 2, 3, 7, 20)), batchable: r.chance(3, 4)}
		total += o.cost
		s.ops = append(s.ops, o)
	}
	s.ms = r.pick(1, 7, 10, 100, 100, 250, 1000, 1000, 3000)
	// choose the allowance target, then a capacity that yields about it
	target := uint32(0)
	switch r.intn(5) {
	case 0:
		target = 0
	case 1:
		target = total + uint32(r.intn(3))
	case 2:
		target = total * 10
	default:
		target = uint32(r.intn(int(total) + 2))
	}
	s.cap = uint32(uint64(target) * 1000 / uint64(s.ms))
	if r.chance(1, 3) {
		s.cap += uint32(r.intn(3))
	}
	return s
}

func runCycle(s cycScn) (line string) {
	defer func() {
		if p := recover(); p != nil {
			line = s.key() + " | panic=" + strings.ReplaceAll(fmt.Sprint(p), " ", "_")
		}
	}()
	var res string
	synctestRun(func() {
		c := bcfg{gen: s.gen, buf: uint32(len(s.ops) + 1), flush: time.Duration(s.ms) * time.Millisecond,
			capInt: time.Hour, audit: time.Hour, mot: time.Hour, pause: time.Hour, mcb: s.slots, emitBatch: true}
		if s.lim {
			c.limiter = &fakeLimiter{}
			c.limiter.maxCap.Store(4294967295)
			c.limiter.capacity.Store(s.cap)
		}
		f := newFacade(c)
		var mu sync.Mutex
		gate := make(chan struct{}) // callbacks of the current cycle block on it, so slots stay taken
		var batches []string
		var seen []string // what each watcher finds in the batch it was handed, read once the cycle is over
		cbCount := 0
		for i, m := range s.mb {
			f.addWatcher(wspec{id: i, maxBatch: m}, func(w int, objs []int, atts []uint32, reread func() []int) {
				mu.Lock()
				cbCount++
				g := gate
				mu.Unlock()
				<-g
				mu.Lock()
				seen = append(seen, fmt.Sprintf("%d>%s", w, ints(reread())))
				mu.Unlock()
			})
		}
		f.listen(func(event string, val int, msg string, objs []int) {
			if event == "batch" {
				mu.Lock()
				batches = append(batches, ints(objs))
				mu.Unlock()
			}
		})
		for i, o := range s.ops {
			f.newOp(i, o.w, o.cost, o.batchable)
		}
		// enqueue before Start: nothing can drain the buffer yet
		for i := range s.ops {
			if e := f.enqueue(i); e != "ok" {
				panic("enqueue: " + e)
			}
		}
		if e := f.start(); e != "ok" {
			panic("start: " + e)
		}
		synctest.Wait()
		f.flush()
		synctest.Wait()
		mu.Lock()
		first := strings.Join(batches, ";")
		nb := len(batches)
		cb1 := cbCount
		batches = nil
		mu.Unlock()
		inbuf1, needs1, infl1 := f.inbuf(), f.needs(), f.inflight()
		// drain: release callbacks, lift the limit, flush again
		mu.Lock()
		close(gate)
		gate = make(chan struct{})
		mu.Unlock()
		synctest.Wait()
		mu.Lock()
		sort.Strings(seen)
		seen1 := strings.Join(seen, ";")
		seen = nil
		mu.Unlock()
		needsMid := f.needs()
		if c.limiter != nil {
			// far above any backlog, and small enough for capacity/1000*ms to stay inside uint32 for every interval used
			c.limiter.capacity.Store(1000000000)
		}
		f.flush()
		synctest.Wait()
		mu.Lock()
		second := strings.Join(batches, ";")
		mu.Unlock()
		inbuf2, needs2 := f.inbuf(), f.needs()
		mu.Lock()
		close(gate)
		mu.Unlock()
		synctest.Wait()
		mu.Lock()
		sort.Strings(seen)
		seen2 := strings.Join(seen, ";")
		mu.Unlock()
		needs3, infl3 := f.needs(), f.inflight()
		f.stop()
		synctest.Wait()
		res = fmt.Sprintf("b1=%s nb1=%d cb1=%d inbuf1=%d needs1=%d infl1=%d needsmid=%d b2=%s inbuf2=%d needs2=%d needs3=%d infl3=%d seen1=%s seen2=%s",
			dash(first), nb, cb1, inbuf1, needs1, infl1, needsMid, dash(second), inbuf2, needs2, needs3, infl3, dash(seen1), dash(seen2))
	})
	return s.key() + " | " + res
}

func dash(s string) string {
	if s == "" {
		return "-"
	}
	return s
}

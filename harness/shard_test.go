package main

import (
	"bufio"
	"bytes"
	"fmt"
	"os"
	"os/exec"
	"runtime"
	"strings"
	"sync"
	"time"
)

// runSharded runs scenario lines in child processes of this binary (`<family> -scnfile <file> -child`), because a
// scenario can hang the process in real time (a goroutine blocked on a sync.Mutex stops the synctest clock
// for good; a goroutine left blocked when a bubble ends is fatal) or crash it (panic in a library goroutine).
// Each child runs its scenarios one at a time and appends every result line at once; a real-time watchdog
// outside the bubble reports the scenario it is stuck in as `<scenario> | hang=<where>` and exits. The parent
// re-runs the rest of that shard in a new child, so one bad scenario costs one result line, not the run.
func runSharded(family string, keys []string, out *bufio.Writer, shards int) error {
	if shards < 1 {
		shards = 1
	}
	results := make([]string, len(keys))
	var wg sync.WaitGroup
	var firstErr error
	var mu sync.Mutex
	for sh := 0; sh < shards; sh++ {
		var idx []int
		for i := sh; i < len(keys); i += shards {
			idx = append(idx, i)
		}
		if len(idx) == 0 {
			continue
		}
		wg.Add(1)
		go func(sh int, idx []int) {
			defer wg.Done()
			for attempt := 0; len(idx) > 0 && attempt < len(keys)+2; attempt++ {
				dir := os.Getenv("HX_TMP")
				if dir == "" {
					dir = os.TempDir()
				}
				in := fmt.Sprintf("%s/hx_%d_%s_%d_in.txt", dir, os.Getpid(), family, sh)
				outp := fmt.Sprintf("%s/hx_%d_%s_%d_out.txt", dir, os.Getpid(), family, sh)
				var sb strings.Builder
				for _, i := range idx {
					sb.WriteString(keys[i] + "\n")
				}
				os.WriteFile(in, []byte(sb.String()), 0o644)
				os.Remove(outp)
				cmd := exec.Command(selfExe, "-test.run", "TestHX", "-test.timeout", "0", "--", family, "-scnfile", in, "-child")
				cmd.Env = append(os.Environ(), "HX_OUT="+outp)
				var stderr bytes.Buffer
				cmd.Stderr = &stderr
				cmd.Stdout = nil
				err := cmd.Run()
				data, _ := os.ReadFile(outp)
				lines := strings.Split(strings.TrimRight(string(data), "\n"), "\n")
				n := 0
				for _, l := range lines {
					if l == "" || n >= len(idx) {
						continue
					}
					results[idx[n]] = l
					n++
				}
				os.Remove(in)
				os.Remove(outp)
				if err == nil && n == len(idx) {
					return
				}
				if n == 0 {
					// the child died before producing anything: blame the first scenario
					msg := "crash=" + strings.ReplaceAll(firstLine(stderr.String()), " ", "_")
					results[idx[0]] = keys[idx[0]] + " | " + msg
					n = 1
				}
				idx = idx[n:]
			}
			if len(idx) > 0 {
				mu.Lock()
				firstErr = fmt.Errorf("shard %d: %d scenarios could not be run", sh, len(idx))
				mu.Unlock()
			}
		}(sh, idx)
	}
	wg.Wait()
	for _, l := range results {
		if l != "" {
			fmt.Fprintln(out, l)
		}
	}
	return firstErr
}

func firstLine(s string) string {
	for _, l := range strings.Split(s, "\n") {
		l = strings.TrimSpace(l)
		if strings.HasPrefix(l, "panic:") || strings.HasPrefix(l, "fatal error:") {
			return l
		}
	}
	if i := strings.Index(s, "\n"); i >= 0 {
		return s[:i]
	}
	return s
}

// runChild runs scenarios sequentially with a real-time watchdog.
func runChild(keys []string, out *bufio.Writer, limit time.Duration, run func(i int) string) {
	var mu sync.Mutex
	cur := -1
	started := time.Now()
	done := make(chan struct{})
	go func() { // outside any bubble: real time
		t := time.NewTicker(200 * time.Millisecond)
		defer t.Stop()
		for {
			select {
			case <-done:
				return
			case <-t.C:
				mu.Lock()
				i, st := cur, started
				mu.Unlock()
				if i >= 0 && time.Since(st) > limit {
					buf := make([]byte, 1<<20)
					n := runtime.Stack(buf, true)
					where := hangSummary(string(buf[:n]))
					fmt.Fprintln(out, keys[i]+" | hang="+where)
					out.Flush()
					os.Exit(7)
				}
			}
		}
	}()
	for i := range keys {
		mu.Lock()
		cur, started = i, time.Now()
		mu.Unlock()
		l := run(i)
		mu.Lock()
		cur = -1
		mu.Unlock()
		fmt.Fprintln(out, l)
		out.Flush()
	}
	close(done)
}

// hangSummary names the library functions in which goroutines are blocked on a mutex / WaitGroup.
func hangSummary(stacks string) string {
	seen := map[string]bool{}
	var out []string
	for _, g := range strings.Split(stacks, "\n\n") {
		if !strings.Contains(g, "sync.") {
			continue
		}
		kind := ""
		switch {
		case strings.Contains(g, "sync.(*Mutex).Lock") || strings.Contains(g, "sync.(*RWMutex)"):
			kind = "mutex"
		case strings.Contains(g, "sync.(*WaitGroup).Wait"):
			kind = "waitgroup"
		case strings.Contains(g, "sync.(*Cond).Wait"):
			kind = "cond"
		default:
			continue
		}
		for _, l := range strings.Split(g, "\n") {
			if strings.Contains(l, "go-batcher") && strings.Contains(l, "(") && !strings.HasPrefix(l, "\t") {
				fn := l[:strings.LastIndex(l, "(")]
				if i := strings.LastIndex(fn, "/"); i >= 0 {
					fn = fn[i+1:]
				}
				key := kind + "@" + fn
				if !seen[key] {
					seen[key] = true
					out = append(out, key)
				}
				break
			}
		}
	}
	if len(out) == 0 {
		return "unknown"
	}
	return strings.Join(out, ",")
}

var selfExe = func() string {
	p, err := os.Executable()
	if err != nil {
		return os.Args[0]
	}
	return p
}()

package main

import (
	"bufio"
	"fmt"
	"strings"
	"sync"
	"time"

	"github.com/google/uuid"
	b1 "github.com/mspnp/go-batcher"
	b2 "github.com/mspnp/go-batcher/v2"
)

// events: the listener registry of both generations (eventer.go / v2/eventer.go) driven by concurrent goroutines.
//
// A scenario adds n listeners, then runs a script; every step starts an operation in its own goroutine:
//   E<k>[g<j>...]  emit event k; the listeners j named after g block inside their callback until the gate of k opens
//   R<j>           RemoveListener of listener j
//   A              AddListener of a new listener (numbered n, n+1, ...)
//   G<k>           open the gate of event k
//   W              let the started goroutines run (or block) for a moment
// Every call and return of AddListener / RemoveListener / emit, and every entry into a listener, is logged with one
// global order (taken under the log mutex at the moment of the action). At the end all gates are opened and all
// goroutines must return (watchdog => `hang`).
func init() { register("events", famEvents) }

type evScn struct {
	gen    int
	n      int
	script []string
}

func (s evScn) key() string {
	return fmt.Sprintf("events gen=%d n=%d script=%s", s.gen, s.n, strings.Join(s.script, ";"))
}

type registry interface {
	AddListener(fn func(event string, val int, msg string, metadata interface{})) uuid.UUID
	RemoveListener(id uuid.UUID)
	Emit(event string, val int, msg string, metadata interface{})
}

type regLog struct {
	mu      sync.Mutex
	entries []string
}

func (l *regLog) add(format string, a ...interface{}) {
	l.mu.Lock()
	l.entries = append(l.entries, fmt.Sprintf(format, a...))
	l.mu.Unlock()
}

func famEvents(args []string, out *bufio.Writer) error {
	fs := newFlags("events")
	seed := fs.Uint64("seed", 1, "seed")
	n := fs.Int("n", 300, "random scenarios")
	scnFile := fs.String("scnfile", "", "run exactly the events scenarios of this file")
	fs.Parse(args)
	var scns []evScn
	if *scnFile != "" {
		kvs, err := readScnFile(*scnFile, "events")
		if err != nil {
			return err
		}
		for _, kv := range kvs {
			scns = append(scns, evScn{gen: atoi(kv["gen"]), n: atoi(kv["n"]), script: strings.Split(kv["script"], ";")})
		}
		*n = 0
	}
	r := newRng(*seed)
	for i := 0; i < *n; i++ {
		scns = append(scns, eventsRandom(r))
	}
	lines := make([]string, len(scns))
	sem := make(chan struct{}, 12)
	var wg sync.WaitGroup
	for i := range scns {
		wg.Add(1)
		sem <- struct{}{}
		go func(i int) {
			defer wg.Done()
			defer func() { <-sem }()
			lines[i] = runEvents(scns[i])
		}(i)
	}
	wg.Wait()
	for _, l := range lines {
		fmt.Fprintln(out, l)
	}
	return nil
}

func eventsRandom(r *rng) evScn {
	s := evScn{gen: 1 + r.intn(2), n: 1 + r.intn(5)}
	nl := s.n
	ev := 0
	var gatedOpen []int
	steps := 3 + r.intn(10)
	for k := 0; k < steps; k++ {
		switch c := r.intn(12); {
		case c < 4:
			st := fmt.Sprintf("E%d", ev)
			if r.chance(2, 3) && nl > 0 {
				g := 1 + r.intn(2)
				for x := 0; x < g; x++ {
					st += fmt.Sprintf("g%d", r.intn(nl))
				}
				gatedOpen = append(gatedOpen, ev)
			}
			s.script = append(s.script, st, "W")
			ev++
		case c < 7 && nl > 0:
			s.script = append(s.script, fmt.Sprintf("R%d", r.intn(nl)))
			if r.chance(2, 3) {
				s.script = append(s.script, "W")
			}
		case c < 9:
			s.script = append(s.script, "A")
			nl++
			if r.chance(1, 2) {
				s.script = append(s.script, "W")
			}
		case c < 11 && len(gatedOpen) > 0:
			i := r.intn(len(gatedOpen))
			s.script = append(s.script, fmt.Sprintf("G%d", gatedOpen[i]), "W")
			gatedOpen = append(gatedOpen[:i], gatedOpen[i+1:]...)
		default:
			s.script = append(s.script, "W")
		}
	}
	return s
}

func runEvents(s evScn) string {
	lg := &regLog{}
	var reg registry
	if s.gen == 1 {
		reg = &b1.VerifEventer{}
	} else {
		reg = &b2.EventerBase{}
	}
	var mu sync.Mutex
	ids := map[int]uuid.UUID{}
	gates := map[int]chan struct{}{}
	gated := map[[2]int]bool{}
	gate := func(k int) chan struct{} {
		mu.Lock()
		defer mu.Unlock()
		if gates[k] == nil {
			gates[k] = make(chan struct{})
		}
		return gates[k]
	}
	opened := map[int]bool{}
	openGate := func(k int) {
		g := gate(k)
		mu.Lock()
		if !opened[k] {
			opened[k] = true
			close(g)
		}
		mu.Unlock()
	}
	mkListener := func(j int) func(event string, val int, msg string, metadata interface{}) {
		return func(event string, val int, msg string, metadata interface{}) {
			ok := 1
			if event != fmt.Sprintf("ev%d", val) || msg != "m" || metadata != "meta" {
				ok = 0
			}
			lg.add("d:%d:%d:%d", val, j, ok)
			mu.Lock()
			g := gated[[2]int{val, j}]
			mu.Unlock()
			if g {
				<-gate(val)
			}
		}
	}
	var wg sync.WaitGroup
	spawn := func(f func()) {
		wg.Add(1)
		go func() {
			defer wg.Done()
			defer func() {
				if p := recover(); p != nil {
					lg.add("panic:%s", strings.ReplaceAll(fmt.Sprint(p), " ", "_"))
				}
			}()
			f()
		}()
	}
	addL := func(j int) {
		lg.add("ac:%d", j)
		id := reg.AddListener(mkListener(j))
		mu.Lock()
		ids[j] = id
		mu.Unlock()
		lg.add("ar:%d", j)
	}
	for j := 0; j < s.n; j++ {
		addL(j)
	}
	next := s.n
	maxEv := -1
	for _, st := range s.script {
		if st == "" {
			continue
		}
		switch st[0] {
		case 'E':
			body := st[1:]
			parts := strings.Split(body, "g")
			k := atoi(parts[0])
			if k > maxEv {
				maxEv = k
			}
			mu.Lock()
			for _, g := range parts[1:] {
				gated[[2]int{k, atoi(g)}] = true
			}
			mu.Unlock()
			spawn(func() {
				lg.add("ec:%d", k)
				reg.Emit(fmt.Sprintf("ev%d", k), k, "m", "meta")
				lg.add("er:%d", k)
			})
		case 'R':
			j := atoi(st[1:])
			mu.Lock()
			id, ok := ids[j]
			mu.Unlock()
			if !ok {
				continue // its AddListener has not returned yet
			}
			spawn(func() {
				lg.add("rc:%d", j)
				reg.RemoveListener(id)
				lg.add("rr:%d", j)
			})
		case 'A':
			j := next
			next++
			spawn(func() { addL(j) })
		case 'G':
			openGate(atoi(st[1:]))
		case 'W':
			time.Sleep(1500 * time.Microsecond)
		}
	}
	time.Sleep(1500 * time.Microsecond)
	for k := 0; k <= maxEv; k++ {
		openGate(k)
	}
	done := make(chan struct{})
	go func() { wg.Wait(); close(done) }()
	hang := ""
	select {
	case <-done:
	case <-time.After(5 * time.Second):
		hang = " hang=1"
	}
	lg.mu.Lock()
	defer lg.mu.Unlock()
	return s.key() + " |" + hang + " tr=" + dash(strings.Join(lg.entries, ";"))
}

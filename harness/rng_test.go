package main

// splitmix64: every random choice of the harness derives from one seed, so a run replays exactly.
type rng struct{ s uint64 }

func newRng(seed uint64) *rng {
	// scramble the seed so that neighbouring seeds do not give shifted copies of one stream
	z := seed + 0x6A09E667F3BCC909
	z = (z ^ (z >> 30)) * 0xBF58476D1CE4E5B9
	z = (z ^ (z >> 27)) * 0x94D049BB133111EB
	return &rng{s: z ^ (z >> 31)}
}

func (r *rng) next() uint64 {
	r.s += 0x9E3779B97F4A7C15
	z := r.s
	z = (z ^ (z >> 30)) * 0xBF58476D1CE4E5B9
	z = (z ^ (z >> 27)) * 0x94D049BB133111EB
	return z ^ (z >> 31)
}

func (r *rng) intn(n int) int {
	if n <= 0 {
		return 0
	}
	return int(r.next() % uint64(n))
}

func (r *rng) chance(num, den int) bool { return r.intn(den) < num }

func (r *rng) pick(xs ...int) int { return xs[r.intn(len(xs))] }

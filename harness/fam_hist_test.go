package main

import (
	"bufio"
	"fmt"
	"runtime"
	"sort"
	"strconv"
	"strings"
	"sync"
	"testing/synctest"
	"time"

	b1 "github.com/mspnp/go-batcher"
	b2 "github.com/mspnp/go-batcher/v2"
)

// hist: timed API histories against the REAL Batcher (both generations) in a synctest bubble (virtual clock).
// A scenario is a configuration, watchers with scripted callback behaviour, an operation table and a script of
// timed actions executed by one driver goroutine; every call, return, event, limiter call, callback start /
// return and sampled getter is logged with its virtual timestamp.  The Lean driver replays the log through
// the Batcher machine (acceptance) and evaluates the property monitors on it.
//
// script actions (t in ns since bubble start):
//
//	e<obj>  Enqueue(op obj) from its own goroutine          h<obj> same, but parked at verifPoint("enqueue:counted") until u<obj>
//	P Pause()   F Flush()   S Start()   X Stop() (v1, own goroutine) / cancel() (v2)
//	c<v> set the fake limiter's Capacity() to v             k<obj>:<cost> change op obj's Cost() (staleness injection)
//	m<v> set the fake limiter's MaxCapacity() to v
//	s    sample only
func init() { register("hist", famHist) }

type histW struct {
	maxBatch, maxAttempts uint32
	mot                   int64 // ns; <=0 = unset
	cbDur                 int64 // ns; <0 = never returns
	flags                 string
}

type histOp struct {
	w         int
	cost      uint32
	batchable bool
}

type histAct struct {
	t   int64
	act string
}

type histScn struct {
	gen                          int
	buf                          uint32
	lim                          bool
	maxcap, cap0                 uint32
	flush, capi, audit, mot, pau int64 // ns; may be <= 0 (defaults apply)
	eof                          bool
	mcb                          int
	ws                           []histW
	ops                          []histOp
	script                       []histAct
	end                          int64
	noBatchEvents                bool   // the Batcher is built WITHOUT WithEmitBatch(): no batch events (monitor-only traces)
	lst                          string // listener-driven actions "event:ACTS,..." (another goroutine performs ACTS while the event is being delivered; letters P Pause, X stop, F Flush, E Enqueue of operation 0)
}

func (s histScn) key() string {
	var sb strings.Builder
	fmt.Fprintf(&sb, "hist gen=%d buf=%d lim=%d maxcap=%d cap=%d flush=%d capi=%d audit=%d mot=%d pause=%d eof=%d mcb=%d end=%d lst=%s ",
		s.gen, s.buf, b01(s.lim), s.maxcap, s.cap0, s.flush, s.capi, s.audit, s.mot, s.pau, b01(s.eof), s.mcb, s.end, dash(s.lst))
	if s.noBatchEvents {
		sb.WriteString("emb=0 w=")
	} else {
		sb.WriteString("w=")
	}
	for i, w := range s.ws {
		if i > 0 {
			sb.WriteByte(';')
		}
		fl := w.flags
		if fl == "" {
			fl = "-"
		}
		fmt.Fprintf(&sb, "%d:%d:%d:%d:%s", w.maxBatch, w.maxAttempts, w.mot, w.cbDur, fl)
	}
	sb.WriteString(" ops=")
	for i, o := range s.ops {
		if i > 0 {
			sb.WriteByte(';')
		}
		fmt.Fprintf(&sb, "%d:%d:%d", o.w, o.cost, b01(o.batchable))
	}
	if len(s.ops) == 0 {
		sb.WriteString("-")
	}
	sb.WriteString(" script=")
	for i, a := range s.script {
		if i > 0 {
			sb.WriteByte(';')
		}
		fmt.Fprintf(&sb, "%d:%s", a.t, a.act)
	}
	if len(s.script) == 0 {
		sb.WriteString("-")
	}
	return sb.String()
}

func histFromKV(kv map[string]string) histScn {
	i64 := func(k string) int64 { n, _ := strconv.ParseInt(kv[k], 10, 64); return n }
	s := histScn{gen: atoi(kv["gen"]), buf: atou(kv["buf"]), lim: kv["lim"] == "1", maxcap: atou(kv["maxcap"]), cap0: atou(kv["cap"]),
		flush: i64("flush"), capi: i64("capi"), audit: i64("audit"), mot: i64("mot"), pau: i64("pause"), eof: kv["eof"] == "1",
		mcb: atoi(kv["mcb"]), end: i64("end"), lst: kv["lst"], noBatchEvents: kv["emb"] == "0"}
	if s.lst == "-" {
		s.lst = ""
	}
	split := func(v string) []string {
		if v == "" || v == "-" {
			return nil
		}
		return strings.Split(v, ";")
	}
	for _, w := range split(kv["w"]) {
		p := strings.Split(w, ":")
		if len(p) != 5 {
			continue
		}
		mot, _ := strconv.ParseInt(p[2], 10, 64)
		dur, _ := strconv.ParseInt(p[3], 10, 64)
		fl := p[4]
		if fl == "-" {
			fl = ""
		}
		s.ws = append(s.ws, histW{maxBatch: atou(p[0]), maxAttempts: atou(p[1]), mot: mot, cbDur: dur, flags: fl})
	}
	for _, o := range split(kv["ops"]) {
		p := strings.Split(o, ":")
		if len(p) == 3 {
			s.ops = append(s.ops, histOp{w: atoi(p[0]), cost: atou(p[1]), batchable: p[2] == "1"})
		}
	}
	for _, a := range split(kv["script"]) {
		i := strings.Index(a, ":")
		if i > 0 {
			t, _ := strconv.ParseInt(a[:i], 10, 64)
			s.script = append(s.script, histAct{t: t, act: a[i+1:]})
		}
	}
	return s
}

// ---- goroutine-id keyed hook parking (the library's hook is one package-level function) ----

func goid() uint64 {
	var buf [64]byte
	n := runtime.Stack(buf[:], false)
	f := strings.Fields(string(buf[:n]))
	if len(f) >= 2 {
		id, _ := strconv.ParseUint(f[1], 10, 64)
		return id
	}
	return 0
}

var parkMu sync.Mutex
var parked = map[uint64]func(){} // goroutine id -> function to call at the hook point

func installHooks() {
	h := func(name string) {
		if name != "enqueue:counted" {
			return
		}
		parkMu.Lock()
		fn := parked[goid()]
		parkMu.Unlock()
		if fn != nil {
			fn()
		}
	}
	b1.VerifSetHook(h)
	b2.VerifSetHook(h)
}

const ms = int64(time.Millisecond)

func famHist(args []string, out *bufio.Writer) error {
	fs := newFlags("hist")
	seed := fs.Uint64("seed", 1, "seed")
	n := fs.Int("n", 300, "random scenarios")
	scnFile := fs.String("scnfile", "", "run exactly the hist scenarios of this file")
	profile := fs.String("profile", "mix", "generator profile")
	child := fs.Bool("child", false, "child mode: run the scenarios of -scnfile one at a time with a watchdog")
	shards := fs.Int("shards", 16, "child processes")
	fs.Parse(args)
	installHooks()
	var scns []histScn
	if *scnFile != "" {
		kvs, err := readScnFile(*scnFile, "hist")
		if err != nil {
			return err
		}
		for _, kv := range kvs {
			scns = append(scns, histFromKV(kv))
		}
		*n = 0
	}
	r := newRng(*seed)
	for i := 0; i < *n; i++ {
		scns = append(scns, histRandom(r, *profile))
	}
	keys := make([]string, len(scns))
	for i, sc := range scns {
		keys[i] = sc.key()
	}
	if *child {
		runChild(keys, out, 6*time.Second, func(i int) string { return runHist(scns[i]) })
		return nil
	}
	return runSharded("hist", keys, out, *shards)
}

type histLog struct {
	mu      sync.Mutex
	entries []string
	start   time.Time
	closed  bool
}

func (l *histLog) add(format string, a ...interface{}) {
	l.mu.Lock()
	defer l.mu.Unlock()
	if l.closed {
		return
	}
	l.entries = append(l.entries, fmt.Sprintf("%d:", int64(time.Since(l.start)))+fmt.Sprintf(format, a...))
}

func plus(xs []int) string {
	if len(xs) == 0 {
		return "-"
	}
	ss := make([]string, len(xs))
	for i, x := range xs {
		ss[i] = fmt.Sprint(x)
	}
	return strings.Join(ss, "+")
}

func plusU(xs []uint32) string {
	ys := make([]int, len(xs))
	for i, x := range xs {
		ys[i] = int(x)
	}
	return plus(ys)
}

func runHist(s histScn) (line string) {
	lg := &histLog{}
	defer func() {
		if p := recover(); p != nil {
			msg := strings.ReplaceAll(fmt.Sprint(p), " ", "_")
			lg.mu.Lock()
			defer lg.mu.Unlock()
			if strings.Contains(msg, "blocked_goroutines_remain") {
				// the history itself was recorded; what failed is the clean-up: some library goroutine is blocked for good
				line = s.key() + " | leak=" + msg + " tr=" + dash(strings.Join(lg.entries, ";"))
			} else {
				line = s.key() + " | panic=" + msg
			}
		}
	}()
	synctestRun(func() {
		lg.start = time.Now()
		c := bcfg{gen: s.gen, buf: s.buf, flush: time.Duration(s.flush), capInt: time.Duration(s.capi), audit: time.Duration(s.audit),
			mot: time.Duration(s.mot), pause: time.Duration(s.pau), errorOnFull: s.eof, mcb: s.mcb, emitBatch: !s.noBatchEvents}
		if s.gen == 1 {
			c.mcb = -1
		}
		var lim *fakeLimiter
		if s.lim {
			lim = &fakeLimiter{}
			lim.maxCap.Store(s.maxcap)
			lim.capacity.Store(s.cap0)
			lim.onCap = func(v uint32) { lg.add("limcap:%d", v) }
			lim.onGiveMe = func(v uint32) { lg.add("giveme:%d", v) }
			c.limiter = lim
		}
		f := newFacade(c)
		var mu sync.Mutex
		endGate := make(chan struct{})
		ended := false
		bseq := 0
		callSeq := 0
		var wgCalls sync.WaitGroup
		var enq func(obj int, hold chan struct{})
		enq = func(obj int, hold chan struct{}) {
			mu.Lock()
			callSeq++
			k := callSeq
			mu.Unlock()
			lg.add("call:%d:%d", k, obj)
			if hold != nil {
				id := goid()
				parkMu.Lock()
				parked[id] = func() { lg.add("hook:%d", k); <-hold; lg.add("unhook:%d", k) }
				parkMu.Unlock()
				defer func() { parkMu.Lock(); delete(parked, id); parkMu.Unlock() }()
			}
			res := func() (r string) {
				defer func() {
					if p := recover(); p != nil {
						r = "panic"
					}
				}()
				return f.enqueue(obj)
			}()
			mu.Lock()
			e := ended
			mu.Unlock()
			if !e {
				lg.add("ret:%d:%s", k, res)
			}
		}
		for i, w := range s.ws {
			w := w
			f.addWatcher(wspec{id: i, maxBatch: w.maxBatch, maxAttempts: w.maxAttempts, mot: time.Duration(w.mot)}, func(wid int, objs []int, atts []uint32, reread func() []int) {
				mu.Lock()
				bseq++
				b := bseq
				mu.Unlock()
				lg.add("cbstart:%d:%d:%s:%s", b, wid, plus(objs), plusU(atts))
				if strings.Contains(w.flags, "p") {
					lg.add("act:P")
					f.pause()
				}
				if w.cbDur < 0 {
					<-endGate
					return
				}
				if w.cbDur > 0 {
					select {
					case <-time.After(time.Duration(w.cbDur)):
					case <-endGate:
						return
					}
				}
				if strings.Contains(w.flags, "r") {
					for _, o := range objs {
						enq(o, nil)
					}
				}
				mu.Lock()
				e := ended
				mu.Unlock()
				if !e {
					lg.add("cbret:%d:%s", b, plus(reread()))
				}
			})
		}
		for i, o := range s.ops {
			f.newOp(i, o.w, o.cost, o.batchable)
		}
		lstActs := map[string]string{}
		lstLeft := map[string]int{}
		for _, e := range strings.Split(s.lst, ",") {
			if i := strings.Index(e, ":"); i > 0 {
				lstActs[e[:i]] = e[i+1:]
				lstLeft[e[:i]] = 2
			}
		}
		stopSeq := 0
		f.listen(func(event string, val int, msg string, objs []int) {
			switch event {
			case "batch":
				lg.add("ev:batch:%s", plus(objs))
			case "audit-fail":
				kind := "target"
				if strings.Contains(msg, "both") {
					kind = "both"
				} else if strings.Contains(msg, "inflight") {
					kind = "inflight"
				}
				lg.add("ev:audit-fail:%s", kind)
			default:
				lg.add("ev:%s:%d", event, val)
			}
			if acts, ok := lstActs[event]; ok && lstLeft[event] > 0 {
				// another goroutine acts while this event is still being delivered (the loop goroutine is inside Emit)
				lstLeft[event]--
				done := make(chan struct{})
				go func() {
					defer close(done)
					for _, a := range acts {
						switch a {
						case 'P':
							lg.add("act:P")
							f.pause()
						case 'E':
							// an Enqueue that lands while the event is being delivered (generated with ErrorOnFullBuffer only,
							// so that it returns and the loop is not held up for ever)
							if len(s.ops) > 0 {
								enq(0, nil)
							}
						case 'F':
							lg.add("act:F")
							f.flush()
						case 'X':
							mu.Lock()
							stopSeq++
							sn := stopSeq
							mu.Unlock()
							lg.add("act:X:%d", sn)
							if s.gen == 2 {
								f.stop()
							} else {
								go func() { defer func() { _ = recover() }(); f.stop(); lg.add("stopret:%d", sn) }()
							}
						}
					}
				}()
				<-done
			}
		})
		holds := map[int]chan struct{}{}
		sample := func() {
			lg.add("sample:%d:%d:%d", f.needs(), f.inbuf(), f.inflight())
		}
		script := append([]histAct{}, s.script...)
		sort.SliceStable(script, func(i, j int) bool { return script[i].t < script[j].t })
		for _, a := range script {
			if d := a.t - int64(time.Since(lg.start)); d > 0 {
				time.Sleep(time.Duration(d))
			}
			synctest.Wait()
			switch a.act[0] {
			case 'e':
				obj := atoi(a.act[1:])
				wgCalls.Add(1)
				go func() { defer wgCalls.Done(); enq(obj, nil) }()
			case 'h':
				obj := atoi(a.act[1:])
				ch := make(chan struct{})
				holds[obj] = ch
				wgCalls.Add(1)
				go func() { defer wgCalls.Done(); enq(obj, ch) }()
			case 'u':
				obj := atoi(a.act[1:])
				if ch := holds[obj]; ch != nil {
					close(ch)
					delete(holds, obj)
				}
			case 'P':
				lg.add("act:P")
				f.pause()
			case 'F':
				lg.add("act:F")
				f.flush()
			case 'S':
				lg.add("act:S:%s", f.start())
			case 'X':
				mu.Lock()
				stopSeq++
				sn := stopSeq
				mu.Unlock()
				lg.add("act:X:%d", sn)
				if s.gen == 1 {
					wgCalls.Add(1)
					go func() {
						defer wgCalls.Done()
						defer func() { _ = recover() }()
						f.stop()
						mu.Lock()
						e := ended
						mu.Unlock()
						if !e {
							lg.add("stopret:%d", sn)
						}
					}()
				} else {
					f.stop()
				}
			case 'c':
				v := atou(a.act[1:])
				lg.add("act:c:%d", v)
				if lim != nil {
					lim.capacity.Store(v)
				}
			case 'm':
				v := atou(a.act[1:])
				lg.add("act:m:%d", v)
				if lim != nil {
					lim.maxCap.Store(v)
				}
			case 'k':
				p := strings.Split(a.act[1:], ":")
				if len(p) == 2 {
					lg.add("act:k:%s:%s", p[0], p[1])
					f.setCost(atoi(p[0]), atou(p[1]))
				}
			case 's':
			}
			synctest.Wait()
			sample()
		}
		if d := s.end - int64(time.Since(lg.start)); d > 0 {
			time.Sleep(time.Duration(d))
		}
		synctest.Wait()
		sample()
		// ---- end of the observed history: release everything so that the bubble can end ----
		lg.add("end")
		lg.mu.Lock()
		lg.closed = true
		lg.mu.Unlock()
		mu.Lock()
		ended = true
		mu.Unlock()
		close(endGate)
		for _, ch := range holds {
			close(ch)
		}
		if s.gen == 2 {
			f.start() // a Batcher that was never started has no loop to shut its buffer down
			synctest.Wait()
			f.stop()
			synctest.Wait()
			b2.VerifWakeBlockedEnqueuers(f.(*fac2).b)
		} else {
			go func() { defer func() { _ = recover() }(); f.stop() }()
			for i := 0; i < 50; i++ {
				synctest.Wait()
				b1.VerifDrainBuffer(f.(*fac1).b)
				time.Sleep(time.Second)
			}
		}
		synctest.Wait()
		for i := 0; i < 8; i++ {
			time.Sleep(200 * time.Second)
			synctest.Wait()
			if s.gen == 2 {
				b2.VerifWakeBlockedEnqueuers(f.(*fac2).b)
			} else {
				b1.VerifDrainBuffer(f.(*fac1).b)
			}
		}
	})
	lg.mu.Lock()
	defer lg.mu.Unlock()
	return s.key() + " | tr=" + dash(strings.Join(lg.entries, ";"))
}

// ---------------------------------------------------------------- generator

// histHookRace: error-on-full mode, a buffer with ONE free place, one Enqueue parked between the admission checks and
// the insert (hook "enqueue:counted") while another call takes the last place: the parked call must come back with
// BufferFull at once when it is let go, and leave no trace.
func histHookRace(r *rng) histScn {
	s := histScn{gen: 1 + r.intn(2), buf: uint32(r.pick(1, 2, 3)), lim: r.chance(1, 2), maxcap: 100, cap0: 100000, eof: true,
		flush: int64(r.pick(250, 1000)) * ms, capi: 100 * ms, audit: 0, mot: 1000 * ms, pau: 0}
	s.ws = []histW{{maxBatch: uint32(r.pick(0, 2)), cbDur: 5 * ms}}
	n := int(s.buf) + 2
	for i := 0; i < n; i++ {
		s.ops = append(s.ops, histOp{w: 0, cost: uint32(r.pick(1, 2, 5)), batchable: true})
	}
	t := int64(0)
	if r.chance(2, 3) {
		s.script = append(s.script, histAct{t: 0, act: "S"})
	}
	t = 10*ms + ms/2
	for i := 0; i < int(s.buf)-1; i++ {
		s.script = append(s.script, histAct{t: t, act: fmt.Sprintf("e%d", i)})
		t += ms
	}
	parkedObj, filler := int(s.buf)-1, int(s.buf)
	s.script = append(s.script, histAct{t: t, act: fmt.Sprintf("h%d", parkedObj)})
	s.script = append(s.script, histAct{t: t + ms, act: fmt.Sprintf("e%d", filler)})
	s.script = append(s.script, histAct{t: t + 2*ms, act: fmt.Sprintf("u%d", parkedObj)})
	s.script = append(s.script, histAct{t: t + 3*ms, act: "s"})
	s.script = append(s.script, histAct{t: t + 4*ms, act: fmt.Sprintf("e%d", filler+1)})
	s.end = t + int64(r.pick(50, 600, 2500))*ms
	return s
}

func histRandom(r *rng, profile string) histScn {
	if r.chance(1, 14) {
		return histHookRace(r)
	}
	s := histScn{gen: 1 + r.intn(2)}
	s.buf = uint32(r.pick(1, 2, 3, 5, 50))
	s.lim = r.chance(2, 3)
	s.maxcap = uint32(r.pick(5, 20, 100, 100000))
	s.flush = int64(r.pick(0, 10, 100, 100, 250)) * ms
	s.capi = int64(r.pick(0, 30, 100, 100, 400)) * ms
	s.audit = int64(r.pick(150, 500, 1000, 0)) * ms
	s.mot = int64(r.pick(100, 300, 1000, 0)) * ms
	s.pau = int64(r.pick(0, 50, 120, 500)) * ms
	if r.chance(1, 8) {
		s.pau = int64(r.pick(750, 2500, 50250)) * (ms / 1000) // pause times that are not whole milliseconds
	}
	if r.chance(1, 10) {
		s.capi = int64(r.pick(2500, 33333, 100250)) * (ms / 1000) // intervals that are not whole milliseconds
	}
	if r.chance(1, 10) {
		s.audit = int64(r.pick(150500, 333333)) * (ms / 1000)
	}
	s.eof = r.chance(1, 4)
	s.noBatchEvents = r.chance(1, 7)
	s.mcb = 0
	if s.gen == 2 && r.chance(1, 2) {
		s.mcb = r.pick(1, 1, 2, 3)
	}
	flushEff := s.flush
	if flushEff <= 0 {
		flushEff = 100 * ms
	}
	// capacity: allowance per cycle somewhere between 0 and a few costs
	s.cap0 = uint32(uint64(r.pick(0, 1, 3, 10, 40, 1000)) * 1000 / uint64(flushEff/ms))
	nw := 1 + r.intn(3)
	motEff := s.mot
	if motEff <= 0 {
		motEff = 60000 * ms
	}
	for i := 0; i < nw; i++ {
		w := histW{maxBatch: uint32(r.pick(0, 0, 1, 2, 3)), maxAttempts: uint32(r.pick(0, 0, 2, 3))}
		switch r.intn(7) {
		case 0:
			w.mot = motEff / 2
		case 1:
			w.mot = -5 * ms
		case 2:
			// longer than the Batcher's: the audit may write a live batch off (C03 still has to hold). Not with a slot
			// limit: there the audit also drains the slot tokens and the late batch goroutine waits for one for ever -
			// the configuration C10 and C19 exclude.
			if r.chance(1, 3) && s.mcb == 0 {
				w.mot = motEff * 2
			}
		}
		eff := motEff
		if w.mot > 0 {
			eff = w.mot
		}
		switch r.intn(8) {
		case 0:
			w.cbDur = -1
		case 1:
			w.cbDur = eff - 1
		case 2:
			w.cbDur = eff
		case 3:
			w.cbDur = eff + 1
		case 4:
			w.cbDur = eff + 37*ms
		default:
			w.cbDur = int64(r.pick(1, 5, 20, 60, 150)) * ms
		}
		if r.chance(1, 6) {
			w.flags += "r"
		}
		if r.chance(1, 10) {
			w.flags += "p"
		}
		s.ws = append(s.ws, w)
	}
	nops := 1 + r.intn(12)
	for i := 0; i < nops; i++ {
		cost := uint32(r.pick(0, 1, 2, 3, 5, 8))
		s.ops = append(s.ops, histOp{w: r.intn(nw), cost: cost, batchable: r.chance(2, 3)})
	}
	// script
	t := int64(0)
	started := false
	if r.chance(9, 10) {
		s.script = append(s.script, histAct{t: 0, act: "S"})
		started = true
	}
	nact := 3 + r.intn(25)
	for i := 0; i < nact; i++ {
		// mostly off the tick grid (x.5 ms), sometimes exactly on it
		step := int64(r.pick(0, 1, 3, 7, 20, 45, 100, 130, 300)) * ms
		if r.chance(1, 2) {
			step += ms / 2
		}
		t += step
		var act string
		switch c := r.intn(40); {
		case c < 22:
			act = fmt.Sprintf("e%d", r.intn(nops))
		case c < 26:
			act = "F"
		case c < 29:
			act = "P"
		case c < 31 && s.lim:
			act = fmt.Sprintf("c%d", uint32(uint64(r.pick(0, 1, 5, 50, 5000))*1000/uint64(flushEff/ms)))
		case c < 32:
			act = "S"
			if s.lim && r.chance(1, 2) {
				// the limiter's MaxCapacity() changes while the Batcher runs (a SharedResource whose capacities are reconfigured)
				act = fmt.Sprintf("m%d", uint32(r.pick(0, 1, 2, 4, 8, 100)))
			}
		case c < 34:
			act = "s"
		case c < 35 && started:
			act = "X"
		default:
			act = fmt.Sprintf("e%d", r.intn(nops))
		}
		s.script = append(s.script, histAct{t: t, act: act})
	}
	s.end = t + int64(r.pick(50, 400, 1200, 3000))*ms
	switch r.intn(14) {
	case 0:
		s.lst = "resume:P"
	case 1:
		s.lst = "flush-start:PX"
	case 2:
		s.lst = "pause:X"
	case 3:
		s.lst = "resume:PX"
	case 4:
		s.lst = "pause:P" // a second Pause() while the pause event of the first is still being delivered
	case 5:
		s.lst = "pause:PF"
	case 6:
		s.lst, s.eof = "flush-start:E", true // an operation arrives between the start of a cycle and its walk of the buffer
	}
	// probes around the write-off instants: batches are raised at flush ticks, so sample at tick + MaxOperationTime -1ns/0/+1ns
	if started && r.chance(1, 2) {
		for j := 0; j < 3; j++ {
			tick := int64(1+r.intn(12)) * flushEff
			for _, w := range s.ws {
				eff := motEff
				if w.mot > 0 {
					eff = w.mot
				}
				for _, d := range []int64{-1, 0, 1} {
					if tt := tick + eff + d; tt > 0 && tt < s.end {
						s.script = append(s.script, histAct{t: tt, act: "s"})
					}
				}
			}
		}
	}
	// an Enqueue parked between counting and inserting while an audit tick fires (hook "enqueue:counted")
	if started && r.chance(1, 6) {
		auditEff := s.audit
		if auditEff <= 0 {
			auditEff = 10000 * ms
		}
		tick := int64(1+r.intn(3)) * auditEff
		if tick+2*ms < s.end {
			obj := r.intn(nops)
			s.script = append(s.script, histAct{t: tick - ms/2, act: fmt.Sprintf("h%d", obj)}, histAct{t: tick + ms/2, act: fmt.Sprintf("u%d", obj)})
		}
	}
	sort.SliceStable(s.script, func(i, j int) bool { return s.script[i].t < s.script[j].t })
	return s
}

package main

import (
	"bufio"
	"os"
	"strconv"
	"strings"
)

// scenario lines are "family k=v k=v ... [| observed ...]"; everything after " | " is ignored on input.
func readScnFile(path, family string) ([]map[string]string, error) {
	f, err := os.Open(path)
	if err != nil {
		return nil, err
	}
	defer f.Close()
	var out []map[string]string
	sc := bufio.NewScanner(f)
	sc.Buffer(make([]byte, 1<<20), 1<<26)
	for sc.Scan() {
		line := sc.Text()
		if i := strings.Index(line, " | "); i >= 0 {
			line = line[:i]
		}
		line = strings.TrimSpace(line)
		if !strings.HasPrefix(line, family+" ") {
			continue
		}
		kv := map[string]string{}
		for _, tok := range strings.Fields(line)[1:] {
			if i := strings.Index(tok, "="); i > 0 {
				kv[tok[:i]] = tok[i+1:]
			}
		}
		out = append(out, kv)
	}
	return out, sc.Err()
}

func atoi(s string) int {
	n, _ := strconv.ParseInt(s, 10, 64)
	return int(n)
}

func atou(s string) uint32 {
	n, _ := strconv.ParseUint(s, 10, 64)
	return uint32(n)
}

func splitList(s string) []string {
	if s == "" || s == "-" {
		return nil
	}
	return strings.Split(s, ",")
}

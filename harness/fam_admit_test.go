package main

import (
	"bufio"
	"fmt"
	"time"
)

// admit: exhaustive grid over everything Enqueue's validation looks at, both generations, on a Batcher that
// is not started (so nothing drains the buffer). Observed: the error, and buffer/demand before and after.
func init() { register("admit", famAdmit) }

func famAdmit(args []string, out *bufio.Writer) error {
	fs := newFlags("admit")
	scnFile := fs.String("scnfile", "", "run exactly the admit scenarios of this file")
	fs.Parse(args)
	if *scnFile != "" {
		kvs, err := readScnFile(*scnFile, "admit")
		if err != nil {
			return err
		}
		for _, kv := range kvs {
			admitCase(out, atoi(kv["gen"]), kv["hasop"] == "1", kv["hasw"] == "1", kv["lim"] == "1",
				atou(kv["maxcap"]), atou(kv["cost"]), atou(kv["maxatt"]), atou(kv["att"]))
		}
		return nil
	}
	maxCaps := []uint32{0, 1, 5, 4294967295}
	for gen := 1; gen <= 2; gen++ {
		for hasOp := 0; hasOp <= 1; hasOp++ {
			for hasW := 0; hasW <= 1; hasW++ {
				for lim := 0; lim <= 1; lim++ {
					for _, mc := range maxCaps {
						if lim == 0 && mc != 5 {
							continue
						}
						costs := map[uint32]bool{0: true, 3: true}
						for _, c := range []int64{int64(mc) - 1, int64(mc), int64(mc) + 1} {
							if c >= 0 && c <= 4294967295 {
								costs[uint32(c)] = true
							}
						}
						for cost := range costs {
							for _, maxAtt := range []uint32{0, 1, 3} {
								for att := uint32(0); att <= 4; att++ {
									admitCase(out, gen, hasOp == 1, hasW == 1, lim == 1, mc, cost, maxAtt, att)
								}
							}
						}
					}
				}
			}
		}
	}
	return nil
}

func admitCase(out *bufio.Writer, gen int, hasOp, hasW, lim bool, maxCap, cost, maxAtt, att uint32) {
	c := bcfg{gen: gen, buf: 4, flush: time.Hour, capInt: time.Hour, audit: time.Hour, mot: time.Hour, pause: time.Hour, mcb: -1}
	if lim {
		c.limiter = &fakeLimiter{}
		c.limiter.maxCap.Store(maxCap)
	}
	f := newFacade(c)
	f.addWatcher(wspec{id: 0, maxAttempts: maxAtt}, func(int, []int, []uint32, func() []int) {})
	// one accepted operation first, so "unchanged" is not trivially "stays zero"
	f.newOp(100, 0, 0, true)
	pre := f.enqueue(100)
	w := 0
	if !hasW {
		w = -1
	}
	obj := 1
	if hasOp {
		f.newOp(1, w, cost, true)
		for i := uint32(0); i < att; i++ {
			f.makeAttempt(1)
		}
	} else {
		obj = -1
	}
	n0, b0 := f.needs(), f.inbuf()
	res := f.enqueue(obj)
	n1, b1 := f.needs(), f.inbuf()
	fmt.Fprintf(out, "admit gen=%d hasop=%d hasw=%d lim=%d maxcap=%d cost=%d maxatt=%d att=%d pre=%s | err=%s dneeds=%d dbuf=%d\n",
		gen, b01(hasOp), b01(hasW), b01(lim), maxCap, cost, maxAtt, att, pre, res, int64(n1)-int64(n0), int64(b1)-int64(b0))
}

package main

import (
	"bufio"
	"context"
	"fmt"
	"sort"
	"strconv"
	"strings"
	"sync"
	"sync/atomic"
	"testing/synctest"
	"time"

	b1 "github.com/mspnp/go-batcher"
	b2 "github.com/mspnp/go-batcher/v2"
)

// lease: N SharedResource instances (real code, either generation) against ONE fake lease store in a synctest
// bubble. Every LeasePartition call (issue, store-side processing instant, return), every event and the sampled
// Capacity()/MaxCapacity() of every instance is logged with its virtual timestamp.
//
// The fake store grants an exclusive lease of exactly `lease` ns starting at the instant it PROCESSES the
// request; per-call behaviour comes from the instance's script: latency before processing, latency after
// processing, outcome override (refuse / error).
//
// script actions:  g<i>:<v> GiveMe(v) on instance i      r<i>:<v> SetReservedCapacity (v2)     c<i>:<v> SetSharedCapacity (v2)
//
//	S<i> Start   X<i> Stop (v1) / cancel (v2)   K<i> crash (the instance is abandoned: never consulted again)
//	s sample
func init() { register("lease", famLease) }

type leaseInst struct {
	shared, reserved, factor, maxInterval uint32
	pre, post                             []int64  // per lease call: latency before / after the store processes it (ns); last value repeats
	fault                                 []string // per lease call: "" | "refuse" | "error"; beyond the list: ""
	provLat                               int64    // latency of CreatePartitions (ns)
	provErr                               bool     // Provision (container) fails
	partErr                               bool     // creating the partition blobs fails (v1: error returned, v2: error event); the resource is usable all the same
	slowListener                          int64    // a listener of this instance takes this long (ns) over every `allocated` event
}

type leaseScn struct {
	gen    int
	lease  int64 // lease duration reported/granted by the store (ns)
	insts  []leaseInst
	script []histAct
	end    int64
}

func i64s(xs []int64) string {
	if len(xs) == 0 {
		return "-"
	}
	ss := make([]string, len(xs))
	for i, x := range xs {
		ss[i] = fmt.Sprint(x)
	}
	return strings.Join(ss, "+")
}

func (s leaseScn) key() string {
	var sb strings.Builder
	fmt.Fprintf(&sb, "lease gen=%d lease=%d end=%d inst=", s.gen, s.lease, s.end)
	for i, in := range s.insts {
		if i > 0 {
			sb.WriteByte(';')
		}
		f := "-"
		if len(in.fault) > 0 {
			fs := make([]string, len(in.fault))
			for j, x := range in.fault {
				if x == "" {
					x = "ok"
				}
				fs[j] = x
			}
			f = strings.Join(fs, "+")
		}
		fmt.Fprintf(&sb, "%d:%d:%d:%d:%s:%s:%s:%d:%d", in.shared, in.reserved, in.factor, in.maxInterval, i64s(in.pre), i64s(in.post), f, in.provLat, b01(in.provErr)+2*b01(in.partErr))
		if in.slowListener > 0 {
			fmt.Fprintf(&sb, ":%d", in.slowListener)
		}
	}
	sb.WriteString(" script=")
	for i, a := range s.script {
		if i > 0 {
			sb.WriteByte(';')
		}
		fmt.Fprintf(&sb, "%d:%s", a.t, a.act)
	}
	if len(s.script) == 0 {
		sb.WriteString("-")
	}
	return sb.String()
}

func leaseFromKV(kv map[string]string) leaseScn {
	i64 := func(v string) int64 { n, _ := strconv.ParseInt(v, 10, 64); return n }
	s := leaseScn{gen: atoi(kv["gen"]), lease: i64(kv["lease"]), end: i64(kv["end"])}
	parseList := func(v string) []int64 {
		if v == "-" || v == "" {
			return nil
		}
		var out []int64
		for _, x := range strings.Split(v, "+") {
			out = append(out, i64(x))
		}
		return out
	}
	for _, e := range strings.Split(kv["inst"], ";") {
		p := strings.Split(e, ":")
		if len(p) != 9 && len(p) != 10 {
			continue
		}
		in := leaseInst{shared: atou(p[0]), reserved: atou(p[1]), factor: atou(p[2]), maxInterval: atou(p[3]), pre: parseList(p[4]), post: parseList(p[5]),
			provLat: i64(p[7]), provErr: p[8] == "1", partErr: p[8] == "2"}
		if len(p) == 10 {
			in.slowListener = i64(p[9])
		}
		if p[6] != "-" {
			for _, x := range strings.Split(p[6], "+") {
				if x == "ok" {
					x = ""
				}
				in.fault = append(in.fault, x)
			}
		}
		s.insts = append(s.insts, in)
	}
	if kv["script"] != "-" && kv["script"] != "" {
		for _, a := range strings.Split(kv["script"], ";") {
			if i := strings.Index(a, ":"); i > 0 {
				s.script = append(s.script, histAct{t: i64(a[:i]), act: a[i+1:]})
			}
		}
	}
	return s
}

// ---- the fake store and the per-instance lease manager ----

type leaseStore struct {
	mu    sync.Mutex
	until map[uint32]int64 // partition -> end of the current lease (virtual ns since start)
	owner map[uint32]int
}

type fakeLM struct {
	inst   int
	scn    *leaseScn
	store  *leaseStore
	lg     *histLog
	calls  int
	events b2.Eventer
}

func (m *fakeLM) latency(list []int64, i int) int64 {
	if len(list) == 0 {
		return 0
	}
	if i < len(list) {
		return list[i]
	}
	return list[len(list)-1]
}

func (m *fakeLM) RaiseEventsTo(e b2.Eventer) { m.events = e }
func (m *fakeLM) Provision(ctx context.Context) error {
	m.lg.add("prov:%d", m.inst)
	if m.scn.insts[m.inst].provErr {
		return fmt.Errorf("provisioning failed")
	}
	return nil
}
func (m *fakeLM) createPartitions(ctx context.Context, count int) {
	m.lg.add("create:%d:%d", m.inst, count)
	if d := m.scn.insts[m.inst].provLat; d > 0 {
		time.Sleep(time.Duration(d))
	}
	m.lg.add("created:%d:%d", m.inst, count)
}
func (m *fakeLM) CreatePartitions(ctx context.Context, count int) { m.createPartitions(ctx, count) }
func (m *fakeLM) leasePartition(ctx context.Context, id string, index uint32) time.Duration {
	in := m.scn.insts[m.inst]
	i := m.calls
	m.calls++
	m.lg.add("issue:%d:%d", m.inst, index)
	if d := m.latency(in.pre, i); d > 0 {
		time.Sleep(time.Duration(d))
	}
	now := int64(time.Since(m.lg.start))
	fault := ""
	if i < len(in.fault) {
		fault = in.fault[i]
	}
	res := "refuse"
	switch fault {
	case "error":
		res = "error"
	case "refuse":
	default:
		m.store.mu.Lock()
		if u, ok := m.store.until[index]; !ok || u <= now {
			m.store.until[index] = now + m.scn.lease
			m.store.owner[index] = m.inst
			res = "grant"
		}
		m.store.mu.Unlock()
	}
	m.lg.add("proc:%d:%d:%s", m.inst, index, res)
	if d := m.latency(in.post, i); d > 0 {
		time.Sleep(time.Duration(d))
	}
	m.lg.add("ret:%d:%d:%s", m.inst, index, res)
	if res == "grant" {
		return time.Duration(m.scn.lease)
	}
	return 0
}
func (m *fakeLM) LeasePartition(ctx context.Context, id string, index uint32) time.Duration {
	return m.leasePartition(ctx, id, index)
}

// v1 adapter (VerifLeaseManager)
type fakeLM1 struct{ *fakeLM }

func (m fakeLM1) Provision(ctx context.Context) error { return m.fakeLM.Provision(ctx) }
func (m fakeLM1) CreatePartitions(ctx context.Context, count int) error {
	m.fakeLM.createPartitions(ctx, count)
	if m.scn.insts[m.inst].partErr {
		return fmt.Errorf("a blob could not be created")
	}
	return nil
}
func (m fakeLM1) LeasePartition(ctx context.Context, id string, index uint32) time.Duration {
	return m.fakeLM.leasePartition(ctx, id, index)
}

type instHandle struct {
	stopping atomic.Bool // v1: Stop() holds a mutex while it waits for the loop; a second concurrent Stop() would block on
	// that mutex, which testing/synctest does not count as durably blocked (the virtual clock would stall)
	gen     int
	r1      *b1.AzureSharedResource
	r2      b2.SharedResource
	cancel  context.CancelFunc
	ctx     context.Context
	crashed bool
}

func (h *instHandle) capacity() uint32 {
	if h.gen == 1 {
		return h.r1.Capacity()
	}
	return h.r2.Capacity()
}
func (h *instHandle) maxCapacity() uint32 {
	if h.gen == 1 {
		return h.r1.MaxCapacity()
	}
	return h.r2.MaxCapacity()
}

func famLease(args []string, out *bufio.Writer) error {
	fs := newFlags("lease")
	seed := fs.Uint64("seed", 1, "seed")
	n := fs.Int("n", 200, "random scenarios")
	scnFile := fs.String("scnfile", "", "run exactly the lease scenarios of this file")
	child := fs.Bool("child", false, "child mode")
	shards := fs.Int("shards", 16, "child processes")
	fs.Parse(args)
	var scns []leaseScn
	if *scnFile != "" {
		kvs, err := readScnFile(*scnFile, "lease")
		if err != nil {
			return err
		}
		for _, kv := range kvs {
			scns = append(scns, leaseFromKV(kv))
		}
		*n = 0
	}
	r := newRng(*seed)
	for i := 0; i < *n; i++ {
		scns = append(scns, leaseRandom(r))
	}
	keys := make([]string, len(scns))
	for i, sc := range scns {
		keys[i] = sc.key()
	}
	if *child {
		runChild(keys, out, 8*time.Second, func(i int) string { return runLease(scns[i]) })
		return nil
	}
	return runSharded("lease", keys, out, *shards)
}

func runLease(s leaseScn) (line string) {
	lg := &histLog{}
	defer func() {
		if p := recover(); p != nil {
			msg := strings.ReplaceAll(fmt.Sprint(p), " ", "_")
			lg.mu.Lock()
			defer lg.mu.Unlock()
			line = s.key() + " | panic=" + msg + " tr=" + dash(strings.Join(lg.entries, ";"))
		}
	}()
	synctestRun(func() {
		lg.start = time.Now()
		store := &leaseStore{until: map[uint32]int64{}, owner: map[uint32]int{}}
		hs := make([]*instHandle, len(s.insts))
		for i, in := range s.insts {
			i := i
			lm := &fakeLM{inst: i, scn: &s, store: store, lg: lg}
			h := &instHandle{gen: s.gen}
			listen := func(event string, val int, msg string, metadata interface{}) {
				switch event {
				case "allocated", "released", "capacity", "target", "provision-start", "provision-done", "shutdown":
					lg.add("ev:%d:%s:%d", i, event, val)
					if event == "allocated" && s.insts[i].slowListener > 0 {
						// events are delivered synchronously: this holds the loop up before it recomputes the capacity
						lg.add("lsleep:%d", i)
						time.Sleep(time.Duration(s.insts[i].slowListener))
						lg.add("lwake:%d", i)
					}
				case "error":
					lg.add("ev:%d:error:%d", i, val)
				}
			}
			if s.gen == 1 {
				h.r1 = b1.NewAzureSharedResource("acct", "cont", in.shared).WithFactor(in.factor).WithReservedCapacity(in.reserved).WithMaxInterval(in.maxInterval)
				b1.VerifWithLeaseManager(h.r1, fakeLM1{lm})
				h.r1.AddListener(listen)
			} else {
				h.r2 = b2.NewSharedResource().WithFactor(in.factor).WithReservedCapacity(in.reserved).WithMaxInterval(in.maxInterval)
				if in.shared > 0 || true {
					h.r2.WithSharedCapacity(in.shared, lm)
				}
				h.r2.AddListener(listen)
			}
			h.ctx, h.cancel = context.WithCancel(context.Background())
			hs[i] = h
		}
		sample := func() {
			var parts []string
			for _, h := range hs {
				if h.crashed {
					parts = append(parts, "x/x")
				} else {
					parts = append(parts, fmt.Sprintf("%d/%d", h.capacity(), h.maxCapacity()))
				}
			}
			lg.add("sample:%s", strings.Join(parts, ","))
		}
		script := append([]histAct{}, s.script...)
		sort.SliceStable(script, func(i, j int) bool { return script[i].t < script[j].t })
		for _, a := range script {
			if d := a.t - int64(time.Since(lg.start)); d > 0 {
				time.Sleep(time.Duration(d))
			}
			synctest.Wait()
			func() {
				defer func() {
					if p := recover(); p != nil {
						lg.add("actpanic:%s", strings.ReplaceAll(fmt.Sprint(p), " ", "_"))
					}
				}()
				kind := a.act[0]
				rest := a.act[1:]
				inst, val := 0, uint32(0)
				if i := strings.Index(rest, ":"); i >= 0 {
					inst = atoi(rest[:i])
					val = atou(rest[i+1:])
				} else if rest != "" {
					inst = atoi(rest)
				}
				if kind != 's' && (inst < 0 || inst >= len(hs)) {
					return
				}
				switch kind {
				case 'g':
					lg.add("act:g:%d:%d", inst, val)
					if s.gen == 1 {
						hs[inst].r1.GiveMe(val)
					} else {
						hs[inst].r2.GiveMe(val)
					}
				case 'r':
					if s.gen == 2 {
						lg.add("act:r:%d:%d", inst, val)
						hs[inst].r2.SetReservedCapacity(val)
					}
				case 'c':
					if s.gen == 2 {
						err := hs[inst].r2.SetSharedCapacity(val)
						lg.add("act:c:%d:%d:%s", inst, val, errName(err))
					}
				case 'S':
					var err error
					if s.gen == 1 {
						err = hs[inst].r1.Provision(hs[inst].ctx)
						lg.add("act:V:%d:%s", inst, errName2(err))
						if err == nil || s.insts[inst].partErr {
							// (a caller may go on after a blob-creation error: the resource is provisioned all the same)
							err = hs[inst].r1.Start(hs[inst].ctx)
						}
					} else {
						err = hs[inst].r2.Start(hs[inst].ctx)
					}
					lg.add("act:S:%d:%s", inst, errName2(err))
				case 'X':
					lg.add("act:X:%d", inst)
					if s.gen == 1 {
						if hs[inst].stopping.CompareAndSwap(false, true) {
							done := make(chan struct{})
							go func() { hs[inst].r1.Stop(); lg.add("stopret:%d", inst); close(done) }()
							// v1 Stop() keeps the phase mutex until the loop has exited; any call that needs the mutex meanwhile
							// would stall the virtual clock (synctest), so the script waits for Stop() to return
							<-done
						}
					} else {
						hs[inst].cancel()
					}
				case 'K':
					lg.add("act:K:%d", inst)
					hs[inst].crashed = true
					if s.gen == 2 {
						hs[inst].cancel()
					} else {
						if hs[inst].stopping.CompareAndSwap(false, true) {
							// (as for X: a call needing the phase mutex while Stop() waits for the loop would stall the virtual clock)
							done := make(chan struct{})
							go func() { hs[inst].r1.Stop(); close(done) }()
							<-done
						}
					}
				}
			}()
			synctest.Wait()
			sample()
		}
		if d := s.end - int64(time.Since(lg.start)); d > 0 {
			time.Sleep(time.Duration(d))
		}
		synctest.Wait()
		sample()
		lg.add("end")
		lg.mu.Lock()
		lg.closed = true
		lg.mu.Unlock()
		for _, h := range hs {
			h.cancel()
			if s.gen == 1 {
				h := h
				if h.stopping.CompareAndSwap(false, true) {
					go func() { defer func() { _ = recover() }(); h.r1.Stop() }()
				}
			}
		}
		// let expiry timers and loops run out
		for i := 0; i < 4; i++ {
			time.Sleep(time.Duration(s.lease) + 2*time.Second)
			synctest.Wait()
		}
	})
	lg.mu.Lock()
	defer lg.mu.Unlock()
	return s.key() + " | tr=" + dash(strings.Join(lg.entries, ";"))
}

func errName2(err error) string {
	if err == nil {
		return "ok"
	}
	n := errName(err)
	if strings.HasPrefix(n, "other:") {
		return "error"
	}
	return n
}

const sec = int64(time.Second)

// leaseResize: v2 live reconfiguration around held leases - acquire, shrink (possibly to zero), let leases run
// out or not, grow again, watch the figures for several lease durations.
func leaseResize(r *rng) leaseScn {
	s := leaseScn{gen: 2, lease: 15 * sec}
	ni := 1 + r.intn(2)
	factor := uint32(r.pick(0, 1, 2, 5))
	feff := factor
	if feff == 0 {
		feff = 1
	}
	parts := uint32(2 + r.intn(5))
	shared := parts * feff
	for i := 0; i < ni; i++ {
		in := leaseInst{shared: shared, reserved: uint32(r.pick(0, 0, 3)), factor: factor, maxInterval: uint32(r.pick(50, 200))}
		if r.chance(1, 4) {
			in.pre, in.post = []int64{int64(r.pick(0, 100, 900)) * ms}, []int64{int64(r.pick(0, 100, 900)) * ms}
		}
		if r.chance(1, 6) {
			in.provLat = int64(r.pick(100, 1000, 3000)) * ms
		}
		s.insts = append(s.insts, in)
	}
	// every lease call slow: the loop is nearly always inside one, so a resize lands while a request for a partition
	// that is about to disappear is in flight
	inFlight := r.chance(1, 3)
	if inFlight {
		for i := range s.insts {
			s.insts[i].pre, s.insts[i].post = []int64{int64(r.pick(1500, 2500)) * ms}, []int64{int64(r.pick(0, 500)) * ms}
		}
	}
	t := int64(0)
	for i := 0; i < ni; i++ {
		s.script = append(s.script, histAct{t: t, act: fmt.Sprintf("S%d", i)})
	}
	t += 100 * ms
	for i := 0; i < ni; i++ {
		s.script = append(s.script, histAct{t: t, act: fmt.Sprintf("g%d:%d", i, shared+10)})
		t += ms
	}
	rounds := 1 + r.intn(3)
	if inFlight {
		// shrink (often to nothing) early, while the first partitions are still being requested
		i := r.intn(ni)
		t += int64(r.pick(700, 1800, 3100)) * ms
		s.script = append(s.script, histAct{t: t, act: fmt.Sprintf("c%d:%d", i, uint32(r.pick(0, 0, 1))*feff)})
		t += int64(r.pick(4000, 9000)) * ms
		s.script = append(s.script, histAct{t: t, act: "s"})
	}
	for k := 0; k < rounds; k++ {
		i := r.intn(ni)
		t += int64(r.pick(2000, 4000, 8000)) * ms
		s.script = append(s.script, histAct{t: t, act: "s"})
		t += 100 * ms
		s.script = append(s.script, histAct{t: t, act: fmt.Sprintf("c%d:%d", i, uint32(r.intn(int(parts)))*feff)})
		if r.chance(1, 2) {
			t += int64(r.pick(500, 3000)) * ms
			s.script = append(s.script, histAct{t: t, act: fmt.Sprintf("g%d:0", i)})
		}
		t += int64(r.pick(1000, 8000, 16000, 20000)) * ms
		s.script = append(s.script, histAct{t: t, act: "s"})
		t += 100 * ms
		s.script = append(s.script, histAct{t: t, act: fmt.Sprintf("c%d:%d", i, (parts+uint32(r.intn(3)))*feff)})
		t += int64(r.pick(500, 2000)) * ms
		s.script = append(s.script, histAct{t: t, act: "s"})
		if r.chance(1, 2) {
			t += 100 * ms
			s.script = append(s.script, histAct{t: t, act: fmt.Sprintf("g%d:%d", i, shared+10)})
		}
	}
	for k := 0; k < 5; k++ {
		t += int64(r.pick(3000, 14999, 15001, 16000)) * ms
		s.script = append(s.script, histAct{t: t, act: "s"})
	}
	s.end = t + int64(r.pick(1, 16))*sec
	return s
}

// leaseContended: several instances compete for few partitions (saturated or nearly so) for a long time; peers
// crash, stop or lower their demand in between, so that single partitions become free next to a needy instance.
func leaseContended(r *rng) leaseScn {
	s := leaseScn{gen: 1 + r.intn(2), lease: 15 * sec}
	ni := 2 + r.intn(2)
	parts := uint32(2 + r.intn(3))
	for i := 0; i < ni; i++ {
		in := leaseInst{shared: parts, reserved: 0, factor: uint32(r.pick(0, 1)), maxInterval: uint32(r.pick(20, 50))}
		if r.chance(1, 4) {
			in.pre, in.post = []int64{int64(r.pick(0, 10, 100)) * ms}, []int64{int64(r.pick(0, 10, 100)) * ms}
		}
		s.insts = append(s.insts, in)
	}
	t := int64(0)
	for i := 0; i < ni; i++ {
		s.script = append(s.script, histAct{t: t, act: fmt.Sprintf("S%d", i)})
	}
	t += 100 * ms
	// demands: sum close to the number of partitions
	left := int(parts)
	for i := 0; i < ni; i++ {
		d := 1
		if i == ni-1 {
			d = left
		} else if left > ni-i {
			d = 1 + r.intn(left-(ni-i)+1)
		}
		if d < 1 {
			d = 1
		}
		left -= d
		s.script = append(s.script, histAct{t: t, act: fmt.Sprintf("g%d:%d", i, d)})
		t += int64(r.pick(1, 300, 2000)) * ms
	}
	for k := 0; k < 1+r.intn(3); k++ {
		t += int64(r.pick(20000, 35000, 50000)) * ms
		s.script = append(s.script, histAct{t: t, act: "s"})
		i := r.intn(ni)
		t += 100 * ms
		switch r.intn(4) {
		case 0:
			s.script = append(s.script, histAct{t: t, act: fmt.Sprintf("K%d", i)})
		case 1:
			s.script = append(s.script, histAct{t: t, act: fmt.Sprintf("g%d:0", i)})
		case 2:
			s.script = append(s.script, histAct{t: t, act: fmt.Sprintf("g%d:%d", i, 1+r.intn(int(parts)))})
		default:
		}
	}
	for k := 0; k < 4; k++ {
		t += int64(r.pick(5000, 15001, 20000)) * ms
		s.script = append(s.script, histAct{t: t, act: "s"})
	}
	s.end = t + int64(r.pick(20, 40))*sec
	return s
}

func leaseRandom(r *rng) leaseScn {
	if r.chance(1, 5) {
		return leaseResize(r)
	}
	if r.chance(1, 6) {
		return leaseContended(r)
	}
	s := leaseScn{gen: 1 + r.intn(2), lease: 15 * sec}
	ni := 1 + r.intn(3)
	factor := uint32(r.pick(0, 1, 2, 5, 100))
	feff := factor
	if feff == 0 {
		feff = 1
	}
	parts := uint32(1 + r.intn(5))
	shared := parts * feff
	if r.chance(1, 4) && feff > 1 {
		shared -= uint32(r.intn(int(feff)))
	}
	if r.chance(1, 10) {
		// around the 500-partition limit: exactly 499 / 500 / 501 / 600 partitions, also reached only by rounding up
		// (floor(shared/factor) = 500 but ceil = 501)
		parts = uint32(r.pick(499, 500, 501, 501, 600))
		shared = parts * feff
		if feff > 1 && r.chance(1, 2) {
			shared = (parts-1)*feff + 1 + uint32(r.intn(int(feff)-1))
		}
		if r.chance(1, 3) {
			// the top of the uint32 range: any arithmetic on the shared capacity that is not done in a wider type wraps here
			shared = 4294967295 - uint32(r.intn(int(feff)))
		}
	}
	latMode := r.intn(6)
	for i := 0; i < ni; i++ {
		in := leaseInst{shared: shared, reserved: uint32(r.pick(0, 0, 1, 10)), factor: factor, maxInterval: uint32(r.pick(0, 50, 200, 500, 900))}
		switch latMode {
		case 1: // early grant, slow return
			in.pre, in.post = []int64{0}, []int64{int64(r.pick(100, 900, 2000)) * ms}
		case 2:
			in.pre, in.post = []int64{int64(r.pick(100, 900, 2000)) * ms}, []int64{0}
		case 3:
			for j := 0; j < 6; j++ {
				in.pre = append(in.pre, int64(r.pick(0, 10, 300, 1500))*ms)
				in.post = append(in.post, int64(r.pick(0, 10, 300, 1500))*ms)
			}
		case 5: // one call whose answer takes about a whole lease (or longer) to come back, the rest prompt
			k := r.intn(3)
			for j := 0; j < 4; j++ {
				in.pre = append(in.pre, 0)
				if j == k {
					in.post = append(in.post, int64(r.pick(14000, 14999, 15000, 15001, 16000, 21000))*ms)
				} else {
					in.post = append(in.post, 0)
				}
			}
		}
		if r.chance(1, 3) {
			for j := 0; j < 1+r.intn(5); j++ {
				in.fault = append(in.fault, []string{"", "refuse", "error"}[r.intn(3)])
			}
		}
		if r.chance(1, 6) {
			in.provLat = int64(r.pick(100, 1000, 3000)) * ms
		}
		if r.chance(1, 15) {
			in.provErr = true
		} else if s.gen == 1 && r.chance(1, 12) {
			in.partErr = true
		}
		if r.chance(1, 12) {
			in.slowListener = int64(r.pick(2000, 5000, 16000)) * ms
		}
		s.insts = append(s.insts, in)
	}
	t := int64(0)
	for i := 0; i < ni; i++ {
		if r.chance(9, 10) {
			s.script = append(s.script, histAct{t: t, act: fmt.Sprintf("S%d", i)})
			if s.gen == 2 && s.insts[i].provLat > 0 && r.chance(2, 3) {
				// a new shared capacity is set while the blobs of the previous one are still being created
				s.script = append(s.script, histAct{t: t + s.insts[i].provLat/2, act: fmt.Sprintf("c%d:%d", i, uint32(r.pick(int(feff), int(shared+2*feff), int(shared+feff))))})
			}
		}
		t += int64(r.pick(0, 1, 200)) * ms
	}
	nact := 2 + r.intn(14)
	for k := 0; k < nact; k++ {
		t += int64(r.pick(100, 700, 2500, 6000, 16000)) * ms
		i := r.intn(ni)
		maxc := shared + 10
		var act string
		switch c := r.intn(20); {
		case c < 9:
			gv := uint32(r.intn(int(maxc) + 5))
			if r.chance(1, 12) {
				// "give me everything": a request at the top of the uint32 range
				gv = 4294967295 - uint32(r.intn(int(feff)))
			}
			act = fmt.Sprintf("g%d:%d", i, gv)
		case c < 11:
			act = fmt.Sprintf("g%d:0", i)
		case c < 12 && s.gen == 2:
			act = fmt.Sprintf("r%d:%d", i, uint32(r.pick(0, 1, 7, 50)))
			if r.chance(1, 2) {
				// the same request before and after a change of the reserve: what it asks for changes although the number does not
				v := uint32(r.intn(int(maxc) + 5))
				nr := uint32(r.pick(0, int(v), int(v)+3))
				s.script = append(s.script, histAct{t: t, act: fmt.Sprintf("g%d:%d", i, v)})
				t += int64(r.pick(100, 2500)) * ms
				s.script = append(s.script, histAct{t: t, act: fmt.Sprintf("r%d:%d", i, nr)})
				t += int64(r.pick(100, 2500)) * ms
				act = fmt.Sprintf("g%d:%d", i, v)
			}
		case c < 14 && s.gen == 2:
			act = fmt.Sprintf("c%d:%d", i, uint32(r.pick(0, 1, int(feff), int(shared), int(shared+2*feff), int(600*feff), 4294967295)))
		case c < 15:
			act = fmt.Sprintf("X%d", i)
		case c < 16:
			act = fmt.Sprintf("K%d", i)
		case c < 17:
			act = fmt.Sprintf("S%d", i)
		default:
			act = "s"
		}
		s.script = append(s.script, histAct{t: t, act: act})
	}
	// probes around lease ends are added by sampling densely at the end
	for k := 0; k < 6; k++ {
		t += int64(r.pick(1000, 5000, 14999, 15001)) * ms
		s.script = append(s.script, histAct{t: t, act: "s"})
	}
	s.end = t + int64(r.pick(1, 16, 40))*sec
	return s
}

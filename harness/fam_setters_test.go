package main

import (
	"bufio"
	"context"
	"fmt"
	"time"

	b2 "github.com/mspnp/go-batcher/v2"
)

// setters: every v2 With* setter called before Start, after Start, while paused and after shutdown: does it panic?
func init() { register("setters", famSetters) }

func famSetters(args []string, out *bufio.Writer) error {
	fs := newFlags("setters")
	fs.Parse(args)
	type setter struct {
		name string
		call func(b b2.Batcher)
	}
	lim := &fakeLimiter{}
	setters := []setter{
		{"WithRateLimiter", func(b b2.Batcher) { b.WithRateLimiter(lim) }},
		{"WithFlushInterval", func(b b2.Batcher) { b.WithFlushInterval(time.Second) }},
		{"WithCapacityInterval", func(b b2.Batcher) { b.WithCapacityInterval(time.Second) }},
		{"WithAuditInterval", func(b b2.Batcher) { b.WithAuditInterval(time.Second) }},
		{"WithMaxOperationTime", func(b b2.Batcher) { b.WithMaxOperationTime(time.Second) }},
		{"WithPauseTime", func(b b2.Batcher) { b.WithPauseTime(time.Second) }},
		{"WithErrorOnFullBuffer", func(b b2.Batcher) { b.WithErrorOnFullBuffer() }},
		{"WithEmitBatch", func(b b2.Batcher) { b.WithEmitBatch() }},
		{"WithEmitFlush", func(b b2.Batcher) { b.WithEmitFlush() }},
		{"WithEmitRequest", func(b b2.Batcher) { b.WithEmitRequest() }},
	}
	for _, st := range setters {
		for _, when := range []string{"before", "after", "paused", "stopped"} {
			res := "ok"
			synctestRun(func() {
				b := b2.NewBatcherWithBuffer(2)
				ctx, cancel := context.WithCancel(context.Background())
				defer cancel()
				if when != "before" {
					if err := b.Start(ctx); err != nil {
						res = "start-failed"
						return
					}
				}
				if when == "stopped" {
					cancel()
					time.Sleep(time.Second)
				}
				if when == "paused" {
					b.Pause()
					time.Sleep(100 * time.Millisecond) // inside the (default 500 ms) pause
				}
				func() {
					defer func() {
						if p := recover(); p != nil {
							res = "panic:" + errName(asErr(p))
						}
					}()
					st.call(b)
				}()
				cancel()
				time.Sleep(time.Second)
			})
			fmt.Fprintf(out, "setters gen=2 setter=%s when=%s | res=%s\n", st.name, when, res)
		}
	}
	return nil
}

func asErr(p interface{}) error {
	if e, ok := p.(error); ok {
		return e
	}
	return fmt.Errorf("%v", p)
}

package main

import (
	"bufio"
	"context"
	"fmt"
	"strings"
	"sync"
	"sync/atomic"
	"time"

	b1 "github.com/mspnp/go-batcher"
	b2 "github.com/mspnp/go-batcher/v2"
)

// stress: every public method of Batcher / SharedResource / the event API called from many goroutines at once, in
// real time, meant to be run from a binary built with the race detector (`go test -race -c`): the race detector
// turns a data race into a report on stderr and exit status 66; panics are recovered and reported; a watchdog reports
// goroutines that never come back. This is exploration in support of C20's first sentence, not a proof.
func init() { register("stress", famStress) }

type stressLM struct {
	mu    sync.Mutex
	until map[uint32]time.Time
}

func (m *stressLM) RaiseEventsTo(e b2.Eventer)           {}
func (m *stressLM) Provision(ctx context.Context) error { return nil }
func (m *stressLM) CreatePartitions(ctx context.Context, count int) {
	time.Sleep(time.Millisecond)
}
func (m *stressLM) LeasePartition(ctx context.Context, id string, index uint32) time.Duration {
	m.mu.Lock()
	defer m.mu.Unlock()
	if u, ok := m.until[index]; ok && time.Now().Before(u) {
		return 0
	}
	m.until[index] = time.Now().Add(40 * time.Millisecond)
	return 40 * time.Millisecond
}

type stressLM1 struct{ *stressLM }

func (m stressLM1) CreatePartitions(ctx context.Context, count int) error {
	m.stressLM.CreatePartitions(ctx, count)
	return nil
}

func famStress(args []string, out *bufio.Writer) error {
	fs := newFlags("stress")
	seed := fs.Uint64("seed", 1, "seed")
	rounds := fs.Int("rounds", 3, "rounds per generation")
	dur := fs.Int("ms", 400, "milliseconds per round")
	fs.Parse(args)
	r := newRng(*seed)
	for gen := 1; gen <= 2; gen++ {
		for k := 0; k < *rounds; k++ {
			withLimiter := r.chance(2, 3)
			buf := uint32(r.pick(1, 3, 50))
			line := stressRound(gen, k, withLimiter, buf, time.Duration(*dur)*time.Millisecond, r.intn(1<<30))
			fmt.Fprintln(out, line)
		}
	}
	return nil
}

func stressRound(gen, k int, withLimiter bool, buf uint32, dur time.Duration, sd int) string {
	var panics atomic.Int64
	var firstPanic atomic.Value
	var calls atomic.Int64
	guard := func(f func()) {
		defer func() {
			if p := recover(); p != nil {
				panics.Add(1)
				firstPanic.CompareAndSwap(nil, strings.ReplaceAll(fmt.Sprint(p), " ", "_"))
			}
		}()
		f()
		calls.Add(1)
	}
	ctx, cancel := context.WithCancel(context.Background())
	stop := make(chan struct{})
	var wg sync.WaitGroup
	worker := func(f func(i int)) {
		wg.Add(1)
		go func() {
			defer wg.Done()
			for i := 0; ; i++ {
				select {
				case <-stop:
					return
				default:
				}
				guard(func() { f(i) })
				if i%16 == 0 {
					time.Sleep(50 * time.Microsecond)
				}
			}
		}()
	}
	listener := func(event string, val int, msg string, metadata interface{}) {}
	lm := &stressLM{until: map[uint32]time.Time{}}
	var stopAll func()
	if gen == 1 {
		sr := b1.NewAzureSharedResource("a", "c", 6).WithFactor(2).WithReservedCapacity(1).WithMaxInterval(2)
		b1.VerifWithLeaseManager(sr, stressLM1{lm})
		b := b1.NewBatcherWithBuffer(buf).WithFlushInterval(time.Millisecond).WithCapacityInterval(2 * time.Millisecond).
			WithAuditInterval(5 * time.Millisecond).WithMaxOperationTime(20 * time.Millisecond).WithPauseTime(3 * time.Millisecond).WithErrorOnFullBuffer()
		if withLimiter {
			b = b.WithRateLimiter(sr)
		}
		w := b1.NewWatcher(func(batch []b1.IOperation) {
			guard(func() { _ = b.NeedsCapacity(); _ = b.OperationsInBuffer() })
		}).WithMaxBatchSize(3)
		guard(func() { _ = sr.Provision(ctx) })
		guard(func() { _ = sr.Start(ctx) })
		guard(func() { _ = b.Start() })
		for g := 0; g < 4; g++ {
			worker(func(i int) { _ = b.Enqueue(b1.NewOperation(w, uint32(i%3), i, i%2 == 0)) })
		}
		worker(func(i int) { b.Flush() })
		worker(func(i int) {
			if i%50 == 0 {
				b.Pause()
			}
		})
		worker(func(i int) { _ = b.NeedsCapacity(); _ = b.OperationsInBuffer() })
		worker(func(i int) { sr.GiveMe(uint32(i % 9)); _ = sr.Capacity(); _ = sr.MaxCapacity() })
		worker(func(i int) { id := b.AddListener(listener); b.RemoveListener(id) })
		worker(func(i int) { id := sr.AddListener(listener); sr.RemoveListener(id) })
		stopAll = func() {
			guard(func() { b.Stop() })
			guard(func() { sr.Stop() })
		}
	} else {
		sr := b2.NewSharedResource().WithFactor(2).WithReservedCapacity(1).WithMaxInterval(2).WithSharedCapacity(6, lm)
		b := b2.NewBatcherWithBuffer(buf).WithFlushInterval(time.Millisecond).WithCapacityInterval(2 * time.Millisecond).
			WithAuditInterval(5 * time.Millisecond).WithMaxOperationTime(20 * time.Millisecond).WithPauseTime(3 * time.Millisecond).
			WithErrorOnFullBuffer().WithMaxConcurrentBatches(uint32(sd % 3))
		if withLimiter {
			b = b.WithRateLimiter(sr)
		}
		w := b2.NewWatcher(func(batch []b2.Operation) {
			guard(func() { _ = b.NeedsCapacity(); _ = b.OperationsInBuffer(); _ = b.Inflight() })
		}).WithMaxBatchSize(3)
		guard(func() { _ = sr.Start(ctx) })
		guard(func() { _ = b.Start(ctx) })
		for g := 0; g < 4; g++ {
			worker(func(i int) { _ = b.Enqueue(b2.NewOperation(w, uint32(i%3), i, i%2 == 0)) })
		}
		worker(func(i int) { b.Flush() })
		worker(func(i int) {
			if i%50 == 0 {
				b.Pause()
			}
		})
		worker(func(i int) { _ = b.NeedsCapacity(); _ = b.OperationsInBuffer(); _ = b.Inflight() })
		worker(func(i int) { sr.GiveMe(uint32(i % 9)); _ = sr.Capacity(); _ = sr.MaxCapacity() })
		worker(func(i int) {
			if i%20 == 0 {
				sr.SetReservedCapacity(uint32(i % 5))
			}
			if i%97 == 0 {
				_ = sr.SetSharedCapacity(uint32(2 + i%9))
			}
		})
		worker(func(i int) { id := b.AddListener(listener); b.RemoveListener(id) })
		worker(func(i int) { id := sr.AddListener(listener); sr.RemoveListener(id) })
		stopAll = func() {}
	}
	time.Sleep(dur)
	close(stop)
	done := make(chan struct{})
	go func() {
		wg.Wait()
		cancel()
		stopAll()
		close(done)
	}()
	hang := 0
	select {
	case <-done:
	case <-time.After(10 * time.Second):
		hang = 1
		cancel()
	}
	time.Sleep(60 * time.Millisecond) // expiry timers of the last leases
	fp := "-"
	if v := firstPanic.Load(); v != nil {
		fp = v.(string)
	}
	return fmt.Sprintf("stress gen=%d round=%d lim=%v buf=%d | calls=%d panics=%d first=%s hang=%d", gen, k, withLimiter, buf, calls.Load(), panics.Load(), fp, hang)
}

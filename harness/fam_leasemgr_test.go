package main

import (
	"bufio"
	"context"
	"errors"
	"fmt"
	"io"
	"net/http"
	"net/http/httptest"
	"net/url"
	"os"
	"path/filepath"
	"regexp"
	"sort"
	"strings"
	"sync"
	"time"

	"github.com/Azure/azure-storage-blob-go/azblob"
	b1 "github.com/mspnp/go-batcher"
	b2 "github.com/mspnp/go-batcher/v2"
)

// leasemgr: fault enumeration of the Azure Blob lease manager of both generations.
//   every service code known to the SDK + a non-storage error + success, injected at: container create, every position
//   of a 1..4 blob provisioning run, lease acquire. Fakes implement the container/blob interfaces (in-package seam).
//   plus a loopback run of the REAL SDK client against a local HTTP server: blob names, If-None-Match, lease id, duration.
func init() { register("leasemgr", famLeaseMgr) }

type fakeStorageErr struct{ code azblob.ServiceCodeType }

func (e fakeStorageErr) ServiceCode() azblob.ServiceCodeType { return e.code }
func (e fakeStorageErr) Error() string                       { return "storage error " + string(e.code) }
func (e fakeStorageErr) Timeout() bool                       { return false }
func (e fakeStorageErr) Temporary() bool                     { return false }
func (e fakeStorageErr) Response() *http.Response            { return nil }

func mkErr(kind string) error {
	switch {
	case kind == "none":
		return nil
	case kind == "other":
		return errors.New("transport failure")
	case kind == "cancelled":
		return context.Canceled
	case kind == "EmptyCode":
		// a storage error whose response carried no x-ms-error-code header: ServiceCode() == ServiceCodeNone ("")
		return fakeStorageErr{code: azblob.ServiceCodeNone}
	default:
		return fakeStorageErr{code: azblob.ServiceCodeType(kind)}
	}
}

type fakeContainer struct {
	createErr error
	creates   int
}

func (c *fakeContainer) Create(context.Context, azblob.Metadata, azblob.PublicAccessType) (*azblob.ContainerCreateResponse, error) {
	c.creates++
	return nil, c.createErr
}
func (c *fakeContainer) NewBlockBlobURL(string) azblob.BlockBlobURL { return azblob.BlockBlobURL{} }

type fakeBlob struct {
	mu        sync.Mutex
	uploadErr []error // per call
	uploads   int
	ifNone    []string
	leaseErr  error
	leaseIDs  []string
	leaseDur  []int32
}

func (b *fakeBlob) Upload(ctx context.Context, r io.ReadSeeker, h azblob.BlobHTTPHeaders, m azblob.Metadata, c azblob.BlobAccessConditions, t azblob.AccessTierType, tags azblob.BlobTagsMap, k azblob.ClientProvidedKeyOptions) (*azblob.BlockBlobUploadResponse, error) {
	b.mu.Lock()
	defer b.mu.Unlock()
	i := b.uploads
	b.uploads++
	b.ifNone = append(b.ifNone, string(c.ModifiedAccessConditions.IfNoneMatch))
	if i < len(b.uploadErr) {
		return nil, b.uploadErr[i]
	}
	return nil, nil
}
func (b *fakeBlob) AcquireLease(ctx context.Context, id string, dur int32, c azblob.ModifiedAccessConditions) (*azblob.BlobAcquireLeaseResponse, error) {
	b.mu.Lock()
	defer b.mu.Unlock()
	b.leaseIDs = append(b.leaseIDs, id)
	b.leaseDur = append(b.leaseDur, dur)
	return nil, b.leaseErr
}

// the SDK's service codes, read from its source in the module cache (the same list the extractor puts into the facts)
func sdkCodes() []string {
	dir := ""
	for _, root := range []string{os.Getenv("GOMODCACHE"), filepath.Join(os.Getenv("HOME"), "go", "pkg", "mod"), "/root/go/pkg/mod"} {
		p := filepath.Join(root, "github.com", "!azure", "azure-storage-blob-go@v0.13.0", "azblob")
		if st, err := os.Stat(p); err == nil && st.IsDir() {
			dir = p
			break
		}
	}
	re := regexp.MustCompile(`ServiceCode\w+\s+ServiceCodeType\s*=\s*"([^"]*)"`)
	set := map[string]bool{}
	files, _ := filepath.Glob(filepath.Join(dir, "*.go"))
	for _, f := range files {
		data, _ := os.ReadFile(f)
		for _, m := range re.FindAllStringSubmatch(string(data), -1) {
			if m[1] != "" {
				set[m[1]] = true
			}
		}
	}
	var out []string
	for k := range set {
		out = append(out, k)
	}
	sort.Strings(out)
	return out
}

type evLog struct {
	mu sync.Mutex
	ev []string
}

func (l *evLog) fn(event string, val int, msg string, metadata interface{}) {
	l.mu.Lock()
	defer l.mu.Unlock()
	switch event {
	case "created-blob", "verified-blob", "failed":
		l.ev = append(l.ev, fmt.Sprintf("%s:%d", event, val))
	case "created-container", "verified-container", "error":
		l.ev = append(l.ev, event)
	}
}
func (l *evLog) String() string {
	l.mu.Lock()
	defer l.mu.Unlock()
	return dash(strings.Join(l.ev, "+"))
}

func famLeaseMgr(args []string, out *bufio.Writer) error {
	fs := newFlags("leasemgr")
	fs.Parse(args)
	codes := append([]string{"none", "other", "cancelled", "NotAnSdkCode", "EmptyCode"}, sdkCodes()...)
	if len(codes) < 50 {
		return fmt.Errorf("could not read the SDK's service codes (%d found)", len(codes))
	}
	bg := context.Background()
	dead, kill := context.WithCancel(bg)
	kill()
	for gen := 1; gen <= 2; gen++ {
		for _, code := range codes {
			// a cancellation reaches the lease manager through a context that is done: the calls are made with one
			ctx := bg
			if code == "cancelled" {
				ctx = dead
			}
			// ---- container create
			{
				lg := &evLog{}
				cont := &fakeContainer{createErr: mkErr(code)}
				blob := &fakeBlob{}
				var err error
				if gen == 1 {
					sr := b1.NewAzureSharedResource("a", "c", 10)
					sr.AddListener(lg.fn)
					err = b1.VerifNewBlobLeaseManager(sr, cont, blob).Provision(ctx)
				} else {
					sr := b2.NewSharedResource()
					sr.AddListener(lg.fn)
					mgr := b2.VerifNewAzureBlobLeaseManager(cont, blob)
					mgr.RaiseEventsTo(sr)
					err = mgr.Provision(ctx)
				}
				fmt.Fprintf(out, "leasemgr gen=%d site=provision code=%s | err=%d ev=%s creates=%d\n", gen, code, b01(err != nil), lg, cont.creates)
			}
			// ---- lease acquire
			{
				lg := &evLog{}
				blob := &fakeBlob{leaseErr: mkErr(code)}
				cont := &fakeContainer{}
				var d time.Duration
				if gen == 1 {
					sr := b1.NewAzureSharedResource("a", "c", 10)
					sr.AddListener(lg.fn)
					d = b1.VerifNewBlobLeaseManager(sr, cont, blob).LeasePartition(ctx, "lease-id-7", 3)
				} else {
					sr := b2.NewSharedResource()
					sr.AddListener(lg.fn)
					mgr := b2.VerifNewAzureBlobLeaseManager(cont, blob)
					mgr.RaiseEventsTo(sr)
					d = mgr.LeasePartition(ctx, "lease-id-7", 3)
				}
				fmt.Fprintf(out, "leasemgr gen=%d site=lease code=%s index=3 | secs=%d ev=%s id=%s dur=%s\n", gen, code, int(d/time.Second), lg,
					strings.Join(blob.leaseIDs, "+"), strings.Trim(fmt.Sprint(blob.leaseDur), "[]"))
			}
			// ---- every position of a 1..4 blob provisioning run
			for n := 1; n <= 4; n++ {
				for pos := 0; pos < n; pos++ {
					lg := &evLog{}
					blob := &fakeBlob{uploadErr: make([]error, n)}
					blob.uploadErr[pos] = mkErr(code)
					cont := &fakeContainer{}
					var err error
					if gen == 1 {
						sr := b1.NewAzureSharedResource("a", "c", 10)
						sr.AddListener(lg.fn)
						err = b1.VerifNewBlobLeaseManager(sr, cont, blob).CreatePartitions(ctx, n)
					} else {
						sr := b2.NewSharedResource()
						sr.AddListener(lg.fn)
						mgr := b2.VerifNewAzureBlobLeaseManager(cont, blob)
						mgr.RaiseEventsTo(sr)
						mgr.CreatePartitions(ctx, n)
					}
					star := true
					for _, v := range blob.ifNone {
						if v != "*" {
							star = false
						}
					}
					fmt.Fprintf(out, "leasemgr gen=%d site=create code=%s n=%d pos=%d | err=%d ev=%s uploads=%d ifnonematch=%d\n", gen, code, n, pos,
						b01(err != nil), lg, blob.uploads, b01(star))
				}
			}
		}
		// ---- runs with SEVERAL outcomes in one provisioning run: every sequence of length 2 and 3 over a representative
		// set (success, the two benign "exists" codes, a real storage error, a storage error without a code, a transport
		// error, a cancellation): what one blob answered must not colour how the next one's failure is read
		rep := []string{"none", "BlobAlreadyExists", "LeaseIdMissing", "ServerBusy", "EmptyCode", "other", "cancelled"}
		var seqs [][]string
		for _, a := range rep {
			for _, b := range rep {
				seqs = append(seqs, []string{a, b})
				for _, c := range rep {
					seqs = append(seqs, []string{a, b, c})
				}
			}
		}
		for _, seq := range seqs {
			lg := &evLog{}
			blob := &fakeBlob{}
			for _, c := range seq {
				blob.uploadErr = append(blob.uploadErr, mkErr(c))
			}
			cont := &fakeContainer{}
			var err error
			if gen == 1 {
				sr := b1.NewAzureSharedResource("a", "c", 10)
				sr.AddListener(lg.fn)
				err = b1.VerifNewBlobLeaseManager(sr, cont, blob).CreatePartitions(bg, len(seq))
			} else {
				sr := b2.NewSharedResource()
				sr.AddListener(lg.fn)
				mgr := b2.VerifNewAzureBlobLeaseManager(cont, blob)
				mgr.RaiseEventsTo(sr)
				mgr.CreatePartitions(bg, len(seq))
			}
			fmt.Fprintf(out, "leasemgr gen=%d site=create2 codes=%s | err=%d ev=%s uploads=%d\n", gen, strings.Join(seq, ","), b01(err != nil), lg, blob.uploads)
		}
		loopback(out, gen)
	}
	return nil
}

// loopback drives the real azblob client (through the lease manager) against a local HTTP server.
func loopback(out *bufio.Writer, gen int) {
	var mu sync.Mutex
	var reqs []string
	srv := httptest.NewServer(http.HandlerFunc(func(w http.ResponseWriter, r *http.Request) {
		mu.Lock()
		defer mu.Unlock()
		q := r.URL.Query()
		switch {
		case q.Get("restype") == "container":
			reqs = append(reqs, "container:"+r.URL.Path)
			w.WriteHeader(201)
		case q.Get("comp") == "lease":
			reqs = append(reqs, fmt.Sprintf("lease:%s:dur=%s:id=%s:action=%s", r.URL.Path, r.Header.Get("x-ms-lease-duration"),
				r.Header.Get("x-ms-proposed-lease-id"), r.Header.Get("x-ms-lease-action")))
			if strings.HasSuffix(r.URL.Path, "/1") {
				w.Header().Set("x-ms-error-code", "LeaseAlreadyPresent")
				w.WriteHeader(409)
				return
			}
			if strings.HasSuffix(r.URL.Path, "/2") {
				// an error response without an x-ms-error-code header (a proxy or gateway answering): the SDK reports
				// a StorageError whose ServiceCode() is ServiceCodeNone
				w.WriteHeader(403)
				return
			}
			w.Header().Set("x-ms-lease-id", r.Header.Get("x-ms-proposed-lease-id"))
			w.WriteHeader(201)
		default:
			reqs = append(reqs, fmt.Sprintf("upload:%s:ifnonematch=%s", r.URL.Path, r.Header.Get("If-None-Match")))
			if strings.HasSuffix(r.URL.Path, "/2") {
				w.Header().Set("x-ms-error-code", "BlobAlreadyExists")
				w.WriteHeader(409)
				return
			}
			w.WriteHeader(201)
		}
	}))
	defer srv.Close()
	u, _ := url.Parse(srv.URL + "/cont")
	pipe := azblob.NewPipeline(azblob.NewAnonymousCredential(), azblob.PipelineOptions{Retry: azblob.RetryOptions{MaxTries: 1}})
	cont := azblob.NewContainerURL(*u, pipe)
	lg := &evLog{}
	ctx := context.Background()
	var perr, cerr error
	var d0, d1, d2 time.Duration
	if gen == 1 {
		sr := b1.NewAzureSharedResource("a", "c", 10)
		sr.AddListener(lg.fn)
		m := b1.VerifNewBlobLeaseManager(sr, cont, nil)
		perr = m.Provision(ctx)
		cerr = m.CreatePartitions(ctx, 3)
		d0 = m.LeasePartition(ctx, "11111111-1111-1111-1111-111111111111", 0)
		d1 = m.LeasePartition(ctx, "22222222-2222-2222-2222-222222222222", 1)
		d2 = m.LeasePartition(ctx, "33333333-3333-3333-3333-333333333333", 2)
	} else {
		sr := b2.NewSharedResource()
		sr.AddListener(lg.fn)
		m := b2.VerifNewAzureBlobLeaseManager(cont, nil)
		m.RaiseEventsTo(sr)
		perr = m.Provision(ctx)
		m.CreatePartitions(ctx, 3)
		d0 = m.LeasePartition(ctx, "11111111-1111-1111-1111-111111111111", 0)
		d1 = m.LeasePartition(ctx, "22222222-2222-2222-2222-222222222222", 1)
		d2 = m.LeasePartition(ctx, "33333333-3333-3333-3333-333333333333", 2)
	}
	mu.Lock()
	defer mu.Unlock()
	fmt.Fprintf(out, "leasemgr gen=%d site=loopback | perr=%d cerr=%d secs0=%d secs1=%d secs2=%d ev=%s reqs=%s\n", gen, b01(perr != nil), b01(cerr != nil),
		int(d0/time.Second), int(d1/time.Second), int(d2/time.Second), lg, strings.Join(reqs, ","))
}

"""Per-property configuration of bin/check: which scenario families tie the property's model slice to the
implementation, which observed fields that slice determines, and what counts as a non-trivial case."""

TRUSTED_BASE = [
    "Lean 4.33.0 kernel (thorough tier: re-checked with leanchecker); axioms limited to propext, Quot.sound, Classical.choice",
    "hand-written Lean model (lean/GoBatcher/Model) and its atomicity/time assumptions (DESIGN.md 4.2)",
    "correspondence check: Go harness (harness/, testing/synctest virtual clock), generators, Lean driver parser; agreement of model and code is tested on the generated scenarios, not proved",
    "fact extractor (extract/): go/ast pattern matching",
    "translators (extract/trans.go, transbuf.go, translm.go, transcycle.go): the meaning they give to the Go subset they accept (GoSem: uint32 wrap explicit, 64-bit int overflow not modelled, math.Ceil of a quotient of doubles = integer ceiling for uint32 operands; HeapSem: heap of links nodes, nil dereference = failure, allocation appends; LmSem: SDK calls are inputs; a chan struct{} semaphore is the number of tokens in it; skipped: mutex calls, defer, event emission unless captured); they refuse what is outside the subset",
    "modelled, not verified: Go runtime (select, tickers, sync, context), math/rand, uuid, float64 arithmetic, azblob SDK, Azure Blob lease semantics",
]

FAMILY_ARGS = {
    'admit': {'quick': [], 'thorough': []},
    'buffer': {'quick': ['-seed', '{seed}', '-n', '3000', '-exhaustive', '5', '-maxlen', '40'],
               'thorough': ['-seed', '{seed}', '-n', '60000', '-exhaustive', '7', '-maxlen', '300']},
    'buflinked': {'quick': ['-seed', '{seed}', '-n', '2000', '-exhaustive', '6', '-maxlen', '80'],
                  'thorough': ['-seed', '{seed}', '-n', '40000', '-exhaustive', '8', '-maxlen', '400']},
    'setters': {'quick': [], 'thorough': []},
    'leasemgr': {'quick': [], 'thorough': []},
    'hist': {'quick': ['-seed', '{seed}', '-n', '700'],
             'thorough': ['-seed', '{seed}', '-n', '12000']},
    'events': {'quick': ['-seed', '{seed}', '-n', '600'], 'thorough': ['-seed', '{seed}', '-n', '6000']},
    'stress': {'quick': ['-seed', '{seed}', '-rounds', '2', '-ms', '300'], 'thorough': ['-seed', '{seed}', '-rounds', '10', '-ms', '1500']},
    'lease': {'quick': ['-seed', '{seed}', '-n', '600'],
              'thorough': ['-seed', '{seed}', '-n', '12000']},
    'cycle': {'quick': ['-seed', '{seed}', '-n', '2000', '-exhaustive', '3', '-maxops', '40'],
              'thorough': ['-seed', '{seed}', '-n', '40000', '-exhaustive', '4', '-maxops', '200']},
}

_cycle_rule = ('cycle family: every buffer of <=3 (quick) / <=4 (thorough) operations over 2 watchers x batchable x cost{0,1,2}, '
               'batch limits {0,0},{1,2},{2,1},{2,0}, every allowance 0..total+1 and no limiter, v1 and v2 (slots none/1/2), '
               'plus seeded random buffers up to 40/200 operations; each scenario = one real flush cycle + one drain cycle in virtual time; ')

_hist_rule = ('hist family: seeded random timed API histories against the real Batcher of both generations under testing/synctest (virtual clock): '
              'configurations (buffer 1..50, limiter or none, intervals incl. defaults, error-on-full, slot limits), 1-3 watchers with scripted callback durations '
              '(instant .. MaxOperationTime-1ns / exactly / +1ns / never; optional re-enqueue or Pause() from the callback), scripts of Enqueue/Pause/Flush/Start/Stop/capacity changes, '
              'hook-parked enqueuers around audit ticks, probes at write-off instants; every call, return, event, limiter call, callback and sampled getter is replayed through the Batcher machine '
              '(trace acceptance) and through the property monitors; plus the corpus of minimised past failures; ')
_hist_assumptions = ['log lines are written after the action they report; the driver accepts any placement of the action consistent with that',
                     'traces whose candidate-state set exceeds the bound are counted as inconclusive (reported), not as mismatches']


_lease_rule = ('lease family: seeded random scenarios of 1-3 real SharedResource instances of one generation (v1 AzureSharedResource / v2 SharedResource) on ONE fake lease store '
               'under testing/synctest (virtual clock, 15 s leases): configurations (shared 0..50000, reserved, factor incl. default and non-divisors, >500 partitions, MaxInterval), '
               'scripts of Start / GiveMe (rising, falling, zero, below reserve, above max) / SetReservedCapacity / SetSharedCapacity (grow, shrink, zero) / Stop / cancel / crash, '
               'per-call store latency before and after the grant, refusals and errors at chosen calls, slow or failing provisioning; every call, store decision, return, event and '
               'sampled Capacity()/MaxCapacity() is replayed label by label through the M-Lease machine (each label must be enabled; no expiry may be overdue; figures must agree) '
               'and through the property monitors; plus the corpus of minimised past failures (F7, F8, F10); ')
_lease_assumptions = ['the lease store is a fake with the semantics of an exclusive 15 s lease starting when the request is processed; Azure Blob itself is modelled, not verified (C18 ties the lease manager to the SDK)',
                      'the harness "crash" cancels the context and stops consulting the instance; a real process death (model label crash) is not exercised by the correspondence',
                      'samples taken while CreatePartitions runs, while a lease call is in flight, or at the very instant of a grant/expiry are not compared (the published figure lags the partition list there)']

PROPS = {
    'C01': {
        'families': ['cycle', 'hist'],
        'fields': {'cycle': ['b1', 'b2', 'inbuf1', 'inbuf2'], 'hist': None},
        'nontrivial': r'b1=\[',
        'rule': _cycle_rule + 'non-trivial = the first cycle raised at least one batch; distinct = distinct scenario line',
        'explanation': 'cycle-level conservation and own-watcher theorems; machine-level history invariant pending (C01b)',
        'assumptions': ['ops are identified by payload ids chosen by the harness'],
    },
    'C02': {
        'families': ['cycle', 'hist'],
        'fields': {'cycle': ['b1', 'inbuf1'], 'hist': None},
        'nontrivial': r'lim=1 .*b1=\[',
        'rule': _cycle_rule + 'non-trivial = limiter attached and something released',
        'explanation': 'cycle-level rate theorems relative to the allowance read by the cycle; the float conversion of the allowance is executed natively by the driver (tested, not proved)',
        'assumptions': ['allowance = uint32(float64(cap)/1000.0*float64(ms)) evaluated with IEEE doubles in the Lean driver'],
    },
    'C08': {
        'families': ['cycle', 'hist'],
        'fields': {'cycle': ['b1', 'inbuf1', 'b2', 'inbuf2'], 'hist': None},
        'nontrivial': r'inbuf1=[1-9]',
        'rule': _cycle_rule + 'non-trivial = something stayed buffered after the first cycle',
        'explanation': 'work-conservation, head progress, bounded delivery (delivered_within) over the cycle model; known finding F6 (v2 allowance 0)',
        'assumptions': [],
    },
    'C10': {
        'families': ['cycle', 'hist'],
        'fields': {'cycle': ['infl1', 'infl3', 'b1', 'inbuf1'], 'hist': None},
        'nontrivial': r'gen=2 .*slots=[1-9].*b1=\[',
        'rule': _cycle_rule + 'non-trivial = v2 with a slot limit and something released',
        'explanation': 'cycle-level slot theorems; machine-level invariant pending (C10b)',
        'assumptions': [],
    },
    'C03': {
        'families': ['hist', 'cycle'],
        'fields': {'hist': None, 'cycle': ['needs1', 'needsmid', 'needs2', 'needs3']},
        'nontrivial': r'(tr=.*ev:batch)|(needs1=[1-9])',
        'rule': _hist_rule + 'non-trivial = at least one batch was raised',
        'explanation': 'accounting invariant over the Batcher machine (all label sequences), partial: exclusions are findings F3 (v1 after close) and F9 (audit with an Enqueue in flight); counterexamples proved and replayed through the hook',
        'assumptions': _hist_assumptions,
    },
    'C05': {
        'families': ['cycle', 'hist'],
        'fields': {'cycle': ['b1', 'b2'], 'hist': None},
        'nontrivial': r'b1=\[',
        'rule': 'cycle family: every buffer of <=3 (quick) / <=4 (thorough) operations over 2 watchers x batchable x cost{0,1,2}, '
                'batch limits {0,0},{1,2},{2,1},{2,0}, every allowance 0..total+1 and no limiter, v1 and v2 (slots none/1/2), '
                'plus seeded random buffers; a case is non-trivial when the first cycle raised at least one batch; distinct = distinct scenario line',
        'explanation': 'theorems over M-Cycle for all buffers/limits/allowances/slots/orders; implementation tie = exact comparison of batch events',
        'assumptions': ['batch events are emitted synchronously by the processing loop in raise order (WithEmitBatch)',
                        'leftover batches at the end of a cycle come out in Go map order: compared as a set'],
    },
    'C15': {
        'families': ['buffer', 'buflinked', 'hist'],
        'fields': {'buffer': ['obs', 'panic'], 'buflinked': ['obs'], 'hist': None},
        'nontrivial': r'acts=.*E\d+,.*R',
        'rule': 'buffer family (in-package seam, real v2 buffer in a synctest bubble): every sequence of <=5 (quick) / <=7 (thorough) actions over '
                '{blocking enqueue, error-mode enqueue, top, skip, remove, shutdown} for capacities 1..3, plus seeded random sequences up to 40/300 actions, capacities 1..4; '
                'after every action the system settles and returned calls, size and returned operation are compared; '
                'buflinked family: every sequence of 6 (quick) / 8 (thorough) sequential actions over {error-mode enqueue, top, skip, remove, shutdown} for capacities 1..3 plus seeded random sequences '
                'up to 80/400 actions, capacities 1..6, replayed through the L0 model (the linked list as the code has it); after EVERY action the returned value, size() and the linked structure itself '
                '(forward walk from head, backward walk from tail, len counter, cursor position, shutdown flag; in-package seam Dump) must equal the model\'s; non-trivial = at least one blocking enqueue followed by a remove',
        'explanation': 'L1 buffer + condition-variable machine: bound, FIFO, cursor validity, no lost wake-up, waiters released by shutdown; L0 (doubly linked list on a heap, transcribed from buffer.go) refines L1 for every operation sequence and never panics (C15b); tie = exhaustive short sequences + random, incl. the linked structure after every action',
        'assumptions': ['sync.Cond.Signal wakes the longest-waiting caller (runtime notifyList is FIFO)',
                        'v1 buffer is a Go channel: its bound and blocking behaviour are the runtime\'s; v1 is observed through the Batcher (hist family) only'],
    },
    'C11': {
        'families': ['hist'], 'fields': {'hist': None},
        'nontrivial': r'tr=.*ev:batch',
        'rule': _hist_rule + 'callback durations MaxOperationTime-1ns / exactly / +1ns / never and samples 1 ns before, at and after each write-off instant; non-trivial = at least one batch was raised',
        'explanation': 'settled-state characterisation finished <-> returned or timed out; write-off only once; precedence of the limits',
        'assumptions': _hist_assumptions + ['"exactly" is exact in virtual time (testing/synctest); wall-clock jitter is outside the model'],
    },
    'C12': {
        'families': ['hist'], 'fields': {'hist': None},
        'nontrivial': r'tr=.*giveme',
        'rule': _hist_rule + 'non-trivial = at least one GiveMe call was observed',
        'explanation': 'request carries the current demand; only takeCap requests; <=1 request per tick (run-level counting), urgency (no time passes over an unanswered tick); not while paused / stopped',
        'assumptions': _hist_assumptions,
    },
    'C13': {
        'families': ['hist'], 'fields': {'hist': None},
        'nontrivial': r'tr=.*ev:pause',
        'rule': _hist_rule + 'non-trivial = at least one pause event was observed',
        'explanation': 'pause = sleep of exactly PauseTime during which no loop action is enabled; ineffective calls change nothing; pauses = effective calls',
        'assumptions': _hist_assumptions + ['"exactly" is exact in virtual time'],
    },
    'C16': {
        'families': ['hist', 'setters'], 'fields': {'hist': None, 'setters': ['res']},
        'nontrivial': r'(tr=.*act:X)|(when=after)',
        'rule': _hist_rule + 'setters family: every v2 With* setter before Start, after Start and after shutdown; non-trivial = a stop was requested / a setter was called after Start',
        'explanation': 'phase automaton (start once), one shutdown event, nothing enabled after exit, stop taken within PauseTime, v2 enqueue refused after shutdown; v1 panic is finding F3; v1 Stop-during-pause deadlock (F5) fixed',
        'assumptions': _hist_assumptions + ['a scenario that stops making progress in real time is reported by the watchdog as a hang (does-not-terminate)'],
    },
    'C19': {
        'families': ['hist'], 'fields': {'hist': None},
        'nontrivial': r'tr=.*ev:audit',
        'rule': _hist_rule + 'non-trivial = at least one audit event was observed',
        'explanation': 'healthy audit leaves demand and slots alone (under C03 invariant, no enqueue in flight = finding F9), stale figure repaired; audit ticks urgent',
        'assumptions': _hist_assumptions,
    },
    'C18': {
        'families': ['leasemgr'], 'fields': {'leasemgr': None},
        'nontrivial': r'code=(?!none)',
        'rule': 'leasemgr family (fault enumeration, exhaustive): every service code in the SDK source (module cache, v0.13.0) plus an unknown code, a non-storage error, '
                'a cancellation and success, injected at container create, lease acquire and every position of 1..4-blob provisioning runs, in both generations, through '
                'in-package fakes of the container/blob interfaces; plus one loopback run per generation of the REAL azblob client against a local HTTP server '
                '(blob names, If-None-Match, lease id, duration, action); non-trivial = an error was injected; distinct = distinct (generation, site, code, n, position)',
        'explanation': 'complete case analysis over every error value + list induction over provisioning runs of any length; exhaustive fault enumeration ties it to both lease managers',
        'assumptions': ['the azblob SDK, its HTTP pipeline and Azure Blob semantics are modelled (fakes / loopback server), not verified',
                        'the SDK code list is read from the module cache by both the extractor and the harness'],
    },

    'C04': {
        'families': ['lease'], 'fields': {'lease': None},
        'nontrivial': r'inst=[^ ;]*;[^ ]* .*ev:\d+:allocated',
        'rule': _lease_rule + 'non-trivial = at least two instances and at least one grant counted',
        'explanation': 'mutual-exclusion invariant Excl of the M-Lease machine (any number of instances, all latencies, faults, crashes, reconfiguration), lifted to all runs; settled-state corollaries; sum bound',
        'assumptions': _lease_assumptions,
    },
    'C06': {
        'families': ['lease'], 'fields': {'lease': None},
        'nontrivial': r'ev:\d+:allocated',
        'rule': _lease_rule + 'non-trivial = at least one grant counted',
        'explanation': 'well-formedness invariant LWF (counted partitions distinct and inside the provisioned range, parts <= 500, parts = partitionCount) + arithmetic of ceil and MaxCapacity',
        'assumptions': _lease_assumptions + ['v1 ProvisionedResource (one constant for Capacity and MaxCapacity) is covered by an extracted shape fact, not by the lease family'],
    },
    'C07': {
        'families': ['lease'], 'fields': {'lease': None},
        'nontrivial': r':issue:\d+:\d+',
        'rule': _lease_rule + 'non-trivial = at least one lease request was issued',
        'explanation': 'guard of the issue label, target frame lemma, timers never postponed, Quiet invariant over run segments => decay within one lease duration',
        'assumptions': _lease_assumptions,
    },
    'C09': {
        'families': ['lease'], 'fields': {'lease': None},
        'nontrivial': r'(:proc:\d+:\d+:(refuse|error))|(act:K:)|(act:X:)',
        'rule': _lease_rule + 'non-trivial = a refusal/error was injected or an instance was stopped/crashed',
        'explanation': 'PARTIAL: safety parts and k-partitions-in-k-iterations proved for the model; the bound on the loop sleep (MaxInterval) and the random partition choice are observed by the monitor, not proved',
        'assumptions': _lease_assumptions + ['the model does not bound the loop sleep; the time bound is the theorem instantiated with iterations of at most MaxInterval + latency'],
    },
    'C17': {
        'families': ['lease'], 'fields': {'lease': None},
        'nontrivial': r'(act:c:)|(act:r:)|(act:X:)|(act:S:\d+:[A-Za-z]*[Ee]rr)',
        'rule': _lease_rule + 'non-trivial = a live reconfiguration, a stop, or a failed start happened',
        'explanation': 'phase automaton (monotone), one shutdown, no request after stop, SetReservedCapacity immediate, re-provision keeps existing/drops truncated partitions, index safety invariant',
        'assumptions': _lease_assumptions + ['absence of panics in the real code is observed on every scenario (harness recover + child process exit), not proved'],
    },
    'C20': {
        'families': ['events', 'stress', 'buffer', 'hist', 'lease'], 'fields': {'events': None, 'stress': None, 'buffer': ['obs', 'panic'], 'hist': None, 'lease': None},
        'nontrivial': r'(script=[^ ]*E\d+g)|(^stress )|(^buffer .*E\d+,.*R)|(^hist .*tr=.*ev:batch)',
        'rule': 'events family: seeded random scenarios on the REAL listener registry of both generations: 1-5 initial listeners, scripts of concurrent emit / RemoveListener / AddListener '
                'goroutines, listeners that block inside an emit until a gate opens (so removals and additions overlap emits in progress), real time; every call, return and listener entry is logged in one global order, '
                'replayed through the M-Eventer machine under every placement of the lock steps between call and return (trace acceptance), and through the C20 monitors; '
                'stress family: every public method of Batcher / SharedResource / event API of both generations hammered from 12 goroutines in a binary built with the Go race detector (races, panics, watchdog); '
                'buffer family (see C15): a public Enqueue that stays blocked although a place is free, or for ever at shutdown, is a deadlock of a public method; '
                'hist family (see C03): deterministic virtual-time histories of concurrent Enqueue / Pause / Flush / Start / Stop / cancel calls, also made from listeners and callbacks: a panic of the process, '
                'a goroutine blocked for ever or a call that never returns is a C20 violation with the scenario as the failing input; '
                'lease family (see C04): a crash or a stall of a SharedResource scenario (public methods called while leases are requested, granted, expire and the resource is reconfigured) is a C20 violation too; '
                'non-trivial = an emit with a blocked listener, a stress round, or a history that raised a batch',
        'explanation': 'PARTIAL: listener-registry theorems (exactly once, nothing after RemoveListener returned, no write during an emit, progress) proved over M-Eventer; lock discipline of every shared field proved over the regenerated access table (ExpectLocks); panic / deadlock freedom of the whole API is explored with the race detector and watchdogs, not proved',
        'assumptions': ['Go memory model, sync.RWMutex and the race detector are trusted', 'lockset discipline => no data race is the classical argument (trusted); the extractor reads Lock()/defer Unlock() lexically; a function literal is assumed to run on another goroutine with no locks held', 'synchronous re-entry from inside a listener is excluded by the property and not modelled',
                        'the stress family is exploration (sampling of schedules), it supports but does not prove the first sentence of C20'],
    },
    'C14': {
        'families': ['admit', 'hist'],
        'fields': {'admit': ['err', 'dneeds', 'dbuf'], 'hist': None},
        'nontrivial': r'(hasop=1 hasw=1)|(tr=.*cbstart)',
        'rule': 'admit family: exhaustive grid gen{1,2} x op present x watcher present x limiter x MaxCapacity{0,1,5,2^32-1} x cost{0,3,max-1,max,max+1} '
                'x MaxAttempts{0,1,3} x attempts 0..4 on a non-started Batcher holding one accepted operation; non-trivial = operation and watcher present',
        'explanation': 'characterisation theorems over M-Validate; implementation tie = exhaustive grid',
        'assumptions': [],
    },
}

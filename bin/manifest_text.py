"""Words for MANIFEST.json, per property."""
NOT_APPLICABLE = {}
_note = ("Trusted: Lean kernel + axioms propext/Quot.sound/Classical.choice; the hand-written model and its atomicity/time "
         "assumptions; the correspondence harness (agreement is tested, not proved); Go runtime, float arithmetic and Azure SDK are modelled, not verified.")
TEXT = {
 'C01': {'text': 'Lean theorems: a flush cycle conserves every operation occurrence (exactly one of: one batch handed to the own watcher / still buffered), for all buffers, limits, allowances, slots and sweep orders; tied to the code by exact comparison of real cycles. PARTIAL: the invariant over whole histories (concurrent enqueuers, shutdown) is not yet part of this check.',
         'ref': 'DESIGN.md 6 C01', 'note': _note, 'technique': 'Lean 4 proof (conservation by induction) + differential correspondence check'},
 'C02': {'text': 'Lean theorems: an operation is released only while consumed < allowance (v2) / <= (v1); a cycle releases < allowance + last cost; v2 releases nothing at allowance 0; relative to the allowance the cycle read (float conversion executed by the driver, tested). PARTIAL: one-cycle-per-tick / Flush() coalescing not yet part of this check.',
         'ref': 'DESIGN.md 6 C02', 'note': _note, 'technique': 'Lean 4 proof + differential correspondence check'},
 'C08': {'text': 'Lean theorems: cycles are work-conserving; a productive cycle releases the head; an operation with k operations ahead leaves the buffer within k+1 productive cycles whatever is enqueued behind it; productive <-> (v2 limited -> allowance >= 1) and a free slot. The unchanged v2 code starves at positive capacities whose per-interval share truncates to 0 (proved counterexample, known finding). PARTIAL: Flush() coalescing at machine level pending.',
         'ref': 'DESIGN.md 6 C08', 'note': _note, 'technique': 'Lean 4 proof (induction over cycles) + differential correspondence check'},
 'C10': {'text': 'Lean theorems: within a cycle a slot is reserved only while one is free, each reserved slot is exactly one started batch, at most n batches are started with n free slots, operations without a slot stay buffered. PARTIAL: the machine-level invariant (slots given back on return/time-out, Inflight() = batches in progress) pending.',
         'ref': 'DESIGN.md 6 C10', 'note': _note, 'technique': 'Lean 4 proof + differential correspondence check'},
 'C05': {'text': 'Lean theorems over the cycle model (stepOp/scan/finishOrder) for ALL buffers, batch limits, allowances, slot limits and leftover orders: '
                 'own-watcher, non-batchable alone, size <= MaxBatchSize, second batch only after a full one, order kept inside batches, FIFO per class without slot limit. '
                 'The model is tied to the code by running the real flush cycle (both generations, virtual time) on exhaustive small and random buffers and comparing batch events exactly.',
         'ref': 'DESIGN.md 6 C05', 'note': _note, 'technique': 'Lean 4 proof (induction over the buffer) + differential correspondence check of the cycle model'},
 'C15': {'text': 'Lean theorems over the buffer model (list + cursor) and the blocked-caller machine: size <= capacity in every reachable state, enqueue adds only with room and error mode leaves the buffer untouched, remove unlinks exactly the cursor record (head/middle/tail), cursor always valid, no lost wake-up, shutdown releases every waiter with the shutdown error (and a proof that without the wake-up a waiter is stuck forever). Tied to the real v2 buffer by exhaustive short and random long action sequences under a virtual clock. PARTIAL: the linked-list representation (L0) is covered by the differential check only; v1 (channel) through Batcher histories.',
         'ref': 'DESIGN.md 6 C15', 'note': _note, 'technique': 'Lean 4 proof (invariants of a labelled machine) + exhaustive/random differential check of the buffer'},
 'C14': {'text': 'Lean characterisation theorems (iff, in source order) of the four admission errors and of acceptance, over all inputs; tied to the code by an exhaustive grid of real Enqueue calls in both generations, which also observes that rejections change neither buffer nor demand.',
         'ref': 'DESIGN.md 6 C14', 'note': _note, 'technique': 'Lean 4 proof (case analysis) + exhaustive differential grid'},
}
